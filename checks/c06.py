"""C06 - WSGI, ASGI and the test client are observationally equivalent.

spec:   spec/ServerIface.tla      abstract HTTP request; ToEnviron / ToScope / ToClientArgs; Expressible; View
        spec/MC_ServerIface.tla   bounded instances (request composed step by step; export of cases)
        spec/ServerIfaceTrace.tla trace judge
legs:   M  exhaustive TLC check that both server encodings carry exactly the view of the abstract request
           (EncodingsCarrySameInformation), that client arguments stand for the same request, wrong-design switch
        A  TLC-generated requests + application (options, responder kind) driven through four drivers
           (raw WSGI, raw ASGI, falcon.testing -> WSGI app, falcon.testing -> ASGI app); what the responder
           saw and what the server got must be equal across the drivers and equal to the spec's View
        H  TLC-generated request histories (spec/ServerIfaceHistory.tla: requests with/without content of their
           own, the application writing marks into the containers the API hands out) replayed on ONE application
           object per driver; what each request finds must be what the spec says (ViewIndependentOfHistory)
        D  response body sources whose delivery is incremental (spec/ServerIfaceDelivery.tla + ServerIface!StreamedResponse):
           TLC enumerates every delivery pattern (sequence of block sizes) of small data for a file-like and an iterable
           source (BodyIsWholeSource, ResponseEqualAcrossStacks, three wrong-design switches); every pattern is replayed
           through six drivers (raw WSGI without/with wsgi.file_wrapper, raw ASGI, falcon.testing likewise); random
           longer deliveries are recorded (what the source was asked / gave, the response) and judged by TLC
           (spec/ServerIfaceDeliveryTrace.tla)
        B  seeded random richer requests, in histories of 3 on one application object per driver with a writing
           application, driven through the same four drivers, one event per driver, judged by TLC
           (ServerIfaceTrace) against ServerIface!View / Expressible / no foreign marks
"""
import hashlib
import io
import json
import warnings

META = {
    'property_id': 'C06',
    'design_ref': 'DESIGN.md section 4, C06',
    'technique': 'TLA+ specification of one abstract HTTP request and its PEP 3333 / ASGI / test-client encodings, '
                 'model-checked with TLC; TLC-generated requests replayed through four drivers (legs A) and recorded '
                 'observations of random requests judged by TLC (leg B)',
    'level_text': 'The encodings are model-checked to carry the same information (TLC, exhaustive over the bounded '
                  'request space). The same generated application logic is mounted on falcon.App and falcon.asgi.App and '
                  'driven by an independent raw WSGI driver, an independent raw ASGI driver and falcon.testing against '
                  'both apps; the digest of every documented common request attribute (each read twice) and the '
                  'normalised response must coincide on all drivers that can express the request, and method, decoded '
                  'path, query string, header map, content type/length, host/port/netloc/scheme, root path, peer and '
                  'body must equal the values TLC computes from the abstract request.',
    'level_note': 'Incremental body sources (leg D): resp.stream as a file-like (sync on WSGI, consumed by the framework iterator '
                  'and by wsgi.file_wrapper; async on ASGI) and as an iterable / async iterable (generator and iterator object); '
                  'ALL delivery patterns of data of 0, 1, 5, 6 (thorough: 8) bytes with model block size 4 - file-like: every '
                  'composition into blocks of 1..4 bytes (1 byte, then 3, then the rest; full blocks then a short one; a full last '
                  'block; end only by b\'\'), iterable: every sequence of <= 4 chunk sizes, empty chunks included - x status x '
                  'announced Content-Length or none; 530 (quick) / 2372 (thorough) deliveries, each replayed through six drivers '
                  '(raw WSGI without/with wsgi.file_wrapper, raw ASGI, falcon.testing WSGI without/with file_wrapper, falcon.testing '
                  'ASGI) at scale 1 (every block short of the framework block size) and, for file-likes, at the scale where the '
                  'model block size is the framework block size of 8192 (full blocks are full reads); status, Content-Type, '
                  'Content-Length and body must equal ServerIface!StreamedResponse from TLC, the complete header sets must '
                  'coincide. 250 / 1500 random deliveries (<= 200 bytes, pattern families pipe / full+short / ones / random / '
                  'whole, block size asked for 4, 16, 64 via a subclass overriding _STREAM_BLOCK_SIZE, or the default) are '
                  'recorded and judged by ServerIfaceDeliveryTrace. Not covered there: HEAD / bodiless statuses with a stream '
                  '(C05), sources that raise, close() accounting (C05), a read(n) returning more than n. '
                  'Histories: all 144 (quick) / 1728 (thorough) behaviours of ServerIfaceHistory with 2 / 3 requests x 6 writer '
                  'sets are replayed; leg B runs its random requests in histories of 3. Plain responders combine text, data, media '
                  '(unset / empty / non-empty) and stream with 5 statuses, an optional Content-Type and a script (direct / the '
                  'application renders early and copies a body digest into a header / then mutates the media in place). The '
                  'request digest reads every public property the two Request classes have in common (enumerated from the '
                  'classes); header pools carry obs-text (lone Latin-1 byte, UTF-8 pair) in the fields behind the typed '
                  'properties. 14 middleware stacks (2-3 components, dependent/independent, one completing the request early) '
                  'are compared on the response only. '
                  'Bounded: exhaustive model check over 11 targets x 8 bodies x 8 endpoints x <= 1 pool header field, and 3 '
                  'targets x 4 bodies x 8 endpoints x <= 2 pool fields (16-field pool). Legs A/B sample (TLC -simulate / '
                  'seeded rng) requests with <= 3 resp. <= 9 extra header fields, targets <= ~50 bytes, bodies <= 48 bytes in '
                  '<= 5 events. Query parameters, cookies, forwarding, conditional/range headers, URL parts, route '
                  'parameters and media are compared relationally (equality of the four observations), not against a spec '
                  'value. Requests repeating a single-valued header field are not expressible through PEP 3333 '
                  '(server-defined) and are compared on the other three drivers only. Outside the modelled request space: '
                  'raw non-ASCII bytes in the query string, a Content-Length that contradicts the body, short reads of '
                  'wsgi.input (C07), an unknown peer, the cookies= / json= / params= conveniences of the test client. '
                  'For a request with an invalid Content-Length what reading the body yields is not compared (a server '
                  'must reject such framing). Trusted: TLC, engine/drivers.py, CPython codecs, http.cookies. The WSGI test client is not driven for a '
                  '204/304 whose responder sets a Content-Type (wsgiref.validate refuses the response: ServerIface!Reportable).',
}

from engine import drivers
from engine.core import MachineryError, canon, digest

# ------------------------------------------------------------------------------------------------
# observation of a request inside the generated application logic
# ------------------------------------------------------------------------------------------------

ATTRS = ['method', 'path', 'query_string', 'params', 'cookies', 'content_type', 'content_length', 'host', 'port',
         'scheme', 'netloc', 'uri', 'url', 'relative_uri', 'prefix', 'root_path', 'forwarded_scheme', 'forwarded_host',
         'forwarded_uri', 'forwarded_prefix', 'access_route', 'remote_addr', 'accept', 'auth', 'user_agent', 'referer',
         'expect', 'if_range', 'range', 'range_unit', 'subdomain', 'client_accepts_json', 'client_accepts_xml',
         'client_accepts_msgpack', 'uri_template', 'is_websocket', 'date', 'if_modified_since', 'if_unmodified_since']
HEADER_PROBES = ['x-foo', 'Accept', 'HOST', 'content-type', 'Content-Length', 'cookie', 'X-Latin', 'x-absent',
                 'Authorization', 'Referer', 'If-Range', 'Expect', 'User-Agent']
PARAM_PROBES = ['a', 'b', 'c', 'q', 'x', 'absent']


def val(x):
    import datetime
    if isinstance(x, (str, int, bool, float)) or x is None:
        return x
    if isinstance(x, bytes):
        return {'bytes': list(x)}
    if isinstance(x, (list, tuple)):
        return [val(v) for v in x]
    if isinstance(x, dict):
        return {str(k): val(v) for k, v in sorted(x.items())}
    if isinstance(x, datetime.datetime):
        return x.isoformat()
    return repr(x)


def _exc(e):
    import falcon
    if isinstance(e, falcon.HTTPError):
        return {'http_error': str(e.status), 'title': e.title, 'desc': e.description}
    return {'exc': type(e).__name__, 'msg': str(e)}


def guarded(f):
    try:
        return val(f())
    except Exception as e:      # noqa: recorded as the observed value
        return _exc(e)


def twice(f):
    a = guarded(f)
    b = guarded(f)
    return a if a == b else {'unstable': [a, b]}


# read separately (different shapes / consume the body / not request data)
NOT_ENUMERATED = {'app', 'bounded_stream', 'stream', 'media', 'env', 'scope', 'headers', 'headers_lower', 'forwarded',
                  'if_match', 'if_none_match', 'context', 'options'}
_ALL_ATTRS = []


def all_attrs():
    """ATTRS plus every public property the two Request classes have in common (enumerated from the classes,
    so an accessor added later is read as well)."""
    if not _ALL_ATTRS:
        import falcon
        import falcon.asgi

        def props(c):
            return {n for n in dir(c) if not n.startswith('_') and isinstance(getattr(c, n, None), property)}
        common = (props(falcon.Request) & props(falcon.asgi.Request)) - NOT_ENUMERATED
        _ALL_ATTRS.extend(ATTRS + sorted(common - set(ATTRS)))
    return _ALL_ATTRS


def attr_digest(req):
    d = {}
    for a in all_attrs():
        d[a] = twice(lambda: getattr(req, a))
    d['headers'] = twice(lambda: {k.lower(): v for k, v in req.headers.items()})     # documented: casing differs
    d['headers_lower'] = twice(lambda: dict(req.headers_lower))
    d['forwarded'] = twice(lambda: None if req.forwarded is None else
                           [[f.src, f.dest, f.host, f.scheme] for f in req.forwarded])
    d['if_match'] = twice(lambda: None if req.if_match is None else
                          [[str(e), getattr(e, 'is_weak', None)] for e in req.if_match])
    d['if_none_match'] = twice(lambda: None if req.if_none_match is None else
                               [[str(e), getattr(e, 'is_weak', None)] for e in req.if_none_match])
    for h in HEADER_PROBES:
        d['get_header:' + h] = twice(lambda: req.get_header(h))
    d['get_header:dflt'] = twice(lambda: req.get_header('X-Absent', default='dflt'))
    d['get_header:required'] = twice(lambda: req.get_header('X-Absent', required=True))
    for p in PARAM_PROBES:
        d['get_param:' + p] = twice(lambda: req.get_param(p))
        d['get_param_as_list:' + p] = twice(lambda: req.get_param_as_list(p))
        d['has_param:' + p] = twice(lambda: req.has_param(p))
    d['get_param_as_int:a'] = twice(lambda: req.get_param_as_int('a'))
    d['get_param_as_bool:b'] = twice(lambda: req.get_param_as_bool('b'))
    d['get_cookie_values:a'] = twice(lambda: req.get_cookie_values('a'))
    d['client_prefers'] = twice(lambda: req.client_prefers(['application/json', 'text/html']))
    d['client_accepts:text/html'] = twice(lambda: req.client_accepts('text/html'))
    d['get_header_as_int:content-length'] = twice(lambda: req.get_header_as_int('Content-Length'))
    d['get_header_as_datetime:date'] = twice(lambda: req.get_header_as_datetime('Date'))
    return d


CONTAINERS = ('params', 'context', 'cookies', 'headers', 'extras', 'resp_context')


def _containers(req, resp):
    extras = getattr(req, 'env', None)
    if extras is None:
        extras = getattr(req, 'scope', {})
    return {'params': req.params, 'context': req.context, 'cookies': req.cookies, 'headers': req.headers,
            'extras': extras, 'resp_context': resp.context}


def visible_marks(req, resp):
    out = {}
    for name, c in _containers(req, resp).items():
        try:
            out[name] = sorted(str(k).lower() for k in list(c) if 'vmark' in str(k).lower())
        except Exception as e:      # noqa
            out[name] = ['?%s' % type(e).__name__]
    return out


def write_marks(req, resp, names, mark):
    """the application stores something of its own in the mutable containers the API hands out"""
    if not names:
        return
    cs = _containers(req, resp)
    for name in names:
        try:
            cs[name][mark] = 'v'
        except Exception:           # noqa: a container that refuses writes cannot leak them
            pass


class Logic:
    """The generated application logic; one object, mounted on both stacks."""

    def __init__(self):
        self.kind = 'echo'
        self.plain = None       # [status, text, data, media, stream, ctype] of a "plain" responder
        self.writes = ()        # containers this request's responder writes a mark into (histories)
        self.mark = 'vmark'
        self.seen = []

    def respond(self, req, resp, body, media, where, params, make_stream):
        import falcon
        d = attr_digest(req)
        d['where'] = where
        d['route_params'] = val(params)
        d['body'] = val(body)
        d['media'] = media
        # marks of OTHER requests visible in the containers handed out with this request (histories)
        d['foreign'] = visible_marks(req, resp)
        self.seen.append(d)
        write_marks(req, resp, self.writes, self.mark)
        k = self.kind
        if k == 'plain':
            p = self.plain
            resp.status = p['status']
            # any combination of body sources, the explicitly empty ones included
            if p['text'] != 'unset':
                resp.text = '' if p['text'] == 'empty' else 'héllo ' + req.method
            if p['data'] != 'unset':
                resp.data = b'' if p['data'] == 'empty' else b'\x00\xffabc'
            if p['media'] != 'unset':
                resp.media = {} if p['media'] == 'empty' else {'a': [1, 'é'], 'm': req.method}
            if p['stream']:
                resp.stream = make_stream([b'ab', b'', b'cde'])
            if p['ctype']:
                # resp.media is rendered by the handler of the response content type: keep it a JSON type
                resp.content_type = 'application/json; v=1' if p['media'] != 'unset' else 'text/x-custom; v=1'
            if p.get('script', 'direct') != 'direct':
                return p['script']          # the resource renders early (sync / awaited) and calls after_render()
        elif k in ('echo', 'media'):
            resp.media = {'path': req.path, 'method': req.method, 'q': req.query_string}
            resp.set_header('X-Seen', 'yes')
        elif k == 'text':
            resp.status = falcon.HTTP_201
            resp.text = 'café ' + req.path
            resp.content_type = 'text/plain; charset=utf-8'
        elif k == 'data':
            resp.data = b'\x00\x01\xff' + req.method.encode()
            resp.content_type = 'application/octet-stream'
            resp.set_cookie('c', 'v', secure=False, path='/p')
            resp.append_header('X-Multi', 'a')
            resp.append_header('X-Multi', 'b')
            resp.etag = 'abc'
        elif k == 'stream':
            resp.stream = make_stream([b'ab', b'', b'cde'])
            resp.content_type = 'text/plain'
        elif k == 'error':
            raise falcon.HTTPBadRequest(title='bad', description='why ' + req.path, headers={'X-Err': '1'})
        elif k == 'notfound':
            raise falcon.HTTPNotFound()
        elif k == 'redirect':
            raise falcon.HTTPFound('/elsewhere?x=1')
        elif k == 'status':
            raise falcon.HTTPStatus(falcon.HTTP_202, headers={'X-Status': 's'}, text='accepted')
        elif k == 'nocontent':
            resp.status = 204
        elif k == 'uncaught':
            raise ValueError('boom')
        elif k == 'invalidhdr':
            raise falcon.HTTPInvalidHeader('no', 'X-Thing')
        else:
            raise AssertionError(k)


def after_render(resp, data, script):
    """the application rendered the body itself: it copies a digest of the bytes into a header (an ETag computed from
    the body) and, for "early-mutate", then changes the media object in place"""
    resp.set_header('X-Body-Digest', 'none' if data is None else '%d-%s' % (len(data), hashlib.sha1(bytes(data)).hexdigest()[:12]))
    if script == 'early-mutate':
        m = resp.media
        if isinstance(m, dict):
            m['late'] = [1, 2, 3]


class WsgiRes:
    def __init__(self, logic, where):
        self.logic, self.where = logic, where

    def _go(self, req, resp, **params):
        media = body = None
        if self.logic.kind == 'media':
            media = twice(req.get_media)
        else:
            def readall():
                out = []
                while True:
                    c = req.bounded_stream.read(7)
                    if not c:
                        return b''.join(out)
                    out.append(c)
            body = guarded(readall)
        script = self.logic.respond(req, resp, body, media, self.where, params, lambda chunks: iter(chunks))
        if script:
            after_render(resp, resp.render_body(), script)

    on_get = on_post = on_put = on_delete = on_patch = on_head = on_options = _go

    def __call__(self, req, resp, **params):
        self._go(req, resp, **params)


class AsgiRes:
    def __init__(self, logic, where):
        self.logic, self.where = logic, where

    async def _go(self, req, resp, **params):
        media = body = None
        if self.logic.kind == 'media':
            out = []
            for _ in (0, 1):
                try:
                    out.append(val(await req.get_media()))
                except Exception as e:      # noqa
                    out.append(_exc(e))
            media = out[0] if out[0] == out[1] else {'unstable': out}
        else:
            try:
                parts = []
                while True:
                    c = await req.stream.read(7)
                    if not c:
                        break
                    parts.append(c)
                body = val(b''.join(parts))
            except Exception as e:      # noqa
                body = _exc(e)

        def make_stream(chunks):
            async def gen():
                for c in chunks:
                    yield c
            return gen()
        script = self.logic.respond(req, resp, body, media, self.where, params, make_stream)
        if script:
            after_render(resp, await resp.render_body(), script)

    on_get = on_post = on_put = on_delete = on_patch = on_head = on_options = _go

    async def __call__(self, req, resp, **params):
        await self._go(req, resp, **params)


_APPS = {}


def _mount(logic, asgi, key):
    import falcon
    import falcon.asgi
    app = falcon.asgi.App() if asgi else falcon.App()
    R = AsgiRes if asgi else WsgiRes
    app.req_options.strip_url_path_trailing_slash = key[0]
    app.req_options.keep_blank_qs_values = key[1]
    app.req_options.auto_parse_qs_csv = key[2]
    app.add_route('/r/{p}', R(logic, 'route'))
    app.add_route('/', R(logic, 'root'))
    app.add_sink(R(logic, 'sink'), '/')
    return app


def _key(opts):
    return (bool(opts['strip']), bool(opts['keep_blank']), bool(opts['csv']))


def apps_for(opts):
    """{iface: (logic, app)} for one request-option setting, built once: one logic object mounted on one
    WSGI and one ASGI app (single-request cases)."""
    key = _key(opts)
    if key not in _APPS:
        logic = Logic()
        w, a = _mount(logic, False, key), _mount(logic, True, key)
        _APPS[key] = {'raw-wsgi': (logic, w), 'client-wsgi': (logic, w), 'raw-asgi': (logic, a), 'client-asgi': (logic, a)}
    return _APPS[key]


def fresh_apps(opts):
    """{iface: (logic, app)}: ONE new application object per driver, to serve one history of requests."""
    key = _key(opts)
    out = {}
    for iface in IFACES_ALL:
        logic = Logic()
        out[iface] = (logic, _mount(logic, iface.endswith('asgi'), key))
    return out


IFACES_ALL = ('raw-wsgi', 'raw-asgi', 'client-wsgi', 'client-asgi')


# ------------------------------------------------------------------------------------------------
# the four drivers
# ------------------------------------------------------------------------------------------------

IFACES = ('raw-wsgi', 'raw-asgi', 'client-wsgi', 'client-asgi')


class WireReq(drivers.Req):
    """drivers.Req whose header list is exactly what is on the wire (nothing supplied by the driver)."""

    def wire_headers(self):
        return list(self.headers)


def L1(xs):
    return bytes(xs).decode('latin-1')


def to_wire(rq):
    chunks = list(rq['chunks']) or None
    return WireReq(rq['method'], bytes(rq['target']), bytes(rq['query']),
                   [(L1(h['n']), L1(h['v'])) for h in rq['headers']], bytes(rq['body']), chunks,
                   rq['scheme'], L1(rq['server']['name']), rq['server']['port'], (L1(rq['peer']), 51234),
                   L1(rq['root']), rq['version'])


def client_args(c):
    """keyword arguments for falcon.testing.simulate_request from ServerIface!ToClientArgs."""
    return dict(method=c['method'], path=bytes(c['path']).decode('utf-8'), query_string=L1(c['query_string']),
                headers=[(L1(h['n']), L1(h['v'])) for h in c['headers']],
                body=bytes(c['body']) if c['has_body'] else None, protocol=c['protocol'], host=L1(c['host']),
                port=c['port'], http_version=c['http_version'], root_path=L1(c['root_path']),
                remote_addr=L1(c['remote_addr']), asgi_chunk_size=c['asgi_chunk_size'])


def parse_set_cookie(values):
    """trusted decoder: http.cookies"""
    import http.cookies
    out = {}
    for v in values:
        jar = http.cookies.SimpleCookie()
        jar.load(v)
        for m in jar.values():
            out[m.key] = [m.value, m['path'], m['domain'], bool(m['secure']), bool(m['httponly']),
                          int(m['max-age']) if m['max-age'] else '']
    return out


def project_raw(res):
    """raw driver result -> (raw triple, client-shaped projection)"""
    hs = sorted([k, v] for k, v in res.headers)
    raw = {'status': res.status, 'headers': hs, 'body': list(res.body)}
    names = [k for k, _ in hs]
    single = {k: v for k, v in hs if names.count(k) == 1 and k != 'set-cookie'}
    proj = {'status': res.status, 'headers': single, 'cookies': parse_set_cookie(res.header_all('set-cookie')),
            'body': list(res.body)}
    return raw, proj


def project_client(result, repeated):
    """falcon.testing.Result -> client-shaped projection (its documented surface: status code, header dict for
    fields that occur once, cookies, content)."""
    hs = {k.lower(): v for k, v in result.headers.items() if k.lower() != 'set-cookie' and k.lower() not in repeated}
    ck = {n: [c.value, c.path or '', c.domain or '', bool(c.secure), bool(c.http_only), c.max_age if c.max_age is not None else '']
          for n, c in result.cookies.items()}
    return {'status': result.status_code, 'headers': hs, 'cookies': ck, 'body': list(result.content)}


def observe(iface, logic, app, rq, cargs):
    """Drive one request through one interface; returns dict(digest, raw, proj, exc, errors)."""
    import falcon.testing
    logic.seen = []
    o = {'iface': iface, 'digest': None, 'raw': None, 'proj': None, 'exc': None, 'errors': []}
    try:
        if iface == 'raw-wsgi':
            # wsgi.input is a blocking file: arrival chunking is invisible (ServerIface!ToEnviron)
            res = drivers.wsgi_call(app, rq, input_obj=drivers.WsgiInput(rq.body, None))
        elif iface == 'raw-asgi':
            res = drivers.asgi_call(app, rq)
        else:
            res = None
            with warnings.catch_warnings():
                warnings.simplefilter('ignore')
                result = falcon.testing.simulate_request(app, wsgierrors=io.StringIO(), **cargs)
        if res is not None:
            if res.exc is not None:
                o['exc'] = 'escaped to the server: %r' % (res.exc,)
            else:
                o['raw'], o['proj'] = project_raw(res)
                o['errors'] = list(res.errors)
        else:
            o['result'] = result
    except Exception as e:     # noqa: anything escaping the app / the client is an observation
        o['exc'] = '%s: %s' % (type(e).__name__, e)
    if len(logic.seen) == 1:
        o['digest'] = logic.seen[0]
    elif len(logic.seen) > 1:
        o['exc'] = (o['exc'] or '') + ' responder ran %d times' % len(logic.seen)
    return o


def observe_all(rq_json, cargs_json, opts, kind, expressible, plain=None, apps=None, writes=(), mark='vmark'):
    apps = apps or apps_for(opts)
    rq = to_wire(rq_json)
    obs = {}
    for iface in IFACES:
        if not expressible[iface]:
            continue
        logic, app = apps[iface]
        logic.kind, logic.plain, logic.writes, logic.mark = kind, plain, tuple(writes), mark
        cargs = client_args(cargs_json) if iface.startswith('client') else None
        obs[iface] = observe(iface, logic, app, rq, cargs)
    # the client result drops repeated response fields ("unspecified which wins"): project with the raw knowledge
    repeated = set()
    for o in obs.values():
        if o['raw'] is not None:
            names = [k for k, _ in o['raw']['headers']]
            repeated |= {k for k in names if names.count(k) > 1}
    for o in obs.values():
        if 'result' in o:
            o['proj'] = project_client(o.pop('result'), repeated)
    return obs


# ------------------------------------------------------------------------------------------------
# comparing an observation with the spec's View (values computed by TLC)
# ------------------------------------------------------------------------------------------------

def cps(s):
    return [ord(c) for c in s] if isinstance(s, str) else [-9]


def observed_fields(dg):
    """projection of a digest onto the fields of ServerIface!View (same shapes as TLC exports)."""
    hm = dg['headers'] if isinstance(dg['headers'], dict) and 'exc' not in dg['headers'] else {}
    hl = dg['headers_lower']
    cl = dg['content_length']
    body = dg['body'] if dg['media'] is None else None
    return {
        'method': dg['method'],
        'path': cps(dg['path']),
        'query': cps(dg['query_string']),
        'hmap': sorted([cps(k), cps(v)] for k, v in hm.items()) if hm == hl else [[[-9], [-9]]],
        'has_ctype': dg['content_type'] is not None,
        'ctype': cps(dg['content_type'] or ''),
        'clen': -1 if cl is None else cl if isinstance(cl, int) else -2 if isinstance(cl, dict) and 'http_error' in cl else -3,
        'host': cps(dg['host']), 'port': dg['port'] if isinstance(dg['port'], int) else -2,
        'netloc': cps(dg['netloc']), 'scheme': dg['scheme'] if isinstance(dg['scheme'], str) else '?',
        'root': cps(dg['root_path']), 'peer': cps(dg['remote_addr']),
        'body': body['bytes'] if isinstance(body, dict) and 'bytes' in body else None,
    }


def field_mismatches(of, exp):
    bad = []
    for k in ('method', 'path', 'query', 'has_ctype', 'ctype', 'clen', 'host', 'port', 'netloc', 'scheme', 'root', 'peer'):
        if of[k] != exp[k]:
            bad.append(k)
    if sorted(of['hmap']) != sorted([list(p[0]), list(p[1])] for p in exp['hmap']):
        bad.append('hmap')
    if of['body'] is not None and exp['clen'] != -2 and of['body'] != exp['body']:
        bad.append('body')
    return bad


FIELD_ATTRS = {'hmap': 'headers', 'query': 'query_string', 'ctype': 'content_type', 'has_ctype': 'content_type',
               'clen': 'content_length', 'root': 'root_path', 'peer': 'remote_addr'}


def _resp_brief(o):
    return {'status': o['proj']['status'], 'headers': o['raw']['headers'] if o['raw'] else o['proj']['headers'],
            'body_len': len(o['proj']['body'])}


def check_case(ctx, case, origin):
    """One TLC-generated case: drive, compare.  Returns the observations."""
    expr = {'raw-wsgi': case['expressible']['raw_wsgi'], 'raw-asgi': case['expressible']['raw_asgi'],
            'client-wsgi': case['expressible']['client_wsgi'], 'client-asgi': case['expressible']['client_asgi']}
    obs = observe_all(case['req'], case['client'], case['opts'], case['kind'], expr, case.get('resp'))
    brief = {'origin': origin, 'req': case['req'], 'opts': case['opts'], 'kind': case['kind'], 'resp': case.get('resp'),
             'client': case['client'], 'expressible': case['expressible'], 'canonical': case['canonical'],
             'expected': case['expected'], 'status': case['status']}
    rq = case['req']
    nontrivial = (len({L1(h['n']).lower() for h in rq['headers']}) < len(rq['headers'])
                  or any(L1(h['n']) not in (L1(h['n']).lower(), L1(h['n']).title()) for h in rq['headers'])
                  or any(b > 127 or b == 37 for b in rq['target']) or len(rq['chunks']) > 0)
    ctx.case(brief, nontrivial=nontrivial, key=digest([rq, case['opts'], case['kind'], case.get('resp')]))
    base = None
    for iface in IFACES:
        if iface not in obs:
            continue
        o = obs[iface]
        if o['exc'] is not None:
            ctx.violation('P:exception', brief, '%s: %s' % (iface, o['exc']))
            continue
        if o['errors']:     # protocol legality is C05's subject; noted here, not alarmed
            ctx.detail('D:protocol', brief, '%s: server-side protocol monitor: %s' % (iface, o['errors'][:3]))
        dg = o['digest']
        if dg is None:
            ctx.violation('P:reached', brief, '%s: the responder was not reached (status %s)' % (iface, o['proj'] and o['proj']['status']))
            continue
        # (1) equality with the spec's view
        bad_attrs = set()
        if case['canonical']:
            bad = field_mismatches(observed_fields(dg), case['expected'])
            bad_attrs = {FIELD_ATTRS.get(b, b) for b in bad}
        if o['proj']['status'] != case['status']:
            bad_attrs.add('status')
        # (2) equality with the other drivers
        if base is None:
            base = (iface, o)
        else:
            bdg = base[1]['digest']
            bad_attrs |= {k for k in set(dg) | set(bdg) if dg.get(k) != bdg.get(k)}
            if case['expected']['clen'] == -2:
                # invalid framing (RFC 9112 6.3: a server must reject it): what reading the body yields is undefined
                bad_attrs -= {'body', 'media'}
            if o['proj'] != base[1]['proj']:
                bad_attrs.add('response')
            if o['raw'] is not None and base[1]['raw'] is not None and o['raw'] != base[1]['raw']:
                bad_attrs.add('raw-response')
        if bad_attrs:
            what = '%s differs (from %s / the specification) in %s' % (iface, base[0], sorted(bad_attrs))
            detail = {k: [base[1]['digest'].get(k) if base[1]['digest'] else None, dg.get(k)] for k in sorted(bad_attrs) if k in dg}
            clause = 'P:equal-response' if bad_attrs <= {'response', 'raw-response'} else \
                'P:status' if bad_attrs == {'status'} else 'P:equal-request'
            if 'response' in bad_attrs or 'raw-response' in bad_attrs:
                detail['response'] = [_resp_brief(base[1]), _resp_brief(o)]
            ctx.violation(clause, brief, what + ' ' + canon(detail)[:700])
    return obs


# ------------------------------------------------------------------------------------------------
# cross-check of the raw drivers against the spec's encodings (machinery, not falcon)
# ------------------------------------------------------------------------------------------------

def crosscheck_drivers(case):
    rq = to_wire(case['req'])
    sc = drivers.scope(rq)
    s = case['scope']
    got = {'method': sc['method'], 'scheme': sc['scheme'], 'http_version': sc['http_version'], 'path': cps(sc['path']),
           'raw_path': list(sc['raw_path']), 'query_string': list(sc['query_string']), 'root_path': cps(sc['root_path']),
           'headers': [[list(k), list(v)] for k, v in sc['headers']], 'client': cps(sc['client'][0]),
           'server': [cps(sc['server'][0]), sc['server'][1]],
           'events': [[list(e['body']), e['more_body']] for e in drivers.body_events(rq)]}
    want = {'method': s['method'], 'scheme': s['scheme'], 'http_version': s['http_version'], 'path': s['path'],
            'raw_path': s['raw_path'], 'query_string': s['query_string'], 'root_path': s['root_path'],
            'headers': [[h['n'], h['v']] for h in s['headers']], 'client': s['client'],
            'server': [s['server']['name'], s['server']['port']],
            'events': [[e['body'], e['more']] for e in s['events']]}
    if got != want:
        raise MachineryError('engine.drivers.scope disagrees with ServerIface!ToScope:\n%s\n%s' % (canon(got), canon(want)))
    if case['expressible']['raw_wsgi']:
        env = drivers.environ(rq)
        e = case['environ']
        got = {'REQUEST_METHOD': env['REQUEST_METHOD'], 'SCRIPT_NAME': cps(env['SCRIPT_NAME']), 'PATH_INFO': cps(env['PATH_INFO']),
               'QUERY_STRING': cps(env['QUERY_STRING']), 'SERVER_NAME': cps(env['SERVER_NAME']),
               'SERVER_PORT': cps(env['SERVER_PORT']), 'SERVER_PROTOCOL': env['SERVER_PROTOCOL'],
               'REMOTE_ADDR': cps(env['REMOTE_ADDR']), 'url_scheme': env['wsgi.url_scheme'],
               'vars': sorted([cps(k), cps(v)] for k, v in env.items() if k.startswith('HTTP_') or k in ('CONTENT_TYPE', 'CONTENT_LENGTH')),
               'input': list(env['wsgi.input'].buf)}
        want = {'REQUEST_METHOD': e['REQUEST_METHOD'], 'SCRIPT_NAME': e['SCRIPT_NAME'], 'PATH_INFO': e['PATH_INFO'],
                'QUERY_STRING': e['QUERY_STRING'], 'SERVER_NAME': e['SERVER_NAME'], 'SERVER_PORT': e['SERVER_PORT'],
                'SERVER_PROTOCOL': 'HTTP/' + e['SERVER_PROTOCOL'], 'REMOTE_ADDR': e['REMOTE_ADDR'], 'url_scheme': e['url_scheme'],
                'vars': sorted([v['k'], v['v']] for v in e['vars']), 'input': e['input']}
        if got != want:
            raise MachineryError('engine.drivers.environ disagrees with ServerIface!ToEnviron:\n%s\n%s' % (canon(got), canon(want)))


# ------------------------------------------------------------------------------------------------
# leg B: random richer requests
# ------------------------------------------------------------------------------------------------

SEGS = [b'a', b'abc', b'r', b'x.y', b'%41', b'%2F', b'%2f', b'caf%C3%A9', b'caf\xc3\xa9', b'%E9', b'%e9x', b'\xe9',
        b'%F0%9F%98%80', b'\xf0\x9f\x98\x80', b'%F0%9F', b'\xe2\x82', b'%', b'%zz', b'%4', b'+', b'..', b'.', b'~', b';v=1',
        b'a=b', b'a:b', b'@', b'%25', b'%20', b'a%20b', b'%C3', b'%A9', b'\xc3\xa9\xc3\xa9', b'%ED%A0%80', b'%C0%AF', b'!$&\'()*,']
QPIECES = [b'a=1', b'a=2', b'b=', b'c', b'a=%C3%A9', b'x=1,2', b'', b'q=a+b', b'%zz', b'b=true', b'emoji=%F0%9F%98%80',
           b'e=%E9', b'a=,', b'x=%2C', b'b=false', b'absent', b'a=-7', b'q=%26%3D', b'=v', b'a[]=1']
LIST_FIELDS = [('Accept', ['application/json', 'text/html;q=0.5', '*/*;q=0.1', 'application/xml', 'text/*']),
               ('X-Foo', ['a', 'b', 'c d', '', 'caf\xe9', 'x,y', '"q"']),
               ('Accept-Encoding', ['gzip', 'br;q=0.9']),
               ('If-None-Match', ['W/"x"', '"y"', '*']), ('If-Match', ['"a"', 'W/"b", "c"']),
               ('X-Forwarded-For', ['10.0.0.1', '10.0.0.2, 10.0.0.3', 'unknown']),
               ('Forwarded', ['for=1.2.3.4;host=h.example;proto=https', 'for="[2001:db8::1]:80"', 'by=9.9.9.9;for=8.8.8.8']),
               ('Cache-Control', ['no-cache', 'max-age=0']), ('Via', ['1.1 a', '1.0 b'])]
SINGLE_FIELDS = [('Content-Type', ['application/json', 'text/plain; charset=utf-8', 'application/x-www-form-urlencoded', '']),
                 ('Cookie', ['a=1; b=2', 'a=1; a=2', 'a="q\\"x"; b', 'sid=abc=def', '']),
                 ('Referer', ['/from', 'http://x.example/a?b', '/fr\xe9', '/caf\xc3\xa9']), ('Expect', ['100-continue', '100-continu\xe9']),
                 ('Authorization', ['Basic Zm9vOmJhcg==', 'Bearer x.y.z', 'Bearer caf\xc3\xa9', 'Basic \xe9']),
                 ('Range', ['bytes=0-4', 'bytes=-5', 'bytes=5-', 'bytes=abc', 'items=0-4', 'bytes=0-1,3-4']),
                 ('If-Range', ['"x"', 'Wed, 21 Oct 2015 07:28:00 GMT', '"\xe9t\xc3\xa9"']),
                 ('Date', ['Wed, 21 Oct 2015 07:28:00 GMT', 'yesterday']),
                 ('If-Modified-Since', ['Wed, 21 Oct 2015 07:28:00 GMT', 'nonsense']),
                 ('If-Unmodified-Since', ['Thu, 01 Jan 1970 00:00:00 GMT']),
                 ('X-Forwarded-Proto', ['https', 'HTTPS', 'http']), ('X-Forwarded-Host', ['fwd.example', 'fwd.example:8443']),
                 ('X-Real-IP', ['172.16.0.9']), ('From', ['me@example.org']), ('Max-Forwards', ['3'])]
NAMES = ['falconframework.org', 'example.com', 'a.b.c.example', 'localhost', '192.168.0.7', 'UPPER.example']


def recase(rng, name):
    t = rng.randrange(4)
    if t == 0:
        return name
    if t == 1:
        return name.lower()
    if t == 2:
        return name.upper()
    return ''.join(c.upper() if rng.random() < 0.5 else c.lower() for c in name)


def random_request(rng):
    """One well-formed abstract request in the JSON shape of the spec (bytes as lists)."""
    B = lambda b: list(b if isinstance(b, bytes) else b.encode('latin-1'))
    segs = [rng.choice(SEGS) for _ in range(rng.randint(0, 4))]
    target = b'/' + b'/'.join(segs)
    if rng.random() < 0.4:
        target = b'/r' + (target if len(target) > 1 else b'/x')
    if rng.random() < 0.3:
        target += b'/'
    query = (b'&' if rng.random() < 0.9 else b';').join(rng.choice(QPIECES) for _ in range(rng.randint(0, 4)))
    if rng.random() < 0.35:
        query = b''
    headers = []
    if rng.random() < 0.92:
        headers.append([recase(rng, 'User-Agent'), rng.choice(['ua', 'Mozilla/5.0 (X11)', 'curl/8', 'ag\xe9nt', 'ag\xc3\xa9nt'])])
    for _ in range(rng.randint(0, 4)):
        n, vs = rng.choice(LIST_FIELDS)
        headers.append([recase(rng, n), rng.choice(vs)])
    seen = set()
    for _ in range(rng.randint(0, 3)):
        n, vs = rng.choice(SINGLE_FIELDS)
        if n not in seen or rng.random() < 0.1:      # now and then a repeated single-valued field
            headers.append([recase(rng, n), rng.choice(vs)])
        seen.add(n)
    rng.shuffle(headers)
    # body
    body = b''
    chunks = []
    t = rng.random()
    if t < 0.45:
        n = rng.choice([1, 2, 3, 7, 8, 13, 14, 48])
        body = bytes(rng.randrange(256) for _ in range(n))
        if rng.random() < 0.3:
            body = json.dumps({'k': [rng.randrange(100), 'café'], 'n': None}).encode()[:48]
    if body and rng.random() < 0.7:
        left = len(body)
        for _ in range(rng.randint(1, 4)):
            k = rng.randint(0, left)
            chunks.append(k)
            left -= k
    if body:
        headers.append([recase(rng, 'Content-Length'), str(len(body))])
    elif t > 0.9:
        headers.append(['Content-Length', rng.choice(['0', '0', 'abc', '-1', '1e3', ''])])
    # endpoint
    scheme = rng.choice(['http', 'https'])
    name = rng.choice(NAMES)
    port = rng.choice([80, 443, 8080, 8443, 1, 65535])
    dflt = 443 if scheme == 'https' else 80
    auth = name if port == dflt else '%s:%d' % (name, port)
    version = '1.1' if rng.random() < 0.85 else '1.0'
    t = rng.random()
    if version == '1.1' or t < 0.5:
        if t < 0.8:
            hv = auth
        elif t < 0.9:
            hv = rng.choice(NAMES) + rng.choice(['', ':80', ':443', ':8000'])
        else:
            hv = name + ':%d' % port       # explicit port even when it is the default
        hf = [recase(rng, 'Host'), hv]
        headers.insert(rng.randint(0, len(headers)), hf)
    # forwarding chains relative to the request's own peer address: absent, last, first, middle, twice, alone
    peer = '%d.%d.%d.%d' % tuple(rng.randrange(1, 255) for _ in range(4))
    if rng.random() < 0.45:
        others = ['203.0.113.7', '198.51.100.2', '10.0.0.%d' % rng.randrange(1, 9), 'unknown']
        shape = rng.choice(['absent', 'last', 'first', 'middle', 'twice', 'alone', 'random'])
        o = lambda: rng.choice(others)
        chain = {'absent': [o(), o()], 'last': [o(), peer], 'first': [peer, o()], 'middle': [o(), peer, o()],
                 'twice': [peer, o(), peer], 'alone': [peer],
                 'random': [rng.choice(others + [peer]) for _ in range(rng.randint(1, 5))]}[shape]
        t = rng.random()
        if t < 0.5:
            fields = [['X-Forwarded-For', (', ' if rng.random() < 0.7 else ',').join(chain)]]
            if rng.random() < 0.2 and len(chain) > 1:      # the same chain sent as two field lines
                k = rng.randint(1, len(chain) - 1)
                fields = [['X-Forwarded-For', ', '.join(chain[:k])], ['X-Forwarded-For', ', '.join(chain[k:])]]
        elif t < 0.85:
            fields = [['Forwarded', ', '.join(('for=%s' % a) + rng.choice(['', ';proto=https', ';by=9.9.9.9']) for a in chain)]]
        else:
            fields = [['X-Real-IP', chain[0]]]
        for n, v in fields:
            headers.append([recase(rng, n), v])
    return {'method': rng.choice(['GET', 'GET', 'POST', 'PUT', 'DELETE', 'PATCH', 'HEAD', 'OPTIONS']),
            'target': B(target),
            'query': B(query), 'headers': [{'n': B(n), 'v': B(v)} for n, v in headers], 'body': B(body), 'chunks': chunks,
            'scheme': scheme, 'server': {'name': B(name), 'port': port}, 'root': B(rng.choice(['', '', '/app', '/a/b'])),
            'peer': B(peer), 'version': version}


KINDS = ['echo', 'text', 'data', 'stream', 'error', 'notfound', 'redirect', 'status', 'nocontent', 'uncaught',
         'invalidhdr', 'media']


def sha(x):
    return hashlib.sha1(canon(x).encode()).hexdigest()[:16]


def harness_client_args(rq):
    """the client arguments for a random request, following ServerIface!ToClientArgs literally; None when the
    harness cannot even form them (path bytes that are not text)."""
    try:
        bytes(rq['target']).decode('utf-8')
    except UnicodeDecodeError:
        return None
    return {'method': rq['method'], 'path': rq['target'], 'query_string': rq['query'], 'headers': rq['headers'],
            'has_body': bool(rq['body']), 'body': rq['body'], 'protocol': rq['scheme'], 'host': rq['server']['name'],
            'port': rq['server']['port'], 'http_version': rq['version'], 'root_path': rq['root'], 'remote_addr': rq['peer'],
            'asgi_chunk_size': max(1, rq['chunks'][0]) if rq['chunks'] else 4096}


def event_of(iface, o):
    dg = o['digest']
    ev = {'iface': iface, 'reached': dg is not None and o['exc'] is None, 'method': '', 'path': [], 'query': [], 'hmap': [],
          'has_ctype': False, 'ctype': [], 'clen': -3, 'host': [], 'port': -3, 'netloc': [], 'scheme': '', 'root': [],
          'peer': [], 'body': [], 'status': -1, 'foreign': [], 'dg': '', 'rs': ''}
    if ev['reached']:
        f = observed_fields(dg)
        if f['body'] is None:
            f['body'] = []
        f['method'] = f['method'] if isinstance(f['method'], str) else '?'
        ev.update(f)
        ev['status'] = o['proj']['status']
        ev['foreign'] = sorted(c for c, ms in dg['foreign'].items() if ms)     # containers showing another request's marks
        # invalid framing (the Content-Length accessor raised): what reading the body yields is not compared
        framing_ok = not (isinstance(dg['content_length'], dict) and 'http_error' in dg['content_length'])
        ev['dg'] = sha(dg if framing_ok else {k: v for k, v in dg.items() if k not in ('body', 'media')})
        ev['rs'] = sha(o['proj'])
    return ev


# ------------------------------------------------------------------------------------------------
# leg D: response body sources whose delivery is incremental (spec/ServerIfaceDelivery.tla, ServerIface.tla)
# ------------------------------------------------------------------------------------------------

DELIVERY_DRIVERS = ('raw-wsgi', 'raw-wsgi-fw', 'raw-asgi', 'client-wsgi', 'client-wsgi-fw', 'client-asgi')
FLAVOURS = {'file': ('file',), 'iter': ('gen', 'obj')}     # iterable: a generator / an iterator object


class Pipe:
    """The recording body source: holds the blocks of one delivery pattern and hands out the next one per call,
    whatever size is asked for (never more than asked); the end is signalled only once all blocks are out."""

    def __init__(self, blocks, log):
        self.blocks, self.i, self.rest, self.log, self.closed = list(blocks), 0, b'', log, 0

    def pull(self, n, is_file):
        if self.rest:
            b, self.rest = self.rest, b''
        elif self.i < len(self.blocks):
            b = self.blocks[self.i]
            self.i += 1
        else:
            self.log.append(('end', -1, b''))
            return None
        if is_file and isinstance(n, int) and 0 < n < len(b):
            b, self.rest = b[:n], b[n:]
        self.log.append(('pull', n if is_file and isinstance(n, int) else -1, b))
        return b


class SyncFile(Pipe):
    def read(self, n=-1):
        b = self.pull(n, True)
        return b'' if b is None else b

    def close(self):
        self.closed += 1


class AsyncFile(Pipe):
    async def read(self, n=-1):
        b = self.pull(n, True)
        return b'' if b is None else b

    async def close(self):
        self.closed += 1


class SyncIterObj(Pipe):
    def __iter__(self):
        return self

    def __next__(self):
        b = self.pull(-1, False)
        if b is None:
            raise StopIteration
        return b


class AsyncIterObj(Pipe):
    def __aiter__(self):
        return self

    async def __anext__(self):
        b = self.pull(-1, False)
        if b is None:
            raise StopAsyncIteration
        return b


def _sync_gen(pipe):
    while True:
        b = pipe.pull(-1, False)
        if b is None:
            return
        yield b


async def _async_gen(pipe):
    while True:
        b = pipe.pull(-1, False)
        if b is None:
            return
        yield b


class DeliveryLogic:
    """The streaming responder: one object, mounted on both stacks."""
    status, announce, blocks, flavour, log = 200, False, (), 'file', None

    def respond(self, resp, asgi):
        resp.status = self.status
        resp.content_type = 'application/octet-stream'
        if self.announce:
            resp.content_length = sum(len(b) for b in self.blocks)
        f = self.flavour
        if f == 'file':
            resp.stream = (AsyncFile if asgi else SyncFile)(self.blocks, self.log)
        elif f == 'obj':
            resp.stream = (AsyncIterObj if asgi else SyncIterObj)(self.blocks, self.log)
        else:
            resp.stream = (_async_gen if asgi else _sync_gen)(Pipe(self.blocks, self.log))


class DeliveryWsgiRes:
    def __init__(self, logic):
        self.logic = logic

    def on_get(self, req, resp):
        self.logic.respond(resp, False)


class DeliveryAsgiRes:
    def __init__(self, logic):
        self.logic = logic

    async def on_get(self, req, resp):
        self.logic.respond(resp, True)


_DELIVERY_APPS = {}


def delivery_apps(block_size=None):
    """(logic, WSGI app, ASGI app); block_size None = the framework's own block size, else the harness knob
    _STREAM_BLOCK_SIZE overridden in subclasses of the two application classes (leg B only: full blocks with small data)."""
    if block_size not in _DELIVERY_APPS:
        import falcon
        import falcon.asgi
        logic = DeliveryLogic()
        W, A = falcon.App, falcon.asgi.App
        if block_size is not None:
            W = type('SmallBlockApp', (W,), {'_STREAM_BLOCK_SIZE': block_size})
            A = type('SmallBlockAsgiApp', (A,), {'_STREAM_BLOCK_SIZE': block_size})
        w, a = W(), A()
        w.add_route('/d', DeliveryWsgiRes(logic))
        a.add_route('/d', DeliveryAsgiRes(logic))
        _DELIVERY_APPS[block_size] = (logic, w, a)
    return _DELIVERY_APPS[block_size]


def _hdr_facts(pairs):
    """header pairs (any casing) -> the facts ServerIface!StreamedResponse speaks about + digest of the whole set"""
    hs = sorted([k.lower(), v] for k, v in pairs)
    ct = [v for k, v in hs if k == 'content-type']
    cl = [v for k, v in hs if k == 'content-length']
    return {'ctype': cps(ct[0]) if len(ct) == 1 else [-9],
            'has_clen': bool(cl), 'clen': int(cl[0]) if len(cl) == 1 and cl[0].isdigit() else -1 if not cl else -2,
            'hs': sha(hs)}


def deliver(driver, blocks, status, announce, flavour, block_size=None):
    """Run the streaming responder through one driver.  Returns (source log, observation)."""
    import falcon.testing
    logic, wapp, aapp = delivery_apps(block_size)
    logic.status, logic.announce, logic.blocks, logic.flavour, logic.log = status, announce, blocks, flavour, []
    o = {'status': -1, 'ctype': [], 'has_clen': False, 'clen': -1, 'body': b'', 'hs': '', 'exc': ''}
    fw = drivers.FileWrapper if driver.endswith('-fw') else None
    try:
        with drivers_watchdog():
            if driver.startswith('raw'):
                rq = drivers.Req('GET', b'/d', b'', [('Host', 'falconframework.org'), ('User-Agent', 'ua')])
                res = drivers.asgi_call(aapp, rq) if driver == 'raw-asgi' else drivers.wsgi_call(wapp, rq, file_wrapper=fw)
                if res.exc is not None:
                    o['exc'] = 'escaped to the server: %r' % (res.exc,)
                else:
                    o.update(_hdr_facts(res.headers), status=res.status, body=res.body)
            else:
                with warnings.catch_warnings():
                    warnings.simplefilter('ignore')
                    kw = {'file_wrapper': fw} if fw else {}
                    result = falcon.testing.simulate_request(aapp if driver == 'client-asgi' else wapp, method='GET',
                                                             path='/d', **kw)
                o.update(_hdr_facts(result.headers.items()), status=result.status_code, body=bytes(result.content))
    except Exception as e:      # noqa: anything escaping is an observation
        o['exc'] = '%s: %s' % (type(e).__name__, e)
    return logic.log, o


def drivers_watchdog():
    from engine.bytesrc import watchdog
    return watchdog(5.0)


def _unit(b, scale):
    """representation map of one model byte at scale U: U real bytes (the same map for source data and expectation)"""
    return bytes([b]) if scale == 1 else bytes((b + 31 * k) % 251 for k in range(scale))


def check_delivery(ctx, case, scale, flavour, origin='tlc-delivery'):
    """One TLC-generated delivery (kind, data, pattern, status, announce) at one scale through the six drivers:
    every observation must equal ServerIface!StreamedResponse as exported by TLC (BodyIsWholeSource) and the
    complete header sets must coincide (ResponseEqualAcrossStacks)."""
    blocks = [b''.join(_unit(x, scale) for x in blk) for blk in case['blocks']]
    want = case['response']
    want_body = b''.join(_unit(x, scale) for x in want['body'])
    want_clen = want['clen'] * scale if want['has_clen'] else want['clen']
    brief = {'origin': origin, 'delivery': case, 'scale': scale, 'flavour': flavour}
    ctx.case(brief, nontrivial=len(case['sizes']) >= 2, key=digest([case['kind'], case['data'], case['sizes'], case['status'],
                                                                    case['announce'], scale, flavour]))
    base = None
    runs = 0
    for drv in DELIVERY_DRIVERS:
        log, o = deliver(drv, blocks, case['status'], case['announce'], flavour)
        runs += 1
        pulled = [len(g) for op, _, g in log if op == 'pull']
        where = '%s (%s, consumer %s; source asked %d times, gave %s)' % (drv, flavour, case['drivers'][drv], len(log), pulled[:12])
        if o['exc']:
            ctx.violation('P:exception', brief, '%s: %s' % (where, o['exc']))
            continue
        if o['status'] != want['status']:
            ctx.violation('P:status', brief, '%s: status %s, specification %s' % (where, o['status'], want['status']))
        if o['body'] != want_body:
            ctx.violation('P:body-whole-source', brief, '%s: body of %d bytes, the source delivers %d bytes in blocks %s; '
                          'first difference at %d' % (where, len(o['body']), len(want_body), [len(b) for b in blocks][:12],
                                                      next((i for i, (x, y) in enumerate(zip(o['body'], want_body)) if x != y),
                                                           min(len(o['body']), len(want_body)))))
        if o['ctype'] != want['ctype']:
            ctx.violation('P:content-type', brief, '%s: Content-Type %r' % (where, o['ctype']))
        if o['has_clen'] != want['has_clen'] or o['clen'] != want_clen:
            ctx.violation('P:content-length', brief, '%s: Content-Length present=%s value=%s, specification present=%s value=%s'
                          % (where, o['has_clen'], o['clen'], want['has_clen'], want_clen))
        if base is None:
            base = (drv, o)
        elif o['hs'] != base[1]['hs']:
            ctx.violation('P:equal-response', brief, '%s: header set differs from %s' % (where, base[0]))
    return runs


def random_delivery(rng):
    """One streaming responder beyond the model's bound: data of up to 200 bytes, a delivery pattern from one of the
    pattern families, the block size the consumers ask for (None = the framework's own, every block is short)."""
    kind = 'file' if rng.random() < 0.6 else 'iter'
    bs = rng.choice([None, 4, 4, 16, 64])
    n = rng.choice([0, 1, 2, 4, 5, 8, 16, 17, 63, 64, 65, 128, 200, rng.randrange(201)])
    data = bytes(rng.randrange(256) for _ in range(n))
    cap = bs or 8192
    sizes = []
    left = n
    fam = rng.choice(['pipe', 'full+short', 'ones', 'random', 'random', 'whole'])
    if kind == 'file':
        if fam == 'pipe':
            for s in (1, 3):
                if left >= s:
                    sizes.append(s)
                    left -= s
            while left:
                s = rng.randint(1, max(1, min(cap - 1, left)))
                sizes.append(s)
                left -= s
        elif fam == 'full+short':
            while left:
                s = min(cap, left)
                sizes.append(s)
                left -= s
        else:
            while left:
                s = 1 if fam == 'ones' else min(cap, left) if fam == 'whole' else rng.randint(1, min(cap, left))
                sizes.append(s)
                left -= s
    else:
        while left:
            s = 1 if fam == 'ones' else left if fam == 'whole' else rng.choice([0, rng.randint(1, left), rng.randint(0, left)])
            sizes.append(s)
            left -= s
        for _ in range(rng.choice([0, 0, 1, 2])):
            sizes.insert(rng.randint(0, len(sizes)), 0)
    blocks, off = [], 0
    for s in sizes:
        blocks.append(data[off:off + s])
        off += s
    return {'origin': 'random-delivery', 'kind': kind, 'data': list(data), 'sizes': sizes, 'status': rng.choice([200, 200, 201, 206]),
            'announce': rng.random() < 0.4, 'block_size': bs, 'flavour': rng.choice(FLAVOURS[kind])}, blocks


def record_delivery(brief, blocks):
    """the trace of one streaming responder for ServerIfaceDeliveryTrace: per driver the source's log, then the response"""
    evs = []
    blank = {'drv': '', 'op': '', 'n': -1, 'got': [], 'status': -1, 'ctype': [], 'has_clen': False, 'clen': -1, 'body': [],
             'hs': '', 'exc': ''}
    for drv in DELIVERY_DRIVERS:
        log, o = deliver(drv, blocks, brief['status'], brief['announce'], brief['flavour'], brief['block_size'])
        for op, n, got in log:
            evs.append(dict(blank, drv=drv, op=op, n=n, got=list(got)))
        evs.append(dict(blank, drv=drv, op='response', status=o['status'] if isinstance(o['status'], int) else -1,
                        ctype=o['ctype'], has_clen=o['has_clen'], clen=o['clen'], body=list(o['body']), hs=o['hs'], exc=o['exc']))
    return {'kind': brief['kind'], 'data': brief['data'], 'status': brief['status'], 'announce': brief['announce'], 'ev': evs}


def blocks_of(brief):
    out, off = [], 0
    for s in brief['sizes']:
        out.append(bytes(brief['data'][off:off + s]))
        off += s
    return out


def judge_deliveries(ctx, briefs, traces):
    verdicts = ctx.judge('ServerIfaceDeliveryTrace', traces, workers=4, timeout=600, chunk=2000)
    for brief, tr, v in zip(briefs, traces, verdicts):
        if v == 'ok':
            continue
        clause, _, at = v.partition('@')
        ev = tr['ev'][int(at) - 1] if at.isdigit() and 0 < int(at) <= len(tr['ev']) else None
        if clause.startswith('H:'):
            raise MachineryError('leg D: the recording source broke its contract: %s %s' % (canon(brief), canon(ev)[:300]))
        pulls = [len(e['got']) for e in tr['ev'] if ev and e['drv'] == ev['drv'] and e['op'] == 'pull']
        ctx.violation(clause, {'case': brief, 'trace': tr},
                      'trace rejected by ServerIfaceDeliveryTrace at event %s (%s; %s source of %d bytes in blocks %s, consumer asks '
                      'for %s; it pulled %s): status %s, body of %s bytes%s'
                      % (at, ev and ev['drv'], brief['flavour'], len(brief['data']), brief['sizes'][:14], brief['block_size'] or 'its own block size',
                         pulls[:14], ev and ev['status'], ev and len(ev['body']), ' exception: %s' % ev['exc'] if ev and ev['exc'] else ''))


DELIVERY_ACTS = ['Choose', 'PullFull', 'PullShort', 'PullChunk', 'PullEmpty', 'EndOfSource', 'Finish']
DELIVERY_BAD = [('MC_ServerIfaceDeliveryBadShort.cfg', 'BodyIsWholeSource', 'ShortReadEndsBody'),
                ('MC_ServerIfaceDeliveryBadEmpty.cfg', 'BodyIsWholeSource', 'EmptyChunkEndsBody'),
                ('MC_ServerIfaceDeliveryBadOnce.cfg', 'ResponseEqualAcrossStacks', 'AsgiReadsOnce')]


def start_delivery_models(ctx):
    """the TLC runs of leg D, started in the background (they are independent of the other legs); counted when collected"""
    from concurrent.futures import ThreadPoolExecutor
    ex = ThreadPoolExecutor(5)
    futs = {'bad': [ex.submit(ctx.tlc, 'MC_ServerIfaceDelivery', cfg, workers=1, timeout=600, must_hold=False, count=False)
                    for cfg, _, _ in DELIVERY_BAD]}
    if not ctx.quick:
        futs['interleaved'] = ex.submit(ctx.tlc, 'MC_ServerIfaceDelivery', 'MC_ServerIfaceDeliveryI.cfg', coverage=True,
                                        workers=3, timeout=1500, count=False)
    futs['main'] = ex.submit(ctx.tlc, 'MC_ServerIfaceDelivery', ctx.pick('MC_ServerIfaceDeliveryQ.cfg', 'MC_ServerIfaceDelivery.cfg'),
                             coverage=True, workers=2, timeout=1500, count=False)
    ex.shutdown(wait=False)
    return futs


def leg_delivery(ctx, futs=None):
    # ---- M: the delivery state machine (sequential and interleaved consumers), its wrong-design switches
    futs = futs or start_delivery_models(ctx)
    for name in ('interleaved', 'main'):
        if name in futs:
            r = futs[name].result()
            ctx.require_coverage(r, DELIVERY_ACTS)
            ctx.states += r.distinct
            ctx.transitions += r.generated
    for (cfg, inv, sw), f in zip(DELIVERY_BAD, futs['bad']):
        rb = f.result()
        if rb.violated != inv:
            raise MachineryError('wrong-design switch %s did not violate %s (got %r)' % (sw, inv, rb.violated))
    bad = DELIVERY_BAD
    cases = list({digest(c): c for c in r.json}.values())
    ctx.progress('leg D: %d deliveries from TLC (%d states)' % (len(cases), r.distinct))
    # ---- A: every TLC-enumerated delivery through the six drivers; at scale 1 (every block is short of the framework's
    #         block size) and at the scale at which the model's BlockSize is the framework's (full blocks are full)
    import falcon
    real_bs = getattr(falcon.App, '_STREAM_BLOCK_SIZE', 8192)
    runs = n = 0
    for case in cases:
        scales = [1]
        if case['kind'] == 'file' and isinstance(real_bs, int) and real_bs % case['block_size'] == 0:
            scales.append(real_bs // case['block_size'])
        for scale in scales:
            for flavour in FLAVOURS[case['kind']]:
                runs += check_delivery(ctx, case, scale, flavour)
                n += 1
    ctx.traces_validated += n
    # ---- B: random deliveries beyond the bound, recorded and judged by TLC
    briefs, traces = [], []
    seen = set()
    for _ in range(ctx.pick(250, 1500)):
        brief, blocks = random_delivery(ctx.rng)
        k = digest(brief)
        if k in seen:
            continue
        seen.add(k)
        ctx.case(brief, nontrivial=len(brief['sizes']) >= 2, key=k)
        briefs.append(brief)
        traces.append(record_delivery(brief, blocks))
    judge_deliveries(ctx, briefs, traces)
    ctx.extra['leg_D'] = {'deliveries_from_tlc': len(cases), 'replays': n, 'driver_runs': runs, 'judged_traces': len(traces),
                          'judged_events': sum(len(t['ev']) for t in traces),
                          'wrong_design_switches': ['%s=TRUE violates %s' % (sw, inv) for _, inv, sw in bad]}
    ctx.progress('leg D done: %d deliveries x scales x flavours = %d replays (%d driver runs), %d random traces judged'
                 % (len(cases), n, runs, len(traces)))


def run(ctx):
    ctx.rule = ('case = (abstract request, request options, responder kind) or a history of requests with the '
                'application\'s writes; generated by TLC (legs A, H) or by the seeded rng (leg B); or a streaming responder '
                '(source kind, data, delivery pattern, status, announced length; leg D, non-trivial iff the pattern has >= 2 blocks); non-trivial iff the request has a repeated or non-canonically cased header field, a '
                'non-ASCII or percent-escaped target, or a body arriving in chunks; distinct by hash of the case')
    ctx.trusted_base = ['TLC evaluation of spec/ServerIface.tla', 'engine/drivers.py (raw WSGI/ASGI drivers and protocol monitors)',
                        "CPython codecs (latin-1, utf-8)", 'http.cookies (Set-Cookie projection)', 'json / hashlib for digests']
    ctx.assumptions = ['only documented attributes common to falcon.Request and falcon.asgi.Request are compared; '
                       'Request.headers is compared with case-folded names (the classes document different casing)',
                       'the test client result is compared on its documented surface: status code, header dict for '
                       'fields occurring once, cookies, content',
                       'a body is read by the application in a loop until the stream reports the end (short reads of '
                       'wsgi.input are C07 territory)',
                       'leg D: a body source obeys ServerIface!DeliveryOK (a file-like never returns an empty block before the '
                       'end nor more than asked for); small block sizes are obtained by subclassing the application classes '
                       'with another _STREAM_BLOCK_SIZE (leg D, judged traces only)',
                       'requests are well-formed in the sense of ServerIface!WellFormed (ASCII query string, field names '
                       'without "_", truthful Content-Length, Host values name[:digits])']

    delivery_models = start_delivery_models(ctx)       # leg D's TLC runs, collected at the end
    # ---- leg M: the design -----------------------------------------------------------------------
    acts = ['Start', 'SetClass', 'SetResponder', 'SetTarget', 'SetQuery', 'AddHeader', 'EndHeaders', 'SetBody', 'SetEndpoint', 'SetForwarding', 'Send']
    if ctx.quick:
        r = ctx.tlc('MC_ServerIface', 'MC_ServerIfaceQ.cfg', coverage=True, workers=8, timeout=600)
        ctx.require_coverage(r, acts)
    else:
        for cfg in ('MC_ServerIface.cfg', 'MC_ServerIfaceH2.cfg'):
            r = ctx.tlc('MC_ServerIface', cfg, coverage=True, workers=8, timeout=1500)
            ctx.require_coverage(r, acts)
            ctx.progress('leg M %s: %d states' % (cfg, r.distinct))
    # vacuity: with a field name containing "_" the PEP 3333 encoding loses information and the invariant must fail
    rb = ctx.tlc('MC_ServerIface', 'MC_ServerIfaceBad.cfg', workers=2, timeout=300, must_hold=False, count=False)
    if rb.violated != 'EncodingsAgree':
        raise MachineryError('wrong-design switch UnderscoreNames did not violate EncodingsAgree (got %r)' % rb.violated)
    ctx.extra['wrong_design_switch'] = 'UnderscoreNames=TRUE violates EncodingsAgree'
    ctx.progress('leg M done')

    # ---- leg A: TLC-generated cases --------------------------------------------------------------
    rs = ctx.tlc('MC_ServerIface', 'MC_ServerIfaceSim.cfg', simulate={'num': ctx.pick(700, 6500)}, depth=15,
                 seed=ctx.seed + 1, workers=4, timeout=900, count=False)
    cases = {digest([c['req'], c['opts'], c['kind'], c['resp']]): c for c in rs.json}
    cases = list(cases.values())[:ctx.pick(2600, 24000)]
    ctx.progress('leg A: %d distinct cases from TLC' % len(cases))
    n4 = 0
    for i, case in enumerate(cases):
        crosscheck_drivers(case)
        obs = check_case(ctx, case, 'tlc-simulate')
        n4 += len(obs)
        if i and i % 5000 == 0:
            ctx.progress('leg A: %d cases replayed' % i)
    ctx.traces_validated += len(cases)
    ctx.extra['leg_A'] = {'cases': len(cases), 'driver_runs': n4}
    ctx.progress('leg A done: %d cases, %d driver runs' % (len(cases), n4))

    # ---- leg H: TLC-generated histories on ONE application object per driver ---------------------------
    rh = ctx.tlc('ServerIfaceHistory', ctx.pick('ServerIfaceHistory2.cfg', 'ServerIfaceHistory3.cfg'), coverage=True,
                 workers=4, timeout=300)
    ctx.require_coverage(rh, ['Arrive', 'Write', 'Finish'])
    rbad = ctx.tlc('ServerIfaceHistory', 'ServerIfaceHistoryBad.cfg', workers=2, timeout=300, must_hold=False, count=False)
    if rbad.violated != 'ViewIndependentOfHistory':
        raise MachineryError('wrong-design switch SharedFallback did not violate ViewIndependentOfHistory (got %r)' % rbad.violated)
    hists = list({digest(b): b for b in rh.json}.values())
    nsteps = 0
    for hid, hist in enumerate(hists):
        nsteps += replay_history(ctx, hid, hist['steps'])
    ctx.traces_validated += len(hists)
    ctx.extra['leg_H'] = {'histories': len(hists), 'requests': nsteps, 'driver_runs': 4 * nsteps,
                          'wrong_design_switch': 'SharedFallback=TRUE violates ViewIndependentOfHistory'}
    ctx.extra['leg_H']['middleware_stacks'] = middleware_stacks(ctx)
    ctx.progress('leg H done: %d histories, %d requests x 4 drivers' % (len(hists), nsteps))

    # ---- leg B: random richer requests in histories of 3 on one application object per driver, judged by TLC ------
    nrand = ctx.pick(1500, 16000)
    rng = ctx.rng
    traces, briefs = [], []
    apps = None
    for i in range(nrand):
        rq = random_request(rng)
        if i % 3 == 0:          # a new history: fresh application objects, one per driver
            opts = {'strip': rng.random() < 0.5, 'keep_blank': rng.random() < 0.5, 'csv': rng.random() < 0.5}
            apps = fresh_apps(opts)
        writes = rng.choice([(), (), ('params',), ('context', 'resp_context'), ('params', 'cookies', 'headers'), ('extras',),
                             CONTAINERS])
        kind = rng.choice(KINDS)
        plain = {'status': 200, 'text': 'unset', 'data': 'unset', 'media': 'unset', 'stream': False, 'ctype': False,
                 'script': 'direct'}
        if rng.random() < 0.5:
            kind = 'plain'
            tri = ['unset', 'unset', 'empty', 'set']
            plain = {'status': rng.choice([200, 200, 201, 204, 304, 101, 100, 205, 404]), 'text': rng.choice(tri),
                     'data': rng.choice(tri), 'media': rng.choice(tri), 'stream': rng.random() < 0.3,
                     'ctype': rng.random() < 0.4}
            plain['script'] = rng.choice(['direct', 'early', 'early-mutate'] if plain['media'] != 'unset' else ['direct', 'early'])
        cj = harness_client_args(rq)
        # the drivers are run wherever the harness can form the call; TLC (Expressible) decides which events count
        can = {'raw-wsgi': True, 'raw-asgi': True, 'client-wsgi': cj is not None, 'client-asgi': cj is not None}
        obs = observe_all(rq, cj, opts, kind, can, plain, apps=apps, writes=writes, mark='vmark-b%d' % i)
        evs = [event_of(iface, obs[iface]) for iface in IFACES if iface in obs]
        trace = {'req': rq, 'opts': opts, 'kind': kind, 'resp': plain, 'ev': evs}
        nontrivial = (len({L1(h['n']).lower() for h in rq['headers']}) < len(rq['headers'])
                      or any(L1(h['n']) not in (L1(h['n']).lower(), L1(h['n']).title()) for h in rq['headers'])
                      or any(b > 127 or b == 37 for b in rq['target']) or len(rq['chunks']) > 0)
        brief = {'origin': 'random', 'req': rq, 'opts': opts, 'kind': kind, 'resp': plain, 'drivers': [e['iface'] for e in evs]}
        ctx.case(brief, nontrivial=nontrivial, key=digest([rq, opts, kind, plain]))
        traces.append(trace)
        briefs.append((brief, {i: o['exc'] for i, o in obs.items()}))
    ctx.progress('leg B: %d traces recorded' % len(traces))
    verdicts = ctx.judge('ServerIfaceTrace', traces, workers=8, timeout=1500, chunk=3000)
    for (brief, excs), tr, v in zip(briefs, traces, verdicts):
        if v == 'ok':
            continue
        clause, _, at = v.partition('@')
        if clause.startswith('H:'):
            raise MachineryError('leg B generated a request outside WellFormed: %s' % canon(brief['req']))
        ev = tr['ev'][int(at) - 1] if at.isdigit() and 0 < int(at) <= len(tr['ev']) else None
        exc = excs.get(ev['iface']) if ev else None
        ctx.violation(clause, {'case': brief, 'trace': tr},
                      'trace rejected by ServerIfaceTrace at event %s (%s)%s: %s'
                      % (at, ev and ev['iface'], ' exception: %s' % exc if exc else '', canon(ev)[:500]))
    ctx.extra['leg_B'] = {'traces': len(traces), 'events': sum(len(t['ev']) for t in traces)}

    # ---- leg D: response body sources whose delivery is incremental (model, replay, judged traces) ----------------
    leg_delivery(ctx, delivery_models)
    ctx.note('leg A compares in Python observed values with values exported by TLC; leg B lets TLC compare')


B = lambda t: list(t.encode('latin-1'))


def middleware_stacks(ctx):
    """Component stacks (2-3 components, dependent and independent mode) in which one component ends the request in
    process_request (resp.complete) and every component adds to a header in process_response: the response must be
    the same on the four drivers (which components still run is C03's subject)."""
    import falcon
    import falcon.asgi
    n = 0
    for size in (2, 3):
        for stopper in range(size + 1):            # index == size: nobody completes
            for independent in (False, True):
                def component(i, asgi):
                    if asgi:
                        class C:
                            async def process_request(self, req, resp):
                                resp.append_header('X-Audit', 'q%d' % i)
                                if i == stopper:
                                    resp.complete = True
                                    resp.text = 'done by %d' % i

                            async def process_response(self, req, resp, resource, req_succeeded):
                                resp.append_header('X-Audit', 'r%d' % i)
                    else:
                        class C:
                            def process_request(self, req, resp):
                                resp.append_header('X-Audit', 'q%d' % i)
                                if i == stopper:
                                    resp.complete = True
                                    resp.text = 'done by %d' % i

                            def process_response(self, req, resp, resource, req_succeeded):
                                resp.append_header('X-Audit', 'r%d' % i)
                    return C()
                apps = {}
                for iface in IFACES:
                    asgi = iface.endswith('asgi')
                    logic = Logic()
                    mw = [component(i, asgi) for i in range(size)]
                    app = (falcon.asgi.App if asgi else falcon.App)(middleware=mw, independent_middleware=independent)
                    app.add_route('/r/{p}', (AsgiRes if asgi else WsgiRes)(logic, 'route'))
                    apps[iface] = (logic, app)
                rq = history_request(True)
                brief = {'origin': 'middleware-stack', 'size': size, 'completes_at': stopper, 'independent': independent}
                ctx.case(brief, nontrivial=stopper < size, key=digest(brief))
                obs = observe_all(rq, harness_client_args(rq), {'strip': False, 'keep_blank': True, 'csv': False}, 'echo',
                                  {i: True for i in IFACES}, None, apps=apps)
                n += 1
                base = None
                for iface in IFACES:
                    o = obs[iface]
                    if o['exc'] is not None:
                        ctx.violation('P:exception', brief, '%s: %s' % (iface, o['exc']))
                    elif base is None:
                        base = (iface, o)
                    elif o['proj'] != base[1]['proj'] or (o['digest'] is None) != (base[1]['digest'] is None):
                        ctx.violation('P:equal-response', brief, 'middleware stack: %s differs from %s: %s'
                                      % (iface, base[0], canon([_resp_brief(base[1]), _resp_brief(o)])[:500]))
    return n


def history_request(own):
    """the request standing for one step of a ServerIfaceHistory behaviour: it either brings content of its own
    for the containers (query string, cookies, an extra header field) or it brings none"""
    hs = [{'n': B('Host'), 'v': B('falconframework.org')}, {'n': B('User-Agent'), 'v': B('ua')}]
    if own:
        hs += [{'n': B('Cookie'), 'v': B('c=1')}, {'n': B('X-Own'), 'v': B('1')}]
    return {'method': 'GET', 'target': B('/r/h'), 'query': B('a=1&b=x') if own else [], 'headers': hs, 'body': [], 'chunks': [],
            'scheme': 'http', 'server': {'name': B('falconframework.org'), 'port': 80}, 'root': [], 'peer': B('127.0.0.1'),
            'version': '1.1'}


def replay_history(ctx, hid, steps):
    """One TLC-generated history: every step on the SAME application object of each driver; what each request
    finds in its containers must be what the specification says (nothing of an earlier request) and the request
    views must be equal on the four drivers."""
    opts = {'strip': False, 'keep_blank': True, 'csv': False}
    apps = fresh_apps(opts)
    brief = {'origin': 'tlc-history', 'history': steps}
    ctx.case(brief, nontrivial=len(steps) >= 2 and any(st['writes'] for st in steps[:-1]), key=digest(steps))
    for k, st in enumerate(steps, 1):
        rq = history_request(st['own'])
        cj = harness_client_args(rq)
        obs = observe_all(rq, cj, opts, 'echo', {i: True for i in IFACES}, None, apps=apps, writes=st['writes'],
                          mark='vmark-h%d-%d' % (hid, k))
        base = None
        for iface in IFACES:
            o = obs[iface]
            if o['exc'] is not None or o['digest'] is None:
                ctx.violation('P:exception' if o['exc'] else 'P:reached', brief, 'history step %d, %s: %s' % (k, iface, o['exc']))
                continue
            # marks visible at arrival, as request numbers of this history (-1: a mark of another history)
            seen = {c: sorted(int(m.rsplit('-', 1)[1]) if m.startswith('vmark-h%d-' % hid) else -1 for m in ms)
                    for c, ms in o['digest']['foreign'].items()}
            want = {c: sorted(v) for c, v in st['seen'].items()}
            if seen != want:
                ctx.violation('P:history-leak', brief, 'history step %d, %s: the request finds marks of earlier requests in '
                              'its containers: %s (specification: %s)' % (k, iface, canon({c: v for c, v in seen.items() if v}),
                                                                          canon({c: v for c, v in want.items() if v})))
            if base is None:
                base = (iface, o)
            else:
                bad = sorted(a for a in set(o['digest']) | set(base[1]['digest']) if o['digest'].get(a) != base[1]['digest'].get(a))
                if o['proj'] != base[1]['proj']:
                    bad.append('response')
                if bad:
                    ctx.violation('P:equal-request' if bad != ['response'] else 'P:equal-response', brief,
                                  'history step %d: %s differs from %s in %s %s' % (k, iface, base[0], bad, canon(
                                      {a: [base[1]['digest'].get(a), o['digest'].get(a)] for a in bad if a != 'response'})[:500]))
    return len(steps)


def replay(ctx, case):
    c = case.get('case', case)
    if 'delivery' in c:
        check_delivery(ctx, c['delivery'], c['scale'], c['flavour'], 'replay')
        return
    if c.get('origin') == 'random-delivery':
        tr = record_delivery(c, blocks_of(c))
        for e in tr['ev']:
            print(e['drv'], e['op'], e['n'], len(e['got']), e['status'], len(e['body']), e['exc'])
        judge_deliveries(ctx, [c], [tr])
        return
    if 'history' in c:
        replay_history(ctx, 0, c['history'])
        return
    if 'expected' in c:
        obs = check_case(ctx, c, 'replay')
    else:
        cj = harness_client_args(c['req'])
        can = {i: (i in c['drivers']) for i in IFACES}
        obs = observe_all(c['req'], cj, c['opts'], c['kind'], can, c.get('resp'))
        tr = {'req': c['req'], 'opts': c['opts'], 'kind': c['kind'], 'resp': c.get('resp'), 'ev': [event_of(i, obs[i]) for i in IFACES if i in obs]}
        v = ctx.judge('ServerIfaceTrace', [tr], workers=1)[0]
        print('verdict:', v)
        if v != 'ok':
            ctx.violation(v.split('@')[0], c, 'trace rejected at %s' % v)
    for i, o in obs.items():
        print(i, 'exc=%r' % o['exc'], 'status=%r' % (o['proj'] and o['proj']['status']))
        if o['digest']:
            print('   ', canon({k: o['digest'][k] for k in ('method', 'path', 'host', 'port', 'netloc', 'headers', 'content_length')}))
