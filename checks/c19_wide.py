"""C19, wide thread leg: preemption at every falcon source line, outside as well as inside the router.

spec:  spec/SharedCache.tla - threads over bounded process-wide memo caches; the design that holds
       (atomic lookup-or-store, LRU eviction, per-request results) is model-checked unbounded, the three
       wrong designs (two-step lookup + clear-when-full, torn last-key/last-value memo, shared result
       object) each violate NoRequestFails / SerialResponse with ONE preemption and none with zero.
code:  ordered pairs of requests on one WSGI app; thread 0 is stopped before its k-th falcon source line
       (every k), thread 1 runs its whole request, thread 0 finishes; the cache contents before the pair
       (the model's WarmSet) are: nothing (first-ever requests), every pool request once, and a resolver
       cache driven to its capacity boundary.  Every response must equal the request's serial response.
"""
import os

CAP_WINDOW = range(56, 68)      # number of distinct media types sent beforehand (capacity is 64)


_STATIC = {}


def static_dir():
    """A directory with two small files for the static route (made once per run, removed at exit)."""
    if 'dir' not in _STATIC:
        import atexit
        import shutil
        import tempfile
        d = tempfile.mkdtemp(prefix='c19-static-')
        for name, text in (('one.yaml', 'first: file\n'), ('two.txt', 'second file, longer\n')):
            with open(os.path.join(d, name), 'w') as f:
                f.write(text)
            os.utime(os.path.join(d, name), (1700000000, 1700000000))
        pid = os.getpid()
        atexit.register(lambda: os.getpid() == pid and shutil.rmtree(d, ignore_errors=True))
        _STATIC['dir'] = d
    return _STATIC['dir']


def build_app():
    import falcon

    class Rejected(Exception):
        pass

    def on_rejected(req, resp, ex, params):
        # handlers receive the params of the request at hand and may use them as scratch space
        params['client'] = req.get_header('X-Tag')
        params.setdefault('first_path', req.path)
        resp.status = 403
        resp.media = {'rejected': dict(params), 'tag': getattr(req.context, 'tag', None)}

    class Ctx:
        def process_request(self, req, resp):
            req.context.tag = req.get_header('X-Tag')
            req.params['mw'] = req.get_header('X-Tag')
            if req.get_header('X-Reject'):
                raise Rejected()

        def process_resource(self, req, resp, resource, params):
            params['tenant'] = req.get_header('X-Tag')

        def process_response(self, req, resp, resource, ok):
            resp.set_header('X-Echo-Tag', str(getattr(req.context, 'tag', None)))
            resp.set_cookie('sid', str(getattr(req.context, 'tag', None)), max_age=60)
            resp.append_header('Vary', 'X-Tag')

    class Item:
        def on_get(self, req, resp, x, tenant=None):
            resp.media = {'route': 'a', 'x': x, 'q': req.get_param('q'), 'n': req.get_param_as_int('n'),
                          'l': req.get_param_as_list('l'), 'tag': req.context.tag, 'tenant': tenant,
                          'mw': req.get_param('mw'), 'uri': req.uri, 'host': req.host,
                          'pref': req.client_prefers(['application/json', 'text/plain']),
                          'xml': req.client_accepts('application/xml')}

        def on_post(self, req, resp, x, tenant=None):
            if 'urlencoded' in (req.content_type or ''):
                doc = {k: req.params[k] for k in sorted(req.params)}
            else:
                doc = req.get_media()
            resp.media = {'route': 'a', 'x': x, 'doc': doc, 'tag': req.context.tag, 'tenant': tenant,
                          'mw': req.get_param('mw')}

    class Other:
        def on_get(self, req, resp, y, tenant=None):
            if y == 13:
                raise falcon.HTTPBadRequest(title='unlucky', description=req.context.tag,
                                            headers={'X-Why': str(req.context.tag)})
            if y == 14:
                raise falcon.HTTPTooManyRequests(description=req.context.tag, retry_after=y)
            resp.media = {'route': 'b', 'y': y, 'tag': req.context.tag, 'tenant': tenant, 'mw': req.get_param('mw')}

    class Day:
        def on_get(self, req, resp, d, tenant=None):
            resp.media = {'route': 'c', 'day': d.strftime('%Y-%m-%d'), 'tag': req.context.tag, 'tenant': tenant}

    class Ident:
        def on_get(self, req, resp, u, v, tenant=None):
            resp.text = 'u=%s v=%r tag=%s tenant=%s' % (u, v, req.context.tag, tenant)
            resp.content_type = 'text/plain; charset=utf-8'

    class Tail:
        def on_get(self, req, resp, p, tenant=None):
            resp.media = {'route': 'p', 'p': p, 'tag': req.context.tag}
            resp.content_type = 'application/json; charset=utf-8'      # a parameterised type on the response side
            resp.downloadable_as = 'r-%s.json' % req.context.tag

    app = falcon.App(middleware=[Ctx()])
    app.add_error_handler(Rejected, on_rejected)
    app.req_options.auto_parse_form_urlencoded = True
    app.add_route('/a/{x:int}', Item())
    app.add_route('/b/{y:int}', Other())
    app.add_route('/c/{d:dt("%Y-%m-%d")}', Day())
    app.add_route('/u/{u:uuid}/{v:float}', Ident())
    app.add_route('/p/{p:path}', Tail())

    def sink(req, resp, **kw):
        resp.media = {'sink': req.path, 'q': req.get_param('q'), 'tag': req.context.tag}

    def sink2(req, resp, **kw):
        resp.media = {'sink2': req.path, 'tag': req.context.tag}

    app.add_sink(sink, '/sink')
    app.add_static_route('/static', static_dir())
    app.add_sink(sink2, '/zz')
    return app


def request_pool():
    from engine.drivers import Req
    J = ('Content-Type', 'application/json')
    return [
        ('GET /a/3', Req('GET', b'/a/3', b'q=one&n=4&l=a,b', [('X-Tag', 't0'), ('Accept', 'application/json;q=0.5, text/plain')])),
        ('GET /b/7', Req('GET', b'/b/7', b'', [('X-Tag', 't1'), ('Accept', 'text/plain;q=0.1, application/json')])),
        ('POST json', Req('POST', b'/a/5', b'', [('X-Tag', 't2'), J], b'{"k": [1, 2, 3]}')),
        ('POST bad json #1', Req('POST', b'/a/5', b'', [('X-Tag', 't3'), J], b'{"k": \xff}')),
        ('POST bad json #2', Req('POST', b'/a/6', b'', [('X-Tag', 't4'), J], b'{"k": [1, 2,}')),
        ('GET /c/2024-05-01', Req('GET', b'/c/2024-05-01', b'', [('X-Tag', 't5')])),
        ('GET /c/2020-01-31', Req('GET', b'/c/2020-01-31', b'', [('X-Tag', 't6')])),
        ('GET /c/2024-05-01 #2', Req('GET', b'/c/2024-05-01', b'', [('X-Tag', 't7')])),
        ('GET /u/1', Req('GET', b'/u/8b4d7a3e-2f5c-4c1b-9d7a-0123456789ab/1.5', b'', [('X-Tag', 't8')])),
        ('GET /u/2', Req('GET', b'/u/00000000-0000-4000-8000-000000000001/2.25', b'', [('X-Tag', 't9')])),
        ('POST json v=57', Req('POST', b'/a/5', b'', [('X-Tag', 't10'), ('Content-Type', 'application/json; v=57')],
                               b'{"v": 57}')),
        ('POST form alice', Req('POST', b'/a/5', b'k=v', [('X-Tag', 't11'), ('Content-Type', 'application/x-www-form-urlencoded')],
                                b'user=alice&pin=1111')),
        ('POST form bob', Req('POST', b'/a/5', b'k=v', [('X-Tag', 't12'), ('Content-Type', 'application/x-www-form-urlencoded')],
                              b'user=bob&pin=2222')),
        ('GET /b/13 xml', Req('GET', b'/b/13', b'', [('X-Tag', 't13'), ('Accept', 'application/xml')])),
        ('GET /b/13 json', Req('GET', b'/b/13', b'', [('X-Tag', 't14'), ('Accept', 'application/json')])),
        ('GET /b/14 (429)', Req('GET', b'/b/14', b'', [('X-Tag', 't15')])),
        ('GET /p', Req('GET', b'/p/x/y%20z', b'', [('X-Tag', 't16')])),
        ('GET /a/nope (404)', Req('GET', b'/a/nope', b'', [('X-Tag', 't17')])),
        ('PUT /b/2 (405)', Req('PUT', b'/b/2', b'', [('X-Tag', 't18')])),
        ('POST new type', Req('POST', b'/a/5', b'', [('X-Tag', 't19'), ('Content-Type', 'application/json; fresh=1')],
                              b'{"fresh": 1}')),
        # values with many escapes take the decoder's slow path; form bodies and paths too
        ('GET escapes A', Req('GET', b'/a/3', b'q=%41%4C%49%43%45%2D%53%45%43%52%45%54%2D%54%4F%4B%45%4E&n=1',
                              [('X-Tag', 't20')])),
        ('GET escapes B', Req('GET', b'/a/3', b'q=%62%6F%62%2B%70%75%62%6C%69%63%2B%76%61%6C%75%65+x&l=%31%2C%32%2C%33%2C%34%2C%35%2C%36',
                              [('X-Tag', 't21')])),
        ('POST form escapes', Req('POST', b'/a/5', b'', [('X-Tag', 't22'), ('Content-Type', 'application/x-www-form-urlencoded')],
                                  b'user=%63%61%72%6F%6C%2D%70%72%69%76%61%74%65&pin=%39%39%39%39%39%39%39%39')),
        ('GET /p escapes', Req('GET', b'/p/%C3%A9%C3%A8%C3%AA%C3%AB/%E2%82%AC%E2%82%AC', b'', [('X-Tag', 't23')])),
        ('GET /sink/x', Req('GET', b'/sink/x', b'q=s', [('X-Tag', 't24')])),
        ('GET /zz/y', Req('GET', b'/zz/y', b'', [('X-Tag', 't25')])),
        ('GET /static/one', Req('GET', b'/static/one.yaml', b'', [('X-Tag', 't26')])),
        ('GET /static/two', Req('GET', b'/static/two.txt', b'', [('X-Tag', 't27'), ('Range', 'bytes=2-5')])),
        ('GET /nowhere (404)', Req('GET', b'/nowhere', b'', [('X-Tag', 't28')])),
        ('GET refused A', Req('GET', b'/a/3', b'q=r', [('X-Tag', 't29'), ('X-Reject', '1')])),
        ('GET refused B', Req('GET', b'/b/7', b'', [('X-Tag', 't30'), ('X-Reject', '1')])),
        ('POST json charset', Req('POST', b'/a/5', b'', [('X-Tag', 't31'), ('Content-Type', 'application/json; charset=utf-8')],
                                  b'{"c": 1}')),
        ('GET /b/13 mixed accept', Req('GET', b'/b/13', b'', [('X-Tag', 't32'), ('Accept',
                                       'application/json;q=0.1, application/json;charset=utf-8, text/xml;q=0.5')])),
    ]


# ordered pairs (preempted request, request that runs in the gap)
PAIRS = [(3, 4), (4, 3), (5, 6), (6, 5), (5, 7), (7, 5), (2, 10), (10, 19), (19, 10), (0, 1), (1, 0), (2, 3), (3, 2),
         (11, 12), (12, 11), (13, 14), (14, 13), (8, 9), (9, 8), (15, 13), (16, 0), (17, 18), (18, 17), (0, 5),
         (10, 2), (2, 19), (20, 21), (21, 20), (20, 22), (22, 21), (23, 20), (21, 23), (24, 25), (25, 24), (24, 26),
         (26, 24), (26, 27), (27, 26), (28, 24), (24, 28), (26, 28), (25, 27),
         (29, 30), (30, 29), (29, 0), (13, 10), (14, 19), (17, 31), (32, 31), (31, 32), (15, 19), (32, 16), (16, 32), (13, 16)]
PRESSURE_PAIRS = [(10, 19), (10, 2), (2, 19), (19, 10)]


def proj(res):
    return [res.status, sorted(res.headers), res.body.decode('utf-8', 'replace'),
            [str(e) for e in res.errors], repr(res.exc) if res.exc else None]


def pressure_reqs(n):
    from engine.drivers import Req
    return [Req('POST', b'/a/5', b'', [('X-Tag', 'w%d' % i), ('Content-Type', 'application/json; v=%d' % i)],
                b'{"v": %d}' % i) for i in range(n)]


def run_pair(pool, i, j, prologue, k, k2=None, record=False):
    """One schedule on a fresh app.  Returns (results, line counts, preemption points, infeasible)."""
    from engine.drivers import wsgi_call
    from engine import widesched
    app = build_app()
    for r in prologue:
        wsgi_call(app, r)
    w = widesched.Wide(os.environ.get('FALCON_ROOT', '/repo'), 2)
    w.record = record
    if hasattr(app._router, '_compile_lock'):
        app._router._compile_lock = widesched.WideLock(w)
    fns = [lambda: proj(wsgi_call(app, pool[i][1])), lambda: proj(wsgi_call(app, pool[j][1]))]
    sched = [(0, k), (1, k2), (0, None), (1, None)]
    res, counts, where = w.run(fns, sched)
    if record:
        where = [where[0], w.files[0]]
    return res, counts, where, w.infeasible


def serial_answers(pool):
    from engine.drivers import wsgi_call
    return [('ok', proj(wsgi_call(build_app(), r))) for _, r in pool]


def leg(ctx):
    from engine.core import MachineryError
    # ---- model ---------------------------------------------------------------------------------
    r = ctx.tlc('MC_SharedCache', 'MC_SharedCache.cfg', coverage=True, workers=4, timeout=300)
    ctx.require_coverage(r, ['Check', 'Use'])
    for cfg, inv in (('MC_SharedCache_TwoStep.cfg', 'NoRequestFails'), ('MC_SharedCache_Torn.cfg', 'SerialResponse'),
                     ('MC_SharedCache_SharedResult.cfg', 'SerialResponse')):
        w = ctx.tlc('MC_SharedCache', cfg, workers=4, timeout=300, must_hold=False, count=False)
        if w.violated != inv:
            raise MachineryError('wrong design %s does not violate %s with one preemption (got %r)' % (cfg, inv, w.violated))
        w0 = ctx.tlc('MC_SharedCache', cfg.replace('.cfg', '0.cfg'), workers=4, timeout=300, must_hold=False, count=False)
        if w0.violated:
            raise MachineryError('wrong design %s fails without any preemption: not a concurrency witness' % cfg)
    ctx.extra.setdefault('vacuity_witnesses', []).extend(['AtomicLookup=FALSE', 'TornStore=TRUE', 'SharedResult=TRUE'])

    pool = request_pool()
    serial = serial_answers(pool)
    names = [n for n, _ in pool]
    stats = {'schedules': 0, 'infeasible': 0, 'lines': {}}

    # the serial response must not depend on what the app served before (else the oracle is unsound)
    warm_all = [r for _, r in pool]
    from engine.drivers import wsgi_call
    app = build_app()
    for r in warm_all + pressure_reqs(70):
        wsgi_call(app, r)
    for idx, (n, r) in enumerate(pool):
        if ('ok', proj(wsgi_call(app, r))) != serial[idx]:
            ctx.violation('P:serial-answer', {'kind': 'history', 'request': n},
                          'request %r answered differently on an app that served other requests before '
                          '(no concurrency involved)' % n)

    prologues = {'first-requests': [], 'warm': warm_all}

    def prologue(pname):
        return prologues[pname] if pname in prologues else pressure_reqs(int(pname.split('-')[1]))

    global _JOB_ENV
    _JOB_ENV = (pool, prologue)

    def fan_out(jobs):
        """Run schedules in forked workers (each schedule builds its own app: runs are independent)."""
        import multiprocessing
        if not jobs:
            return []
        with multiprocessing.get_context('fork').Pool(min(14, max(1, len(jobs) // 20))) as mp:
            return mp.map(_job, jobs, chunksize=16)

    def judge(job, out):
        i, j, pname, k, k2 = job
        if isinstance(out, str):
            raise MachineryError('wide scheduler: %s' % out)
        res, counts, where, infeasible = out
        if k is None:
            modules[job[:3]] = where[1]
            where = [None, None]
        stats['schedules'] += 1
        stats['infeasible'] += 1 if infeasible else 0
        case = {'kind': 'wide', 'requests': [names[i], names[j]], 'prologue': pname, 'k': k, 'k2': k2,
                'stopped_at': where[0]}
        ctx.case(case, nontrivial=where[0] is not None, key=('W', i, j, pname, k, k2))
        for t, idx in ((0, i), (1, j)):
            if res[t] != serial[idx]:
                ctx.violation('P:serial-answer', dict(case, got=res[t], serial=serial[idx]),
                              'request %r (thread %d), with a thread switch at %s, got a response that differs '
                              'from its serial response' % (names[idx], t, where[0]))
                break
        return counts

    # pass 1: no preemption (also measures how many falcon lines each request executes)
    base = [(i, j, pname, None, None) for (i, j) in PAIRS for pname in ('first-requests', 'warm')]
    levels = list(CAP_WINDOW) if not ctx.quick else [60, 61, 62, 63, 64, 65, 66]
    base += [(i, j, 'pressure-%d' % lv, None, None) for (i, j) in PRESSURE_PAIRS[:ctx.pick(2, 4)] for lv in levels]
    lines = {}
    modules = {}
    for job, out in zip(base, fan_out(base)):
        counts = judge(job, out)
        lines[job[:3]] = counts
        stats['lines'][names[job[0]] + ' / ' + job[2].split('-')[0]] = counts[0]
    # pass 2: one preemption before every k-th falcon line of the first request
    jobs = []
    for n, (i, j, pname, _, _) in enumerate(base):
        # quick: the lazy router compilation (about 3/4 of a first request's lines) has its own legs at finer grain
        thin = ctx.pick(8, 1)
        off = (ctx.seed + n) % thin
        mods = modules[(i, j, pname)]
        jobs += [(i, j, pname, k, None) for k in range(1, lines[(i, j, pname)][0] + 1)
                 if mods[k - 1][0] != 'routing/compiled.py' or k % thin == off]
    # pass 3: two preemptions, sampled
    for _ in range(ctx.pick(400, 20000)):
        i, j, pname, _, _ = ctx.rng.choice(base)
        n0, n1 = lines[(i, j, pname)]
        jobs.append((i, j, pname, ctx.rng.randint(1, n0), ctx.rng.randint(1, n1)))
    # pass 4: two preemptions around the lazy router compilation of first-ever requests: thread 0 is stopped at a
    # shallow point of routing/compiled.py (in find / the function that takes the lock / a helper that just
    # returned), thread 1 runs into its own compilation and is stopped there, thread 0 goes on
    shallow = 0
    for (i, j) in [(0, 1), (5, 6), (8, 9), (24, 25)][:ctx.pick(2, 4)]:
        m0 = modules[(i, j, 'first-requests')]
        m1 = modules[(j, i, 'first-requests')] if (j, i, 'first-requests') in modules else m0
        rd = [d for (f, fn, d, kd) in m0 if f == 'routing/compiled.py']
        if not rd:
            continue
        top = min(rd)
        k1s = [k + 1 for k, (f, fn, d, kd) in enumerate(m0) if f == 'routing/compiled.py' and d <= top + 2]
        k2s = [k + 1 for k, (f, fn, d, kd) in enumerate(m1) if f == 'routing/compiled.py'][::ctx.pick(12, 3)]
        shallow += len(k1s)
        jobs4 = [(i, j, 'first-requests', a, b) for a in k1s for b in k2s]
        jobs += jobs4
    for job, out in zip(jobs, fan_out(jobs)):
        judge(job, out)
    ctx.extra['wide'] = {'router_shallow_points': shallow, 'schedules': stats['schedules'], 'lock_reordered': stats['infeasible'],
                         'lines_per_request': stats['lines'], 'capacity_levels': levels}
    ctx.traces_validated += stats['schedules']
    ctx.progress('wide leg done: %d schedules (every falcon source line as a preemption point)' % stats['schedules'])


_JOB_ENV = None


def _job(job):
    pool, prologue = _JOB_ENV
    i, j, pname, k, k2 = job
    try:
        return run_pair(pool, i, j, prologue(pname), k, k2, record=(k is None))
    except RuntimeError as ex:
        return 'RuntimeError: %s' % ex


def replay(ctx, case):
    pool = request_pool()
    names = [n for n, _ in pool]
    i, j = [names.index(n) for n in case['requests']]
    pn = case['prologue']
    pro = [] if pn == 'first-requests' else [r for _, r in pool] if pn == 'warm' else pressure_reqs(int(pn.split('-')[1]))
    serial = serial_answers(pool)
    res, counts, where, _ = run_pair(pool, i, j, pro, case['k'], case.get('k2'))
    for t, idx in ((0, i), (1, j)):
        same = res[t] == serial[idx]
        print(names[idx], 'SAME' if same else 'DIFF', res[t], serial[idx])
        if not same:
            ctx.violation('P:serial-answer', case, 'request %r differs from its serial response' % names[idx])
