"""C20 - the built-in CORS policy grants exactly the configured origins.

spec:   spec/Cors.tla (policy = Process over Dispatch!Outcome; wiring / guard / other-middleware actions; one
        invariant per clause), spec/MC_Cors.tla (bounded instance + decision-table export), spec/CorsTrace.tla
legs:   M  exhaustive TLC check: every clause of the property in every cell config x origin x method x target x
           user-code behaviour x other middleware (+ the wrong design "wildcard together with credentials" must FAIL)
        A  every cell TLC reaches is replayed through a real falcon.App and falcon.asgi.App (cors_enable=True or an
           explicit CORSMiddleware(..)), the final Access-Control-* / Allow headers compared with the TLC row
        B  random CORS configurations (more origins, every accepted argument form) on random apps (C02's generator)
           with random requests; traces judged by TLC (CorsTrace)
"""
import os

META = {
    'property_id': 'C20',
    'design_ref': 'DESIGN.md section 4, C20',
    'technique': 'TLA+ CORS decision table over the dispatch specification, model-checked with TLC; every TLC-computed '
                 'cell replayed on real WSGI+ASGI apps; traces of random configurations judged by TLC',
    'level_text': 'spec/Cors.tla defines the final Access-Control-*/Allow headers for every configuration, request and '
                  'exchange outcome (the latter derived from Dispatch!Outcome); TLC checks each clause of the property in '
                  'every cell of the bounded table and rejects the wildcard-with-credentials design.  Every cell is then '
                  'replayed through real apps on both stacks and compared header by header; random configurations and apps '
                  'beyond the table are recorded and judged by TLC.',
    'level_note': 'Bounded table: 4 allow_origins (wildcard, one, two, EMPTY collection) x 4 allow_credentials x 2 (quick) / 3 '
                  '(thorough) expose_headers (+ cors_enable default), 6 origins (absent, allowed, other-case, proper part, '
                  'disallowed), 3 methods x 5 targets (routed, own on_options, sink, static, unrouted), 15 user-code '
                  'behaviours (returning normally with/without Allow and pre-set headers; answering by RAISING: HTTPError, '
                  'HTTPStatus 200/301/403/503 with Allow in the exception headers or on resp, without Allow, a plain exception '
                  'with a registered handler - none of which counts as succeeded), preflight headers present/absent, one other '
                  'middleware (failing response hook / completing request hook, before/after) for 3 (quick) / all (thorough) '
                  'configurations.  Every spelling of an empty collection (list, tuple, set, frozenset, empty string, None where '
                  'accepted) is rotated by the harness for allow_origins / allow_credentials / expose_headers.  Wrong designs '
                  'rejected by TLC: wildcard with credentials, empty-means-all, raised-HTTPStatus-counts-as-success.  '
                  'Interpretation: a grant is an Access-Control-Allow-Origin header in the final response; the credentials '
                  'header a denied preflight leaves behind (without origin header) grants nothing and is a D-clause; requests '
                  'never carry an empty Origin value.  Trusted: TLC, engine/drivers.py, splitting header values on commas.',
}

from engine.core import MachineryError, digest
from checks import c02

LEGS = os.environ.get('VERIF_LEGS', 'MAB')

HDRS = {'acao': 'access-control-allow-origin', 'acac': 'access-control-allow-credentials',
        'aceh': 'access-control-expose-headers', 'acam': 'access-control-allow-methods',
        'acah': 'access-control-allow-headers', 'acma': 'access-control-max-age', 'allow': 'allow'}


class HarnessError(Exception):
    """a plain exception for which every generated app registers an error handler (answers 409)"""


def register_handler(app, asgi):
    import falcon
    if asgi:
        async def handle(req, resp, ex, params):
            resp.status = falcon.HTTP_409
    else:
        def handle(req, resp, ex, params):
            resp.status = falcon.HTTP_409
    app.add_error_handler(HarnessError, handle)


def act(req, resp):
    """the behaviours of generated user code (spec/Cors.tla: Behaviours / Preset), selected by the request"""
    import falcon
    beh = req.get_header('X-Beh') or 'plain'
    if beh == 'fail':
        raise falcon.HTTPForbidden()
    # answering by raising: HTTPStatus of every class of status code, HTTPError, a handled plain exception;
    # Allow made known through the exception's headers or on resp before raising
    if beh == 'st2allow':
        raise falcon.HTTPStatus(falcon.HTTP_200, headers={'Allow': 'GET, POST'})
    if beh == 'st5':
        raise falcon.HTTPStatus(falcon.HTTP_503)
    if beh == 'st5allow':
        raise falcon.HTTPStatus(falcon.HTTP_503, headers={'Allow': 'GET, POST'})
    if beh == 'exc':
        raise HarnessError()
    if beh in ('allow', 'allowacao', 'st3allow', 'st4allow', 'errallow', 'excallow'):
        resp.set_header('Allow', 'GET, POST')
    if beh == 'st3allow':
        raise falcon.HTTPMovedPermanently('/elsewhere')
    if beh == 'st4allow':
        raise falcon.HTTPStatus(falcon.HTTP_403)
    if beh == 'errallow':
        raise falcon.HTTPForbidden()
    if beh == 'excallow':
        raise HarnessError()
    if beh in ('acao', 'allowacao', 'presetall'):
        resp.set_header('Access-Control-Allow-Origin', 'https://preset.example')
    if beh in ('acac', 'presetall'):
        resp.set_header('Access-Control-Allow-Credentials', 'true')
    if beh == 'presetall':
        resp.set_header('Access-Control-Expose-Headers', 'X-Pre')
        resp.set_header('Access-Control-Allow-Methods', 'PUT')
        resp.set_header('Access-Control-Allow-Headers', 'X-Pre-H')
        resp.set_header('Access-Control-Max-Age', '5')


def other_middleware(kind, asgi):
    import falcon
    if kind == 'respfail':
        if asgi:
            class RespFail:
                async def process_response(self, req, resp, resource, req_succeeded):
                    raise falcon.HTTPForbidden()
        else:
            class RespFail:
                def process_response(self, req, resp, resource, req_succeeded):
                    raise falcon.HTTPForbidden()
        return RespFail()
    if kind == 'complete':
        if asgi:
            class Complete:
                async def process_request(self, req, resp):
                    resp.complete = True
        else:
            class Complete:
                def process_request(self, req, resp):
                    resp.complete = True
        return Complete()
    raise MachineryError('unknown middleware kind %r' % kind)


# every way of writing "nothing": an empty allow_origins allows NO origin (it is not the wildcard)
EMPTY_AO = ([], (), set(), frozenset(), '')
EMPTY_AC = (None, [], (), set(), frozenset(), '')
EMPTY_EH = (None, [], (), '')


def cors_args(cfg, rng=None, variant=0):
    """spec-level configuration -> CORSMiddleware keyword arguments (forms vary with rng, or with `variant`)"""
    def pick(forms, k):
        return rng.choice(forms) if rng is not None else forms[(variant + k) % len(forms)]

    def form(x, none_ok):
        if x['star']:
            return '*'
        items = sorted(x['set'])
        if not items:
            return pick(EMPTY_AC, 1) if none_ok else pick(EMPTY_AO, 0)
        if len(items) == 1 and (rng is None or rng.random() < 0.5):
            return items[0]
        if rng is None:
            return list(items)
        return rng.choice((list, tuple, set, frozenset))(items)
    kw = {'allow_origins': form(cfg['ao'], False), 'allow_credentials': form(cfg['ac'], True)}
    eh = list(cfg['eh'])
    if not eh:
        kw['expose_headers'] = pick(EMPTY_EH, 2)
    elif len(eh) == 1 and (rng is None or rng.random() < 0.5):
        kw['expose_headers'] = eh[0]
    elif rng is not None and rng.random() < 0.3:
        kw['expose_headers'] = ', '.join(eh)
    else:
        kw['expose_headers'] = eh if rng is None or rng.random() < 0.5 else tuple(eh)
    if rng is not None:     # defaults may be left out
        if kw['allow_origins'] == '*' and rng.random() < 0.5:
            del kw['allow_origins']
        if kw['allow_credentials'] is None and rng.random() < 0.5:
            del kw['allow_credentials']
        if kw['expose_headers'] is None and rng.random() < 0.5:
            del kw['expose_headers']
    return kw


def build(asgi, sbs, wiring, cfg, other, dirs, rng=None, variant=0):
    """-> (Built, guard_fired).  cors_enable=True or explicit middleware; the other middleware listed
    before / after the CORS one through the public constructor / add_middleware"""
    from falcon import CORSMiddleware
    oth = other_middleware(other['kind'], asgi) if other['kind'] != 'none' else None
    if wiring == 'enable':
        if oth is not None and other['pos'] == 'before':
            b = c02.Built(asgi, sbs, dirs, act, cors_enable=True, middleware=[oth])
        else:
            b = c02.Built(asgi, sbs, dirs, act, cors_enable=True)
            if oth is not None:
                b.app.add_middleware(oth)
    elif wiring == 'explicit':
        cm = CORSMiddleware(**cors_args(cfg, rng, variant))
        mws = [cm] if oth is None else ([oth, cm] if other['pos'] == 'before' else [cm, oth])
        b = c02.Built(asgi, sbs, dirs, act, middleware=mws)
    else:
        b = c02.Built(asgi, sbs, dirs, act)
    register_handler(b.app, asgi)
    return b


def guard_fires(b):
    from falcon import CORSMiddleware
    try:
        b.app.add_middleware(CORSMiddleware())
    except ValueError:
        return True
    return False


def project(res):
    def one(name):
        vals = res.header_all(HDRS[name])
        return '-' if not vals else ', '.join(vals)

    def as_set(name):
        vals = res.header_all(HDRS[name])
        if not vals:
            return {'has': False, 'v': []}
        return {'has': True, 'v': sorted({x.strip() for x in ','.join(vals).split(',') if x.strip()})}
    eh = res.header_all(HDRS['aceh'])
    return {'acao': one('acao'), 'acac': one('acac'), 'aceh': [x.strip() for x in ','.join(eh).split(',')] if eh else [],
            'acam': as_set('acam'), 'acah': one('acah'), 'acma': one('acma'), 'allow': as_set('allow')}


def req_headers(rq, beh):
    hs = []
    if rq['origin'] != '-':
        hs.append(('Origin', rq['origin']))
    if rq['acrm'] != '-':
        hs.append(('Access-Control-Request-Method', rq['acrm']))
    if rq['acrh'] != '-':
        hs.append(('Access-Control-Request-Headers', rq['acrh']))
    if beh != 'plain':
        hs.append(('X-Beh', beh))
    return hs


def norm_out(out):
    o = dict(out)
    o['acam'] = {'has': out['acam']['has'], 'v': sorted(out['acam']['v'])}
    o['allow'] = {'has': out['allow']['has'], 'v': sorted(out['allow']['v'])}
    o['aceh'] = list(out['aceh'])
    return o


def compare(want, got, denied):
    """-> None | (clause, what); `want` and `denied` (this is a denied preflight) come from TLC"""
    for f, clause in (('acao', 'P:acao'), ('acac', 'P:acac'), ('aceh', 'P:aceh'), ('acam', 'P:preflight'),
                      ('acah', 'P:preflight'), ('acma', 'P:preflight'), ('allow', 'P:allow')):
        if want[f] != got[f]:
            if f == 'acac' and denied:
                clause = 'D:leftover-credentials'
            return clause, '%s: expected %r, observed %r (all expected %r, all observed %r)' % (HDRS[f], want[f], got[f],
                                                                                              want, got)
    return None


def app_calls(app):
    """the fixed app of the TLC instance (exported by TLC) -> assembly calls for c02.Built"""
    calls = []
    for e in sorted(app['routes'], key=lambda e: e['rid']):
        calls.append(c02.EV('route', id=e['rid'], tmpl=e['tmpl'], sfx=e['sfx'],
                            plain=e['impl'] if not e['sfx'] else [], sfxm=e['impl'] if e['sfx'] else []))
    for s in reversed(app['sinks']):
        calls.append(c02.EV('sink', id=s['id'], pat=s['pat']))
    for s in reversed(app['statics']):
        calls.append(c02.EV('static', id=s['id'], prefix=s['prefix'], fb=s['fb']))
    return calls


def run(ctx):
    ctx.rule = ('case = (wiring, CORS configuration, other middleware, stack, origin, method, target, preflight headers, '
                'user-code behaviour); non-trivial iff the request carries an Origin header; distinct by hash of the case')
    ctx.trusted_base = ['TLC 1.8 evaluation of spec/Cors.tla + spec/Dispatch.tla', 'engine/drivers.py',
                        'comma splitting of header values']
    ctx.assumptions = ['a grant is an Access-Control-Allow-Origin header in the final response; a credentials header without '
                       'it grants nothing (the code leaves one behind on a denied preflight: modelled, D-clause)',
                       'NoWildcardWithCredentials / CredentialsOnlyIfConfigured speak about headers the middleware adds; '
                       'headers pre-set by the responder are kept as they are',
                       'the exchange outcome (succeeded?, Allow advertised?) is derived from Dispatch!Outcome (C02)']
    dirs = c02.StaticDirs()
    try:
        table = leg_m(ctx) if 'M' in LEGS else None
        if 'A' in LEGS:
            leg_a(ctx, dirs, table)
        if 'B' in LEGS:
            leg_b(ctx, dirs)
    finally:
        dirs.close()


def leg_m(ctx):
    # the same exhaustive run checks the clauses and prints the decision table (no history variable involved)
    r = ctx.tlc('MC_Cors', ctx.pick('MC_Cors.cfg', 'MC_CorsFull.cfg'), coverage=True, workers=8, timeout=ctx.pick(280, 2400))
    ctx.require_coverage(r, ['MakeEnable', 'MakeExplicit', 'AddCorsAgainRejected', 'XAddOther', 'XExchangeOne'])
    wrong = (('MC_CorsWrong.cfg', 'StarWithCreds=TRUE', ('NoWildcardWithCredentials',)),
             # fails only if the instance really contains an empty allow_origins collection and an Origin
             ('MC_CorsWrongEmpty.cfg', 'EmptyMeansAll=TRUE', ('OnlyAllowedOrigins', 'GrantIsEchoOrStar',
                                                              'CredentialsOnlyIfConfigured')),
             # fails only if the instance really contains a preflight answered by a raised HTTPStatus with Allow
             ('MC_CorsWrongStatus.cfg', 'StatusSucceeds=TRUE', ('NoApprovalAfterRaise',)))
    for cfg, switch, want in wrong:
        rw = ctx.tlc('MC_Cors', cfg, workers=4, timeout=300, must_hold=False, count=False)
        if rw.violated not in want:
            raise MachineryError('vacuity: %s should violate %s, TLC reported %r' % (switch, want, rw.violated))
    ctx.extra['wrong_design_instances_rejected'] = ['%s -> %s' % (sw, '/'.join(w)) for _, sw, w in wrong]
    ctx.progress('leg M done: %d states' % r.distinct)
    return r.json


def leg_a(ctx, dirs, table=None):
    if table is None:
        table = ctx.tlc('MC_Cors', 'MC_CorsA.cfg', workers=4, timeout=ctx.pick(280, 1200), count=False).json
    apps = [b for b in table if 'app' in b]
    if len({digest(a) for a in apps}) != 1:
        raise MachineryError('expected exactly one exported app, got %d' % len(apps))
    app = apps[0]['app']
    calls = app_calls(app)
    groups = {}
    for row in table:
        if 'rq' in row:
            key = c02_key(row)
            groups.setdefault(key, []).append(row)
    # the table must really contain what the two newest clauses are about (an empty allow_origins collection with an
    # Origin; a preflight answered by a raised HTTPStatus that makes Allow known)
    n_empty = sum(1 for rows in groups.values() for r in rows
                  if not r['cfg']['ao']['star'] and not r['cfg']['ao']['set'] and r['rq']['origin'] != '-')
    n_status = sum(1 for rows in groups.values() for r in rows
                   if r['beh'] in ('st2allow', 'st3allow', 'st4allow', 'st5allow') and r['rq']['m'] == 'OPTIONS'
                   and r['rq']['acrm'] != '-' and r['rq']['origin'] != '-')
    if not n_empty or not n_status:
        raise MachineryError('decision table lacks empty-allow_origins cells (%d) or raised-HTTPStatus preflights (%d)'
                             % (n_empty, n_status))
    ctx.extra['cells_with_empty_allow_origins'] = n_empty
    ctx.extra['preflights_answered_by_raised_HTTPStatus'] = n_status
    del table
    # quick: every cell on WSGI, a seeded third of the cells on ASGI as well; thorough: every cell on both stacks
    third = ctx.rng.randrange(3)
    cells = 0
    for key in sorted(groups):
        rows = groups[key]
        first = rows[0]
        for asgi in (False, True):
            variant = int(key, 16) + asgi + ctx.seed      # which spelling of "nothing" (empty collections) is used
            b = build(asgi, app['sbs'], first['wiring'], first['cfg'], first['other'], dirs, variant=variant)
            for c in calls:
                ok, exn = b.call(c)
                if not ok:
                    raise MachineryError('fixed app could not be assembled: %r %s' % (c, exn))
            if first['guard']:
                if not guard_fires(b):
                    ctx.detail('D:guard', {'wiring': first['wiring']}, 'add_middleware(CORSMiddleware()) on a cors_enable '
                                  'app did not raise: two CORS middlewares now process every response')
            if asgi and ctx.quick:
                rows = [r for i, r in enumerate(rows) if i % 3 == third]
            reqs = [(r['rq']['m'], c02.text(r['rq']['p'])) for r in rows]
            hdrs = [req_headers(r['rq'], r['beh']) for r in rows]
            obs = c02.run_requests(b, reqs, hdrs, project)
            for r, o in zip(rows, obs):
                cells += 1
                case = {'wiring': r['wiring'], 'cfg': r['cfg'], 'other': r['other'], 'guard': r['guard'], 'asgi': asgi,
                        'variant': variant,
                        'sbs': app['sbs'], 'app': app, 'rq': r['rq'], 'beh': r['beh'], 'expected': norm_out(r['out']),
                        'denied': r['denied']}
                ctx.case(case, nontrivial=r['rq']['origin'] != '-', key=(key, asgi, digest([r['rq'], r['beh']])))
                if o['problem']:
                    ctx.violation('P:exception', case, o['problem'])
                    continue
                d = compare(case['expected'], o['extra'], r['denied'])
                if d:
                    case['observed'] = o['extra']
                    what = '%s %s Origin=%s acrm=%s beh=%s on %s app, %s %s, other=%s: %s' % (
                        r['rq']['m'], c02.text(r['rq']['p']), r['rq']['origin'], r['rq']['acrm'], r['beh'],
                        'ASGI' if asgi else 'WSGI', r['wiring'], cors_args(r['cfg'], None, variant), r['other'], d[1])
                    if d[0].startswith('D:'):
                        ctx.detail(d[0], case, what)
                    else:
                        ctx.violation(d[0], case, what)
    ctx.traces_validated += cells
    ctx.extra['cells_replayed'] = cells
    ctx.extra['configurations'] = len(groups)
    ctx.exhaustive = True
    ctx.progress('leg A: %d configurations, %d cells replayed (both stacks)' % (len(groups), cells))


def c02_key(row):
    return digest([row['wiring'], row['cfg'], row['other'], row['guard']])


# ---------------------------------------------------------------------------------------------
ORIGINS = ['https://a.example', 'https://b.example', 'https://c.example:8443', 'http://a.example', 'null',
           'https://evil.example', 'HTTPS://A.EXAMPLE', 'https://a.exam', 'https://a.example.evil.test', 'a']
BEHS = ['plain', 'plain', 'plain', 'allow', 'allow', 'acao', 'acac', 'allowacao', 'presetall', 'fail',
        'st2allow', 'st3allow', 'st4allow', 'st5', 'st5allow', 'errallow', 'exc', 'excallow']
EXPOSE = ['X-A', 'X-B', 'ETag', 'X-Request-Id']


NO_HDR = {'acao': '-', 'acac': '-', 'aceh': [], 'acam': {'has': False, 'v': []}, 'acah': '-', 'acma': '-',
          'allow': {'has': False, 'v': []}}


def gen_cfg(rng):
    def origins(allow_empty):
        r = rng.random()
        if r < 0.3:
            return {'star': True, 'set': []}
        k = rng.randint(0 if allow_empty else 1, 4)
        return {'star': False, 'set': sorted(rng.sample(ORIGINS[:7], k))}
    eh = rng.sample(EXPOSE, rng.choice((0, 0, 1, 2, 3)))
    ao = origins(False) if rng.random() < 0.85 else {'star': False, 'set': []}     # an empty collection: nobody
    return {'ao': ao, 'ac': origins(True), 'eh': eh}


def leg_b(ctx, dirs):
    rng = ctx.rng
    nsc = ctx.pick(250, 3000)
    seen = {}
    nreq = 0
    default = {'ao': {'star': True, 'set': []}, 'ac': {'star': False, 'set': []}, 'eh': []}
    for i in range(nsc):
        sc = c02.gen_scenario(rng)
        wiring = 'enable' if rng.random() < 0.2 else 'explicit'
        cfg = default if wiring == 'enable' else gen_cfg(rng)
        other = {'kind': 'none', 'pos': 'before'}
        if rng.random() < 0.25:
            other = {'kind': rng.choice(('respfail', 'complete')), 'pos': rng.choice(('before', 'after'))}
        # decorate the scenario's requests
        steps = []
        for st in sc['steps']:
            if isinstance(st, tuple):
                m = st[1] if rng.random() < 0.6 else 'OPTIONS'
                origin = rng.choice(cfg['ao']['set'] + cfg['ac']['set'] + ORIGINS + ['-', '-']) if rng.random() < 0.9 else '-'
                rq = {'origin': origin, 'm': m, 'p': st[2], 'acrm': rng.choice(('-', 'POST', 'DELETE', 'GET')),
                      'acrh': rng.choice(('-', '-', 'X-Q, Y', 'content-type'))}
                steps.append(('req', rq, rng.choice(BEHS)))
            else:
                steps.append(st)
        seed = rng.random()
        for asgi in (False, True):
            import random as _random
            b = build(asgi, sc['sbs'], wiring, cfg, other, dirs, _random.Random(seed))
            evs = []
            pend = []

            def flush():
                if not pend:
                    return
                obs = c02.run_requests(b, [(rq['m'], rq['p']) for rq, _ in pend], [req_headers(rq, beh) for rq, beh in pend],
                                       project)
                for (rq, beh), o in zip(pend, obs):
                    e = c02.EV('req', m=rq['m'], p=c02.cps(rq['p']))
                    e['obs']['bad'] = bool(o['problem'])
                    e.update(origin=rq['origin'], acrm=rq['acrm'], acrh=rq['acrh'], beh=beh, hdr=o['extra'],
                             problem=o['problem'])
                    evs.append(e)
                del pend[:]
            for st in steps:
                if isinstance(st, tuple):
                    pend.append((st[1], st[2]))
                else:
                    flush()
                    ok, exn = b.call(st)
                    e = dict(st)
                    e['ok'] = ok
                    e.update(origin='-', acrm='-', acrh='-', beh='plain', hdr=NO_HDR)
                    evs.append(e)
            flush()
            tr = {'sbs': sc['sbs'], 'wiring': wiring, 'cfg': cfg, 'other': other, 'ev': evs}
            for e in evs:
                if e['op'] == 'req':
                    nreq += 1
                    ctx.case({'asgi': asgi, 'cfg': cfg, 'origin': e['origin'], 'm': e['m'], 'p': c02.text(e['p'])},
                             nontrivial=e['origin'] != '-', key=('B', i, asgi, len(evs), nreq))
            k = digest(tr)
            if k not in seen:
                seen[k] = (tr, asgi)
    ctx.progress('leg B: %d scenarios x 2 stacks, %d requests, %d distinct traces' % (nsc, nreq, len(seen)))
    items = list(seen.values())
    verdicts = ctx.judge('CorsTrace', [t for t, _ in items], workers=ctx.pick(8, 16), timeout=ctx.pick(280, 1500), chunk=1000)
    for (tr, asgi), v in zip(items, verdicts):
        if v == 'ok':
            continue
        clause, at = v.split('@')
        at = int(at)
        ev = tr['ev'][at - 1] if 0 < at <= len(tr['ev']) else {}
        case = {'asgi': asgi, 'trace': dict(tr, ev=tr['ev'][:at])}
        what = 'trace of a random %s app (%s %s, other=%s) rejected by CorsTrace at event %d: %s %s Origin=%s acrm=%s beh=%s ' \
               'observed %r %s' % ('ASGI' if asgi else 'WSGI', tr['wiring'], tr['cfg'], tr['other'], at, ev.get('m'),
                                   c02.text(ev.get('p', [])), ev.get('origin'), ev.get('acrm'), ev.get('beh'), ev.get('hdr'),
                                   ev.get('problem', ''))
        if clause.startswith('H:'):
            raise MachineryError('harness generated an invalid scenario: %s' % what)
        if clause.startswith('D:'):
            ctx.detail(clause, case, what)
        else:
            ctx.violation(clause, case, what)
    ctx.extra['random_scenarios'] = nsc
    ctx.extra['distinct_traces_judged'] = len(items)


def replay(ctx, case):
    dirs = c02.StaticDirs()
    try:
        if 'trace' in case:
            tr = case['trace']
            b = build(case['asgi'], tr['sbs'], tr['wiring'], tr['cfg'], tr['other'], dirs)
            for e in tr['ev']:
                if e['op'] != 'req':
                    print('assembly', e['op'], b.call(e))
            e = tr['ev'][-1]
            rq = {'origin': e['origin'], 'm': e['m'], 'p': c02.text(e['p']), 'acrm': e['acrm'], 'acrh': e['acrh']}
            o = c02.run_requests(b, [(rq['m'], rq['p'])], [req_headers(rq, e['beh'])], project)[0]
            e2 = dict(e, hdr=o['extra'])
            print('observed:', o['extra'])
            v = ctx.judge('CorsTrace', [dict(tr, ev=tr['ev'][:-1] + [e2])], workers=1)[0]
            print('verdict:', v)
            if v != 'ok' and v.startswith('P:'):
                ctx.violation(v.split('@')[0], case, 'trace rejected at %s' % v)
            return
        b = build(case['asgi'], case['sbs'], case['wiring'], case['cfg'], case['other'], dirs, variant=case.get('variant', 0))
        for c in app_calls(case['app']):
            b.call(c)
        rq = case['rq']
        o = c02.run_requests(b, [(rq['m'], c02.text(rq['p']))], [req_headers(rq, case['beh'])], project)[0]
        print('observed:', o['extra'])
        print('expected:', case['expected'])
        d = compare(case['expected'], o['extra'], case.get('denied', False))
        if d and not d[0].startswith('D:'):
            ctx.violation(d[0], case, d[1])
    finally:
        dirs.close()
