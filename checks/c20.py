"""C20 - the built-in CORS policy grants exactly the configured origins.

spec:   spec/Cors.tla (policy = Process over Dispatch!Outcome; wiring / guard / other-middleware actions; one
        invariant per clause), spec/MC_Cors.tla (bounded instance + decision-table export), spec/CorsTrace.tla
legs:   M  exhaustive TLC check: every clause of the property in every cell config x origin x method x target x
           user-code behaviour x other middleware (+ the wrong design "wildcard together with credentials" must FAIL)
        A  every cell TLC reaches is replayed through a real falcon.App and falcon.asgi.App (cors_enable=True or an
           explicit CORSMiddleware(..)), the final Access-Control-* / Allow headers compared with the TLC row
           + spec/MC_CorsObj.tla: Configure in every container form, CallerMutates between requests, request histories on
           one middleware (exhaustive small, simulated larger); every simulated history replayed on both stacks (leg_obj)
        B  random CORS configurations (more origins, every accepted argument form) on random apps (C02's generator)
           with random requests and caller mutations of the passed sets / lists in between; traces judged by TLC (CorsTrace)
"""
import os

META = {
    'property_id': 'C20',
    'design_ref': 'DESIGN.md section 4, C20',
    'technique': 'TLA+ CORS decision table over the dispatch specification, model-checked with TLC; every TLC-computed '
                 'cell replayed on real WSGI+ASGI apps; traces of random configurations judged by TLC',
    'level_text': 'spec/Cors.tla defines the final Access-Control-*/Allow headers for every configuration, request and '
                  'exchange outcome (the latter derived from Dispatch!Outcome); TLC checks each clause of the property in '
                  'every cell of the bounded table and rejects the wildcard-with-credentials design.  Every cell is then '
                  'replayed through real apps on both stacks and compared header by header; random configurations and apps '
                  'beyond the table are recorded and judged by TLC.',
    'level_note': 'Bounded table: 4 allow_origins (wildcard, one, two, EMPTY collection) x 4 allow_credentials x 2 (quick) / 3 '
                  '(thorough) expose_headers (+ cors_enable default), 6 origins (absent, allowed, other-case, proper part, '
                  'disallowed), 3 methods x 5 targets (routed, own on_options, sink, static, unrouted), 15 user-code '
                  'behaviours (returning normally with/without Allow and pre-set headers; answering by RAISING: HTTPError, '
                  'HTTPStatus 200/301/403/503 with Allow in the exception headers or on resp, without Allow, a plain exception '
                  'with a registered handler - none of which counts as succeeded), preflight headers present/absent, one other '
                  'middleware (failing response hook / completing request hook, before/after) for 3 (quick) / all (thorough) '
                  'configurations.  Every spelling of an empty collection (list, tuple, set, frozenset, empty string, None where '
                  'accepted) is rotated by the harness for allow_origins / allow_credentials / expose_headers.  Wrong designs '
                  'rejected by TLC: wildcard with credentials, empty-means-all, raised-HTTPStatus-counts-as-success.  '
                  'Configuration as state (spec/Cors.tla Configure / ConfigureRejected / CallerMutates, instance '
                  'spec/MC_CorsObj.tla): each of allow_origins / allow_credentials / expose_headers is handed over as \'*\', None, one '
                  'string, set, frozenset, list, tuple, generator or dict key view (every form of one option against 2 (quick) / 3 '
                  '(thorough) forms of the other two; \'*\' inside an iterable is refused at construction, D-clause when accepted); '
                  'between requests the caller adds / removes an origin, adds \'*\', appends / removes an exposed header on the very '
                  'object it passed (mutable forms); requests include origins added to / removed from that object after '
                  'construction.  Several requests on one middleware (Exchange, NextRequest): 4 origins x plain / preflight / '
                  'unrouted; exhaustive with 2 requests + 1 mutation and 8 requests (quick) or 3 requests + 2 mutations and 16 '
                  'requests (thorough), simulated with 4 requests + up to 3 mutations; clauses GrantFunctionOfConfigAndRequest '
                  '(final headers = Process(configuration at construction, this request)) and all older clauses on every exchange; '
                  'wrong designs AliasCallerSet and MemoDecision rejected by TLC.  Simulated histories (a seeded sample of ~1100, '
                  'equal share per constructor call, in quick; all ~13000 in thorough) are replayed on both stacks; random traces '
                  'carry "mutate" events (sets / lists the harness passed) that the judge applies to the caller object only.  Not '
                  'covered: mutation of the middleware\'s own attributes, concurrent mutation during a request, user-code behaviours '
                  'other than "plain" inside the object histories.  '
                  'Interpretation: a grant is an Access-Control-Allow-Origin header in the final response; the credentials '
                  'header a denied preflight leaves behind (without origin header) grants nothing and is a D-clause; requests '
                  'never carry an empty Origin value.  Trusted: TLC, engine/drivers.py, splitting header values on commas.',
}

from engine.core import MachineryError, digest
from checks import c02

LEGS = os.environ.get('VERIF_LEGS', 'MAB')

HDRS = {'acao': 'access-control-allow-origin', 'acac': 'access-control-allow-credentials',
        'aceh': 'access-control-expose-headers', 'acam': 'access-control-allow-methods',
        'acah': 'access-control-allow-headers', 'acma': 'access-control-max-age', 'allow': 'allow'}


class HarnessError(Exception):
    """a plain exception for which every generated app registers an error handler (answers 409)"""


def register_handler(app, asgi):
    import falcon
    if asgi:
        async def handle(req, resp, ex, params):
            resp.status = falcon.HTTP_409
    else:
        def handle(req, resp, ex, params):
            resp.status = falcon.HTTP_409
    app.add_error_handler(HarnessError, handle)


def act(req, resp):
    """the behaviours of generated user code (spec/Cors.tla: Behaviours / Preset), selected by the request"""
    import falcon
    beh = req.get_header('X-Beh') or 'plain'
    if beh == 'fail':
        raise falcon.HTTPForbidden()
    # answering by raising: HTTPStatus of every class of status code, HTTPError, a handled plain exception;
    # Allow made known through the exception's headers or on resp before raising
    if beh == 'st2allow':
        raise falcon.HTTPStatus(falcon.HTTP_200, headers={'Allow': 'GET, POST'})
    if beh == 'st5':
        raise falcon.HTTPStatus(falcon.HTTP_503)
    if beh == 'st5allow':
        raise falcon.HTTPStatus(falcon.HTTP_503, headers={'Allow': 'GET, POST'})
    if beh == 'exc':
        raise HarnessError()
    if beh in ('allow', 'allowacao', 'st3allow', 'st4allow', 'errallow', 'excallow'):
        resp.set_header('Allow', 'GET, POST')
    if beh == 'st3allow':
        raise falcon.HTTPMovedPermanently('/elsewhere')
    if beh == 'st4allow':
        raise falcon.HTTPStatus(falcon.HTTP_403)
    if beh == 'errallow':
        raise falcon.HTTPForbidden()
    if beh == 'excallow':
        raise HarnessError()
    if beh in ('acao', 'allowacao', 'presetall'):
        resp.set_header('Access-Control-Allow-Origin', 'https://preset.example')
    if beh in ('acac', 'presetall'):
        resp.set_header('Access-Control-Allow-Credentials', 'true')
    if beh == 'presetall':
        resp.set_header('Access-Control-Expose-Headers', 'X-Pre')
        resp.set_header('Access-Control-Allow-Methods', 'PUT')
        resp.set_header('Access-Control-Allow-Headers', 'X-Pre-H')
        resp.set_header('Access-Control-Max-Age', '5')


def other_middleware(kind, asgi):
    import falcon
    if kind == 'respfail':
        if asgi:
            class RespFail:
                async def process_response(self, req, resp, resource, req_succeeded):
                    raise falcon.HTTPForbidden()
        else:
            class RespFail:
                def process_response(self, req, resp, resource, req_succeeded):
                    raise falcon.HTTPForbidden()
        return RespFail()
    if kind == 'complete':
        if asgi:
            class Complete:
                async def process_request(self, req, resp):
                    resp.complete = True
        else:
            class Complete:
                def process_request(self, req, resp):
                    resp.complete = True
        return Complete()
    raise MachineryError('unknown middleware kind %r' % kind)


# every way of writing "nothing": an empty allow_origins allows NO origin (it is not the wildcard)
EMPTY_AO = ([], (), set(), frozenset(), '')
EMPTY_AC = (None, [], (), set(), frozenset(), '')
EMPTY_EH = (None, [], (), '')


def cors_args(cfg, rng=None, variant=0):
    """spec-level configuration -> CORSMiddleware keyword arguments (forms vary with rng, or with `variant`)"""
    def pick(forms, k):
        e = rng.choice(forms) if rng is not None else forms[(variant + k) % len(forms)]
        return type(e)(e) if isinstance(e, (list, set)) else e      # a fresh object: the caller may mutate it later

    def form(x, none_ok):
        if x['star']:
            return '*'
        items = sorted(x['set'])
        if not items:
            return pick(EMPTY_AC, 1) if none_ok else pick(EMPTY_AO, 0)
        if len(items) == 1 and (rng is None or rng.random() < 0.5):
            return items[0]
        if rng is None:
            return list(items)
        return rng.choice((list, tuple, set, frozenset))(items)
    kw = {'allow_origins': form(cfg['ao'], False), 'allow_credentials': form(cfg['ac'], True)}
    eh = list(cfg['eh'])
    if not eh:
        kw['expose_headers'] = pick(EMPTY_EH, 2)
    elif len(eh) == 1 and (rng is None or rng.random() < 0.5):
        kw['expose_headers'] = eh[0]
    elif rng is not None and rng.random() < 0.3:
        kw['expose_headers'] = ', '.join(eh)
    else:
        kw['expose_headers'] = eh if rng is None or rng.random() < 0.5 else tuple(eh)
    if rng is not None:     # defaults may be left out
        if kw['allow_origins'] == '*' and rng.random() < 0.5:
            del kw['allow_origins']
        if kw['allow_credentials'] is None and rng.random() < 0.5:
            del kw['allow_credentials']
        if kw['expose_headers'] is None and rng.random() < 0.5:
            del kw['expose_headers']
    return kw


def build(asgi, sbs, wiring, cfg, other, dirs, rng=None, variant=0, cors_kw=None):
    """-> (Built, guard_fired).  cors_enable=True or explicit middleware; the other middleware listed
    before / after the CORS one through the public constructor / add_middleware"""
    from falcon import CORSMiddleware
    oth = other_middleware(other['kind'], asgi) if other['kind'] != 'none' else None
    if wiring == 'enable':
        if oth is not None and other['pos'] == 'before':
            b = c02.Built(asgi, sbs, dirs, act, cors_enable=True, middleware=[oth])
        else:
            b = c02.Built(asgi, sbs, dirs, act, cors_enable=True)
            if oth is not None:
                b.app.add_middleware(oth)
    elif wiring == 'explicit':
        kw = cors_kw if cors_kw is not None else cors_args(cfg, rng, variant)
        cm = CORSMiddleware(**kw)
        mws = [cm] if oth is None else ([oth, cm] if other['pos'] == 'before' else [cm, oth])
        b = c02.Built(asgi, sbs, dirs, act, middleware=mws)
        b.cors_kw = kw          # the caller keeps the objects it passed (and may mutate them later)
    else:
        b = c02.Built(asgi, sbs, dirs, act)
    register_handler(b.app, asgi)
    return b


def guard_fires(b):
    from falcon import CORSMiddleware
    try:
        b.app.add_middleware(CORSMiddleware())
    except ValueError:
        return True
    return False


def project(res):
    def one(name):
        vals = res.header_all(HDRS[name])
        return '-' if not vals else ', '.join(vals)

    def as_set(name):
        vals = res.header_all(HDRS[name])
        if not vals:
            return {'has': False, 'v': []}
        return {'has': True, 'v': sorted({x.strip() for x in ','.join(vals).split(',') if x.strip()})}
    eh = res.header_all(HDRS['aceh'])
    return {'acao': one('acao'), 'acac': one('acac'), 'aceh': [x.strip() for x in ','.join(eh).split(',')] if eh else [],
            'acam': as_set('acam'), 'acah': one('acah'), 'acma': one('acma'), 'allow': as_set('allow')}


def req_headers(rq, beh):
    hs = []
    if rq['origin'] != '-':
        hs.append(('Origin', rq['origin']))
    if rq['acrm'] != '-':
        hs.append(('Access-Control-Request-Method', rq['acrm']))
    if rq['acrh'] != '-':
        hs.append(('Access-Control-Request-Headers', rq['acrh']))
    if beh != 'plain':
        hs.append(('X-Beh', beh))
    return hs


def norm_out(out):
    o = dict(out)
    o['acam'] = {'has': out['acam']['has'], 'v': sorted(out['acam']['v'])}
    o['allow'] = {'has': out['allow']['has'], 'v': sorted(out['allow']['v'])}
    o['aceh'] = list(out['aceh'])
    return o


def compare(want, got, denied):
    """-> None | (clause, what); `want` and `denied` (this is a denied preflight) come from TLC"""
    for f, clause in (('acao', 'P:acao'), ('acac', 'P:acac'), ('aceh', 'P:aceh'), ('acam', 'P:preflight'),
                      ('acah', 'P:preflight'), ('acma', 'P:preflight'), ('allow', 'P:allow')):
        if want[f] != got[f]:
            if f == 'acac' and denied:
                clause = 'D:leftover-credentials'
            return clause, '%s: expected %r, observed %r (all expected %r, all observed %r)' % (HDRS[f], want[f], got[f],
                                                                                              want, got)
    return None


def app_calls(app):
    """the fixed app of the TLC instance (exported by TLC) -> assembly calls for c02.Built"""
    calls = []
    for e in sorted(app['routes'], key=lambda e: e['rid']):
        calls.append(c02.EV('route', id=e['rid'], tmpl=e['tmpl'], sfx=e['sfx'],
                            plain=e['impl'] if not e['sfx'] else [], sfxm=e['impl'] if e['sfx'] else []))
    for s in reversed(app['sinks']):
        calls.append(c02.EV('sink', id=s['id'], pat=s['pat']))
    for s in reversed(app['statics']):
        calls.append(c02.EV('static', id=s['id'], prefix=s['prefix'], fb=s['fb']))
    return calls


def run(ctx):
    ctx.rule = ('case = (wiring, CORS configuration, other middleware, stack, origin, method, target, preflight headers, '
                'user-code behaviour); non-trivial iff the request carries an Origin header; distinct by hash of the case')
    ctx.trusted_base = ['TLC 1.8 evaluation of spec/Cors.tla + spec/Dispatch.tla', 'engine/drivers.py',
                        'comma splitting of header values']
    ctx.assumptions = ['a grant is an Access-Control-Allow-Origin header in the final response; a credentials header without '
                       'it grants nothing (the code leaves one behind on a denied preflight: modelled, D-clause)',
                       'NoWildcardWithCredentials / CredentialsOnlyIfConfigured speak about headers the middleware adds; '
                       'headers pre-set by the responder are kept as they are',
                       'the exchange outcome (succeeded?, Allow advertised?) is derived from Dispatch!Outcome (C02)']
    dirs = c02.StaticDirs()
    try:
        table, sim = leg_m(ctx) if 'M' in LEGS else (None, None)
        if 'A' in LEGS:
            leg_a(ctx, dirs, table)
            if sim is None:
                sim = ctx.tlc('MC_CorsObj', 'MC_CorsObjSim.cfg', workers=4, simulate={'num': ctx.pick(150, 400)}, depth=10,
                              seed=ctx.seed + 1, timeout=ctx.pick(200, 600), count=False).json
            leg_obj(ctx, dirs, sim)
        if 'B' in LEGS:
            leg_b(ctx, dirs)
    finally:
        dirs.close()


def leg_m(ctx):
    """-> (decision table, simulated object histories).  All TLC runs of the check are started together (JVM start-up
    overlaps); a failure of any of them is a machinery failure."""
    from concurrent.futures import ThreadPoolExecutor
    wrong = (('MC_Cors', 'MC_CorsWrong.cfg', 'StarWithCreds=TRUE', ('NoWildcardWithCredentials',)),
             # fails only if the instance really contains an empty allow_origins collection and an Origin
             ('MC_Cors', 'MC_CorsWrongEmpty.cfg', 'EmptyMeansAll=TRUE', ('OnlyAllowedOrigins', 'GrantIsEchoOrStar',
                                                                         'CredentialsOnlyIfConfigured')),
             # fails only if the instance really contains a preflight answered by a raised HTTPStatus with Allow
             ('MC_Cors', 'MC_CorsWrongStatus.cfg', 'StatusSucceeds=TRUE', ('NoApprovalAfterRaise',)),
             # fails only if a caller really mutates a container it passed and a later request meets the difference
             ('MC_CorsObj', 'MC_CorsObjWrongAlias.cfg', 'AliasCallerSet=TRUE', OBJ_CLAUSES),
             # fails only if one middleware really serves a second request whose origin is decided differently
             ('MC_CorsObj', 'MC_CorsObjWrongMemo.cfg', 'MemoDecision=TRUE', OBJ_CLAUSES))
    with ThreadPoolExecutor(max_workers=5) as ex:
        # the same exhaustive run checks the clauses and prints the decision table (no history variable involved)
        f_main = ex.submit(ctx.tlc, 'MC_Cors', ctx.pick('MC_Cors.cfg', 'MC_CorsFull.cfg'), coverage=True, workers=6,
                           timeout=ctx.pick(280, 2400))
        # configuration as state + request histories: exhaustive (small), then simulated with the history recorded
        f_obj = ex.submit(ctx.tlc, 'MC_CorsObj', ctx.pick('MC_CorsObj.cfg', 'MC_CorsObjFull.cfg'), coverage=True, workers=4,
                          timeout=ctx.pick(280, 1500))
        f_sim = ex.submit(ctx.tlc, 'MC_CorsObj', 'MC_CorsObjSim.cfg', workers=4, simulate={'num': ctx.pick(150, 400)}, depth=10,
                          seed=ctx.seed + 1, timeout=ctx.pick(200, 600), count=False)
        f_wrong = [ex.submit(ctx.tlc, mod, cfg, workers=2, timeout=300, must_hold=False, count=False)
                   for mod, cfg, _, _ in wrong]
        r, ro, rs = f_main.result(), f_obj.result(), f_sim.result()
        rws = [f.result() for f in f_wrong]
    ctx.require_coverage(r, ['MakeEnable', 'MakeExplicit', 'AddCorsAgainRejected', 'XAddOther', 'XExchangeOne'])
    ctx.require_coverage(ro, ['OConfigure', 'OConfigureRejected', 'OCallerMutates', 'OExchange', 'ONextRequest'])
    for (mod, cfg, switch, want), rw in zip(wrong, rws):
        if rw.violated not in want:
            raise MachineryError('vacuity: %s should violate %s, TLC reported %r' % (switch, want, rw.violated))
    ctx.extra['wrong_design_instances_rejected'] = ['%s -> %s' % (sw, rw.violated) for (_, _, sw, _), rw in zip(wrong, rws)]
    ctx.extra['object_instance_states'] = ro.distinct
    ctx.progress('leg M done: %d states (decision table) + %d states (caller objects x request histories)'
                 % (r.distinct, ro.distinct))
    return r.json, rs.json


OBJ_CLAUSES = ('OnlyAllowedOrigins', 'GrantIsEchoOrStar', 'CredentialsOnlyIfConfigured', 'GrantFunctionOfConfigAndRequest',
               'NoWildcardWithCredentials')


def leg_a(ctx, dirs, table=None):
    if table is None:
        table = ctx.tlc('MC_Cors', 'MC_CorsA.cfg', workers=4, timeout=ctx.pick(280, 1200), count=False).json
    apps = [b for b in table if 'app' in b]
    if len({digest(a) for a in apps}) != 1:
        raise MachineryError('expected exactly one exported app, got %d' % len(apps))
    app = apps[0]['app']
    calls = app_calls(app)
    groups = {}
    for row in table:
        if 'rq' in row:
            key = c02_key(row)
            groups.setdefault(key, []).append(row)
    # the table must really contain what the two newest clauses are about (an empty allow_origins collection with an
    # Origin; a preflight answered by a raised HTTPStatus that makes Allow known)
    n_empty = sum(1 for rows in groups.values() for r in rows
                  if not r['cfg']['ao']['star'] and not r['cfg']['ao']['set'] and r['rq']['origin'] != '-')
    n_status = sum(1 for rows in groups.values() for r in rows
                   if r['beh'] in ('st2allow', 'st3allow', 'st4allow', 'st5allow') and r['rq']['m'] == 'OPTIONS'
                   and r['rq']['acrm'] != '-' and r['rq']['origin'] != '-')
    if not n_empty or not n_status:
        raise MachineryError('decision table lacks empty-allow_origins cells (%d) or raised-HTTPStatus preflights (%d)'
                             % (n_empty, n_status))
    ctx.extra['cells_with_empty_allow_origins'] = n_empty
    ctx.extra['preflights_answered_by_raised_HTTPStatus'] = n_status
    del table
    # quick: every cell on WSGI, a seeded third of the cells on ASGI as well; thorough: every cell on both stacks
    third = ctx.rng.randrange(3)
    cells = 0
    for key in sorted(groups):
        rows = groups[key]
        first = rows[0]
        for asgi in (False, True):
            variant = int(key, 16) + asgi + ctx.seed      # which spelling of "nothing" (empty collections) is used
            b = build(asgi, app['sbs'], first['wiring'], first['cfg'], first['other'], dirs, variant=variant)
            for c in calls:
                ok, exn = b.call(c)
                if not ok:
                    raise MachineryError('fixed app could not be assembled: %r %s' % (c, exn))
            if first['guard']:
                if not guard_fires(b):
                    ctx.detail('D:guard', {'wiring': first['wiring']}, 'add_middleware(CORSMiddleware()) on a cors_enable '
                                  'app did not raise: two CORS middlewares now process every response')
            if asgi and ctx.quick:
                rows = [r for i, r in enumerate(rows) if i % 3 == third]
            reqs = [(r['rq']['m'], c02.text(r['rq']['p'])) for r in rows]
            hdrs = [req_headers(r['rq'], r['beh']) for r in rows]
            obs = c02.run_requests(b, reqs, hdrs, project)
            for r, o in zip(rows, obs):
                cells += 1
                case = {'wiring': r['wiring'], 'cfg': r['cfg'], 'other': r['other'], 'guard': r['guard'], 'asgi': asgi,
                        'variant': variant,
                        'sbs': app['sbs'], 'app': app, 'rq': r['rq'], 'beh': r['beh'], 'expected': norm_out(r['out']),
                        'denied': r['denied']}
                ctx.case(case, nontrivial=r['rq']['origin'] != '-', key=(key, asgi, digest([r['rq'], r['beh']])))
                if o['problem']:
                    ctx.violation('P:exception', case, o['problem'])
                    continue
                d = compare(case['expected'], o['extra'], r['denied'])
                if d:
                    case['observed'] = o['extra']
                    what = '%s %s Origin=%s acrm=%s beh=%s on %s app, %s %s, other=%s: %s' % (
                        r['rq']['m'], c02.text(r['rq']['p']), r['rq']['origin'], r['rq']['acrm'], r['beh'],
                        'ASGI' if asgi else 'WSGI', r['wiring'], cors_args(r['cfg'], None, variant), r['other'], d[1])
                    if d[0].startswith('D:'):
                        ctx.detail(d[0], case, what)
                    else:
                        ctx.violation(d[0], case, what)
    ctx.traces_validated += cells
    ctx.extra['cells_replayed'] = cells
    ctx.extra['configurations'] = len(groups)
    ctx.exhaustive = True
    ctx.progress('leg A: %d configurations, %d cells replayed (both stacks)' % (len(groups), cells))


# ---------------------------------------------------------------------------------------------
# configuration as an object: the container forms of spec/Cors.tla (ArgForms) and what a caller can do to them later
OPT_KW = {'ao': 'allow_origins', 'ac': 'allow_credentials', 'eh': 'expose_headers'}
UNORDERED = ('set', 'frozenset')


def make_arg(form, items):
    """spec-level argument [form, items] -> (the Python object passed to CORSMiddleware, handle the caller mutates)"""
    items = list(items)
    if form == 'star':
        return '*', None
    if form == 'none':
        return None, None
    if form == 'str':
        return ', '.join(items), None
    if form == 'set':
        o = set(items)
        return o, o
    if form == 'list':
        o = list(items)
        return o, o
    if form == 'keys':
        d = dict.fromkeys(items)
        return d.keys(), d          # a live view: changes of the dict show through it
    if form == 'frozenset':
        return frozenset(items), None
    if form == 'tuple':
        return tuple(items), None
    if form == 'gen':
        return (x for x in items), None
    raise MachineryError('unknown container form %r' % form)


def make_kw(args):
    kw, handles = {}, {}
    for opt, name in OPT_KW.items():
        kw[name], handles[opt] = make_arg(args[opt]['form'], args[opt]['items'])
    return kw, handles


def mutate(handle, how, item):
    """the caller mutates the object it had passed: add / remove one item"""
    if isinstance(handle, set):
        handle.add(item) if how == 'add' else handle.discard(item)
    elif isinstance(handle, list):
        if how == 'add':
            handle.append(item)
        else:
            while item in handle:
                handle.remove(item)
    elif isinstance(handle, dict):
        if how == 'add':
            handle[item] = None
        else:
            handle.pop(item, None)
    else:
        raise MachineryError('the harness cannot mutate a %s' % type(handle).__name__)


def form_of(v):
    if v is None:
        return 'none'
    if isinstance(v, str):
        return 'star' if v == '*' else 'str'
    return type(v).__name__          # set, frozenset, list, tuple


def caller_of(cfg, kw):
    """the trace's description of the objects the harness passed (forms as built, contents = the configuration)"""
    ao = kw.get('allow_origins', '*')
    ac = kw.get('allow_credentials')
    eh = kw.get('expose_headers')
    return {'ao': {'form': form_of(ao), 'star': cfg['ao']['star'], 'items': list(cfg['ao']['set'])},
            'ac': {'form': form_of(ac), 'star': cfg['ac']['star'], 'items': list(cfg['ac']['set'])},
            'eh': {'form': form_of(eh), 'items': list(cfg['eh'])}}


def leg_obj(ctx, dirs, sim):
    """leg A for configuration-as-state and request histories: every history TLC simulated (Configure in every container
    form, CallerMutates between requests, MaxServed requests on one middleware) is replayed on both stacks"""
    from falcon import CORSMiddleware
    apps = [b for b in sim if 'app' in b]
    if not apps:
        raise MachineryError('MC_CorsObj exported no app')
    app = apps[0]['app']
    calls = app_calls(app)
    hists = {digest(b): b for b in sim if 'args' in b}
    if ctx.quick:       # a seeded sample, the same number of histories for every simulated constructor call
        by_args = {}
        for k in sorted(hists):
            by_args.setdefault(digest(hists[k]['args']), []).append(k)
        per = max(1, 1600 // len(by_args))
        hists = {k: hists[k] for ks in by_args.values() for k in ctx.rng.sample(ks, min(per, len(ks)))}
    none = {'kind': 'none', 'pos': 'before'}
    n_req = n_rej = n_added = n_removed = n_star = 0
    forms = {opt: set() for opt in OPT_KW}
    for key in sorted(hists):
        h = hists[key]
        args = h['args']
        for opt in OPT_KW:
            forms[opt].add(args[opt]['form'])
        for asgi in (False, True):
            kw, handles = make_kw(args)
            case = {'obj': True, 'asgi': asgi, 'args': args, 'rejected': h['rejected'], 'cfg': h['cfg'], 'steps': h['steps'],
                    'sbs': app['sbs'], 'app': app}
            if h['rejected']:
                n_rej += 1
                ctx.case(case, nontrivial=False, key=(key, asgi))
                try:
                    CORSMiddleware(**kw)
                except ValueError:
                    continue
                except Exception as ex:        # noqa
                    ctx.violation('P:configure', case, 'CORSMiddleware(%r) raised %r' % (args, ex))
                    continue
                ctx.detail('D:rejected', case, "CORSMiddleware accepted '*' inside an iterable: %r" % (args,))
                continue
            try:
                b = build(asgi, app['sbs'], 'explicit', h['cfg'], none, dirs, cors_kw=kw)
            except Exception as ex:            # noqa
                ctx.case(case, nontrivial=True, key=(key, asgi))
                ctx.violation('P:configure', case, 'a well-formed configuration was refused: CORSMiddleware(%r) raised %r'
                              % (args, ex))
                continue
            for c in calls:
                ok, exn = b.call(c)
                if not ok:
                    raise MachineryError('fixed app could not be assembled: %r %s' % (c, exn))
            now = {opt: set(args[opt]['items']) for opt in ('ao', 'ac')}
            for i, st in enumerate(h['steps']):
                if st['op'] == 'mutate':
                    mutate(handles[st['opt']], st['how'], st['item'])
                    if st['opt'] in now:
                        now[st['opt']].add(st['item']) if st['how'] == 'add' else now[st['opt']].discard(st['item'])
                    continue
                rq = st['rq']
                then = set(args['ao']['items'])
                if rq['origin'] != '-' and not args['ao']['star']:
                    n_added += rq['origin'] in now['ao'] and rq['origin'] not in then
                    n_removed += rq['origin'] in then and rq['origin'] not in now['ao']
                    n_star += '*' in now['ao']
                o = c02.run_requests(b, [(rq['m'], c02.text(rq['p']))], [req_headers(rq, st['beh'])], project)[0]
                n_req += 1
                c1 = dict(case, at=i, expected=norm_out(st['out']), denied=st['denied'])
                ctx.case(c1, nontrivial=rq['origin'] != '-', key=(key, asgi, i))
                if o['problem']:
                    ctx.violation('P:exception', c1, o['problem'])
                    break
                want, got = c1['expected'], o['extra']
                if args['eh']['form'] in UNORDERED:      # iteration order of a set is not the caller's business
                    want, got = dict(want, aceh=sorted(want['aceh'])), dict(got, aceh=sorted(got['aceh']))
                d = compare(want, got, st['denied'])
                if d:
                    c1['observed'] = o['extra']
                    what = 'request %d of a history on one %s app, CORSMiddleware(%s), steps so far %s: %s' % (
                        sum(1 for s in h['steps'][:i + 1] if s['op'] == 'req'), 'ASGI' if asgi else 'WSGI',
                        ', '.join('%s=%s%r' % (OPT_KW[k], args[k]['form'] + ':' if args[k]['form'] not in ('star', 'none') else '',
                                               '*' if args[k].get('star') else args[k]['items']) for k in OPT_KW),
                        [(s['opt'], s['how'], s['item']) if s['op'] == 'mutate' else
                         (s['rq']['m'], c02.text(s['rq']['p']), s['rq']['origin'], s['rq']['acrm']) for s in h['steps'][:i + 1]],
                        d[1])
                    if d[0].startswith('D:'):
                        ctx.detail(d[0], c1, what)
                    else:
                        ctx.violation(d[0], c1, what)
                    break
    missing = {opt: sorted(OBJ_FORMS[opt] - forms[opt]) for opt in OPT_KW if OBJ_FORMS[opt] - forms[opt]}
    if missing or not (n_added and n_removed and n_star and n_rej):
        raise MachineryError('simulated histories lack container forms %r, or requests with an origin added (%d) / removed '
                             '(%d) after construction, or a later "*" (%d), or refused constructions (%d)'
                             % (missing, n_added, n_removed, n_star, n_rej))
    ctx.traces_validated += n_req
    ctx.extra['object_histories_replayed'] = len(hists)
    ctx.extra['object_history_requests'] = n_req
    ctx.extra['requests_with_origin_added_after_construction'] = n_added
    ctx.extra['requests_with_origin_removed_after_construction'] = n_removed
    ctx.progress('leg A (objects/histories): %d histories x 2 stacks, %d requests (%d with an origin added, %d removed after '
                 'construction; %d refused constructions)' % (len(hists), n_req, n_added, n_removed, n_rej))


CONTAINERS = {'set', 'frozenset', 'list', 'tuple', 'gen', 'keys'}
OBJ_FORMS = {'ao': CONTAINERS | {'star', 'str'}, 'ac': CONTAINERS | {'star', 'str', 'none'}, 'eh': CONTAINERS | {'str', 'none'}}


def c02_key(row):
    return digest([row['wiring'], row['cfg'], row['other'], row['guard']])


# ---------------------------------------------------------------------------------------------
ORIGINS = ['https://a.example', 'https://b.example', 'https://c.example:8443', 'http://a.example', 'null',
           'https://evil.example', 'HTTPS://A.EXAMPLE', 'https://a.exam', 'https://a.example.evil.test', 'a']
BEHS = ['plain', 'plain', 'plain', 'allow', 'allow', 'acao', 'acac', 'allowacao', 'presetall', 'fail',
        'st2allow', 'st3allow', 'st4allow', 'st5', 'st5allow', 'errallow', 'exc', 'excallow']
EXPOSE = ['X-A', 'X-B', 'ETag', 'X-Request-Id']


NO_HDR = {'acao': '-', 'acac': '-', 'aceh': [], 'acam': {'has': False, 'v': []}, 'acah': '-', 'acma': '-',
          'allow': {'has': False, 'v': []}}


def gen_cfg(rng):
    def origins(allow_empty):
        r = rng.random()
        if r < 0.3:
            return {'star': True, 'set': []}
        k = rng.randint(0 if allow_empty else 1, 4)
        return {'star': False, 'set': sorted(rng.sample(ORIGINS[:7], k))}
    eh = rng.sample(EXPOSE, rng.choice((0, 0, 1, 2, 3)))
    ao = origins(False) if rng.random() < 0.85 else {'star': False, 'set': []}     # an empty collection: nobody
    return {'ao': ao, 'ac': origins(True), 'eh': eh}


def leg_b(ctx, dirs):
    rng = ctx.rng
    nsc = ctx.pick(250, 3000)
    seen = {}
    nreq = mutated = 0
    default = {'ao': {'star': True, 'set': []}, 'ac': {'star': False, 'set': []}, 'eh': []}
    for i in range(nsc):
        sc = c02.gen_scenario(rng)
        wiring = 'enable' if rng.random() < 0.2 else 'explicit'
        cfg = default if wiring == 'enable' else gen_cfg(rng)
        other = {'kind': 'none', 'pos': 'before'}
        if rng.random() < 0.25:
            other = {'kind': rng.choice(('respfail', 'complete')), 'pos': rng.choice(('before', 'after'))}
        # decorate the scenario's requests
        steps = []
        for st in sc['steps']:
            if isinstance(st, tuple):
                m = st[1] if rng.random() < 0.6 else 'OPTIONS'
                origin = rng.choice(cfg['ao']['set'] + cfg['ac']['set'] + ORIGINS + ['-', '-']) if rng.random() < 0.9 else '-'
                rq = {'origin': origin, 'm': m, 'p': st[2], 'acrm': rng.choice(('-', 'POST', 'DELETE', 'GET')),
                      'acrh': rng.choice(('-', '-', 'X-Q, Y', 'content-type'))}
                steps.append(('req', rq, rng.choice(BEHS)))
                # between requests the caller may mutate the containers it passed to the constructor (applied where the
                # form built for this scenario is a set / list; the policy must stay the one of the construction)
                if wiring == 'explicit' and rng.random() < 0.15:
                    opt = rng.choice(('ao', 'ao', 'ac', 'eh'))
                    if opt == 'eh':
                        steps.append(('mut', opt, rng.choice(('add', 'remove')), rng.choice(EXPOSE + ['X-New'])))
                    else:
                        pool = cfg[opt]['set'] if rng.random() < 0.4 and cfg[opt]['set'] else ORIGINS[:7] + ['*']
                        steps.append(('mut', opt, rng.choice(('add', 'add', 'remove')), rng.choice(pool)))
            else:
                steps.append(st)
        seed = rng.random()
        for asgi in (False, True):
            import random as _random
            b = build(asgi, sc['sbs'], wiring, cfg, other, dirs, _random.Random(seed))
            evs = []
            pend = []

            def flush():
                if not pend:
                    return
                obs = c02.run_requests(b, [(rq['m'], rq['p']) for rq, _ in pend], [req_headers(rq, beh) for rq, beh in pend],
                                       project)
                for (rq, beh), o in zip(pend, obs):
                    e = c02.EV('req', m=rq['m'], p=c02.cps(rq['p']))
                    e['obs']['bad'] = bool(o['problem'])
                    e.update(origin=rq['origin'], acrm=rq['acrm'], acrh=rq['acrh'], beh=beh, hdr=o['extra'],
                             problem=o['problem'])
                    evs.append(e)
                del pend[:]
            nmut = 0
            for st in steps:
                if isinstance(st, tuple) and st[0] == 'mut':
                    obj = getattr(b, 'cors_kw', {}).get(OPT_KW[st[1]])
                    if isinstance(obj, (set, list)):
                        flush()
                        mutate(obj, st[2], st[3])
                        e = c02.EV('mutate', opt=st[1], how=st[2], item=st[3])
                        e.update(origin='-', acrm='-', acrh='-', beh='plain', hdr=NO_HDR)
                        evs.append(e)
                        nmut += 1
                elif isinstance(st, tuple):
                    pend.append((st[1], st[2]))
                else:
                    flush()
                    ok, exn = b.call(st)
                    e = dict(st)
                    e['ok'] = ok
                    e.update(origin='-', acrm='-', acrh='-', beh='plain', hdr=NO_HDR)
                    evs.append(e)
            flush()
            tr = {'sbs': sc['sbs'], 'wiring': wiring, 'cfg': cfg, 'other': other, 'ev': evs,
                  'caller': caller_of(cfg, getattr(b, 'cors_kw', {})), 'seed': repr(seed)}
            mutated += nmut
            for e in evs:
                if e['op'] == 'req':
                    nreq += 1
                    ctx.case({'asgi': asgi, 'cfg': cfg, 'origin': e['origin'], 'm': e['m'], 'p': c02.text(e['p'])},
                             nontrivial=e['origin'] != '-', key=('B', i, asgi, len(evs), nreq))
            k = digest(tr)
            if k not in seen:
                seen[k] = (tr, asgi)
    ctx.progress('leg B: %d scenarios x 2 stacks, %d requests, %d distinct traces' % (nsc, nreq, len(seen)))
    items = list(seen.values())
    verdicts = ctx.judge('CorsTrace', [t for t, _ in items], workers=ctx.pick(8, 16), timeout=ctx.pick(280, 1500), chunk=1000)
    for (tr, asgi), v in zip(items, verdicts):
        if v == 'ok':
            continue
        clause, at = v.split('@')
        at = int(at)
        ev = tr['ev'][at - 1] if 0 < at <= len(tr['ev']) else {}
        case = {'asgi': asgi, 'trace': dict(tr, ev=tr['ev'][:at])}
        what = 'trace of a random %s app (%s %s, other=%s) rejected by CorsTrace at event %d: %s %s Origin=%s acrm=%s beh=%s ' \
               'observed %r %s' % ('ASGI' if asgi else 'WSGI', tr['wiring'], tr['cfg'], tr['other'], at, ev.get('m'),
                                   c02.text(ev.get('p', [])), ev.get('origin'), ev.get('acrm'), ev.get('beh'), ev.get('hdr'),
                                   ev.get('problem', ''))
        if clause.startswith('H:'):
            raise MachineryError('harness generated an invalid scenario: %s' % what)
        if clause.startswith('D:'):
            ctx.detail(clause, case, what)
        else:
            ctx.violation(clause, case, what)
    ctx.extra['random_scenarios'] = nsc
    ctx.extra['caller_mutations_in_random_traces'] = mutated
    ctx.extra['distinct_traces_judged'] = len(items)


def replay(ctx, case):
    dirs = c02.StaticDirs()
    try:
        if 'trace' in case:
            tr = case['trace']
            import random as _random
            b = build(case['asgi'], tr['sbs'], tr['wiring'], tr['cfg'], tr['other'], dirs,
                      _random.Random(float(tr['seed'])) if 'seed' in tr else None)
            for e in tr['ev']:
                if e['op'] == 'mutate':
                    mutate(b.cors_kw[OPT_KW[e['opt']]], e['how'], e['item'])
                    print('caller mutates', e['opt'], e['how'], e['item'])
                elif e['op'] != 'req':
                    print('assembly', e['op'], b.call(e))
            e = tr['ev'][-1]
            rq = {'origin': e['origin'], 'm': e['m'], 'p': c02.text(e['p']), 'acrm': e['acrm'], 'acrh': e['acrh']}
            o = c02.run_requests(b, [(rq['m'], rq['p'])], [req_headers(rq, e['beh'])], project)[0]
            e2 = dict(e, hdr=o['extra'])
            print('observed:', o['extra'])
            v = ctx.judge('CorsTrace', [dict(tr, ev=tr['ev'][:-1] + [e2])], workers=1)[0]
            print('verdict:', v)
            if v != 'ok' and v.startswith('P:'):
                ctx.violation(v.split('@')[0], case, 'trace rejected at %s' % v)
            return
        if case.get('obj'):
            kw, handles = make_kw(case['args'])
            try:
                b = build(case['asgi'], case['sbs'], 'explicit', case['cfg'], {'kind': 'none', 'pos': 'before'}, dirs, cors_kw=kw)
            except Exception as ex:        # noqa
                print('construction raised %r (TLC: rejected=%s)' % (ex, case['rejected']))
                if not case['rejected'] and not isinstance(ex, ValueError):
                    ctx.violation('P:configure', case, 'construction raised %r' % (ex,))
                return
            for c in app_calls(case['app']):
                b.call(c)
            for i, st in enumerate(case['steps'][:case.get('at', -1) + 1]):
                if st['op'] == 'mutate':
                    mutate(handles[st['opt']], st['how'], st['item'])
                    continue
                rq = st['rq']
                o = c02.run_requests(b, [(rq['m'], c02.text(rq['p']))], [req_headers(rq, st['beh'])], project)[0]
                want, got = norm_out(st['out']), o['extra']
                if case['args']['eh']['form'] in UNORDERED:
                    want, got = dict(want, aceh=sorted(want['aceh'])), dict(got, aceh=sorted(got['aceh']))
                print('step', i, 'observed:', got, 'expected:', want)
                d = compare(want, got, st['denied'])
                if d and not d[0].startswith('D:'):
                    ctx.violation(d[0], case, d[1])
            return
        b = build(case['asgi'], case['sbs'], case['wiring'], case['cfg'], case['other'], dirs, variant=case.get('variant', 0))
        for c in app_calls(case['app']):
            b.call(c)
        rq = case['rq']
        o = c02.run_requests(b, [(rq['m'], c02.text(rq['p']))], [req_headers(rq, case['beh'])], project)[0]
        print('observed:', o['extra'])
        print('expected:', case['expected'])
        d = compare(case['expected'], o['extra'], case.get('denied', False))
        if d and not d[0].startswith('D:'):
            ctx.violation(d[0], case, d[1])
    finally:
        dirs.close()
