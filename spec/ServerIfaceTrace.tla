-------------------------- MODULE ServerIfaceTrace --------------------------
(* Trace judge for C06.  A trace is one abstract request (bytes as JSON arrays), the request
   options of the generated application, the responder kind, and one event per interface the
   request was driven through: what the application code saw there (projected by the harness
   with trusted decoders only) plus digests of everything it saw and of the response.

     [req, opts, kind, resp, ev: [iface, reached, method, path, query, hmap, has_ctype, ctype, clen, host, port,
                            netloc, scheme, root, peer, body, status, foreign, dg, rs]]

   Total: every event is consumed; the first failing clause is recorded in `verdict`.
     H:illformed        the harness produced a request outside WellFormed (machinery failure)
     P:reached          the application logic was not reached although the request is well-formed
     P:method ... P:body   a field differs from ServerIface!View of the abstract request
     P:history-leak     a container handed out with the request shows what an EARLIER request of the same
                        application object stored (Ev.foreign = the containers concerned)
     P:status           the status differs from the responder's
     P:equal-request    the digest of all request attributes differs from another interface's
     P:equal-response   the normalised response differs from another interface's
   Events of an interface that cannot express the request (ServerIface!Expressible) or cannot report
   the response (ServerIface!Reportable) are skipped;
   fields are compared with View only for requests without a repeated single-valued field. *)
EXTENDS ServerIface, Json, IOUtils

Traces == JsonDeserialize(IOEnv.TRACE_FILE)

VARIABLES tid, l, verdict, first, view      \* view: ServerIface!View of the trace's request, computed once
vars == <<tid, l, verdict, first, view>>

T  == Traces[tid]
Ev == T.ev[l]

NoView == [method |-> "-"]
Init == tid \in 1..Len(Traces) /\ l = 0 /\ verdict = "ok" /\ first = 0 /\ view = NoView

(* first step of every trace (done by the workers, not while enumerating initial states) *)
Prepare ==
    /\ l = 0
    /\ IF WellFormed(T.req) THEN view' = View(T.req, T.opts) /\ UNCHANGED verdict
       ELSE verdict' = "H:illformed" /\ UNCHANGED view
    /\ l' = 1 /\ UNCHANGED <<tid, first>>

PairSet(ps) == {<<ps[i][1], ps[i][2]>> : i \in 1..Len(ps)}

Fields(v) ==
    IF Ev.method # v.method THEN "P:method"
    ELSE IF Ev.path # v.path THEN "P:path"
    ELSE IF Ev.query # v.query THEN "P:query"
    ELSE IF PairSet(Ev.hmap) # v.hmap \/ Len(Ev.hmap) # Cardinality(v.hmap) THEN "P:headers"
    ELSE IF Ev.has_ctype # v.has_ctype \/ Ev.ctype # v.ctype THEN "P:content_type"
    ELSE IF Ev.clen # v.clen THEN "P:content_length"
    ELSE IF Ev.host # v.host THEN "P:host"
    ELSE IF Ev.port # v.port THEN "P:port"
    ELSE IF Ev.netloc # v.netloc THEN "P:netloc"
    ELSE IF Ev.scheme # v.scheme THEN "P:scheme"
    ELSE IF Ev.root # v.root THEN "P:root_path"
    ELSE IF Ev.peer # v.peer THEN "P:remote_addr"
    ELSE IF v.clen # INVALID /\ T.kind # "media" /\ Ev.body # v.body THEN "P:body"    \* "media" does not read raw bytes
    ELSE "ok"

Judge ==
    IF ~Ev.reached THEN "P:reached"
    ELSE LET f == IF Canonical(T.req.headers) THEN Fields(view) ELSE "ok" IN
      IF f # "ok" THEN f
      ELSE IF Ev.foreign # <<>> THEN "P:history-leak"       \* ServerIface: the view of request n is a function of request n alone
      ELSE IF Ev.status # ResponderStatus(T.kind, T.resp) THEN "P:status"
      ELSE IF first # 0 /\ Ev.dg # T.ev[first].dg THEN "P:equal-request"
      ELSE IF first # 0 /\ Ev.rs # T.ev[first].rs THEN "P:equal-response"
      ELSE "ok"

Step ==
    /\ l >= 1 /\ l <= Len(T.ev) /\ verdict = "ok"
    /\ IF ~Expressible(T.req, Ev.iface) \/ ~Reportable(Ev.iface, T.kind, T.resp) THEN UNCHANGED <<verdict, first>>
       ELSE verdict' = Judge /\ first' = (IF first = 0 THEN l ELSE first)
    /\ l' = l + 1 /\ UNCHANGED <<tid, view>>

Done ==
    /\ l >= 1 /\ (l > Len(T.ev) \/ verdict # "ok")
    /\ PrintT(<<"VERDICT", tid, verdict, l - 1>>)
    /\ l' = -1 /\ UNCHANGED <<tid, verdict, first, view>>

Next == Prepare \/ Step \/ Done
Spec == Init /\ [][Next]_vars
Sound == first <= Len(T.ev)
=============================================================================
