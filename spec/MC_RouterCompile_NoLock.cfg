SPECIFICATION MCSpec
CONSTANTS
  NT = 2
  Threads <- MCThreads
  NRoutes = 2
  UseLock = FALSE
  Recheck = TRUE
  Want <- MCWant
INVARIANT SerialAnswer
INVARIANT MutualExclusion
INVARIANT CompileOnce
INVARIANT PublishedIsComplete
PROPERTY AllFinish
