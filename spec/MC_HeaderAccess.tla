------------------------- MODULE MC_HeaderAccess -------------------------
(* Bounded instances of HeaderAccess.
     G  grammar exploration: one header value grows token by token (named action per grammar); every
        reachable value is a state, the *WellFormed invariants are checked on each, and EmitG exports
        the decision table (header value -> specified outcome of every accessor it feeds) as JSON.
          MC_HeaderAccessGQ.cfg  quick: invariants + export at BoundsQ
          MC_HeaderAccessG.cfg   thorough: invariants at BoundsT;  MC_HeaderAccessGE.cfg: export at BoundsET
          MC_HeaderAccessGC.cfg  one-worker guard run: firing counters + vocabulary export
     M  memoisation: all read histories over a set of requests (MemoSound, CacheSound, LookupSound).
          MC_HeaderAccessMQ.cfg / M.cfg  quick / thorough;  MC_HeaderAccessMC.cfg  one-worker guard run
          MC_HeaderAccessBad.cfg         wrong-design switch SharedUriSlot = TRUE: MemoSound must fail
     S  MC_HeaderAccessS.cfg: read histories with a history variable, for -simulate export (leg A2). *)
EXTENDS HeaderAccess, Json

CONSTANTS Bounds,        \* grammar -> maximum number of tokens
          ReqSet,        \* requests of the memo instances
          ReadAttrs,     \* accessors the memo instances read
          Depth          \* history length of the S instance

VARIABLES g,             \* G: the grammar being explored ("" in M/S)
          h              \* S: history of calls (<<>> in G/M)

allvars == <<req, cache, last, g, h>>

(* ---------------------------------------------------------------- alphabets and bounds *)
Grammars == {"accept", "range", "rset", "clen", "clenx", "etag", "fwd", "xff", "host", "rbig"}     \* rset / rbig: the range-set after "bytes=" (rbig: numerals beyond 2^63 / 2^64)
HdrOf == ("accept" :> "accept") @@ ("range" :> "range") @@ ("rset" :> "range") @@ ("clen" :> "content-length") @@ ("clenx" :> "content-length") @@ ("etag" :> "if-none-match") @@
         ("fwd" :> "forwarded") @@ ("xff" :> "x-forwarded-for") @@ ("host" :> "host") @@ ("rbig" :> "range")
GAttrs == ("accept" :> <<"client_accepts_json", "client_accepts_xml", "accepts_text_plain", "prefers">>) @@
          ("range" :> <<"range", "range_unit">>) @@ ("rset" :> <<"range", "range_unit">>) @@ ("clen" :> <<"content_length">>) @@ ("clenx" :> <<"content_length">>) @@
          ("etag" :> <<"if_none_match">>) @@
          ("fwd" :> <<"forwarded", "access_route", "forwarded_scheme", "forwarded_host", "forwarded_uri">>) @@
          ("xff" :> <<"access_route">>) @@
          ("host" :> <<"host", "port", "netloc", "subdomain", "uri", "forwarded_host">>) @@
          ("rbig" :> <<"range", "range_unit">>)
Alpha == ("accept" :> AcceptTokens \ {"*/*;q=0", ";q=2"}) @@
         ("range" :> {"bytes", "items", "=", "-", ",", SP, "x", "0", "1", "8"}) @@
         ("rset"  :> {"0", "1", "8", "-", ",", SP, "x"}) @@
         ("clen"  :> {"0", "1", "8", "-", "+", SP, ",", "x", "_", "\\u{b2}"}) @@
         ("clenx" :> CLenOdd \cup {"4", "0", "+", "-", SP}) @@          \* digit look-alikes, over-long digit runs
         ("etag"  :> {"\"a\"", "\"b,c\"", "\"\"", "\"caf\\u{e9}-1\"", "W/", "w/", "*", ",", SP, "x", "\""}) @@
         ("fwd"   :> {"for=192.0.2.43", "For=\"[2001:db8::1]:4711\"", "for=\"_gazonk\"", "for=127.0.0.1", "for=\"198.51.100.17:_p0\"",
                      "BY=\"_a\\_b\"", "Host=\"h.example.org:8443\"", "PROTO=HTTPS", "proto=http", "ext=1",
                      ";", ",", SP, "@", "for"}) @@
         ("xff"   :> XffTokens) @@
         ("host"  :> {"localhost", "example.com", "api.", "abc", "192.0.2.7", "[::1]", "[2001:db8::1]",
                      "8", "0", "4", ":", "[", "]", SP}) @@
         ("rbig"  :> BigToks \cup {"0", "7", "-"})

BoundsTiny == ("accept" :> 2) @@ ("range" :> 2) @@ ("rset" :> 3) @@ ("clen" :> 2) @@ ("clenx" :> 1) @@ ("etag" :> 2) @@ ("fwd" :> 2) @@ ("xff" :> 2) @@ ("host" :> 2) @@ ("rbig" :> 3)
BoundsQ  == ("accept" :> 3) @@ ("range" :> 4) @@ ("rset" :> 7) @@ ("clen" :> 3) @@ ("clenx" :> 2) @@ ("etag" :> 4) @@ ("fwd" :> 3) @@ ("xff" :> 4) @@ ("host" :> 3) @@ ("rbig" :> 5)
BoundsT  == ("accept" :> 4) @@ ("range" :> 5) @@ ("rset" :> 8) @@ ("clen" :> 5) @@ ("clenx" :> 3) @@ ("etag" :> 5) @@ ("fwd" :> 4) @@ ("xff" :> 6) @@ ("host" :> 4) @@ ("rbig" :> 6)
BoundsET == ("accept" :> 4) @@ ("range" :> 5) @@ ("rset" :> 8) @@ ("clen" :> 5) @@ ("clenx" :> 3) @@ ("etag" :> 4) @@ ("fwd" :> 4) @@ ("xff" :> 5) @@ ("host" :> 4) @@ ("rbig" :> 6)

NoHeaders == [n \in HNames |-> Absent]
Base(scheme) == [scheme |-> scheme, server |-> <<"srv.test", 8000>>, peer |-> "127.0.0.1",
                 root |-> "", path |-> "/", query |-> "", h |-> NoHeaders]

(* TLC's -coverage cost model does not terminate in reasonable time/memory on this module (nested
   operator applications under a 20-arm CASE), so the vacuity guard counts action firings itself:
   every named action bumps a TLC register and the C configs (run with ONE worker, so the registers
   are exact) print the counts in a POSTCONDITION as <<"FIRED", action, count>>. *)
ActionNames == <<"XAccept", "XRange", "XRSet", "XCLen", "XCLenX", "XETag", "XFwd", "XXff", "XHost", "XRBig",
                 "XReadUri", "XReadForwardedUri", "XReadRelativeUri", "XReadPrefix", "XReadForwardedPrefix",
                 "XReadForwarded", "XReadAccessRoute", "XReadETags", "XReadPlain", "XGetHeader">>
ActIdx(n) == CHOOSE i \in 1..Len(ActionNames) : ActionNames[i] = n
Bump(n) == TLCSet(ActIdx(n), TLCGet(ActIdx(n)) + 1)
ZeroCounters == \A i \in 1..Len(ActionNames) : TLCSet(i, 0)
PrintCounters == \A i \in 1..Len(ActionNames) : PrintT(<<"FIRED", ActionNames[i], TLCGet(i)>>)
(* the vocabulary, for the harness' random generator (so that it is not written down twice) *)
PrintVocab == PrintT(ToJson([vocab |-> [range |-> RangeTokens, clen |-> CLenTokens, etag |-> ETagTokens, fwd |-> FwdTokens,
                                        xff |-> XffTokens, host |-> HostTokens, accept |-> AcceptTokens, accranges |-> AccRanges, addr |-> AddrTokens, xfh |-> XfhToks,
                                        xfp |-> DOMAIN XfpVal, qtags |-> QTags, fwdpairs |-> FwdPairs, big |-> BigToks],
                             attrs |-> Attrs, hnames |-> HNames]))
PostG == PrintCounters /\ PrintVocab

(* ----------------------------------------------------------------------- G instances *)
GInit == /\ g \in Grammars
         /\ req \in {IF g \in {"rset", "rbig"} THEN [Base(s) EXCEPT !.h["range"] = Hdr(<<"bytes", "=">>)] ELSE Base(s) :
                         s \in IF g = "host" THEN AllSchemes ELSE {"http"}}
         /\ cache = EmptyCache /\ last = NoCall /\ h = <<>> /\ ZeroCounters
Grow(gr) == /\ g = gr /\ Len(req.h[HdrOf[gr]].t) < Bounds[gr]
            /\ \E t \in Alpha[gr] : Extend(HdrOf[gr], t)
            /\ UNCHANGED <<g, h>>
XAccept == Grow("accept") /\ Bump("XAccept")
XRange == Grow("range") /\ Bump("XRange")
XRSet  == Grow("rset") /\ Bump("XRSet")
XCLen  == Grow("clen") /\ Bump("XCLen")
XCLenX == Grow("clenx") /\ Bump("XCLenX")
XETag  == Grow("etag") /\ Bump("XETag")
XFwd   == Grow("fwd") /\ Bump("XFwd")
XXff   == Grow("xff") /\ Bump("XXff")
XHost  == Grow("host") /\ Bump("XHost")
XRBig  == Grow("rbig") /\ Bump("XRBig")
GNext == XAccept \/ XRange \/ XRSet \/ XCLen \/ XCLenX \/ XETag \/ XFwd \/ XXff \/ XHost \/ XRBig

(* decision-table export: one JSON object per header value *)
EmitG == LET hd == req.h[HdrOf[g]] IN
         (g # "" /\ hd.p) =>
            PrintT(ToJson([g |-> g, scheme |-> req.scheme, t |-> hd.t, text |-> Cat(hd.t),
                           out |-> [j \in 1..Len(GAttrs[g]) |-> [a |-> GAttrs[g][j], o |-> Fresh(req, GAttrs[g][j])]]]))

(* ----------------------------------------------------------------------- M / S instances *)
HostChoices == {Absent, Hdr(<<"example.com">>), Hdr(<<"api.", "example.com", ":", "8", "0", "8", "0">>),
                Hdr(<<"[::1]", ":", "4", "4", "3">>)}
FwdChoices  == {Absent,
                Hdr(<<"for=192.0.2.43", ";", "PROTO=HTTPS", ";", "host=example.org">>),
                Hdr(<<"for=unknown", ",", SP, "For=\"[2001:db8::1]:4711\"", ";", "proto=http">>),
                Hdr(<<"BY=\"_a\\_b\"">>)}
Mk(scheme, host, root, query, fwd, xfp, xfh, xff, rip) ==
    [Base(scheme) EXCEPT !.root = root, !.path = "/a/b", !.query = query,
        !.h = [NoHeaders EXCEPT !["host"] = host, !["forwarded"] = fwd, !["x-forwarded-proto"] = xfp,
                                !["x-forwarded-host"] = xfh, !["x-forwarded-for"] = xff, !["x-real-ip"] = rip,
                                !["range"] = Hdr(<<"bytes", "=", "1", "0", "-">>),
                                !["content-length"] = Hdr(<<"4", "2">>),
                                !["if-match"] = Hdr(<<"*">>),
                                !["if-none-match"] = Hdr(<<"W/", "\"a\"", ",", SP, "\"b,c\"">>)]]
ReqsFull == {Mk(s, ho, ro, q, f, xp, xh, xf, ri) :
                s \in Schemes, ho \in HostChoices, ro \in {"", "/app"}, q \in {"", "x=1"}, f \in FwdChoices,
                xp \in {Absent, Hdr(<<"HTTPS">>)}, xh \in {Absent, Hdr(<<"proxy.example:8443">>)},
                xf \in {Absent, Hdr(<<"192.0.2.1", ",", SP, "127.0.0.1">>)}, ri \in {Absent, Hdr(<<"192.0.2.1">>)}}
ReqsSmall == {Mk(s, ho, "/app", "x=1", f, xp, xh, Absent, ri) :
                s \in {"https"}, ho \in {Absent, Hdr(<<"api.", "example.com", ":", "8", "0", "8", "0">>)},
                f \in FwdChoices, xp \in {Absent, Hdr(<<"HTTPS">>)}, xh \in {Absent, Hdr(<<"proxy.example:8443">>)},
                ri \in {Absent, Hdr(<<"192.0.2.1">>)}}
ReqsTiny == {Mk("https", ho, "/app", "x=1", fx[1], fx[2], Absent, Absent, Absent) :
                ho \in {Absent, Hdr(<<"api.", "example.com", ":", "8", "0", "8", "0">>)},
                fx \in ({f \in FwdChoices : f.p /\ f.t # <<"BY=\"_a\\_b\"">>} \X {Absent})
                       \cup {<<Absent, Absent>>, <<Absent, Hdr(<<"HTTPS">>)>>}}
ReqsOne == {Mk("https", Absent, "/app", "x=1", Hdr(<<"for=192.0.2.43", ";", "PROTO=HTTPS", ";", "host=example.org">>), Absent, Absent, Absent, Absent)}
UrlAttrs == {"uri", "forwarded_uri", "relative_uri", "prefix", "forwarded_prefix", "forwarded", "access_route",
             "forwarded_scheme", "forwarded_host", "netloc", "host", "port"}
MidAttrs == UrlAttrs \cup {"if_none_match", "subdomain", "range"}
LookupNames == {"host", "forwarded"}

MInit == g = "" /\ h = <<>> /\ req \in ReqSet /\ cache = EmptyCache /\ last = NoCall /\ ZeroCounters
Keep  == UNCHANGED <<g, h>>
Log   == Len(h) < Depth /\ h' = Append(h, last') /\ UNCHANGED g
Plain == ReadAttrs \ CachedAttrs
RUri(K)             == Read("uri") /\ K
RForwardedUri(K)    == Read("forwarded_uri") /\ K
RRelativeUri(K)     == Read("relative_uri") /\ K
RPrefix(K)          == Read("prefix") /\ K
RForwardedPrefix(K) == Read("forwarded_prefix") /\ K
RForwarded(K)       == Read("forwarded") /\ K
RAccessRoute(K)     == Read("access_route") /\ K
RETags(K)           == (\E a \in {"if_match", "if_none_match"} \cap ReadAttrs : Read(a)) /\ K
RPlain(K)           == (\E a \in Plain : Read(a)) /\ K
RGetHeader(K)       == (\E n \in LookupNames, c \in Casings : GetHeader(n, c)) /\ K
XReadUri == RUri(Keep) /\ Bump("XReadUri")
XReadForwardedUri == RForwardedUri(Keep) /\ Bump("XReadForwardedUri")
XReadRelativeUri == RRelativeUri(Keep) /\ Bump("XReadRelativeUri")
XReadPrefix == RPrefix(Keep) /\ Bump("XReadPrefix")
XReadForwardedPrefix == RForwardedPrefix(Keep) /\ Bump("XReadForwardedPrefix")
XReadForwarded == RForwarded(Keep) /\ Bump("XReadForwarded")
XReadAccessRoute == RAccessRoute(Keep) /\ Bump("XReadAccessRoute")
XReadETags == RETags(Keep) /\ Bump("XReadETags")
XReadPlain == RPlain(Keep) /\ Bump("XReadPlain")
XGetHeader == RGetHeader(Keep) /\ Bump("XGetHeader")
MNext == XReadUri \/ XReadForwardedUri \/ XReadRelativeUri \/ XReadPrefix \/ XReadForwardedPrefix
         \/ XReadForwarded \/ XReadAccessRoute \/ XReadETags \/ XReadPlain \/ XGetHeader
SReadUri == RUri(Log)
SReadForwardedUri == RForwardedUri(Log)
SReadRelativeUri == RRelativeUri(Log)
SReadPrefix == RPrefix(Log)
SReadForwardedPrefix == RForwardedPrefix(Log)
SReadForwarded == RForwarded(Log)
SReadAccessRoute == RAccessRoute(Log)
SReadETags == RETags(Log)
SReadPlain == RPlain(Log)
SGetHeader == RGetHeader(Log)
SNext == SReadUri \/ SReadForwardedUri \/ SReadRelativeUri \/ SReadPrefix \/ SReadForwardedPrefix
         \/ SReadForwarded \/ SReadAccessRoute \/ SReadETags \/ SReadPlain \/ SGetHeader
EmitS == (Len(h) = Depth) => PrintT(ToJson([req |-> req, ev |-> h]))
==========================================================================
