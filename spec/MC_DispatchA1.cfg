INIT AInit
NEXT ANext
CONSTANTS
  Templates <- MCTemplates
  ResKinds <- MCResKinds
  SinkPats <- MCSinkPats
  StaticPrefixes <- MCStaticPrefixes
  Methods <- MCMethods
  Paths <- MCPaths
  MaxCalls = 1
  NewestFirst = TRUE
  RoutesFirst = TRUE
INVARIANT Emit
