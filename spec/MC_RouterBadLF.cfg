INIT XInit
NEXT XNext
VIEW XView
CONSTANTS
  TS <- MCTS
  CT <- MCCT
  BadNames <- MCBad
  Templates <- MCTemplates
  Paths <- MCPaths
  LFBlind <- MCTrue
  MaxAdds = 0
  MaxDepth = 1
  MaxPathLen = 1
  Depth = 0
  Rollback = TRUE
  ResetOnAdd = TRUE
INVARIANT XSplitSound
