------------------------------ MODULE MC_Cors ------------------------------
(* Bounded instance of Cors: one fixed app with a routed resource without on_options (/r), one with its own
   on_options (/o), a sink (/k), a static route (/s) and nothing at /x; every CORS configuration of the
   pools below; every request of the pools; every behaviour of the user code that runs.  Each reachable
   state with an exchange is one cell of the decision table; Emit prints it for the replay leg. *)
EXTENDS Cors, Json
CONSTANT OtherForAll       \* TRUE: the other middleware is combined with every configuration (thorough), FALSE: with three

Var(t) == [k |-> "var", s |-> t]
Tok(k, t) == [k |-> k, s |-> t]
\* code points:  / 47   1 49   f 102   k 107   o 111   r 114   s 115   x 120
AppRoutes  == { [tmpl |-> <<Lit(<<114>>)>>, rid |-> 1, sfx |-> "", impl |-> {"GET", "POST"}],          \*  /r
                [tmpl |-> <<Lit(<<111>>)>>, rid |-> 2, sfx |-> "", impl |-> {"GET", "OPTIONS"}] }      \*  /o
AppSinks   == << [id |-> 3, pat |-> <<Tok("lit", <<47, 107>>)>>] >>                                    \*  /k
AppStatics == << [id |-> 4, prefix |-> <<47, 115>>, fb |-> FALSE] >>                                   \*  /s
MCPaths    == { <<47, 114>>, <<47, 111>>, <<47, 107, 47, 49>>, <<47, 115, 47, 102>>, <<47, 120>> }     \*  /r /o /k/1 /s/f /x
MCMethods  == {"GET", "OPTIONS", "DELETE"}

O1 == "https://a.example"
O2 == "https://b.example"
O3 == "https://evil.example"
O1CASE == "HTTPS://A.EXAMPLE"          \* origins are compared case-sensitively
O1PART == "https://a.exam"             \* a proper part of an allowed origin is not that origin
MCOrigins == {ABSENT, O1, O2, O3, O1CASE, O1PART}

Star == [star |-> TRUE, set |-> {}]
Set(S) == [star |-> FALSE, set |-> S]
MCAllowOrigins == {Star, Set({O1}), Set({O1, O2}), Set({})}      \* Set({}): an empty collection - nobody is allowed
MCAllowCreds   == {Set({}), Star, Set({O1}), Set({O2, O3})}
MCExpose       == IF OtherForAll THEN {<<>>, <<"X-A">>, <<"X-A", "X-B">>} ELSE {<<>>, <<"X-A", "X-B">>}    \* (quick: two of the three)
MCCfgs   == {[ao |-> a, ac |-> c, eh |-> e] : a \in MCAllowOrigins, c \in MCAllowCreds, e \in MCExpose}
FewCfgs  == {DefaultCfg, [ao |-> Set({O1}), ac |-> Set({O1}), eh |-> <<"X-A", "X-B">>], [ao |-> Star, ac |-> Star, eh |-> <<"X-A", "X-B">>]}
MCOthers == {[kind |-> k, pos |-> q] : k \in {"respfail", "complete"}, q \in {"before", "after"}}
(* Access-Control-Request-Headers only accompanies Access-Control-Request-Method *)
MCRequests == {rq \in {Rq(o, m, p, a, hh) : o \in MCOrigins, m \in MCMethods, p \in MCPaths, a \in {ABSENT, "POST"},
                                              hh \in {ABSENT, "X-Q, Y"}} : rq.acrm = ABSENT => rq.acrh = ABSENT}

MCInit == \E b \in {TRUE} : CInit(AppRoutes, AppSinks, AppStatics, b)
XMakeEnable   == MakeEnable
XMakeExplicit == \E c \in MCCfgs : MakeExplicit(c)
XGuard        == AddCorsAgainRejected
XAddOther     == (OtherForAll \/ cfg \in FewCfgs) /\ (guard = 0) /\ \E o \in MCOthers : AddOther(o.kind, o.pos)
(* the ways of answering by raising (other than the plain "fail") are a dimension of OPTIONS requests only *)
XExchangeOne(rq, beh) == /\ (beh \in RaisingBehaviours \ {"fail"}) => rq.m = "OPTIONS"
                         /\ Exchange(rq, beh)
XExchange     == \E rq \in MCRequests, beh \in Behaviours : XExchangeOne(rq, beh)
MCNext == XMakeEnable \/ XMakeExplicit \/ XGuard \/ XAddOther \/ XExchange

(* export: the app once (from the initial state), then one row per cell *)
Emit == /\ (wiring = "none") => PrintT(ToJson([app |-> [routes |-> routes, sinks |-> sinks, statics |-> statics, sbs |-> sbs]]))
        /\ Answered => PrintT(ToJson([wiring |-> wiring, cfg |-> cfg, other |-> other, guard |-> guard,
                                      rq |-> ans.rq, beh |-> ans.beh, ok |-> ans.x.succeeded, out |-> ans.out,
                                      denied |-> DeniedPreflight]))
=============================================================================
