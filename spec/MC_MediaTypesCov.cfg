INIT Init
NEXT XNext
CONSTANTS
  Ranges <- RangesQ
  MTypes <- MTypesQ
  AllM <- AllMQ
  MaxRanges = 1
  MaxCands = 1
  SubBeforeExact = TRUE
  Positive = TRUE
INVARIANT SpecificityOrder
INVARIANT BestIsFirstMax
INVARIANT QZeroNeverChosen
INVARIANT MalformedOnlyValueError
INVARIANT AcceptsIffPositive
