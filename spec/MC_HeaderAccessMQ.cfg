INIT MInit
NEXT MNext
CONSTANTS
  Bounds <- BoundsQ
  ReqSet <- ReqsTiny
  ReadAttrs <- UrlAttrs
  Depth = 0
  SharedUriSlot = FALSE
INVARIANT MemoSound
INVARIANT CacheSound
INVARIANT LookupSound
