INIT FInit
NEXT FNext
CONSTANTS
  Keys <- SimKeys
  HandlerIds = {1, 2}
  CTypes = {}
  Defaults = {}
  NoRaiseCalls = {}
  MaxObjs = 1
  MaxUpdate = 1
  ClearOnSet = TRUE
  ClearOnDelete = TRUE
  BareKeyShortcut = FALSE
  Accepts <- SimAccepts
  JsonT <- TJson
  TextXmlT <- TTXml
  AppXmlT <- TAXml
  SufJson <- MCSufJson
  SufXml <- MCSufXml
  MemoiseOffered = FALSE
  ExactLookup = FALSE
  Depth = 7
INVARIANT OfferedFollowsMapping
INVARIANT TypeAndBodyAgree
INVARIANT EmitFull
