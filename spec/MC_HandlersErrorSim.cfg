INIT FInit
NEXT FNext
CONSTANTS
  Keys <- MCKeys
  HandlerIds = {1, 2}
  CTypes = {}
  Defaults = {}
  NoRaiseCalls = {}
  MaxObjs = 1
  MaxUpdate = 1
  ClearOnSet = TRUE
  ClearOnDelete = TRUE
  Accepts <- MCAccepts
  JsonT <- TJson
  TextXmlT <- TTXml
  AppXmlT <- TAXml
  MemoiseOffered = FALSE
  Depth = 7
INVARIANT OfferedFollowsMapping
INVARIANT TypeAndBodyAgree
INVARIANT EmitFull
