INIT Init
NEXT Next
CONSTANTS
  Methods = {"GET", "POST", "PUT", "DELETE", "HEAD", "PATCH"}
  MaxHeaders = 3
  NTargets = 11
  NQueries = 6
  NPool = 21
  NBodies = 8
  NEndpoints = 8
  Kinds = {"echo", "text", "data", "stream", "error", "notfound", "redirect", "status", "nocontent", "uncaught", "invalidhdr", "media"}
  NOptions = 3
  Statuses = {200, 201, 204, 304, 101}
  PlainShare = 1
  NForwarding = 14
  UnderscoreNames = FALSE
INVARIANT GeneratedAreWellFormed
INVARIANT Emit
