---------------------------- MODULE MC_ErrorObject ----------------------------
(* Bounded instances of ErrorObject; the export instance carries the history of operations. *)
EXTENDS ErrorObject, Json, IOUtils
A(rs) == [absent |-> FALSE, malformed |-> FALSE, raw |-> "", msfx |-> "", ranges |-> rs]
Absent == [absent |-> TRUE, malformed |-> FALSE, raw |-> "", msfx |-> "", ranges |-> <<>>]
TAG == MT("application", "x-verif-tag")
OAccepts == {Absent, A(<<Range("text", "xml", 10, "")>>), A(<<Range("application", "x-verif-tag", 10, "")>>),
             A(<<Spelled(Range("application", "vnd.verif+json", 10, "json"), "sfx")>>)}
OExtra == {<<TAG>>}
NoErrors == {}
MCWrongRender == IF "WRONG_RENDER" \in DOMAIN IOEnv THEN IOEnv.WRONG_RENDER ELSE "none"

XAmend   == \E f \in AttrNames, n \in BOOLEAN : Amend(f, n)
XPeek    == \E k \in {"dict", "json", "xml"} : Peek(k)
XRaise   == \E a \in Accepts : Raise(a)
XCatch   == Catch
XReraise == Reraise
XRenderObj == RenderObj
MCONext == XAmend \/ XPeek \/ XRaise \/ XCatch \/ XReraise \/ XRenderObj
(* the first Accept value is immaterial until Raise chooses one *)
MCOInit == OInit /\ acc = Absent

===============================================================================
