INIT TInit
NEXT TNext
CONSTANTS
  Accepts <- OnlyAbsent
  ExtraHandlers <- OnlyTag
  Errors <- Empty
  WrongRender = "none"
  MaxAmends = 99
  MaxPeeks = 99
  MaxRenders = 99
