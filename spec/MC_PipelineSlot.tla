---------------------------- MODULE MC_PipelineSlot ----------------------------
(* C03, two further dimensions of the assembly of Pipeline.tla (the request life cycle itself is Pipeline's,
   unchanged: every action below is Pipeline's action with the two new variables left alone).

   1. The responder SLOT the route points at:  slot = [method, sfx, cb, ca].
      The responder is the attribute  on_<method>[_<sfx>]  of the resource class (add_route(.., suffix=sfx));
      sfx is any identifier tail: several words joined by "_", digits, upper-case letters.  Of the nb before
      hooks cb are attached by class-level decorators (the outermost ones) and nb - cb by method-level ones; of
      the na after hooks ca are class-level (the outermost, i.e. the last to run).  Hook style: method-level
      (cb = ca = 0), class-level (cb = nb, ca = na), both (anything between).
      Documented: a class-level decorator wraps EVERY responder of the class, suffixed or not.  The specification
      says which attribute names are responders (IsResponderName) and demands ClassHooksWrapSlot; the call
      sequence (BeforeCall 1..nb, ResponderCall, AfterCall 1..na, with every fault placement) does not read the
      slot: it is the same for every slot.  Names are sequences of one-character strings.

   2. How the middleware stack was REGISTERED:  mwh = sequence of [n, before] groups.  Group 1 is the
      constructor argument (n components, before = 0); every further group is one add_middleware call made
      before request number `before` with a sequence of n components.  AddMiddleware(g) appends the sequence g
      to the stack, in order: "as if they had been appended to the original middleware list".  It may be called
      between two requests of one application object.
      The *container form* of a group (one bare component, list, tuple, generator, iterator, map object, dict
      view) and cors_enable are environment dimensions the specification is independent of: the harness rotates
      them under every exported behaviour and the specified call sequence must come out each time. *)
EXTENDS MC_PipelineS

CONSTANTS SlotMethods,      \* subset of DOMAIN MethodWord
          SlotSuffixes,     \* set of suffixes (sequences of characters; <<>>: the unsuffixed responder)
          AddGroups,        \* sequences of component shapes one add_middleware call may bring
          MaxAddCalls, MaxComps

VARIABLES slot, mwh

Lower == {"a","b","c","d","e","f","g","h","i","j","k","l","m","n","o","p","q","r","s","t","u","v","w","x","y","z"}
Upper == {"A","B","C","D","E","F","G","H","I","J","K","L","M","N","O","P","Q","R","S","T","U","V","W","X","Y","Z"}
Digit == {"0","1","2","3","4","5","6","7","8","9"}
(* wrong design "lower_suffix": only single lower-case words count as suffixes (vacuity control) *)
SfxChars == IF WrongDesign = "lower_suffix" THEN Lower ELSE Lower \cup Upper \cup Digit \cup {"_"}

MethodWord == [GET |-> <<"g","e","t">>, POST |-> <<"p","o","s","t">>, PUT |-> <<"p","u","t">>,
               DELETE |-> <<"d","e","l","e","t","e">>, PATCH |-> <<"p","a","t","c","h">>]
On == <<"o","n","_">>
RespName(s) == On \o MethodWord[s.method] \o (IF s.sfx = <<>> THEN <<>> ELSE <<"_">> \o s.sfx)
(* the attributes of a resource class that are responders: on_<method>, or on_<method>_<non-empty identifier tail> *)
IsResponderName(n) ==
    \E m \in DOMAIN MethodWord :
       LET p == On \o MethodWord[m] IN
       /\ Len(n) >= Len(p) /\ SubSeq(n, 1, Len(p)) = p
       /\ LET rest == SubSeq(n, Len(p) + 1, Len(n))
          IN  rest = <<>> \/ (Len(rest) >= 2 /\ rest[1] = "_" /\ \A j \in 2..Len(rest) : rest[j] \in SfxChars)

SfxNone  == <<>>
SfxWord  == <<"s","f","x">>
SfxTwo   == <<"i","t","e","m","_","h","i","s","t","o","r","y">>
SfxCamel == <<"b","y","I","d">>
SfxDigit == <<"v","2">>
SfxMixed == <<"A","_","b","_","3">>
AllSuffixes == {SfxNone, SfxWord, SfxTwo, SfxCamel, SfxDigit, SfxMixed}
OnlyUnsuffixed == {SfxNone}
Methods2 == {"GET", "POST"}
Methods5 == {"GET", "POST", "PUT", "DELETE", "PATCH"}
OnlyGet == {"GET"}

NoSlot == [method |-> "GET", sfx |-> <<>>, cb |-> 0, ca |-> 0]
SlotsFor(t, b, a) == IF t = "routed" THEN [method : SlotMethods, sfx : SlotSuffixes, cb : 0..b, ca : 0..a] ELSE {NoSlot}

(* registration instances *)
RespOnly == {"resp"}
WShapes  == {Full, RespOnly}
SeqsUpTo(S, n) == UNION {[1..m -> S] : m \in 0..n}
WGroups  == SeqsUpTo(WShapes, 2)
WStacks  == SeqsUpTo({Full}, 1)
NoGroups == {}
AppAOnly == {"AppA"}

SlotInit == /\ SInit
            /\ slot \in SlotsFor(target, nb, na)
            /\ mwh = << [n |-> Len(shape), before |-> 0] >>

Snap2 == [ncomps |-> Len(shape)] @@ Snap

AddMiddleware(g) ==
    /\ phase = "setup" /\ Len(mwh) <= MaxAddCalls /\ Len(shape) + Len(g) <= MaxComps
    /\ shape' = shape \o g
    /\ mwh' = Append(mwh, [n |-> Len(g), before |-> nreq])
    /\ UNCHANGED <<indep, target, nb, na, nreq, reg, ctlv, calls, faults, respv, h, slot>>

XSlotStep == /\ XAddHandler \/ XAddSame \/ XStart \/ XReqCall \/ XRsrcCall \/ XBeforeCall \/ XResponder \/ XAfterCall
                \/ XRespCall \/ XRenderOk \/ XRenderFail \/ XRenderBad \/ XReqSkip \/ XReqDone \/ XRoute \/ XRsrcSkip
                \/ XRsrcDone \/ XBeforeDone \/ XNotFound \/ XAfterDone \/ XRespDone \/ XHandle
             /\ UNCHANGED <<h, slot, mwh>>
XSlotNextRequest == NextRequest /\ h' = Append(h, Snap2) /\ UNCHANGED <<slot, mwh>>
XAddMiddleware == \E g \in AddGroups : AddMiddleware(g)
SlotNext == XSlotStep \/ XSlotNextRequest \/ XAddMiddleware

(* only the last request of a session may go wrong (keeps the registration instance small) *)
EarlierRequestsClean == nreq < MaxReqs => faults = 0

(* a class-level hook is on the routed responder whatever the slot's spelling *)
ClassHooksWrapSlot == (target = "routed" /\ slot.cb + slot.ca > 0) => IsResponderName(RespName(slot))
SlotTypeOK == /\ slot.cb \in 0..nb /\ slot.ca \in 0..na
              /\ Len(shape) <= MaxComps
              /\ Len(shape) = mwh[1].n + (IF Len(mwh) > 1 THEN mwh[2].n ELSE 0) + (IF Len(mwh) > 2 THEN mwh[3].n ELSE 0)
                              + (IF Len(mwh) > 3 THEN mwh[4].n ELSE 0)

EmitSlot == (phase = "end" /\ nreq = MaxReqs) =>
    PrintT(ToJson([shape |-> [c \in 1..N |-> shape[c]], indep |-> indep, target |-> target, nb |-> nb, na |-> na,
                   reg |-> reg, slot |-> slot, mwh |-> mwh, reqs |-> Append(h, Snap2)]))
=============================================================================
