INIT MCInit
NEXT XNext
CONSTANTS
  Stacks = {"wsgi", "asgi"}
  Framings <- MCFramings
  CTypes <- MCCTypes
  HandlerOf <- MCHandlerOf
  BodyKinds <- MCBodyKinds
  CacheError = TRUE
  CacheDefault = FALSE
  HandlerDecidesEmpty = TRUE
  KeepFirstError = FALSE
  Contexts <- MCContexts
  Depth = 0
INVARIANT TypeOK
INVARIANT AtMostOneParse
INVARIANT SameObjectOrSameError
INVARIANT DefaultOnlyForEmpty
INVARIANT DefaultNotCached
INVARIANT EmptyIsDocumented
INVARIANT EmptyFormIsEmptyMapping
INVARIANT MalformedIs400Class
INVARIANT RoundTrip
INVARIANT BlankIsNotEmpty
INVARIANT CustomErrorIsKept
INVARIANT UnsupportedIs415
INVARIANT LaterAccessesObserveFirstError
INVARIANT MalformedCarriesParserMessage
INVARIANT HandlerDecidesEmptyLaw
PROPERTY MCNeverReparsed
PROPERTY MCErrorIsStable
