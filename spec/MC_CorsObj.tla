---------------------------- MODULE MC_CorsObj ----------------------------
(* C20, configuration as state + several requests on one app.  Bounded instance of Cors over the app of MC_Cors:
     Configure / ConfigureRejected   CORSMiddleware(..) with the arguments in every form (the string '*', None, one string,
                                     set, frozenset, list, tuple, generator, dict key view), '*' inside an iterable included;
     CallerMutates                   between requests the caller adds / removes an origin, adds '*', appends / removes an
                                     exposed header name ON THE OBJECT IT PASSED (mutable forms only);
     Exchange, NextRequest           up to MaxServed requests on the one long-lived middleware (allowed, disallowed, absent
                                     origins - among them origins the caller added / removed afterwards -, preflights, plain).
   Every clause of Cors is checked on every exchange of every history, plus GrantFunctionOfConfigAndRequest and
   PolicyFixedAtConstruction; the wrong designs AliasCallerSet and MemoDecision must fail.
   hist (KeepHist = TRUE, simulation only) records the history for the replay leg. *)
EXTENDS MC_Cors
CONSTANTS KeepHist, MaxServed, MaxMut
VARIABLES hist, muts
ovars == <<cvars, hist, muts>>

Tup(S)  == Arg("tuple", FALSE, S)
AoArgs  == {Arg("star", TRUE, {}), Arg("str", FALSE, {O1})}
             \cup {Arg(f, FALSE, S) : f \in ContainerForms, S \in {{O1}, {O1, O2}, {O1, STAR_ITEM}}}
AcArgs  == {Arg("none", FALSE, {}), Arg("star", TRUE, {}), Arg("str", FALSE, {O1})}
             \cup {Arg(f, FALSE, S) : f \in ContainerForms, S \in {{O1}, {O2, STAR_ITEM}}}
EhArgs  == {EhArg("none", <<>>), EhArg("str", <<"X-A">>)}
             \cup {EhArg(f, s) : f \in ContainerForms, s \in {<<"X-A">>, <<"X-A", "X-B">>}}
(* every form of every option, the other two options from a small base (which has a mutable member as well, so that
   two objects can be mutated in one history;
   quick: two members each, thorough - OtherForAll - three) *)
AoBase  == {Tup({O1, O2}), Arg("set", FALSE, {O1})} \cup (IF OtherForAll THEN {Arg("star", TRUE, {})} ELSE {})
AcBase  == {Tup({O1}), Arg("list", FALSE, {O1})} \cup (IF OtherForAll THEN {Arg("none", FALSE, {})} ELSE {})
EhBase  == {EhArg("tuple", <<"X-A">>), EhArg("list", <<"X-A">>)} \cup (IF OtherForAll THEN {EhArg("none", <<>>)} ELSE {})
Mk(a, c, e) == [ao |-> a, ac |-> c, eh |-> e]
ObjArgs == {Mk(a, c, e) : a \in AoArgs, c \in AcBase, e \in EhBase}
             \cup {Mk(a, c, e) : a \in AoBase, c \in AcArgs, e \in EhBase}
             \cup {Mk(a, c, e) : a \in AoBase, c \in AcBase, e \in EhArgs}

(* requests: origins incl. the one the caller may add later (O3) and the ones it may remove (O1, O2); plain and
   preflight; a routed target (Allow advertised -> approved) and an unrouted one *)
ObjOrigins  == {ABSENT, O1, O2, O3}
ObjRequests == {Rq(o, "GET", <<47, 114>>, ABSENT, ABSENT) : o \in ObjOrigins}
                 \cup {Rq(o, "OPTIONS", <<47, 114>>, "POST", ABSENT) : o \in ObjOrigins}
                 \cup (IF OtherForAll \/ KeepHist            \* (the quick exhaustive instance: the eight above)
                       THEN {Rq(o, "GET", <<47, 120>>, ABSENT, ABSENT) : o \in ObjOrigins}
                               \cup {Rq(o, "OPTIONS", <<47, 114>>, ABSENT, ABSENT) : o \in ObjOrigins}
                       ELSE {})
OriginMutations == {<<"add", O3>>, <<"add", O2>>, <<"remove", O1>>, <<"add", STAR_ITEM>>}
ExposeMutations == {<<"add", "X-C">>, <<"remove", "X-A">>}

Step(op, opt, how, item, rq, beh) ==
    [op |-> op, opt |-> opt, how |-> how, item |-> item, rq |-> rq, beh |-> beh,
     out |-> IF op = "req" THEN ans'.out ELSE NoHeaders,
     denied |-> IF op = "req" THEN (IsPreflight(rq, ans'.x) /\ ConfigAllows(cfg, rq.origin) /\ ~ans'.x.hdr.allow.has) ELSE FALSE]
Rec(s) == hist' = (IF KeepHist THEN Append(hist, s) ELSE hist)

ObjInit == MCInit /\ hist = <<>> /\ muts = 0
OConfigure == /\ wiring = "none"
              /\ \E a \in ObjArgs : Configure(a) /\ UNCHANGED <<hist, muts>>
OConfigureRejected == /\ wiring = "none"
                      /\ \E a \in ObjArgs : ConfigureRejected(a) /\ UNCHANGED <<hist, muts>>
OCallerMutates ==
    /\ muts < MaxMut /\ served < MaxServed
    /\ \/ \E opt \in {"ao", "ac"}, mu \in OriginMutations :
             CallerMutates(opt, mu[1], mu[2]) /\ Rec(Step("mutate", opt, mu[1], mu[2], NoAns.rq, "plain"))
       \/ \E mu \in ExposeMutations :
             CallerMutates("eh", mu[1], mu[2]) /\ Rec(Step("mutate", "eh", mu[1], mu[2], NoAns.rq, "plain"))
    /\ muts' = muts + 1
OExchange    == /\ served = 0
                /\ \E rq \in ObjRequests : Exchange(rq, "plain") /\ Rec(Step("req", "", "", "", rq, "plain")) /\ UNCHANGED muts
ONextRequest == /\ served < MaxServed
                /\ \E rq \in ObjRequests : NextRequest(rq, "plain") /\ Rec(Step("req", "", "", "", rq, "plain")) /\ UNCHANGED muts
ObjNext == OConfigure \/ OConfigureRejected \/ OCallerMutates \/ OExchange \/ ONextRequest
ObjSpec == ObjInit /\ [][ObjNext]_ovars

(* export for the replay leg: the app once, every complete history (MaxServed requests) and every refused construction *)
(* `caller` is the objects as they are NOW; what was passed = the same forms with the contents of the snapshot *)
ArgsAtConstruction == [ao |-> Arg(caller.ao.form, cfg.ao.star, cfg.ao.set), ac |-> Arg(caller.ac.form, cfg.ac.star, cfg.ac.set),
                       eh |-> EhArg(caller.eh.form, cfg.eh)]
EmitObj ==
    /\ (wiring = "none") => PrintT(ToJson([app |-> [routes |-> routes, sinks |-> sinks, statics |-> statics, sbs |-> sbs]]))
    /\ (KeepHist /\ wiring = "rejected") => PrintT(ToJson([args |-> caller, rejected |-> TRUE, cfg |-> cfg, steps |-> <<>>]))
    /\ (KeepHist /\ served = MaxServed) => PrintT(ToJson([args |-> ArgsAtConstruction, rejected |-> FALSE, cfg |-> cfg,
                                                           steps |-> hist]))
=============================================================================
