--------------------------- MODULE HeaderAccess ---------------------------
(* C09: a request object as a state machine over HeaderAccessOps.

   A request is first assembled (Extend: one more token arrives in a header value) and then
   read (Read: one typed accessor, GetHeader: raw lookup under some casing of the name).
   Several accessors memoise their result and the results they are built from; the property
   is that no history of reads can make an accessor answer anything but what a fresh
   computation on the request gives (MemoSound / CacheSound), and that the grammars of
   HeaderAccessOps only ever claim well-formed values (the *WellFormed predicates). *)
EXTENDS HeaderAccessOps

CONSTANT SharedUriSlot      \* wrong-design switch: forwarded_uri memoised in the slot of uri

VARIABLES req,     \* the request (see HeaderAccessOps)
          cache,   \* memo slot -> outcome, or Unset
          last     \* the last call: [a |-> accessor, hn |-> header name, c |-> casing, o |-> outcome]

vars == <<req, cache, last>>

Unset == Out("unset", NIL, <<>>, <<>>)
CachedAttrs == {"uri", "forwarded_uri", "relative_uri", "prefix", "forwarded_prefix", "forwarded",
                "access_route", "if_match", "if_none_match"}
EmptyCache == [c \in CachedAttrs |-> Unset]
Casings == {"lower", "Title", "UPPER", "mIxEd"}
Call(a, hn, c, o) == [a |-> a, hn |-> hn, c |-> c, o |-> o]
NoCall == Call("init", "", "lower", AnyOut)

Slot(a) == IF SharedUriSlot /\ a = "forwarded_uri" THEN "uri" ELSE a

(* memoised sub-results an accessor leaves behind *)
FwdDep == IF req.h["forwarded"].p THEN {"forwarded"} ELSE {}
Deps(a) == CASE a = "uri"              -> {"relative_uri"}
             [] a = "forwarded_uri"    -> {"relative_uri"} \cup FwdDep
             [] a = "forwarded_prefix" -> FwdDep
             [] a = "forwarded_scheme" -> FwdDep
             [] a = "forwarded_host"   -> FwdDep
             [] a = "access_route"     -> FwdDep
             [] OTHER                  -> {}

Building == cache = EmptyCache /\ last = NoCall

Extend(name, t) ==                      \* the next token of header `name` arrives
    /\ Building
    /\ req' = [req EXCEPT !.h[name] = Hdr(Append(@.t, t))]
    /\ UNCHANGED <<cache, last>>

Read(a) ==
    LET memo == a \in CachedAttrs
        v == IF memo /\ cache[Slot(a)] # Unset THEN cache[Slot(a)] ELSE Fresh(req, a)
    IN  /\ last' = Call(a, "", "lower", v)
        /\ cache' = [c \in CachedAttrs |->
                        IF memo /\ c = Slot(a) /\ IsVal(v) THEN v
                        ELSE IF c \in Deps(a) /\ cache[c] = Unset /\ IsVal(Fresh(req, c)) THEN Fresh(req, c)
                        ELSE cache[c]]
        /\ UNCHANGED req

GetHeader(name, casing) ==              \* header lookup is case-insensitive: the casing plays no part
    /\ last' = Call("get_header", name, casing, Lookup(req, name))
    /\ UNCHANGED <<req, cache>>

(* ------------------------------------------------------------------------ properties *)
MemoSound   == last.a \in Attrs => last.o = Fresh(req, last.a)
CacheSound  == \A c \in CachedAttrs : cache[c] # Unset => cache[c] = Fresh(req, c)
LookupSound == last.a = "get_header" => last.o = Lookup(req, last.hn)

F(a) == Fresh(req, a)
OutcomeShape == \A a \in Attrs : F(a).k \in {"value", "any", "doc400", "value400"}
RangeWellFormed ==
    LET o == F("range") IN (IsVal(o) /\ o.s = "#i") =>
        /\ Len(o.i) = 2
        /\ \/ o.i[1] >= 0 /\ (o.i[2] = -1 \/ o.i[2] >= o.i[1])
           \/ o.i[1] < 0 /\ o.i[2] = -1
        /\ F("range_unit") = ValS("bytes")
LengthWellFormed == LET o == F("content_length") IN (IsVal(o) /\ o.s = "#i") => (Len(o.i) = 1 /\ o.i[1] >= 0)
TagsWellFormed   == \A a \in {"if_match", "if_none_match"} :
                        LET o == F(a) IN (IsVal(o) /\ o.s = "#l") => Len(o.l) >= 1
ForwardedWellFormed == LET o == F("forwarded") IN (IsVal(o) /\ o.s = "#l") => (Len(o.l) >= 4 /\ Len(o.l) % 4 = 0)
RouteEndsAtPeer  == LET o == F("access_route") IN IsVal(o) => (o.l # <<>> /\ o.l[Len(o.l)] = req.peer)
HostWellFormed   == /\ IsVal(F("port")) => F("port").i[1] >= 0
                    /\ IsVal(F("host")) <=> IsVal(F("port"))
                    /\ IsVal(F("host")) <=> IsVal(F("netloc"))
                    /\ IsVal(F("subdomain")) => IsVal(F("host"))
UriComposition   == IsVal(F("uri")) =>
                        /\ IsVal(F("prefix"))
                        /\ F("uri").s = F("prefix").s \o req.path \o (IF req.query = "" THEN "" ELSE "?" \o req.query)
                        /\ F("uri").s = req.scheme \o "://" \o F("netloc").s \o F("relative_uri").s
NotProxied       == (~req.h["forwarded"].p /\ ~req.h["x-forwarded-proto"].p /\ ~req.h["x-forwarded-host"].p) =>
                        (F("forwarded_uri") = F("uri") /\ F("forwarded_prefix") = F("prefix"))
===========================================================================
