INIT Init
NEXT XNext
CONSTANTS
  Alphabet <- NoStrings
  MaxLen = 0
  Extra <- NoStrings
  Mappings <- RtMappings
  KnownLiterals <- NoStrings
INVARIANT ParseTotal
INVARIANT RoundTrip
INVARIANT RoundTripNoBlanks
INVARIANT RenderAlphabet
INVARIANT Emit
