INIT AInit
NEXT ANextRoutes
CONSTANTS
  Templates <- OneTemplate
  ResKinds <- AllResKinds
  SinkPats <- MCSinkPats
  StaticPrefixes <- MCStaticPrefixes
  Methods <- AllMethods
  Paths <- FewPaths
  MaxCalls = 1
  NewestFirst = TRUE
  RoutesFirst = TRUE
INVARIANT Emit
