------------------------- MODULE RespHeadersOps -------------------------
(* C15: pure operators of the response-header specification (no state).
   Shared by RespHeaders.tla (state machine, model-checked) and RespHeadersTrace.tla (judge).

   A header NAME is a record [b, c]: b is the case-folded spelling (a lower-case string),
   c a casing pattern (bit i set = letter i is upper-cased; 0 = the all-lower-case spelling).
   Two names denote the same header iff their b agree.  Header VALUES are strings.
   A finite map is a function whose domain is the set of present keys. *)
EXTENDS Integers, Sequences, FiniteSets, TLC

Put(m, k, v)   == [x \in DOMAIN m \cup {k} |-> IF x = k THEN v ELSE m[x]]
Del(m, k)      == [x \in DOMAIN m \ {k} |-> m[x]]
Look(m, k)     == IF k \in DOMAIN m THEN <<m[k]>> ELSE <<>>
AppendVal(m, k, v) == Put(m, k, IF k \in DOMAIN m THEN m[k] \o ", " \o v ELSE v)   \* RFC 9110 5.3 list join
EmptyMap       == <<>>

Lower(n)  == [b |-> n.b, c |-> 0]
SCName    == "set-cookie"
IsSC(n)   == n.b = SCName

Range(s) == {s[i] : i \in 1..Len(s)}

RECURSIVE PutAll(_, _)
PutAll(m, items) == IF items = <<>> THEN m ELSE PutAll(Put(m, Head(items).n.b, Head(items).v), Tail(items))

RECURSIVE JoinComma(_)
JoinComma(l) == IF l = <<>> THEN "" ELSE IF Len(l) = 1 THEN l[1] ELSE l[1] \o ", " \o JoinComma(Tail(l))

RECURSIVE JoinWith(_, _)
JoinWith(l, sep) == IF l = <<>> THEN "" ELSE IF Len(l) = 1 THEN l[1] ELSE l[1] \o sep \o JoinWith(Tail(l), sep)

(* ---- typed header properties ------------------------------------------------------------ *)
TypedHeader == [cache_control |-> "cache-control", content_location |-> "content-location",
                content_length |-> "content-length", content_range |-> "content-range",
                content_type |-> "content-type", downloadable_as |-> "content-disposition",
                viewable_as |-> "content-disposition", etag |-> "etag", expires |-> "expires",
                last_modified |-> "last-modified", location |-> "location", retry_after |-> "retry-after",
                vary |-> "vary", accept_ranges |-> "accept-ranges"]
TypedProps == DOMAIN TypedHeader

(* properties whose value goes through a codec (URI escaping, RFC 6266, HTTP-date): the text is
   fixed by a law Decode(text) = original, not by this module, unless the instance supplies it *)
CodecProps == {"content_location", "location", "downloadable_as", "viewable_as", "expires", "last_modified"}
UriProps   == {"content_location", "location", "downloadable_as", "viewable_as"}

(* one uniform argument record: kind none|str|int|list|range|codec *)
TArg(kind, s, i, j, l, u, text) == [kind |-> kind, s |-> s, i |-> i, j |-> j, l |-> l, u |-> u, text |-> text]
TNone      == TArg("none", "", 0, 0, <<>>, "", "")
TStr(s)    == TArg("str", s, 0, 0, <<>>, "", "")
TInt(i)    == TArg("int", "", i, 0, <<>>, "", "")
TList(l)   == TArg("list", "", 0, 0, l, "", "")
TRange(i, j, len, u) == TArg("range", len, i, j, <<>>, u, "")     \* len is a string: digits or "*"
TCodec(s, i, text)   == TArg("codec", s, i, 0, <<>>, "", text)     \* s / i: the original (string / epoch); text: its encoding

Quote(s) == IF Len(s) > 0 /\ SubSeq(s, Len(s), Len(s)) = "\"" THEN s ELSE "\"" \o s \o "\""

Fmt(p, a) ==
    CASE p \in CodecProps                       -> a.text
      [] p = "etag"                             -> Quote(a.s)
      [] p \in {"cache_control", "vary"}        -> JoinComma(a.l)
      [] p = "content_range"                    -> (IF a.u = "" THEN "bytes" ELSE a.u) \o " " \o ToString(a.i) \o "-"
                                                   \o ToString(a.j) \o "/" \o a.s
      [] a.kind = "int"                         -> ToString(a.i)
      [] OTHER                                  -> a.s

DispType(p) == IF p = "viewable_as" THEN "inline" ELSE "attachment"
(* what the instance may use as `text` for a download name that needs no escaping *)
DispSafe(p, s) == DispType(p) \o "; filename=\"" \o s \o "\""

(* The URI helpers (location, content_location, link target / anchor / relation URI, title* text) pass a
   value through unchanged when it looks escaped already, i.e. every "%" starts a valid escape
   (falcon.uri.encode_check_escaped, documented in the code, issue 1872): such an original denotes its
   own decoding, the law "Decode(emitted) = original" is not stated for it. *)
IsHexCp(c) == (c >= 48 /\ c <= 57) \/ (c >= 65 /\ c <= 70) \/ (c >= 97 /\ c <= 102)
LooksEscaped(s) == /\ \E i \in 1..Len(s) : s[i] = 37
                   /\ \A i \in 1..Len(s) : s[i] = 37 => (i + 2 <= Len(s) /\ IsHexCp(s[i+1]) /\ IsHexCp(s[i+2]))

(* RFC 3986 2.1: in an emitted URI every "%" is followed by two hex digits *)
ValidPct(s) == \A i \in 1..Len(s) : s[i] = 37 => (i + 2 <= Len(s) /\ IsHexCp(s[i+1]) /\ IsHexCp(s[i+2]))

(* ---- Link (RFC 8288) ---------------------------------------------------------------------- *)
(* optional members are 0/1-element sequences *)
LinkRec(target, rel, title, tstar, anchor, type, hreflang, crossorigin) ==
    [target |-> target, rel |-> rel, title |-> title, tstar |-> tstar, anchor |-> anchor, type |-> type,
     hreflang |-> hreflang, crossorigin |-> crossorigin]
Opt(prefix, o, suffix) == IF o = <<>> THEN "" ELSE prefix \o o[1] \o suffix
(* the link-value for members that need no escaping (what the instance uses as exact text) *)
LinkSafe(l) == "<" \o l.target \o ">; rel=" \o l.rel
               \o Opt("; title=\"", l.title, "\"")
               \o (IF l.tstar = <<>> THEN "" ELSE "; title*=UTF-8'" \o l.tstar[1].lang \o "'" \o l.tstar[1].text)
               \o Opt("; type=\"", l.type, "\"")
               \o (IF l.hreflang = <<>> THEN "" ELSE "; " \o JoinWith([i \in 1..Len(l.hreflang) |-> "hreflang=" \o l.hreflang[i]], "; "))
               \o Opt("; anchor=\"", l.anchor, "\"")
               \o (IF l.crossorigin = <<>> THEN "" ELSE IF l.crossorigin[1] = "anonymous" THEN "; crossorigin"
                   ELSE "; crossorigin=\"use-credentials\"")

(* ---- cookies ------------------------------------------------------------------------------- *)
(* what a Set-Cookie line says, as a record.  exp: epoch seconds, -1 = no Expires attribute,
   -2 = "one second before the call" (what unset_cookie writes).  unset marks a cookie whose last
   write was unset_cookie. *)
CookieRec(value, exp, hasma, ma, domain, path, secure, httponly, samesite, partitioned, unset) ==
    [value |-> value, exp |-> exp, hasmaxage |-> hasma, maxage |-> ma, domain |-> domain, path |-> path,
     secure |-> secure, httponly |-> httponly, samesite |-> samesite, partitioned |-> partitioned, unset |-> unset]

SSCanon(b) == CASE b = "lax" -> "Lax" [] b = "strict" -> "Strict" [] b = "none" -> "None" [] OTHER -> ""

(* set_cookie arguments: exp epoch or -1; ma = [kind none|int|float|str, num, frac];
   secure in none|true|false; ss = same_site as a name-like record [b, c] (b = "" : not given) *)
CookieOf(a, secureDefault) ==
    CookieRec(a.value, a.exp, a.ma.kind # "none", IF a.ma.kind = "none" THEN 0 ELSE a.ma.num, a.domain, a.path,
              IF a.secure = "none" THEN secureDefault ELSE a.secure = "true", a.httponly, SSCanon(a.ss.b),
              a.partitioned, FALSE)

(* unset_cookie arguments: samesite (verbatim, default "Lax"), domain, path *)
UnsetOf(u) == CookieRec("", -2, FALSE, 0, u.domain, u.path, FALSE, FALSE, u.samesite, FALSE, TRUE)

(* unset_cookie on a name already written in this response.  The property cannot decide "exactly the
   requested attributes" here: unset_cookie cannot be asked for Secure/HttpOnly/Partitioned, and falcon's own
   suite pins that they survive from the earlier write.  So the specification ALLOWS inheritance:
     stated (P):    value empty, expired (Expires in the past, no Max-Age left), SameSite as given,
                    Domain/Path as given when this call gave them
     free   (D):    every attribute this call did not give is absent or inherited from the earlier write
   InheritUnset is the model of the code (everything inherited except Max-Age, which is cleared). *)
InheritUnset(old, new) ==
    CookieRec("", -2, FALSE, 0,
              IF new.domain # "" THEN new.domain ELSE old.domain,
              IF new.path # "" THEN new.path ELSE old.path,
              old.secure, old.httponly, new.samesite, old.partitioned, TRUE)
(* held cookie j satisfies the unset request w (= UnsetOf(u)) *)
UnsetAsked(j, w) ==
    /\ j.unset /\ j.value = "" /\ j.exp = -2 /\ j.samesite = w.samesite
    /\ (w.domain # "" => j.domain = w.domain)
    /\ (w.path # "" => j.path = w.path)
(* what a later unset_cookie may inherit from the writes so far (the attributes a Morsel keeps) *)
InhRec(domain, path, secure, httponly, partitioned, prev) ==
    [domain |-> domain, path |-> path, secure |-> secure, httponly |-> httponly, partitioned |-> partitioned, prev |-> prev]
NoInh == InhRec("", "", FALSE, FALSE, FALSE, FALSE)
InhOfSet(c) == InhRec(c.domain, c.path, c.secure, c.httponly, c.partitioned, FALSE)
InhOfUnset(o, u, prev) == InhRec(IF u.domain # "" THEN u.domain ELSE o.domain, IF u.path # "" THEN u.path ELSE o.path,
                                 o.secure, o.httponly, o.partitioned, prev)

(* wrong design (FreshCookie = FALSE, the code before the repair): http.cookies re-uses the Morsel of a name
   that is already in the jar, so attributes the new call does not mention survive, Max-Age included *)
MergeSet(old, new) ==
    CookieRec(new.value,
              IF new.exp # -1 THEN new.exp ELSE old.exp,
              new.hasmaxage \/ old.hasmaxage, IF new.hasmaxage THEN new.maxage ELSE old.maxage,
              IF new.domain # "" THEN new.domain ELSE old.domain,
              IF new.path # "" THEN new.path ELSE old.path,
              new.secure \/ old.secure, new.httponly \/ old.httponly,
              IF new.samesite # "" THEN new.samesite ELSE old.samesite,
              new.partitioned \/ old.partitioned, FALSE)
MergeUnset(old, new) ==
    CookieRec("", -2, old.hasmaxage, old.maxage,
              IF new.domain # "" THEN new.domain ELSE old.domain,
              IF new.path # "" THEN new.path ELSE old.path,
              old.secure, old.httponly, new.samesite, old.partitioned, TRUE)

(* RFC 6265 5.3 step 3: Max-Age wins over Expires.  `exp` is the Expires instant, `now` the clock. *)
Expired(hasma, ma, hasexp, exp, now) == IF hasma THEN ma <= 0 ELSE (hasexp /\ exp <= now)

(* an unset cookie in the specification has its Expires one second before the call, i.e. in the
   past; a user agent expires it unless a Max-Age > 0 overrides the Expires attribute *)
UnsetIsExpired(c) == c.unset => (~c.hasmaxage \/ c.maxage <= 0)

(* ---- the coding of a cookie value on the wire (strings as code points) ------------------------------------ *)
(* What http.cookies produces for a cookie value and what the request side must undo (RFC 2109 style):
   a value made only of "legal" characters goes out as it is; any other value goes out as a quoted-string
   in which  "  is  \"  ,  \  is  \\  , and every character outside the plain set (controls, comma,
   semicolon, 8-bit) is a backslash and three octal digits.  The inverse reads the inner text ONCE from left
   to right: backslash + [0-3][0-7][0-7] is one character, backslash + anything else is that character.
   Law (model-checked, CookieRoundTrip in MC_RespHeaders): CookieDecode(CookieEncode(v)) = v.
   CookieDecodeTwoPass is the wrong design "first all octal escapes, then all quoted pairs": the passes interfere
   on a literal backslash followed by three octal digits. *)
CkLegal(c) == (c >= 48 /\ c <= 57) \/ (c >= 65 /\ c <= 90) \/ (c >= 97 /\ c <= 122)
              \/ c \in {33, 35, 36, 37, 38, 39, 42, 43, 45, 46, 94, 95, 96, 124, 126, 58}
CkPlain(c) == CkLegal(c) \/ c \in {32, 40, 41, 47, 60, 61, 62, 63, 64, 91, 93, 123, 125}
CkOct(c)   == <<48 + (c \div 64), 48 + ((c \div 8) % 8), 48 + (c % 8)>>
CkEsc(c)   == IF c = 34 THEN <<92, 34>> ELSE IF c = 92 THEN <<92, 92>> ELSE IF CkPlain(c) THEN <<c>> ELSE <<92>> \o CkOct(c)
RECURSIVE CkEscAll(_)
CkEscAll(v) == IF v = <<>> THEN <<>> ELSE CkEsc(Head(v)) \o CkEscAll(Tail(v))
CookieEncode(v) == IF v # <<>> /\ \A i \in 1..Len(v) : CkLegal(v[i]) THEN v ELSE <<34>> \o CkEscAll(v) \o <<34>>
(* set_cookie refuses a value that is not ASCII (documented ValueError) *)
CookieRefused(v) == \E i \in 1..Len(v) : v[i] > 127

IsOct3(s) == Len(s) >= 4 /\ s[2] \in 48..51 /\ s[3] \in 48..55 /\ s[4] \in 48..55
OctVal(s) == (s[2] - 48) * 64 + (s[3] - 48) * 8 + (s[4] - 48)
RECURSIVE CkScan(_)
CkScan(s) == IF s = <<>> THEN <<>>
             ELSE IF s[1] # 92 THEN <<s[1]>> \o CkScan(Tail(s))
             ELSE IF IsOct3(s) THEN <<OctVal(s)>> \o CkScan(SubSeq(s, 5, Len(s)))
             ELSE IF Len(s) >= 2 THEN <<s[2]>> \o CkScan(SubSeq(s, 3, Len(s)))
             ELSE s                                       \* a lone trailing backslash stays
Quoted(s) == Len(s) >= 2 /\ s[1] = 34 /\ s[Len(s)] = 34
CookieDecode(s) == IF Quoted(s) THEN CkScan(SubSeq(s, 2, Len(s) - 1)) ELSE s

RECURSIVE CkPassOct(_)
CkPassOct(s) == IF s = <<>> THEN <<>>
                ELSE IF s[1] = 92 /\ IsOct3(s) THEN <<OctVal(s)>> \o CkPassOct(SubSeq(s, 5, Len(s)))
                ELSE <<s[1]>> \o CkPassOct(Tail(s))
RECURSIVE CkPassPair(_)
CkPassPair(s) == IF s = <<>> THEN <<>>
                 ELSE IF s[1] = 92 /\ Len(s) >= 2 THEN <<s[2]>> \o CkPassPair(SubSeq(s, 3, Len(s)))
                 ELSE <<s[1]>> \o CkPassPair(Tail(s))
CookieDecodeTwoPass(s) == IF Quoted(s) THEN CkPassPair(CkPassOct(SubSeq(s, 2, Len(s) - 1))) ELSE s

(* ---- cookie NAMES (strings as code points) ------------------------------------------------------------------- *)
(* RFC 6265 4.1.1: cookie-name = token; RFC 7230 3.2.6: token = 1*tchar,
     tchar = "!" / "#" / "$" / "%" / "&" / "'" / "*" / "+" / "-" / "." / "^" / "_" / "`" / "|" / "~" / DIGIT / ALPHA.
   Everything else cannot be part of a name: the separators ( ) < > @ , ; : \ " / [ ] ? = { }, blanks, control
   characters, non-ASCII.  set_cookie / unset_cookie accept exactly the legal names (documented KeyError otherwise)
   and put an accepted name on the Set-Cookie line as it is. *)
CknDigit(c)    == c >= 48 /\ c <= 57
CknLetter(c)   == (c >= 65 /\ c <= 90) \/ (c >= 97 /\ c <= 122)
CknSpecials    == {33, 35, 36, 37, 38, 39, 42, 43, 45, 46, 94, 95, 96, 124, 126}
CknSeparators  == {40, 41, 60, 62, 64, 44, 59, 58, 92, 34, 47, 91, 93, 63, 61, 123, 125}
CknTchar(c)    == CknDigit(c) \/ CknLetter(c) \/ c \in CknSpecials
CookieNameLegal(n) == n # <<>> /\ \A i \in 1..Len(n) : CknTchar(n[i])
(* wrong design: the legal keys of http.cookies (its _LegalChars) - the token characters and the colon *)
CookieNameLegalHttpCookies(n) == n # <<>> /\ \A i \in 1..Len(n) : (CknTchar(n[i]) \/ n[i] = 58)

(* The echo: a user agent returns the cookies it holds in ONE header (RFC 6265 4.2.1),
     cookie-string = cookie-pair *( ";" SP cookie-pair ),  cookie-pair = cookie-name "=" cookie-value
   with name and value as they stood on the Set-Cookie line.  ps: sequence of [n, v] (v: the uncoded value). *)
CookiePair(p) == p.n \o <<61>> \o CookieEncode(p.v)
RECURSIVE CookieHeader(_)
CookieHeader(ps) == IF ps = <<>> THEN <<>>
                    ELSE IF Len(ps) = 1 THEN CookiePair(ps[1])
                    ELSE CookiePair(ps[1]) \o <<59, 32>> \o CookieHeader(Tail(ps))
(* What the request API makes of a Cookie header (RFC 6265 5.4 read leniently, as the docs of Request.cookies say):
   the pieces between semicolons; a piece is name "=" value at its FIRST "="; blanks around both are dropped; a piece
   without a name, or whose name is not a token, is skipped; a quoted value is unquoted.  The result keeps every
   value per name in header order (get_cookie_values); Request.cookies has the first. *)
CknBlank(c) == c \in {32, 9}
RECURSIVE CknLTrim(_)
CknLTrim(s) == IF s # <<>> /\ CknBlank(s[1]) THEN CknLTrim(Tail(s)) ELSE s
RECURSIVE CknRTrim(_)
CknRTrim(s) == IF s # <<>> /\ CknBlank(s[Len(s)]) THEN CknRTrim(SubSeq(s, 1, Len(s) - 1)) ELSE s
CknTrim(s)  == CknRTrim(CknLTrim(s))
CknFirst(s, c) == IF \E i \in 1..Len(s) : s[i] = c THEN CHOOSE i \in 1..Len(s) : s[i] = c /\ \A j \in 1..(i - 1) : s[j] # c
                  ELSE Len(s) + 1
RECURSIVE CknPieces(_)
CknPieces(s) == LET i == CknFirst(s, 59) IN
                IF i > Len(s) THEN <<s>> ELSE <<SubSeq(s, 1, i - 1)>> \o CknPieces(SubSeq(s, i + 1, Len(s)))
CknPairOf(piece) == LET i == CknFirst(piece, 61) IN
                    [n |-> CknTrim(SubSeq(piece, 1, i - 1)), v |-> CookieDecode(CknTrim(SubSeq(piece, i + 1, Len(piece))))]
ReadCookieHeader(h) == LET ps == CknPieces(h)
                           all == [i \in 1..Len(ps) |-> CknPairOf(ps[i])]
                       IN  SelectSeq(all, LAMBDA p : CookieNameLegal(p.n))
CookieValuesOf(h, n) == LET rd == ReadCookieHeader(h)
                            hit == SelectSeq(rd, LAMBDA p : p.n = n)
                        IN  [i \in 1..Len(hit) |-> hit[i].v]
(* the law: a name set_cookie accepts, with any value it accepts, sent back between other cookies, is read back
   under the same name with the same value - and the neighbours keep theirs.  `accept` is the writer's test
   (CookieNameLegal; the wrong design takes CookieNameLegalHttpCookies). *)
CookieNameRoundTripOf(accepted, n, v, before, after) ==
    accepted =>
        LET h == CookieHeader(before \o <<[n |-> n, v |-> v]>> \o after)
            others == before \o after
        IN  /\ CookieValuesOf(h, n) = <<v>>              \* (the neighbours have other names, pairwise distinct)
            /\ \A i \in 1..Len(others) : CookieValuesOf(h, others[i].n) = <<others[i].v>>
            /\ Len(ReadCookieHeader(h)) = Len(others) + 1

(* ---- emission ------------------------------------------------------------------------------ *)
(* The framework adds the default media type when the handler set no Content-Type and states the
   length of the body; the handler here produces no body. *)
WithFramework(m, defaultMedia) ==
    LET m1 == IF "content-type" \in DOMAIN m THEN m ELSE Put(m, "content-type", defaultMedia)
    IN  Put(m1, "content-length", "0")
=========================================================================
