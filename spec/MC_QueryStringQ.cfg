INIT Init
NEXT XNext
CONSTANTS
  Alphabet <- QsAlphabet
  MaxLen = 3
  Extra <- QsExtraAll
  Mappings <- NoMappings
  KnownLiterals <- NoStrings
INVARIANT ParseTotal
INVARIANT BlanksOnlyFilter
INVARIANT CsvOffOneValuePerField
INVARIANT AmpConcat
INVARIANT Emit
