------------------------ MODULE WebSocketMediaTrace ------------------------
(* Trace judge for the payload dimension of C17.  Reads a JSON list of sessions recorded from the real
   falcon.asgi.App (one application, several connections; JSON and MessagePack media handlers):
   [ev: one record per application / client action with its parameters and, as OBSERVED, v (the value
   receive_media handed over, abstracted by the harness' trusted decoders), shared (the result IS an
   object handed over earlier), wv (the value decoded from the frame send_media put on the wire) and
   heap (the current values of all objects the application holds)].  Every session is an initial state;
   each logged action selects the action of WebSocketMedia.tla, which computes last' and heap' (what
   the specification promises); the judge compares.  Total; the first failing clause is kept.
     P:delivered-equals-sent   receive_media handed over a value other than the decoding of the frame
                               the client sent at that position (or nothing / an exception)
     P:shared-result           the result is an object handed over earlier
     P:sent-is-encoding-at-call  the frame on the wire is not the encoding of the object's value at the call
     P:held-value-changed      an object the application holds changed without the application mutating it
     H:*                       harness / trace malformed (machinery) *)
EXTENDS WebSocketMedia, Json, IOUtils

Traces == JsonDeserialize(IOEnv.TRACE_FILE)

VARIABLES tid, l, verdict
tvars == <<mvars, tid, l, verdict>>

T  == Traces[tid]
Ev == T.ev[l]

TInit == /\ tid \in 1..Len(Traces) /\ l = 1 /\ verdict = "ok" /\ MInit

Stay == UNCHANGED mvars
HeapClause(hp) == IF Ev.heap = hp THEN "ok" ELSE "P:held-value-changed"

Judge ==
    CASE Ev.a = "open" ->
            IF Ev.c \in Conns /\ st[Ev.c] = "new" THEN Open(Ev.c) /\ verdict' = HeapClause(heap')
            ELSE Stay /\ verdict' = "H:open-not-enabled"
      [] Ev.a = "close" ->
            IF Ev.c \in Conns /\ st[Ev.c] = "open" THEN Close(Ev.c) /\ verdict' = HeapClause(heap')
            ELSE Stay /\ verdict' = "H:close-not-enabled"
      [] Ev.a = "csend" ->
            IF Ev.c \in Conns /\ st[Ev.c] = "open" /\ Ev.k \in Kinds /\ Ev.b \in Bases
            THEN ClientSend(Ev.c, Ev.k, Ev.b) /\ verdict' = HeapClause(heap')
            ELSE Stay /\ verdict' = "H:csend-not-enabled"
      [] Ev.a = "recv" ->
            IF Ev.c \in Conns /\ RecvEnabled(Ev.c)
            THEN Receive(Ev.c) /\ verdict' = (IF last'.v # Ev.v THEN "P:delivered-equals-sent"
                                              ELSE IF Ev.shared THEN "P:shared-result"
                                              ELSE IF last'.o # Ev.o THEN "H:object-id"
                                              ELSE HeapClause(heap'))
            ELSE Stay /\ verdict' = "H:recv-not-enabled"
      [] Ev.a = "mutate" ->
            IF MutEnabled(Ev.o, Ev.wh) THEN Mutate(Ev.o, Ev.m, Ev.wh) /\ verdict' = HeapClause(heap')
            ELSE Stay /\ verdict' = "H:mutate-not-enabled"
      [] Ev.a = "make" ->
            IF Ev.b \in Bases THEN Make(Ev.b) /\ verdict' = HeapClause(heap')
            ELSE Stay /\ verdict' = "H:make-not-enabled"
      [] Ev.a = "send" ->
            IF Ev.c \in Conns /\ SendEnabled(Ev.c, Ev.o) /\ Ev.k \in Kinds
            THEN Send(Ev.c, Ev.o, Ev.k) /\ verdict' = (IF last'.wv # Ev.wv THEN "P:sent-is-encoding-at-call"
                                                       ELSE HeapClause(heap'))
            ELSE Stay /\ verdict' = "H:send-not-enabled"
      [] OTHER -> Stay /\ verdict' = "H:unknown-action"

Step == /\ l >= 1 /\ l <= Len(T.ev) /\ verdict = "ok"
        /\ Judge
        /\ l' = l + 1 /\ UNCHANGED tid

Done == /\ l >= 1 /\ (l > Len(T.ev) \/ verdict # "ok")
        /\ PrintT(<<"VERDICT", tid, verdict, l - 1>>)
        /\ l' = -1 /\ UNCHANGED <<mvars, tid, verdict>>

TNext == Step \/ Done
TSpec == TInit /\ [][TNext]_tvars
Sound == DeliveredEqualsSent /\ NoSharedResults /\ SentIsEncodingAtCall
=============================================================================
