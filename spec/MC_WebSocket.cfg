INIT MCInit
NEXT XNext
CONSTANTS
  Versions = {20, 22, 23}
  QueueSizes = {0, 2}
  TextIds = {1}
  DataIds = {1}
  CloseArgs <- MCCloseArgs
  DiscCodes <- MCDisc
  ErrCodes = {1011, 999}
  Faults = {"lost", "other", "badcode"}
  MwKinds = {"none", "accept", "deny", "resacc"}
  RouteKinds = {"ok", "miss", "noresp"}
  HandlerKinds = {"default", "close", "noop", "http"}
  FirstKinds = {"connect", "disc"}
  MaxSteps = 5
  MaxClient = 3
  Depth = 0
INVARIANT AtMostOneAccept
INVARIANT DataOnlyBetweenAcceptAndClose
INVARIANT AtMostOneClose
INVARIANT NothingAfterClose
INVARIANT NothingAfterLost
INVARIANT CloseAlwaysSent
INVARIANT StateAgrees
INVARIANT PumpOnlyWhenAccepted
PROPERTY TableHolds
PROPERTY InOrderHolds
VIEW MCView
PROPERTY MCOneAtATime
