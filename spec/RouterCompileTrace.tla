---------------------- MODULE RouterCompileTrace ----------------------
(* Trace judge for C19 (threads).  A trace is the sequence of yield-point events
   [t, k] recorded by the line scheduler from real threads inside the router, plus the
   per-thread verdict of the comparison with the serial answer (res[t] = "ok" | other).
   Each event must be the RouterCompile action of that thread that is enabled in the current
   specification state; the first one that is not ends the trace with a D-verdict (the
   implementation left the modelled design - not by itself a property violation).
     P:answer   some thread's lookup differed from its serial answer
     D:<kind>   event <kind> is not a step of the specification here
     D:model    the specification predicts a wrong/crashing lookup where the code answered right *)
EXTENDS MC_RouterCompile, IOUtils

Traces == JsonDeserialize(IOEnv.TRACE_FILE)

VARIABLES tid, l, verdict
tvars == <<tid, l, verdict>>

T  == Traces[tid]
Ev == T.ev[l]

TInit == Init /\ tid \in 1..Len(Traces) /\ l = 1 /\ verdict = "ok"

Ignored(k) == k \in {"withLock", "compileCall", "resetPat", "other", "app"}

Act(t, k) ==
    CASE k = "readFind"   -> IF pc[t] = "call" THEN Call(t) ELSE ReadFind(t)
      [] k = "readArgs"   -> ReadArgs(t)
      [] k = "acquire"    -> Acquire(t)
      [] k = "recheck"    -> DoRecheck(t)
      [] k = "resetRv"    -> ResetRv(t)
      [] k = "resetConv"  -> ResetConv(t)
      [] k = "handRv"     -> HandRv(t)
      [] k = "convLen"    -> ConvLen(t)
      [] k = "convAppend" -> ConvAppend(t)
      [] k = "rvLen"      -> RvLen(t)
      [] k = "rvAppend"   -> RvAppend(t)
      [] k = "publish"    -> Publish(t)
      [] k = "release"    -> Release(t)
      [] k = "readFind2"  -> IF pc[t] = "call2" THEN Call(t) ELSE ReadFind2(t)
      [] k = "done"       -> pc[t] = "done" /\ UNCHANGED vars
      [] OTHER            -> FALSE

StepOk ==
    /\ l >= 1 /\ l <= Len(T.ev) /\ verdict = "ok"
    /\ IF Ignored(Ev.k) THEN UNCHANGED vars ELSE Act(Ev.t, Ev.k)
    /\ l' = l + 1 /\ UNCHANGED <<tid, verdict>>

StepBad ==
    /\ l >= 1 /\ l <= Len(T.ev) /\ verdict = "ok"
    /\ ~Ignored(Ev.k) /\ ~ENABLED Act(Ev.t, Ev.k)
    /\ verdict' = "D:" \o Ev.k
    /\ UNCHANGED <<vars, tid, l>>

Final ==
    IF \E t \in Threads : T.res[t] # "ok" THEN "P:answer"
    ELSE IF verdict # "ok" THEN verdict
    ELSE IF \E t \in Threads : result[t] # "ok" THEN "D:model"
    ELSE "ok"

Done ==
    /\ l >= 1 /\ (l > Len(T.ev) \/ verdict # "ok")
    /\ PrintT(<<"VERDICT", tid, Final, l - 1>>)
    /\ l' = -1 /\ UNCHANGED <<vars, tid, verdict>>

TNext == StepOk \/ StepBad \/ Done
=======================================================================
