INIT SInit
NEXT SNext
CONSTANTS
  Stacks <- Stacks2
  Indeps <- Both
  Targets <- AllTargets
  MaxHooks = 1
  InitRegs <- NoRegs
  RegClasses <- C4RegClasses
  RegBehs <- C4RegBehsAll
  MaxRegs = 4
  RaiseClasses <- C4Raise
  RenderClasses <- C4Render
  Mro <- MCMro
  StatusOf <- MCStatus
  OwnVary <- MCOwnVary
  MaxReqs = 3
  WrongDesign = "none"
  SameObj = TRUE
  MaxFaults = 3
INVARIANT Emit
