INIT SInit
NEXT SNext
CONSTANTS
  NT = 2
  Threads <- MCThreads
  NRoutes = 2
  UseLock = TRUE
  Recheck = TRUE
  Want <- MCWant
INVARIANT SerialAnswer
INVARIANT Emit
