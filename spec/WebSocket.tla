------------------------------ MODULE WebSocket ------------------------------
(* C17: one WebSocket session of falcon.asgi.App as seen from both sides: the responder
   (public WebSocket calls and what they return or raise) and the ASGI server (events passed to
   send).  Granularity: one action per public call / per stimulus, evaluated at QUIESCENCE (after
   each stimulus the event loop runs until nothing moves), so what the receive pump knows is a
   function of the history: with a receive queue of maxq > 0 the framework has seen every client
   event among the first maxq + 1 undelivered ones (named fact PumpHoldsOneInHand, see C18);
   with maxq = 0 it learns about the client only through receive_*() or a raising send().

   The module is the ORACLE: it states what the property and the documentation promise.  Where it
   deliberately follows the code rather than a wish, the operator carries a name:
     FailedCloseLeavesStateOpen   close() does not translate a raising server send and the
                                  connection stays accepted AND usable (messages keep arriving in
                                  order; a later close may be attempted again)
     FailedCloseStartsPumpInHandshake   WRONG-DESIGN switch (FALSE): a close() that failed before accept
                                  must not start the receive pump; with TRUE (an earlier repair that
                                  restarted the receiver unconditionally) PumpOnlyWhenAccepted fails
     AbandonedHandshakeClose      a first event other than websocket.connect is answered with
                                  close(1011)
     TypeCheckBeforeLostCheck     a wrong payload type wins over a disconnect only the pump saw
   Results carry cl = "P" (demanded by the property statement) or "D" (model detail). *)
EXTENDS Integers, Sequences, TLC

CONSTANTS Versions,      \* ASGI WebSocket spec versions as integers 20..24 (2.0 .. 2.4)
          QueueSizes,    \* ws_options.max_receive_queue values
          TextIds,       \* ids of text payloads a client can send / the script can send
          DataIds,       \* ids of binary payloads
          CloseArgs,     \* codes scripts pass to close(); 0 = no argument
          DiscCodes,     \* codes of client disconnect events; 0 = no code in the event
          ErrCodes,      \* ws_options.error_close_code values
          Faults,        \* ways the server's send can raise: "lost", "lost1000", "other", "badcode"
          MwKinds,       \* "none", "pass", "accept", "deny", "resacc"
          RouteKinds,    \* "ok", "miss", "noresp"
          HandlerKinds,  \* custom handler for the script's own exception: "default","close","noop","http"
          FirstKinds     \* first event delivered by the server: "connect", "disc"

VARIABLES ver, maxq,     \* configuration fixed at connection time
          pc,            \* "start" | "resp" (responder script running) | "done"
          w,             \* WebSocket object state [st, why, cc, pend, flt, seen, pump]
          gone, gcode,   \* the client's disconnect event has arrived at the server (+ its code)
          blk,           \* name of the receive call waiting for a client event, or "none"
          mon,           \* server-side legality automaton over the events sent so far
          got,           \* ghost: client events consumed by receive calls, in order
          last           \* the last action with its parameters and specified observation

vars == <<ver, maxq, pc, w, gone, gcode, blk, mon, got, last>>

Sticky   == {"lost", "lost1000"}
RecvOps  == {"receive_text", "receive_data", "receive_media"}
SendOps  == {"send_text", "send_data", "send_media"}
ReasonCodes == {1000, 1011, 3011, 3204, 3400, 3403, 3404, 3405}     \* codes with a default reason used here
Invalid(c) == c > 0 /\ (c < 1000 \/ (c >= 1015 /\ c <= 1999) \/ (c >= 1004 /\ c <= 1006))

(* ---- events handed to the server --------------------------------------------------------- *)
E(t, code, rs, k, v, sp, hd, ok) == [t |-> t, code |-> code, rs |-> rs, k |-> k, v |-> v, sp |-> sp, hd |-> hd, ok |-> ok]
AcceptEv(sp, hd, ok) == E("accept", 0, 0, "", 0, sp, hd, ok)
SendEv(k, v, ok)     == E("send", 0, 0, k, v, 0, 0, ok)
(* reason: 0 absent, 1 the caller's, 2 the configured default for the code; only from spec 2.3 on *)
CloseEv(code, rs, ok) ==
    LET c == IF code = 0 THEN 1000 ELSE code
        r == IF ver < 23 THEN 0 ELSE IF rs = 1 THEN 1 ELSE IF c \in ReasonCodes THEN 2 ELSE 0
    IN  E("close", c, r, "", 0, 0, 0, ok)

(* ---- what the framework knows -------------------------------------------------------------- *)
(* The pump moves only while the loop is drained, i.e. between two actions: what it has seen is
   a snapshot (x.seen) refreshed by Settle at the end of every action, not something that changes
   in the middle of a call. *)
FailedCloseStartsPumpInHandshake == FALSE      \* wrong-design switch, see MC_WebSocketWrong2.cfg
PumpRuns(x)   == x.st = "accepted" \/ (x.st = "handshake" /\ x.pump)
PumpHoldsOneInHand(x, g) == maxq > 0 /\ PumpRuns(x) /\ g /\ Len(x.pend) <= maxq + 1
Settle(x, g)  == [x EXCEPT !.seen = x.seen \/ PumpHoldsOneInHand(x, g)]
Seen(x)       == x.seen /\ PumpRuns(x)               \* the pump has met the disconnect event
ClosedView(x) == x.st = "closed" \/ Seen(x)          \* WebSocket.closed
Known(x)      == (x.st = "closed" /\ x.why = "client") \/ Seen(x)
DiscCode      == IF gcode = 0 THEN 1000 ELSE gcode
View(x)       == IF Seen(x) THEN (IF x.st = "handshake" THEN "hseen" ELSE "seen") ELSE x.st

(* ---- one send attempt: f is the fault armed for the first attempt of the action ------------ *)
Att(x, f) == IF x.flt \in Sticky THEN [ok |-> FALSE, kind |-> x.flt, flt |-> x.flt]
             ELSE IF f # "none" THEN [ok |-> FALSE, kind |-> f, flt |-> IF f \in Sticky THEN f ELSE "spent"]
             ELSE [ok |-> TRUE, kind |-> "none", flt |-> x.flt]

R(x, r, v, evs, cl) == [w |-> x, r |-> r, v |-> v, evs |-> evs, cl |-> cl]
Lost(x, flt) == [x EXCEPT !.st = "closed", !.why = "client", !.cc = 1000, !.flt = flt]

(* ---- public calls --------------------------------------------------------------------------- *)
DoAccept(x, sp, hd, f) ==
    IF ClosedView(x) \/ x.st # "handshake" THEN R(x, "ona", 0, <<>>, "P")
    ELSE IF sp = 2 THEN R(x, "value", 0, <<>>, "P")                     \* subprotocol is not a string
    ELSE IF hd # 0 /\ ver = 20 THEN R(x, "ona", 0, <<>>, "P")           \* accept headers need spec 2.1
    ELSE IF hd = 2 THEN R(x, "value", 0, <<>>, "P")                     \* sec-websocket-protocol among the headers
    ELSE LET a == Att(x, f) IN
         IF a.ok THEN R([x EXCEPT !.st = "accepted"], "ok", 0, <<AcceptEv(sp, hd, TRUE)>>, "P")
         ELSE IF a.kind \in Sticky THEN R(Lost(x, a.flt), "wsd", 1000, <<AcceptEv(sp, hd, FALSE)>>, "D")
         ELSE R([x EXCEPT !.flt = a.flt], "server", 0, <<AcceptEv(sp, hd, FALSE)>>, "D")

FailedCloseLeavesStateOpen(x, a, code, rs) ==
    R([x EXCEPT !.flt = a.flt, !.pump = x.pump \/ (FailedCloseStartsPumpInHandshake /\ maxq > 0)],
      "server", 0, <<CloseEv(code, rs, FALSE)>>, "D")

DoClose(x, code, rs, f) ==
    IF Invalid(code) THEN R(x, "value", 0, <<>>, "P")                   \* in every state, and nothing else changes
    ELSE IF x.st = "closed" THEN R(x, "ok", 0, <<>>, "P")
    ELSE IF Seen(x) THEN R([x EXCEPT !.st = "closed", !.why = "client", !.cc = DiscCode], "ok", 0, <<>>, "P")
    ELSE LET a == Att(x, f) IN
         IF a.ok THEN R([x EXCEPT !.st = "closed", !.why = "server", !.cc = IF code = 0 THEN 1000 ELSE code],
                        "ok", 0, <<CloseEv(code, rs, TRUE)>>, "P")
         ELSE FailedCloseLeavesStateOpen(x, a, code, rs)

TypeCheckBeforeLostCheck(x) == R(x, "type", 0, <<>>, IF Seen(x) THEN "D" ELSE "P")

DoSend(x, op, k, v, f) ==
    IF x.st = "handshake" THEN R(x, "ona", 0, <<>>, "P")
    ELSE IF x.st = "closed" THEN R(x, "wsd", x.cc, <<>>, "P")
    ELSE IF v = 0 THEN TypeCheckBeforeLostCheck(x)
    ELSE IF Seen(x) THEN R([x EXCEPT !.st = "closed", !.why = "client", !.cc = DiscCode], "wsd", DiscCode, <<>>, "P")
    ELSE LET a == Att(x, f) IN
         IF a.ok THEN R(x, "ok", 0, <<SendEv(k, v, TRUE)>>, "P")
         ELSE IF a.kind \in Sticky THEN R(Lost(x, a.flt), "wsd", 1000, <<SendEv(k, v, FALSE)>>, "D")
         ELSE R([x EXCEPT !.flt = a.flt], "server", 0, <<SendEv(k, v, FALSE)>>, "D")

(* value handed to the caller for client event m: payload ids; binary media arrive as 20 + id *)
Deliver(x, op, m) ==
    LET y == [x EXCEPT !.pend = Tail(x.pend)] IN
    IF m.k = "disc" THEN R([y EXCEPT !.st = "closed", !.why = "client", !.cc = IF m.v = 0 THEN 1000 ELSE m.v],
                           "wsd", IF m.v = 0 THEN 1000 ELSE m.v, <<>>, "P")
    ELSE IF op = "receive_text" THEN (IF m.k = "text" THEN R(y, "ok", m.v, <<>>, "P") ELSE R(y, "payload", 0, <<>>, "P"))
    ELSE IF op = "receive_data" THEN (IF m.k = "bin" THEN R(y, "ok", m.v, <<>>, "P") ELSE R(y, "payload", 0, <<>>, "P"))
    ELSE R(y, "ok", IF m.k = "text" THEN m.v ELSE 20 + m.v, <<>>, "P")

DoRecv(x, op) ==
    IF x.st = "handshake" THEN R(x, "ona", 0, <<>>, "P")
    ELSE IF x.st = "closed" THEN R(x, "wsd", x.cc, <<>>, "P")
    ELSE IF x.pend = <<>> THEN R(x, "blocked", 0, <<>>, "P")
    ELSE Deliver(x, op, Head(x.pend))

(* ---- what the framework does with an exception that left the responder / middleware -------- *)
(* exc: "http" (HTTPError or HTTPStatus with status hs), "wsd", "py" (anything else), "boom" (the
   script's own exception class, for which a custom handler hk may be registered).
   Result: [w, evs, esc] - esc = an exception escapes the app callable (a close attempt raised). *)
H(x, evs, esc) == [w |-> x, evs |-> evs, esc |-> esc]
CloseWith(x, code, f) == LET c == DoClose(x, code, 0, f) IN H(c.w, c.evs, c.r = "server")
Cleanup(x, ec, f) ==
    LET c == DoClose(x, ec, 0, f) IN
    IF c.r = "value" THEN CloseWith(x, 3011, f)                          \* configured code invalid: fallback
    ELSE IF c.r = "server" /\ Att(x, f).kind = "badcode"                 \* server does not support the code: fallback
         THEN LET d == DoClose(c.w, 3011, 0, "none") IN H(d.w, c.evs \o d.evs, d.r = "server")
    ELSE H(c.w, c.evs, c.r = "server")
(* a custom handler that returns without closing: the property still demands a close ("with and
   without custom error handlers"); the framework cleans up as for an unhandled error, with the
   configured error close code (and its 3011 fallback) *)
NoopHandlerStillCloses(x, ec, f) == Cleanup(x, ec, f)
Handle(x, exc, hs, hk, ec, f) ==
    CASE exc = "http" -> CloseWith(x, 3000 + hs, f)
      [] exc = "boom" /\ hk = "close" -> CloseWith(x, 4001, f)
      [] exc = "boom" /\ hk = "http"  -> CloseWith(x, 3400, f)
      [] exc = "boom" /\ hk = "noop"  -> NoopHandlerStillCloses(x, ec, f)
      [] OTHER -> Cleanup(x, ec, f)
ExcOf(r) == IF r = "wsd" THEN "wsd" ELSE "py"

(* ---- server-side legality automaton --------------------------------------------------------- *)
MonStep(m, e, known) ==
    IF m \notin {"connecting", "open", "closed"} THEN m
    ELSE IF known THEN "bad-after-lost"
    ELSE IF ~e.ok THEN m                                   \* refused by the server: no effect on the session
    ELSE IF m = "closed" THEN (IF e.t = "close" THEN "bad-close" ELSE "bad-after-close")
    ELSE CASE e.t = "accept" -> IF m = "connecting" THEN "open" ELSE "bad-accept"
           [] e.t = "send"   -> IF m = "open" THEN m ELSE "bad-data"
           [] e.t = "close"  -> "closed"
           [] OTHER -> "bad-event"
RECURSIVE MonFold(_, _, _)
MonFold(m, evs, known) == IF evs = <<>> THEN m ELSE MonFold(MonStep(m, Head(evs), known), Tail(evs), known)

(* ---- the observation record (uniform, so behaviours serialise uniformly) -------------------- *)
L0 == [a |-> "init", op |-> "", sp |-> 0, hd |-> 0, code |-> 0, rs |-> 0, k |-> "", v |-> 0, prop |-> FALSE,
       f |-> "none", x |-> "", mw |-> "none", route |-> "ok", hk |-> "default", ec |-> 1011, first |-> "connect",
       r |-> "none", rv |-> 0, evs |-> <<>>, cl |-> "P", esc |-> FALSE, pre |-> "handshake", fin |-> FALSE]

W0 == [st |-> "handshake", why |-> "none", cc |-> 0, pend |-> <<>>, flt |-> "clear", seen |-> FALSE, pump |-> FALSE]

Init == /\ ver \in Versions /\ maxq \in QueueSizes
        /\ pc = "start" /\ w = W0 /\ gone = FALSE /\ gcode = 0 /\ blk = "none" /\ mon = "connecting"
        /\ got = <<>> /\ last = L0

FaultOK(f, evs) == f = "none" \/ (w.flt = "clear" /\ evs # <<>> /\ (f = "badcode" => Head(evs).t = "close"))

(* everything up to the first responder step: connect, middleware, routing.  One action, because
   nothing can be observed or injected in between. *)
AbandonedHandshakeClose(f) == H(W0, <<CloseEv(1011, 0, f = "none")>>, f # "none")
StartResult(first, mw, route, ec, f) ==
    IF first # "connect" THEN [h |-> AbandonedHandshakeClose(f), run |-> FALSE]
    ELSE LET a1 == IF mw = "accept" THEN DoAccept(W0, 0, 0, f) ELSE R(W0, "ok", 0, <<>>, "P")
             f1 == IF a1.evs = <<>> THEN f ELSE "none"
         IN IF a1.r # "ok" THEN [h |-> LET g == Handle(a1.w, ExcOf(a1.r), 0, "default", ec, f1) IN H(g.w, a1.evs \o g.evs, g.esc), run |-> FALSE]
            ELSE IF mw = "deny" THEN [h |-> Handle(a1.w, "http", 403, "default", ec, f1), run |-> FALSE]
            ELSE IF route = "miss" THEN [h |-> LET g == Handle(a1.w, "http", 404, "default", ec, f1) IN H(g.w, a1.evs \o g.evs, g.esc), run |-> FALSE]
            ELSE LET a2 == IF mw = "resacc" THEN DoAccept(a1.w, 0, 0, f1) ELSE R(a1.w, "ok", 0, <<>>, "P")
                     f2 == IF a2.evs = <<>> THEN f1 ELSE "none"
                     e2 == a1.evs \o a2.evs
                 IN IF a2.r # "ok" THEN [h |-> LET g == Handle(a2.w, ExcOf(a2.r), 0, "default", ec, f2) IN H(g.w, e2 \o g.evs, g.esc), run |-> FALSE]
                    ELSE IF route = "noresp" THEN [h |-> LET g == Handle(a2.w, "http", 405, "default", ec, f2) IN H(g.w, e2 \o g.evs, g.esc), run |-> FALSE]
                    ELSE [h |-> H(a2.w, e2, FALSE), run |-> TRUE]

StartGuard(first, mw, route, ec, f) == pc = "start" /\ FaultOK(f, StartResult(first, mw, route, ec, f).h.evs)
Start(first, mw, route, ec, f) ==
    /\ StartGuard(first, mw, route, ec, f)
    /\ LET s == StartResult(first, mw, route, ec, f) IN
         /\ w' = Settle(s.h.w, gone)
         /\ pc' = IF s.run THEN "resp" ELSE "done"
         /\ mon' = IF first # "connect" THEN (IF f = "none" THEN "closed" ELSE mon) ELSE MonFold(mon, s.h.evs, FALSE)
         /\ last' = [L0 EXCEPT !.a = "start", !.first = first, !.mw = mw, !.route = route, !.ec = ec, !.f = f,
                               !.evs = s.h.evs, !.esc = s.h.esc, !.fin = ~s.run,
                               !.cl = IF first = "connect" THEN "P" ELSE "D"]
    /\ UNCHANGED <<ver, maxq, gone, gcode, blk, got>>

(* a responder step: one public call; if it raises, the script either records the error and goes
   on (prop = FALSE) or lets it propagate out of the responder (prop = TRUE). *)
OpResult(op, sp, hd, code, rs, k, v, f) ==
    CASE op = "accept" -> DoAccept(w, sp, hd, f)
      [] op = "close"  -> DoClose(w, code, rs, f)
      [] op \in SendOps -> DoSend(w, op, k, v, f)
      [] OTHER -> DoRecv(w, op)

OpGuard(op, sp, hd, code, rs, k, v, prop, hk, ec, f) ==
    /\ pc = "resp" /\ blk = "none"
    /\ LET o == OpResult(op, sp, hd, code, rs, k, v, f) IN
         /\ (prop => o.r \notin {"ok", "blocked"})
         /\ FaultOK(f, IF prop THEN o.evs \o Handle(o.w, ExcOf(o.r), 0, hk, ec, IF o.evs = <<>> THEN f ELSE "none").evs ELSE o.evs)
Op(op, sp, hd, code, rs, k, v, prop, hk, ec, f) ==
    /\ pc = "resp" /\ blk = "none"
    /\ LET o == OpResult(op, sp, hd, code, rs, k, v, f)
           g == IF prop THEN Handle(o.w, ExcOf(o.r), 0, hk, ec, IF o.evs = <<>> THEN f ELSE "none") ELSE H(o.w, <<>>, FALSE)
           evs == o.evs \o g.evs
       IN /\ (prop => o.r \notin {"ok", "blocked"})          \* = OpGuard, evaluated once
          /\ FaultOK(f, evs)
          /\ w' = Settle(g.w, gone)
          /\ pc' = IF prop THEN "done" ELSE "resp"
          /\ blk' = IF o.r = "blocked" THEN op ELSE "none"
          /\ mon' = MonFold(mon, evs, Known(w))
          /\ got' = IF op \in RecvOps /\ Len(o.w.pend) < Len(w.pend) THEN Append(got, Head(w.pend)) ELSE got
          /\ last' = [L0 EXCEPT !.a = "op", !.op = op, !.sp = sp, !.hd = hd, !.code = code, !.rs = rs, !.k = k, !.v = v,
                                !.prop = prop, !.hk = hk, !.ec = ec, !.f = f, !.r = o.r, !.rv = o.v, !.evs = evs,
                                !.cl = o.cl, !.esc = g.esc, !.pre = View(w), !.fin = prop]
    /\ UNCHANGED <<ver, maxq, gone, gcode>>

(* the responder raises x: "http" = HTTPError 400, "status" = HTTPStatus 204, "boom" = its own exception *)
RaiseGuard(x, hk, ec, f) == pc = "resp" /\ blk = "none"
    /\ FaultOK(f, Handle(w, IF x = "boom" THEN "boom" ELSE "http", IF x = "http" THEN 400 ELSE 204, hk, ec, f).evs)
Raise(x, hk, ec, f) ==
    /\ pc = "resp" /\ blk = "none"
    /\ LET g == Handle(w, IF x = "boom" THEN "boom" ELSE "http", IF x = "http" THEN 400 ELSE 204, hk, ec, f) IN
         /\ FaultOK(f, g.evs)                                  \* = RaiseGuard
         /\ w' = Settle(g.w, gone) /\ pc' = "done" /\ mon' = MonFold(mon, g.evs, Known(w))
         /\ last' = [L0 EXCEPT !.a = "raise", !.x = x, !.hk = hk, !.ec = ec, !.f = f, !.r = "ok", !.evs = g.evs,
                               !.esc = g.esc, !.pre = View(w), !.fin = TRUE]
    /\ UNCHANGED <<ver, maxq, gone, gcode, blk, got>>

(* the responder returns: the framework closes with the default code; if that close raises, the
   generic error handler makes its own attempt *)
ReturnResult(ec, f) ==
    LET c == DoClose(w, 0, 0, f) IN
    IF c.r = "server" THEN LET g == Cleanup(c.w, ec, "none") IN H(g.w, c.evs \o g.evs, g.esc)
    ELSE H(c.w, c.evs, FALSE)
ReturnGuard(ec, f) == pc = "resp" /\ blk = "none" /\ FaultOK(f, ReturnResult(ec, f).evs)
Return(ec, f) ==
    /\ pc = "resp" /\ blk = "none"
    /\ LET g == ReturnResult(ec, f) IN
         /\ FaultOK(f, g.evs)                                  \* = ReturnGuard
         /\ w' = Settle(g.w, gone) /\ pc' = "done" /\ mon' = MonFold(mon, g.evs, Known(w))
         /\ last' = [L0 EXCEPT !.a = "return", !.ec = ec, !.f = f, !.r = "ok", !.evs = g.evs, !.esc = g.esc,
                               !.pre = View(w), !.fin = TRUE]
    /\ UNCHANGED <<ver, maxq, gone, gcode, blk, got>>

(* the server makes the next client event available.  Data frames only exist on an open
   connection; a disconnect can come at any time.  A waiting receive call completes with it. *)
ArriveGuard(k, v, prop, hk, ec) ==
    /\ pc = "resp" /\ ~gone
    /\ (k # "disc" => mon = "open")
    /\ (blk = "none" => ~prop)
    /\ (prop => Deliver([w EXCEPT !.pend = <<[k |-> k, v |-> v]>>], blk, [k |-> k, v |-> v]).r # "ok")
Arrive(k, v, prop, hk, ec) ==
    /\ ArriveGuard(k, v, prop, hk, ec)
    /\ LET m == [k |-> k, v |-> v]
           x == [w EXCEPT !.pend = Append(w.pend, m)]
       IN /\ gone' = (k = "disc") /\ gcode' = IF k = "disc" THEN v ELSE gcode
          /\ IF blk = "none"
             THEN /\ w' = Settle(x, k = "disc") /\ pc' = pc /\ mon' = mon /\ got' = got
                  /\ last' = [L0 EXCEPT !.a = "arrive", !.k = k, !.v = v, !.pre = View(w)]
             ELSE LET o == Deliver(x, blk, m)
                      g == IF prop THEN Handle(o.w, ExcOf(o.r), 0, hk, ec, "none") ELSE H(o.w, <<>>, FALSE)
                  IN /\ w' = Settle(g.w, k = "disc") /\ pc' = IF prop THEN "done" ELSE "resp"
                     /\ mon' = MonFold(mon, g.evs, k = "disc")
                     /\ got' = Append(got, m)
                     /\ last' = [L0 EXCEPT !.a = "arrive", !.k = k, !.v = v, !.op = blk, !.prop = prop, !.hk = hk, !.ec = ec,
                                           !.r = o.r, !.rv = o.v, !.evs = g.evs, !.esc = g.esc, !.pre = View(w), !.fin = prop]
          /\ blk' = "none"
    /\ UNCHANGED <<ver, maxq>>

(* the calls a script can make, with well-formed parameters *)
NoArgs == [op |-> "", sp |-> 0, hd |-> 0, code |-> 0, rs |-> 0, k |-> "", v |-> 0]
OpSet == {[NoArgs EXCEPT !.op = "accept", !.sp = s, !.hd = hh] : s \in 0..2, hh \in 0..2}
    \cup {[NoArgs EXCEPT !.op = "close", !.code = c, !.rs = rr] : c \in CloseArgs, rr \in 0..1}
    \cup {[NoArgs EXCEPT !.op = "send_text", !.k = "text", !.v = i] : i \in {0} \cup TextIds}      \* 0 = not a str
    \cup {[NoArgs EXCEPT !.op = "send_data", !.k = "bin", !.v = i] : i \in {0} \cup DataIds}       \* 0 = not bytes
    \cup {[NoArgs EXCEPT !.op = "send_media", !.k = "text", !.v = i] : i \in TextIds}
    \cup {[NoArgs EXCEPT !.op = "send_media", !.k = "bin", !.v = 10 + i] : i \in DataIds}
    \cup {[NoArgs EXCEPT !.op = o] : o \in RecvOps}
ClientEvents == {[k |-> "text", v |-> i] : i \in TextIds} \cup {[k |-> "bin", v |-> i] : i \in DataIds}
                \cup {[k |-> "disc", v |-> c] : c \in DiscCodes}
FaultSet == Faults \cup {"none"}

Next == \/ \E first \in FirstKinds, mw \in MwKinds, route \in RouteKinds, ec \in ErrCodes, f \in FaultSet :
              Start(first, mw, route, ec, f)
        \/ \E d \in OpSet, prop \in BOOLEAN, hk \in HandlerKinds, ec \in ErrCodes, f \in FaultSet :
              Op(d.op, d.sp, d.hd, d.code, d.rs, d.k, d.v, prop, hk, ec, f)
        \/ \E x \in {"http", "status", "boom"}, hk \in HandlerKinds, ec \in ErrCodes, f \in FaultSet : Raise(x, hk, ec, f)
        \/ \E ec \in ErrCodes, f \in FaultSet : Return(ec, f)
        \/ \E m \in ClientEvents, prop \in BOOLEAN, hk \in HandlerKinds, ec \in ErrCodes : Arrive(m.k, m.v, prop, hk, ec)

Spec == Init /\ [][Next]_vars

(* ---- the property ---------------------------------------------------------------------------- *)
AtMostOneAccept               == mon # "bad-accept"
DataOnlyBetweenAcceptAndClose == mon # "bad-data"
AtMostOneClose                == mon # "bad-close"
NothingAfterLost              == mon # "bad-after-lost"
NothingAfterClose             == mon # "bad-after-close"
(* the responder returned or failed, nobody told the framework that the client went away, and no
   close attempt was refused by the server: then the server has received a close (403 denial if
   it comes before accept) *)
CloseAlwaysSent == (pc = "done" /\ ~Known(w) /\ ~last.esc) => mon = "closed"
(* the receive pump runs from accept on, never during the handshake *)
PumpOnlyWhenAccepted == ~w.pump /\ (w.seen => w.st # "handshake")
StateAgrees == /\ (w.st = "accepted" => mon = "open")
               /\ (w.st = "closed" /\ w.why = "server" => mon = "closed")
               /\ (mon = "connecting" => w.st # "accepted")
(* every <state, operation> pair has exactly the documented outcome (second, tabular statement) *)
WrongStateErrorsAreDocumented ==
    last.a = "op" =>
      /\ (last.op \in SendOps \cup RecvOps /\ last.pre \in {"handshake", "hseen"} => last.r = "ona")
      /\ (last.op \in SendOps \cup RecvOps /\ last.pre = "closed" => last.r = "wsd")
      /\ (last.r = "type" => last.op \in {"send_text", "send_data"} /\ last.v = 0)
      /\ (last.op = "accept" /\ last.pre # "handshake" => last.r = "ona")
      /\ (last.op = "close" /\ Invalid(last.code) => last.r = "value" /\ (last.prop \/ last.evs = <<>>))
      /\ (last.op = "close" /\ ~Invalid(last.code) /\ last.pre \in {"closed", "seen", "hseen"} => last.r = "ok" /\ last.evs = <<>>)
      /\ (last.op \in SendOps /\ last.pre = "seen" => last.r \in {"wsd", "type"} /\ last.evs = <<>>)
      /\ (last.r \in {"ona", "wsd", "type", "value", "payload"} /\ ~last.prop => \A i \in 1..Len(last.evs) : ~last.evs[i].ok)
      /\ (last.r = "payload" => last.op \in {"receive_text", "receive_data"} /\ last.pre \in {"accepted", "seen"})
      /\ (last.r = "server" => last.f # "none" \/ w.flt \in Sticky)
PayloadsInOrderUnchanged ==
    (last.a \in {"op", "arrive"} /\ last.op \in RecvOps /\ last.r = "ok") =>
        /\ got # <<>>
        /\ LET m == got[Len(got)] IN
             last.rv = IF last.op = "receive_media" /\ m.k = "bin" THEN 20 + m.v ELSE m.v
OneAtATime == [][Len(got') <= Len(got) + 1]_vars
==============================================================================
