INIT GInit
NEXT GNext
CONSTANTS
  Bounds <- BoundsET
  ReqSet <- ReqsSmall
  ReadAttrs <- UrlAttrs
  Depth = 0
  SharedUriSlot = FALSE
INVARIANT EmitG
