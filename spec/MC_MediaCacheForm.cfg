INIT Init
NEXT Next
CONSTANTS
  Medias <- MCMedias
INVARIANT FormLaw
INVARIANT NoElementsNoName
INVARIANT Emit
