INIT Init
NEXT Next
CONSTANTS
  CheckDotDotPrefix = FALSE
  CheckAbsPrefix = TRUE
  CheckFinalDots = TRUE
  CheckFinalPrefix = TRUE
  PlusOne = TRUE
  UnsatGe = TRUE
  ImsLe = TRUE
  ImsLocalTime = FALSE
  Tokens <- AttackTokens
  MaxTokens = 2
  StartPaths <- AttackSeeds
  Fbs <- AllFbs
  Ranges <- NoRangeOnly
  Zones <- UtcOnly
  ImsFor <- NoImsOnly
INVARIANT Containment
INVARIANT ServedIsInside
INVARIANT NothingElseIs404
INVARIANT MachineIsFunction
INVARIANT DesignMeetsProperty
INVARIANT FullExact
INVARIANT SliceExact
INVARIANT ContentRangeConsistent
INVARIANT ZeroSizeIgnoresRange
INVARIANT UnsatCarriesSize
INVARIANT NotModifiedNoBody
INVARIANT DecisionIndependentOfZone
