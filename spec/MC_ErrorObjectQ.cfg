INIT MCOInit
NEXT MCONext
CONSTANTS
  Accepts <- OAccepts
  ExtraHandlers <- OExtra
  Errors <- NoErrors
  WrongRender <- MCWrongRender
  MaxAmends = 2
  MaxPeeks = 1
  MaxRenders = 2
INVARIANT RenderedIsCurrent
INVARIANT NegotiatedFromCurrent
INVARIANT ErrTracksVal
INVARIANT PresenceFollowsAmend
