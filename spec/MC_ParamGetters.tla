-------------------------- MODULE MC_ParamGetters --------------------------
(* Bounded instance of ParamGetters.  The reference conversion table for the instance's value
   pool is written by the harness (trusted decoders int/float/uuid.UUID/strptime/json.loads, see
   DESIGN 2.4) as JSON: {"nv": N, "conv": {"int": [[ok, v] per value], ...}}. *)
EXTENDS ParamGetters, Json, IOUtils

Table == JsonDeserialize(IOEnv.CONV_FILE)
MCNV == Table.nv
MCConv(kind, v) == Table.conv[kind][v]
MCKinds == {"str", "int", "float", "bool", "uuid", "datetime", "date", "json", "list", "list_int", "has"}
MCBounds(kind) == IF kind = "int" THEN {0, 10} ELSE {0, 7000}      \* floats are in thousandths: 0.0 / 7.0

XGetParam    == GetPlain("str") /\ call = NoCall
XGetInt      == GetBounded("int") /\ call = NoCall
XGetFloat    == GetBounded("float") /\ call = NoCall
XGetBool     == GetBool /\ call = NoCall
XGetUuid     == GetPlain("uuid") /\ call = NoCall
XGetDatetime == GetPlain("datetime") /\ call = NoCall
XGetDate     == GetPlain("date") /\ call = NoCall
XGetJson     == GetPlain("json") /\ call = NoCall
XGetList     == GetPlain("list") /\ call = NoCall
XGetListInt  == GetPlain("list_int") /\ call = NoCall
XHasParam    == HasParam /\ call = NoCall
XNext == XGetParam \/ XGetInt \/ XGetFloat \/ XGetBool \/ XGetUuid \/ XGetDatetime \/ XGetDate \/ XGetJson
         \/ XGetList \/ XGetListInt \/ XHasParam

Emit == Made => PrintT(ToJson([present |-> present, zero |-> zero, vals |-> vals, call |-> call, last |-> last]))

(* wrong-design switch for the vacuity run (MC_ParamGettersBad.cfg: Outcome <- FirstOccurrence): a getter
   that converts the FIRST occurrence must be caught by GetterNeverMisreports *)
FirstOccurrence(p, convs, c) ==
    IF c.kind = "has" THEN Out("value", "", IF p THEN 1 ELSE 0, <<>>, FALSE)
    ELSE IF ~p THEN Out(IF c.required THEN "missing" ELSE IF c.hasdef THEN "default" ELSE "none", "", 0, <<>>, FALSE)
    ELSE IF c.kind \in ListKinds THEN Out("value", "", 0, Vals(convs), c.store)
    ELSE IF ~convs[1].ok THEN Out("invalid", "conv", 0, <<>>, FALSE)
    ELSE Out("value", "", convs[1].v, <<>>, c.store)
=============================================================================
