-------------------------- MODULE MC_ParamGetters --------------------------
(* Bounded instance of ParamGetters.  The reference conversion table for the instance's value
   pool is written by the harness (trusted decoders int/float/uuid.UUID/strptime/json.loads, see
   DESIGN 2.4) as JSON: {"nv": N, "conv": {"int": [[ok, v] per value], ...}}. *)
EXTENDS ParamGetters, Json, IOUtils

Table == JsonDeserialize(IOEnv.CONV_FILE)
MCNV == Table.nv
MCConv(kind, v) == Table.conv[kind][v]
MCKinds == {"str", "int", "float", "bool", "uuid", "datetime", "date", "json", "list", "list_int", "has"}
(* exhaustive two-call histories (MC_ParamGettersH.cfg): fewer kinds, the first three pool values *)
HKinds == {"str", "int", "list", "list_int", "has"}
MCBounds(kind) == IF kind = "int" THEN {0, 10} ELSE {0, 7000}      \* floats are in thousandths: 0.0 / 7.0

VARIABLE h                     \* history of <<call, outcome>> (simulation instance only)
CONSTANT MaxCalls
Keep == UNCHANGED h
Log  == h' = Append(h, [call |-> call', last |-> last'])
XInit == Init /\ h = <<>>
XGetParam    == GetPlain("str") /\ ncalls < MaxCalls /\ Keep
XGetInt      == GetBounded("int") /\ ncalls < MaxCalls /\ Keep
XGetFloat    == GetBounded("float") /\ ncalls < MaxCalls /\ Keep
XGetBool     == GetBool /\ ncalls < MaxCalls /\ Keep
XGetUuid     == GetPlain("uuid") /\ ncalls < MaxCalls /\ Keep
XGetDatetime == GetPlain("datetime") /\ ncalls < MaxCalls /\ Keep
XGetDate     == GetPlain("date") /\ ncalls < MaxCalls /\ Keep
XGetJson     == GetPlain("json") /\ ncalls < MaxCalls /\ Keep
XGetList     == GetPlain("list") /\ ncalls < MaxCalls /\ Keep
XGetListInt  == GetPlain("list_int") /\ ncalls < MaxCalls /\ Keep
XHasParam    == HasParam /\ ncalls < MaxCalls /\ Keep
XNext == XGetParam \/ XGetInt \/ XGetFloat \/ XGetBool \/ XGetUuid \/ XGetDatetime \/ XGetDate \/ XGetJson
         \/ XGetList \/ XGetListInt \/ XHasParam

(* history instance: the same actions, logged; one JSON behaviour per finished history *)
AnyGet == \/ \E k \in Kinds \ (BoundedKinds \cup {"bool", "has"}) : GetPlain(k)
          \/ HasParam \/ GetBool \/ GetBounded("int") \/ GetBounded("float")
HNext == ncalls < MaxCalls /\ AnyGet /\ Log
EmitHistory == (Len(h) = MaxCalls) =>
    PrintT(ToJson([present |-> present, zero |-> zero, vals |-> vals, ev |-> h]))
MCReadOnly == [][UNCHANGED <<present, vals, zero>>]_<<vars, h>>
MCStoreUntouched == [][(store' # store) => (last'.res = "value" /\ call'.store)]_<<vars, h>>

Emit == Made => PrintT(ToJson([present |-> present, zero |-> zero, vals |-> vals, call |-> call, last |-> last]))

(* wrong-design switch for the vacuity run (MC_ParamGettersBad.cfg: Outcome <- FirstOccurrence): a getter
   that converts the FIRST occurrence must be caught by GetterNeverMisreports *)
FirstOccurrence(p, convs, c) ==
    IF c.kind = "has" THEN Out("value", "", IF p THEN 1 ELSE 0, <<>>, FALSE)
    ELSE IF ~p THEN Out(IF c.required THEN "missing" ELSE IF c.hasdef THEN "default" ELSE "none", "", 0, <<>>, FALSE)
    ELSE IF c.kind \in ListKinds THEN Out("value", "", 0, Vals(convs), c.store)
    ELSE IF ~convs[1].ok THEN Out("invalid", "conv", 0, <<>>, FALSE)
    ELSE Out("value", "", convs[1].v, <<>>, c.store)
=============================================================================
