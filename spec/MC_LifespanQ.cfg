INIT Init
NEXT MCNext
CONSTANTS
  HandlerStacks <- LStacks2
  AddShapes <- BothShape
  MaxAdds = 2
  MaxCycles = 2
INVARIANT StartupInOrder
INVARIANT ShutdownReversed
INVARIANT StartupBeforeShutdown
INVARIANT CyclesInOrder
INVARIANT FirstFailureStops
INVARIANT EventsLegal
INVARIANT CompleteMeansAllRan
