INIT XInit
NEXT XNext
CONSTANTS
  Templates <- MCTemplates
  ResKinds <- SmallResKinds
  SinkPats <- QSinkPats
  StaticPrefixes <- MCStaticPrefixes
  Methods <- MCMethods
  Paths <- MCPaths
  MaxCalls = 3
  NewestFirst = TRUE
  RoutesFirst = TRUE
INVARIANT InvRouteMasksFallbacks
INVARIANT InvLifo
INVARIANT InvAllowExact
INVARIANT InvSuffixIsolation
INVARIANT InvKwargsAreFields
INVARIANT InvMetaRefused
INVARIANT InvConflictFree
