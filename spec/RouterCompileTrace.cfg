INIT TInit
NEXT TNext
CONSTANTS
  NT = 2
  Threads <- MCThreads
  NRoutes = 2
  UseLock = TRUE
  Recheck = TRUE
  Want <- MCWant
INVARIANT MutualExclusion
