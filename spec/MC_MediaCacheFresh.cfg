INIT MCInit
NEXT XNext
CONSTANTS
  Payloads = {1, 2}
  MaxReqs = 4
  Memoised = FALSE
  Depth = 0
INVARIANT FreshPerRequest
INVARIANT OneObjectPerRequest
