-------------------------- MODULE BodyStreamOps --------------------------
(* C07: the pure part of the request-body-stream specification, shared by the state machine
   (BodyStream) and the trace judge (BodyStreamTrace): what the body *is* for a given server
   script and Content-Length, where it ends, and the flat-cursor readings of the io operations
   (from CursorOps). *)
EXTENDS CursorOps

NIL == -1
BIG == 1000000                \* "unbounded" (an ask without a size; the budget without Content-Length)
Foreign == <<238, 10, 238>>   \* bytes behind the body that do not belong to this request

(* ------------------------------------------------------------------------------------------
   Pure operators (shared with the trace judge BodyStreamTrace)
   ------------------------------------------------------------------------------------------ *)
MinOf(S) == CHOOSE x \in S : \A y \in S : x <= y

(* ASGI events: [t: "req" | "disc", body, hb: has a body key, mb: 0 key absent / 1 false / 2 true] *)
Ev(t, body, hb, mb) == [t |-> t, body |-> body, hb |-> hb, mb |-> mb]
More(e)   == e.t = "req" /\ e.mb = 2
EvBody(e) == IF e.t = "req" /\ e.hb THEN e.body ELSE <<>>
IsDisc(e) == e.t = "disc"

(* first event after which nothing more may be expected (a disconnect, or more_body false/absent) *)
TermIdx(evs) == LET S == {i \in 1..Len(evs) : ~More(evs[i])} IN IF S = {} THEN Len(evs) + 1 ELSE MinOf(S)
RECURSIVE CatTo(_, _)
CatTo(evs, k) == IF k <= 0 THEN <<>> ELSE CatTo(evs, k - 1) \o EvBody(evs[k])
Clip(s, c) == IF c = NIL THEN s ELSE Take(s, c)
Upto(evs, k) == Min(k, Min(TermIdx(evs), Len(evs)))
AAvail(evs, c, k) == Clip(CatTo(evs, Upto(evs, k)), c)           \* body bytes known after k events
ABody(evs, c)     == AAvail(evs, c, Len(evs))
AEnded(evs, c, k) == k >= TermIdx(evs) \/ (c # NIL /\ Len(CatTo(evs, Upto(evs, k))) >= c)
AEndIdx(evs, c)   == LET S == {k \in 0..Len(evs) : AEnded(evs, c, k)} IN IF S = {} THEN Len(evs) + 1 ELSE MinOf(S)
DiscSeen(evs, k)  == \E i \in 1..Min(k, Len(evs)) : IsDisc(evs[i])

(* WSGI: an absent Content-Length means an empty body *)
WCL(c)         == IF c = NIL THEN 0 ELSE c
WBody(snt, c)  == Take(snt, WCL(c))
Wire(snt, c)   == IF WCL(c) <= Len(snt) THEN snt \o Foreign ELSE snt   \* a short body just ends (EOF)

Hint(h) == IF h <= 0 THEN -1 ELSE h                               \* io semantics of readlines(hint)
ExpRead(D, p, n)      == ORead(D, p, n).res
ExpReadLine(D, p, n)  == OReadLine(D, p, n).res
ExpReadLines(D, p, h) == OReadLines(D, p, Hint(h)).lines
==========================================================================
