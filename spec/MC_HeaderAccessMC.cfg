INIT MInit
NEXT MNext
CONSTANTS
  Bounds <- BoundsQ
  ReqSet <- ReqsOne
  ReadAttrs <- MidAttrs
  Depth = 0
  SharedUriSlot = FALSE
INVARIANT MemoSound
INVARIANT CacheSound
INVARIANT LookupSound
POSTCONDITION PrintCounters
