------------------------ MODULE RespHeadersTrace ------------------------
(* Trace judge for C15.  Reads a JSON list of traces recorded from real falcon.Response /
   falcon.asgi.Response objects inside a real App call (engine.drivers), makes every trace an
   initial state and replays it against RespHeadersOps.  Total: consumes every event, records
   the first failing P-clause in `verdict` ("clause|detail"), the first failing D-clause in `dnote`.

   trace:  [iface, sd, media, ev]      (sd: resp_options.secure_cookies_by_default when the request starts;
                                        an event with op "set_option" and `flag` changes it mid-request)
   event:  [op, n, v, items, p, a, link, ck, ca, ua, err, exc, res, after, law, t0, t1,  (calls)
            plain, rawnames, lownames, lines, echo, echo1, now]                            (op = "emit")
     after    resp.headers after a mutating call, as <<name, value>> pairs (names case-folded by the harness)
     law      what the trusted RFC decoder made of the text a codec helper produced:
              [cps, uricps, orig, ok, dec, dtype, deci, link]   (uricps: the emitted URI itself - the whole
              Location / Content-Location value, the text between < and > of a link-value)
     lines    the Set-Cookie lines the server received, parsed by the harness' RFC 6265 parser
     echo     for every cookie name: req.get_cookie_values(name) on a request echoing all cookies
   P-clauses (the property):
     P:exception       a call raised something the documentation does not name
     P:setcookie-guard get/set/delete/bulk-set of Set-Cookie did not raise (or a legal call raised)
     P:readback        get_header / typed getter / resp.headers differ from the case-insensitive map
     P:ascii           a URI-bearing helper emitted a non-ASCII character
     P:uri-valid       Location / Content-Location / a Link target has a "%" that does not start a %XX escape
     P:decode          decoding the emitted text does not return the original
     P:emit-once       a plain header is missing, duplicated or has another value in the server's list
     P:asgi-lower      an ASGI header name is not lower-case
     P:cookie-lines    number of Set-Cookie lines # raw cookies + cookies
     P:raw-cookies     an appended raw cookie is not on a line of its own, verbatim
     P:cookie-attrs    a cookie does not carry exactly the requested attributes (detail: name|attribute)
     P:unset-expired   an unset cookie is not expired for a user agent (RFC 6265 5.3)
     P:unset-value     an unset cookie still has a value
     P:cookie-echo     the request API reads an echoed cookie as another value
     P:cookie-refusal  set_cookie raised ValueError for an ASCII value, or accepted a non-ASCII one
     P:cookie-name-refusal  set_cookie / unset_cookie accepted a name that is not an RFC 7230 token (separator, blank,
                       control, non-ASCII, empty), or refused a token; an accepted name is then held to the line /
                       echo clauses under exactly that name (P:cookie-lines, P:cookie-echo)
   D-clauses (model detail): D:content-length, D:cookie-order, D:unset-window,
     D:cookie-coding   the cookie value on the line is not CookieEncode(value) of RespHeadersOps
     D:unset-inherit   an unset cookie carries an attribute the call did not give and no earlier write left

   known: named deviations from the property, used for DIAGNOSIS only (all five were defects of falcon,
   repaired since; a recurrence is a plain violation).  With known = {} the judge states the property.
   A trace rejected under {} and accepted under a set K is *explained* by exactly the deviations in K:
     "M" set_cookie on a name written before keeps the attributes of the earlier write (Morsel re-use)
     "Z" max_age = 0 (int/float) is dropped
     "E" an empty cookie value is echoed as two double quotes
     "Q" double quote / backslash are not escaped inside filename="..." / title="..."
     "C" control characters are copied into filename="..." (instead of taking the filename* form) *)
EXTENDS RespHeadersOps, Json, IOUtils

CONSTANT KnownSets      \* the deviation sets every trace is judged under ({{}} : the property itself)

Traces == JsonDeserialize(IOEnv.TRACE_FILE)

VARIABLES tid, l, known, sd, model, raw, jar, inh, vals, times, verdict, dnote
vars == <<tid, l, known, sd, model, raw, jar, inh, vals, times, verdict, dnote>>
Known == known
OnlyProperty  == {{}}
Deviations    == {"M", "Z", "E", "Q", "C"}
OneDeviation  == {{d} : d \in Deviations}
AllDeviations == SUBSET Deviations
KStr(K) == (IF "M" \in K THEN "M" ELSE "") \o (IF "Z" \in K THEN "Z" ELSE "") \o (IF "E" \in K THEN "E" ELSE "")
           \o (IF "Q" \in K THEN "Q" ELSE "") \o (IF "C" \in K THEN "C" ELSE "")

T  == Traces[tid]
Ev == T.ev[l]

Init == /\ tid \in 1..Len(Traces) /\ l = 1 /\ known \in KnownSets /\ sd = Traces[tid].sd
        /\ model = EmptyMap /\ raw = <<>> /\ jar = EmptyMap /\ inh = EmptyMap /\ vals = EmptyMap /\ times = EmptyMap
        /\ verdict = "ok" /\ dnote = ""

PairsMap(ps) == [k \in {p[1] : p \in Range(ps)} |-> (CHOOSE p \in Range(ps) : p[1] = k)[2]]
NoDup(ps)    == Cardinality({p[1] : p \in Range(ps)}) = Len(ps)
IsAscii(s)   == \A i \in 1..Len(s) : s[i] < 128

(* ---- the map after the call ---- *)
AllSC(items) == \A i \in 1..Len(items) : IsSC(items[i].n)
AnySC(items) == \E i \in 1..Len(items) : IsSC(items[i].n)
CodecCall == (Ev.op = "typed" /\ Ev.a.kind = "codec") \/ Ev.op = "link"
NewText   == IF Ev.op = "link" THEN Ev.law.text ELSE Ev.a.text       \* logged text, adopted after the law was checked
NewModel ==
    CASE Ev.op = "set"    -> IF IsSC(Ev.n) THEN model ELSE Put(model, Ev.n.b, Ev.v)
      [] Ev.op = "delete" -> IF IsSC(Ev.n) THEN model ELSE Del(model, Ev.n.b)
      [] Ev.op = "append" -> IF IsSC(Ev.n) THEN model ELSE AppendVal(model, Ev.n.b, Ev.v)
      [] Ev.op = "set_headers" -> IF AnySC(Ev.items) THEN model ELSE PutAll(model, Ev.items)
      [] Ev.op = "typed"  -> IF Ev.a.kind = "none" THEN Del(model, TypedHeader[Ev.p])
                             ELSE Put(model, TypedHeader[Ev.p], IF Ev.a.kind = "codec" THEN NewText ELSE Fmt(Ev.p, Ev.a))
      [] Ev.op = "link"   -> AppendVal(model, "link", NewText)
      [] OTHER -> model
NewRaw == IF Ev.op = "append" /\ IsSC(Ev.n) THEN Append(raw, Ev.v) ELSE raw

(* ---- cookies ---- *)
EffCA(ca) == IF "Z" \in Known /\ ca.ma.kind \in {"int", "float"} /\ ca.ma.num = 0 /\ ca.ma.frac = 0
             THEN [ca EXCEPT !.ma = [kind |-> "none", num |-> 0, frac |-> 0]] ELSE ca
(* set_cookie refuses a value that is not ASCII (documented ValueError) and set_cookie / unset_cookie refuse a name
   that is not a token (CookieNameLegal over the name's code points, documented KeyError): nothing is written *)
NameBad == Ev.op \in {"set_cookie", "unset_cookie"} /\ ~CookieNameLegal(Ev.ckcps)
Refused == (Ev.op = "set_cookie" /\ CookieRefused(Ev.vcps)) \/ NameBad
(* jar: what the last call for the name asked for (set: with "M" merged into the earlier write);
   inh: what an unset_cookie may inherit from the writes so far; inh[k].prev: the name was written before *)
NewJar ==
    CASE Refused -> jar
      [] Ev.op = "set_cookie" ->
            LET new == CookieOf(EffCA(Ev.ca), sd) IN
            Put(jar, Ev.ck, IF "M" \in Known /\ Ev.ck \in DOMAIN jar THEN MergeSet(jar[Ev.ck], new) ELSE new)
      [] Ev.op = "unset_cookie" -> Put(jar, Ev.ck, UnsetOf(Ev.ua))
      [] OTHER -> jar
NewInh ==
    CASE Refused -> inh
      [] Ev.op = "set_cookie" -> Put(inh, Ev.ck, InhOfSet(NewJar[Ev.ck]))
      [] Ev.op = "unset_cookie" ->
            Put(inh, Ev.ck, InhOfUnset(IF Ev.ck \in DOMAIN inh THEN inh[Ev.ck] ELSE NoInh, Ev.ua, Ev.ck \in DOMAIN jar))
      [] OTHER -> inh
(* vals: the value of the last set_cookie per name, as code points (for the coding D-clause) *)
NewVals == IF Ev.op = "set_cookie" /\ ~Refused THEN Put(vals, Ev.ck, Ev.vcps) ELSE vals
(* sd: resp_options.secure_cookies_by_default as the application last set it (op "set_option"); a set_cookie
   with secure=None takes the value it has at the time of the call *)
NewSd == IF Ev.op = "set_option" THEN Ev.flag ELSE sd
NewTimes == IF Ev.op = "unset_cookie" THEN Put(times, Ev.ck, <<Ev.t0, Ev.t1>>) ELSE times

(* ---- the encoding law ---- *)
Ctl(c)      == (c < 32 /\ c # 9) \/ c = 127
HasDQ(s)    == \E i \in 1..Len(s) : s[i] \in {34, 92}
HasCtl(s)   == \E i \in 1..Len(s) : Ctl(s[i])
(* the quoted-string contexts: an ASCII download name, a link title (never with control characters: the
   harness does not generate such titles, a quoted-string cannot carry them) *)
QuotedCtx   == (Ev.op = "typed" /\ Ev.p \in {"downloadable_as", "viewable_as"})
               \/ (Ev.op = "link" /\ Ev.link.title # <<>> /\ ~HasCtl(Ev.law.orig))
Excused     == /\ QuotedCtx /\ IsAscii(Ev.law.orig)
               /\ (HasDQ(Ev.law.orig) \/ HasCtl(Ev.law.orig))
               /\ (HasDQ(Ev.law.orig) => "Q" \in Known)
               /\ (HasCtl(Ev.law.orig) => "C" \in Known)
LawVerdict ==
    IF Ev.op = "link" THEN
        IF ~IsAscii(Ev.law.cps) THEN "P:ascii|link"
        ELSE IF ~ValidPct(Ev.law.uricps) THEN "P:uri-valid|link"
        ELSE IF ~Ev.law.ok \/ Ev.law.link # Ev.link THEN (IF Excused THEN "ok" ELSE "P:decode|link")
        ELSE "ok"
    ELSE IF Ev.p \in {"expires", "last_modified"} THEN
        IF ~Ev.law.ok \/ Ev.law.deci # Ev.a.i THEN "P:decode|" \o Ev.p ELSE "ok"
    ELSE
        IF ~IsAscii(Ev.law.cps) THEN "P:ascii|" \o Ev.p
        ELSE IF Ev.p \in {"location", "content_location"} /\ ~ValidPct(Ev.law.uricps) THEN "P:uri-valid|" \o Ev.p
        ELSE IF Ev.p \in {"location", "content_location"} /\ LooksEscaped(Ev.law.orig) /\ Ev.law.cps = Ev.law.orig THEN "ok"
        ELSE IF ~Ev.law.ok \/ Ev.law.dec # Ev.law.orig
                \/ (Ev.p \in {"downloadable_as", "viewable_as"} /\ Ev.law.dtype # DispType(Ev.p))
             THEN (IF Excused THEN "ok" ELSE "P:decode|" \o Ev.p)
        ELSE "ok"

(* ---- a call ---- *)
ExpectErr ==
    CASE Ev.op \in {"get", "set", "delete"} -> IsSC(Ev.n)
      [] Ev.op = "set_headers" -> AnySC(Ev.items)
      [] Ev.op \in {"set_cookie", "unset_cookie"} -> Refused
      [] OTHER -> FALSE
ExpectRes ==
    CASE Ev.op = "get" -> IF IsSC(Ev.n) THEN <<>> ELSE Look(model, Ev.n.b)
      [] Ev.op = "typed_get" -> Look(model, TypedHeader[Ev.p])
      [] OTHER -> <<>>
CallVerdict ==
    IF Ev.exc # "" THEN "P:exception|" \o Ev.op
    ELSE IF Ev.err # ExpectErr THEN (IF Ev.op \in {"set_cookie", "unset_cookie"}
                                     THEN (IF NameBad \/ Ev.op = "unset_cookie" \/ ~CookieRefused(Ev.vcps)
                                           THEN "P:cookie-name-refusal|" ELSE "P:cookie-refusal|")
                                     ELSE "P:setcookie-guard|") \o Ev.op
    ELSE IF Ev.res # ExpectRes THEN "P:readback|" \o Ev.op
    \* (for append_link the new map value must be the old one, ", ", and the appended link-value: a Link header that
    \*  was rebuilt from anything else fails here, before the appended part is decoded)
    ELSE IF Ev.op \notin {"get", "typed_get"} /\ (~NoDup(Ev.after) \/ PairsMap(Ev.after) # NewModel)
         THEN "P:readback|headers-after-" \o Ev.op
    ELSE IF CodecCall /\ LawVerdict # "ok" THEN LawVerdict
    ELSE "ok"

(* ---- emission ---- *)
RECURSIVE RemoveFirst(_, _)
RemoveFirst(s, t) == IF s = <<>> THEN <<>> ELSE IF Head(s).text = t THEN Tail(s) ELSE <<Head(s)>> \o RemoveFirst(Tail(s), t)
HasText(s, t) == \E i \in 1..Len(s) : s[i].text = t
RECURSIVE Strip(_, _)
Strip(s, rs) == IF rs = <<>> THEN [ok |-> TRUE, rest |-> s]
                ELSE IF ~HasText(s, Head(rs)) THEN [ok |-> FALSE, rest |-> s]
                ELSE Strip(RemoveFirst(s, Head(rs)), Tail(rs))

AttrDiff(L, c) ==
    IF c.exp = -2 /\ ~(L.hasexp /\ L.exp <= Ev.now) THEN "expires"       \* only with "M": left over from an unset
    ELSE IF c.exp # -2 /\ (L.hasexp # (c.exp # -1) \/ (c.exp # -1 /\ L.exp # c.exp)) THEN "expires"
    ELSE IF L.hasmaxage # c.hasmaxage \/ (c.hasmaxage /\ L.maxage # c.maxage) THEN "max-age"
    ELSE IF L.domain # c.domain THEN "domain"
    ELSE IF L.path # c.path THEN "path"
    ELSE IF L.secure # c.secure THEN "secure"
    ELSE IF L.httponly # c.httponly THEN "httponly"
    ELSE IF L.samesite # c.samesite THEN "samesite"
    ELSE IF L.partitioned # c.partitioned THEN "partitioned"
    ELSE IF L.other # <<>> \/ L.dup THEN "other"
    ELSE ""
(* an unset cookie: what the call gave must be there; on a name not written before nothing else may be *)
UnsetDiff(L, c, i) ==
    IF L.samesite # c.samesite THEN "samesite"
    ELSE IF c.domain # "" /\ L.domain # c.domain THEN "domain"
    ELSE IF c.path # "" /\ L.path # c.path THEN "path"
    ELSE IF ~i.prev /\ c.domain = "" /\ L.domain # "" THEN "domain"
    ELSE IF ~i.prev /\ c.path = "" /\ L.path # "" THEN "path"
    ELSE ""
(* what the call did not give is absent or inherited from the earlier write(s) *)
InheritOK(L, c, i) ==
    /\ (c.domain = "" => L.domain \in {"", i.domain})
    /\ (c.path = "" => L.path \in {"", i.path})
    /\ L.secure \in {FALSE, i.secure} /\ L.httponly \in {FALSE, i.httponly} /\ L.partitioned \in {FALSE, i.partitioned}
    /\ L.other = <<>> /\ ~L.dup

LineOf(rest, k) == rest[CHOOSE i \in 1..Len(rest) : rest[i].name = k]
EchoOf(k) == IF \E i \in 1..Len(Ev.echo) : Ev.echo[i][1] = k
             THEN Ev.echo[CHOOSE i \in 1..Len(Ev.echo) : Ev.echo[i][1] = k][2] ELSE <<>>
Echo1Of(k) == IF \E i \in 1..Len(Ev.echo1) : Ev.echo1[i][1] = k
              THEN Ev.echo1[CHOOSE i \in 1..Len(Ev.echo1) : Ev.echo1[i][1] = k][2] ELSE <<>>
EchoWant(v) == IF "E" \in Known /\ v = "" THEN "\"\"" ELSE v

WantPlain == WithFramework(model, T.media)
EmitVerdict ==
    LET got  == PairsMap(Ev.plain)
        st   == Strip(Ev.lines, raw)
        rest == st.rest
        ks   == DOMAIN jar
        one(k) == Cardinality({i \in 1..Len(rest) : rest[i].name = k}) = 1
        badattr == {k \in ks : one(k) /\ ~jar[k].unset /\ AttrDiff(LineOf(rest, k), jar[k]) # ""}
        badunsa == {k \in ks : one(k) /\ jar[k].unset /\ UnsetDiff(LineOf(rest, k), jar[k], inh[k]) # ""}
        badval  == {k \in ks : one(k) /\ jar[k].unset /\ LineOf(rest, k).value \notin {"", "\"\""}}
        badexp  == {k \in ks : one(k) /\ jar[k].unset /\
                      LET L == LineOf(rest, k) IN ~Expired(L.hasmaxage, L.maxage, L.hasexp, L.exp, Ev.now)}
        \* (an unset cookie echoed back is read under its name too, once)
        badecho == {k \in ks : IF jar[k].unset THEN (Len(EchoOf(k)) # 1 \/ Len(Echo1Of(k)) # 1)
                               ELSE (EchoOf(k) # <<EchoWant(jar[k].value)>> \/ Echo1Of(k) # <<EchoWant(jar[k].value)>>)}
    IN
    IF Ev.exc # "" THEN "P:exception|emit"
    ELSE IF ~NoDup(Ev.plain) \/ Del(got, "content-length") # Del(WantPlain, "content-length") THEN "P:emit-once|plain"
    ELSE IF T.iface = "asgi" /\ Ev.rawnames # Ev.lownames THEN "P:asgi-lower|"
    ELSE IF Len(Ev.lines) # Len(raw) + Cardinality(ks) THEN "P:cookie-lines|"
    ELSE IF ~st.ok THEN "P:raw-cookies|"
    ELSE IF \E k \in ks : ~one(k) THEN "P:cookie-lines|" \o (CHOOSE k \in ks : ~one(k))
    ELSE IF badattr # {} THEN LET k == CHOOSE k \in badattr : TRUE IN "P:cookie-attrs|" \o k \o "|" \o AttrDiff(LineOf(rest, k), jar[k])
    ELSE IF badunsa # {} THEN LET k == CHOOSE k \in badunsa : TRUE IN "P:cookie-attrs|" \o k \o "|" \o UnsetDiff(LineOf(rest, k), jar[k], inh[k])
    ELSE IF badval # {} THEN "P:unset-value|" \o (CHOOSE k \in badval : TRUE)
    ELSE IF badexp # {} THEN "P:unset-expired|" \o (CHOOSE k \in badexp : TRUE)
    ELSE IF badecho # {} THEN "P:cookie-echo|" \o (CHOOSE k \in badecho : TRUE)
    ELSE "ok"

EmitNote ==
    LET got == PairsMap(Ev.plain)
        rest == Strip(Ev.lines, raw).rest
        ks == DOMAIN jar
        un == {k \in ks : jar[k].unset /\ \E i \in 1..Len(rest) : rest[i].name = k}
    IN
    IF Look(got, "content-length") # Look(WantPlain, "content-length") THEN "D:content-length"
    \* the value on the line is the coding of RespHeadersOps (the echo clause is the P-clause; another coding that
    \* the request side undoes would satisfy the property)
    ELSE IF \E k \in ks : ~jar[k].unset /\ (\E i \in 1..Len(rest) : rest[i].name = k)
                          /\ LineOf(rest, k).vcps # CookieEncode(vals[k]) THEN "D:cookie-coding"
    ELSE IF \E i \in 1..Len(raw) : i > Len(Ev.lines) \/ Ev.lines[i].text # raw[i] THEN "D:cookie-order"
    ELSE IF \E k \in un : ~InheritOK(LineOf(rest, k), jar[k], inh[k]) THEN "D:unset-inherit"
    ELSE IF \E k \in un : LET L == LineOf(rest, k) IN
                \* http.cookies renders "one second ago" when the line is produced, i.e. between the call and now
                ~L.hasexp \/ L.exp < times[k][1] - 1 \/ L.exp > Ev.now - 1 THEN "D:unset-window"
    ELSE ""

Step ==
    /\ l >= 1 /\ l <= Len(T.ev) /\ verdict = "ok"
    /\ IF Ev.op = "emit"
         THEN /\ verdict' = EmitVerdict
              /\ dnote' = (IF dnote = "" /\ verdict' = "ok" THEN EmitNote ELSE dnote)
              /\ UNCHANGED <<sd, model, raw, jar, inh, vals, times>>
         ELSE /\ verdict' = CallVerdict
              /\ model' = NewModel /\ raw' = NewRaw /\ jar' = NewJar /\ inh' = NewInh /\ vals' = NewVals /\ times' = NewTimes /\ sd' = NewSd
              /\ UNCHANGED dnote
    /\ l' = l + 1 /\ UNCHANGED <<tid, known>>

Done ==
    /\ l >= 1 /\ (l > Len(T.ev) \/ verdict # "ok")
    /\ PrintT(<<"VERDICT", tid, IF verdict = "ok" /\ dnote # "" THEN dnote ELSE verdict, l - 1, KStr(known)>>)
    /\ l' = -1 /\ UNCHANGED <<tid, known, sd, model, raw, jar, inh, vals, times, verdict, dnote>>

Next == Step \/ Done
Spec == Init /\ [][Next]_vars
Sound == l >= -1
==========================================================================
