INIT XInit
NEXT XNext
CONSTANTS
  Outcome <- FirstOccurrence
  Kinds <- MCKinds
  NV <- MCNV
  MaxOcc = 2
  MaxCalls = 1
  Conv <- MCConv
  Bounds <- MCBounds
INVARIANT GetterNeverMisreports
INVARIANT ListsReportAll
INVARIANT AbsentProtocol
INVARIANT ZeroValuesProtocol
INVARIANT HasParamExact
INVARIANT PresentProtocol
INVARIANT StoreOnlyOnSuccess
INVARIANT LastOccurrenceOnly
INVARIANT HistoryFree
