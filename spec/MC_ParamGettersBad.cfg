INIT Init
NEXT XNext
CONSTANTS
  Outcome <- FirstOccurrence
  Kinds <- MCKinds
  NV <- MCNV
  MaxOcc = 2
  Conv <- MCConv
  Bounds <- MCBounds
INVARIANT GetterNeverMisreports
INVARIANT ListsReportAll
INVARIANT AbsentProtocol
INVARIANT ZeroValuesProtocol
INVARIANT HasParamExact
INVARIANT PresentProtocol
INVARIANT StoreOnlyOnSuccess
INVARIANT LastOccurrenceOnly
