INIT XInitLex
NEXT XNextLex
CONSTANTS
  Kinds <- MCKinds
  NV <- LexNV
  MaxOcc = 2
  MaxCalls = 1
  Conv <- MCLexConv
  Bounds <- MCBounds
INVARIANT GetterNeverMisreports
INVARIANT PresentProtocol
INVARIANT StoreOnlyOnSuccess
INVARIANT LastOccurrenceOnly
INVARIANT HistoryFree
INVARIANT RejectedNeverStored
INVARIANT PinnedAlwaysReported
INVARIANT LexVocabularyExact
INVARIANT EmitLex
