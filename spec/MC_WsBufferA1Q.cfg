\* leg A1 (quick): all run-to-quiescence behaviours, capacities 0..2, <= 2 messages +- disconnect, <= 3 calls, 1 cancellation
INIT XInit
NEXT QNext
CONSTANTS
  MaxQs = {0, 1, 2}
  NMsg = 2
  DiscChoices = {TRUE, FALSE}
  GeCmp = TRUE
  AwaitStop = TRUE
  NotifyPop = TRUE
  ReleaseOnEnd = TRUE
  Faults = TRUE
  StopAfterSend = TRUE
  CleanupOnDisc = TRUE
  MaxSendFail = 1
  Family = "none"
  MaxOps = 3
  MaxCancel = 1
  Depth = 0
INVARIANT QEmit
