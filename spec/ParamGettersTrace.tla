------------------------- MODULE ParamGettersTrace -------------------------
(* Trace judge for C08's getters half (code -> spec).  A trace is [ev |-> <<event, ...>>]; an event
   is one getter call on a real request, recorded at its return:
     [present, zero, convs, call, res, v, vs, stored, sv, svs, mapsame]
       present, convs  the parameter per the REFERENCE reading of the query string (exported by
                       QueryStringTrace / MC_QueryString) and the reference conversions of its values
       call            as in ParamGetters
       res             "value" | "default" | "none" | "missing" | "invalid" | "crash" | "other400"
                       ("default": the very default object came back; "crash": an exception that is no
                        400-class HTTP error; "other400": a 400-class error of an undocumented type)
       v / vs          returned number/token, or tokens of a returned list
       stored, sv, svs whether the store dict was written, and with what
       mapsame         the request's mapping (req.params), re-read after the call, is what it was before the
                       first call of the history on this request object (the events of a trace on one request
                       are a history: ParamGetters!ReadOnly, HistoryFree: each is judged against the unchanged
                       parameter, whatever was called - or done to a returned list - before)
   Clauses:  P:readonly   a getter changed the request's mapping  P:exception  P:outcome (value/default/error where another is due)  P:value  P:bounds
             P:store      D:error_class (right 400 class family, other subclass)
             D:lenient_spelling (400 for a spelling the Python constructor accepts but the documentation does not name) *)
EXTENDS ParamGettersOps, Json, IOUtils

Traces == JsonDeserialize(IOEnv.TRACE_FILE)

VARIABLES tid, l, verdict
T  == Traces[tid]
Ev == T.ev[l]

TInit == tid \in 1..Len(Traces) /\ l = 1 /\ verdict = "ok"

Is400(r) == r \in {"missing", "invalid", "other400"}

JudgeAgainst(e, x) ==
    IF e.res = "crash" THEN "P:exception"
    ELSE IF x.res = "invalid" /\ x.why \in {"min", "max"} /\ e.res = "value" THEN "P:bounds"
    ELSE IF ~(Is400(x.res) /\ Is400(e.res)) /\ e.res # x.res THEN "P:outcome"
    ELSE IF e.res = "value" /\ (e.v # x.v \/ e.vs # x.vs) THEN "P:value"
    ELSE IF e.stored # x.stored THEN "P:store"
    ELSE IF e.stored /\ (e.sv # x.v \/ e.svs # x.vs) THEN "P:store"
    ELSE IF e.res # x.res THEN "D:error_class"
    ELSE "ok"

(* the last conversion is "open" (ScalarLex does not model the constructor's decision): a value, whatever it is,
   or the 400-class error; the store protocol still binds *)
JudgeOpen(e) ==
    IF e.res = "crash" THEN "P:exception"
    ELSE IF e.res \notin {"value", "invalid", "other400"} THEN "P:outcome"
    ELSE IF e.stored # (e.res = "value" /\ e.call.store) THEN "P:store"
    ELSE IF e.stored /\ e.sv # e.v THEN "P:store"
    ELSE IF ~e.mapsame THEN "P:readonly"
    ELSE IF e.res = "other400" THEN "D:error_class"
    ELSE "ok"

(* accepted iff some acceptable outcome matches; otherwise the clause is named against the main one
   (for a name present with zero values: the absent protocol).  A lenient spelling answered with the 400-class
   error instead of the value the unchanged code reports is a D-note. *)
Judge(e) ==
    LET X == Outcomes(e.present, e.zero, e.convs, e.call)
        main == IF e.zero /\ e.call.kind # "has" THEN Absent(e.call)
                ELSE IF e.zero THEN CHOOSE x \in X : TRUE
                ELSE Outcome(e.present, e.convs, e.call)
        unp == ~e.zero /\ Unpinned(e.present, e.convs, e.call)
    IN  IF e.present /\ e.zero THEN "H:status"
        ELSE IF unp /\ IsOpen(e.convs[Len(e.convs)]) THEN JudgeOpen(e)
        ELSE IF JudgeAgainst(e, main) = "ok" THEN (IF e.mapsame THEN "ok" ELSE "P:readonly")
        ELSE IF \E x \in X : JudgeAgainst(e, x) = "ok" THEN
            (IF ~e.mapsame THEN "P:readonly" ELSE IF unp THEN "D:lenient_spelling" ELSE "ok")
        ELSE JudgeAgainst(e, main)

Step == /\ l >= 1 /\ l <= Len(T.ev) /\ verdict = "ok"
        /\ verdict' = Judge(Ev)
        /\ l' = l + 1 /\ UNCHANGED tid

Done == /\ l >= 1 /\ (l > Len(T.ev) \/ verdict # "ok")
        /\ PrintT(<<"VERDICT", tid, verdict, l - 1>>)
        /\ l' = -1 /\ UNCHANGED <<tid, verdict>>

TNext == Step \/ Done
Sound == l >= -1
=============================================================================
