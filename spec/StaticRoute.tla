---------------------------- MODULE StaticRoute ----------------------------
(* C16: static routes never leave their directory and serve exactly the requested bytes.
   One request run through the designed pipeline of StaticRouteOps as a state machine:
   assemble the remainder (Extend), choose configuration and headers (Submit), sanitise, open the
   requested file or the fallback, evaluate If-Modified-Since, evaluate Range.  The invariants say
   that every path handed to open() is inside the directory or is the fallback (Containment), that
   the machine computes Expected (MachineIsFunction) and that the design's outcome is admitted by
   the property layer for every request (DesignMeetsProperty), plus the range clauses. *)
EXTENDS StaticRouteOps

(* ------------------------------------------------------------------------------------- *)
(* the request pipeline as a state machine                                                *)
CONSTANTS Tokens,       \* strings a remainder is assembled from
          MaxTokens,    \* how many
          StartPaths,   \* remainders to start from
          Fbs, Ranges,
          Zones,        \* process time zones
          ImsFor(_),    \* If-Modified-Since values offered under a zone
          Clocks,       \* positions of the server clock relative to the modification time
          MStates,      \* initial states of the mutable file
          MaxReq,       \* requests per history on one route object
          MemoResolved  \* wrong design: the route remembers, per request path, the file it served

VARIABLES phase, rq, ntok, file, opens, resp,
          nreq,         \* number of the request in the history (the fallback configuration is fixed by the first)
          memo,         \* wrong design only: set of <<request path, file path string>>
          h             \* the finished requests of the history: [m, c, e]
vars == <<phase, rq, ntok, file, opens, resp, nreq, memo, h, mstate>>

NoResp == Resp(0, <<>>, NoCR, -1)
Case(path, fb, head, range, ims, zone, clock) ==
    [path |-> path, fb |-> fb, head |-> head, range |-> range, ims |-> ims, zone |-> zone, clock |-> clock]
RangeRec(k, a, ha, b, hb) == [k |-> k, a |-> a, b |-> b, ha |-> ha, hb |-> hb]
NoRange == RangeRec("none", 0, 0, 0, 0)

Init == /\ phase = "build" /\ ntok = 0 /\ file = FAIL /\ opens = <<>> /\ resp = NoResp
        /\ nreq = 1 /\ memo = {} /\ h = <<>> /\ mstate \in MStates
        /\ \E p \in StartPaths : rq = Case(p, "none", "under", NoRange, NoIms, "UTC", "past")

Extend == /\ phase = "build" /\ ntok < MaxTokens
          /\ \E t \in Tokens : rq' = [rq EXCEPT !.path = @ \o t]
          /\ ntok' = ntok + 1
          /\ UNCHANGED <<nreq, memo, h, mstate, phase, file, opens, resp>>

Submit == /\ phase = "build"
          /\ \E fb \in (IF nreq = 1 THEN Fbs ELSE {rq.fb}), r \in Ranges, z \in Zones, k \in Clocks,
                hd \in (IF rq.path = <<>> THEN {"under", "bare"} ELSE {"under"}) :
                \E i \in ImsFor(z) : rq' = Case(rq.path, fb, hd, r, i, z, k)
          /\ phase' = "sanitise"
          /\ UNCHANGED <<nreq, memo, h, mstate, ntok, file, opens, resp>>

Finish(r) == phase' = "done" /\ resp' = r
HasFb == rq.fb # "none"
Norm == NormPath(rq.path)
Remembered == {e \in memo : e[1] = rq.path}
Fp   == IF MemoResolved /\ Remembered # {} THEN (CHOOSE e \in Remembered : TRUE)[2] ELSE FilePath(Norm)

NoMatch == /\ phase = "sanitise" /\ rq.head = "bare" /\ ~HasFb
           /\ Finish(Err(404)) /\ UNCHANGED <<nreq, memo, h, mstate, rq, ntok, file, opens>>
SanitiseReject == /\ phase = "sanitise" /\ ~(rq.head = "bare" /\ ~HasFb)
                  /\ (Rejects(rq.path, HasFb) \/ PrefixReject(Norm) \/ FinalReject(Fp))
                  /\ Finish(Err(404)) /\ UNCHANGED <<nreq, memo, h, mstate, rq, ntok, file, opens>>
SanitiseAccept == /\ phase = "sanitise" /\ ~(rq.head = "bare" /\ ~HasFb)
                  /\ ~(Rejects(rq.path, HasFb) \/ PrefixReject(Norm) \/ FinalReject(Fp))
                  /\ phase' = "open" /\ UNCHANGED <<nreq, memo, h, mstate, rq, ntok, file, opens, resp>>

OpenRequested == /\ phase = "open" /\ OpenResult(Fp) # FAIL
                 /\ file' = OpenResult(Fp) /\ opens' = <<Loc(Fp, rq.fb)>>
                 /\ phase' = "cond" /\ UNCHANGED <<nreq, memo, h, mstate, rq, ntok, resp>>
OpenFallback  == /\ phase = "open" /\ OpenResult(Fp) = FAIL /\ HasFb
                 /\ file' = FbPath(rq.fb) /\ opens' = <<Loc(Fp, rq.fb), Loc(FbStr(rq.fb), rq.fb)>>
                 /\ phase' = "cond" /\ UNCHANGED <<nreq, memo, h, mstate, rq, ntok, resp>>
OpenMiss      == /\ phase = "open" /\ OpenResult(Fp) = FAIL /\ ~HasFb
                 /\ opens' = <<Loc(Fp, rq.fb)>>
                 /\ Finish(Err(404)) /\ UNCHANGED <<nreq, memo, h, mstate, rq, ntok, file>>

BadDate     == /\ phase = "cond" /\ rq.ims.k = "bad"
               /\ Finish(Err(400)) /\ UNCHANGED <<nreq, memo, h, mstate, rq, ntok, file, opens>>
NotModified304 == /\ phase = "cond" /\ rq.ims.k # "bad" /\ NotModified(rq)
               /\ Finish(Resp(304, <<>>, NoCR, -1)) /\ UNCHANGED <<nreq, memo, h, mstate, rq, ntok, file, opens>>
Modified    == /\ phase = "cond" /\ rq.ims.k # "bad" /\ ~NotModified(rq)
               /\ phase' = "range" /\ UNCHANGED <<nreq, memo, h, mstate, rq, ntok, file, opens, resp>>

RangeResult  == RangeDesign(Content(file), rq.range)
RangeFull    == /\ phase = "range" /\ RangeResult.status = 200
                /\ Finish(RangeResult) /\ UNCHANGED <<nreq, memo, h, mstate, rq, ntok, file, opens>>
RangePartial == /\ phase = "range" /\ RangeResult.status = 206
                /\ Finish(RangeResult) /\ UNCHANGED <<nreq, memo, h, mstate, rq, ntok, file, opens>>
RangeUnsat   == /\ phase = "range" /\ RangeResult.status = 416
                /\ Finish(RangeResult) /\ UNCHANGED <<nreq, memo, h, mstate, rq, ntok, file, opens>>
RangeBad     == /\ phase = "range" /\ RangeResult.status = 400
                /\ Finish(RangeResult) /\ UNCHANGED <<nreq, memo, h, mstate, rq, ntok, file, opens>>
(* wrong design only (BigPositions = FALSE): the position was handed to seek() first and that failed *)
RangeSeekFails == /\ phase = "range" /\ RangeResult.status = 404
                /\ Finish(RangeResult) /\ UNCHANGED <<nreq, memo, h, mstate, rq, ntok, file, opens>>

(* between two requests on the same route object the file system may change *)
Again(m) == /\ phase = "done" /\ nreq < MaxReq
            /\ mstate' = m /\ nreq' = nreq + 1
            /\ h' = Append(h, [m |-> mstate, c |-> rq, e |-> Obs(resp, opens)])
            /\ memo' = (IF MemoResolved /\ file # FAIL
                        THEN {e \in memo : e[1] # rq.path} \cup {<<rq.path, <<SEP>> \o JoinSegs(file)>>} ELSE memo)
            /\ phase' = "build" /\ ntok' = 0 /\ file' = FAIL /\ opens' = <<>> /\ resp' = NoResp
            /\ \E p \in StartPaths \cup {rq.path} : rq' = [rq EXCEPT !.path = p]
NextRequest == Again(mstate)
CreateFile  == mstate = 0 /\ \E m \in {1, 2} : Again(m)
RemoveFile  == mstate # 0 /\ Again(0)
ReplaceFile == mstate # 0 /\ Again(3 - mstate)

Next == NextRequest \/ CreateFile \/ RemoveFile \/ ReplaceFile \/ Extend \/ Submit \/ NoMatch \/ SanitiseReject \/ SanitiseAccept \/ OpenRequested \/ OpenFallback
        \/ OpenMiss \/ BadDate \/ NotModified304 \/ Modified \/ RangeFull \/ RangePartial \/ RangeUnsat \/ RangeBad \/ RangeSeekFails
Spec == Init /\ [][Next]_vars

(* ---- invariants ---- *)
Done == phase = "done"
Served == Done /\ file # FAIL
O == Obs(resp, opens)
(* every path the route hands to open() lies in the directory or is the configured fallback *)
Containment == \A i \in 1..Len(opens) : opens[i] = "in" \/ (opens[i] = "fb" /\ rq.fb = "out")
ServedIsInside == file # FAIL => (IsFile(file) /\ (IsPrefix(Root, file) \/ (HasFb /\ file = FbPath(rq.fb))))
NothingElseIs404 == (Done /\ file = FAIL) => resp.status = 404
MachineIsFunction == Done => O = Expected(rq)
(* every response of a history is the function of the file system at the time of that request *)
ResponseFollowsFileSystem == Done => (O = Expected(rq) /\ PVerdict(rq, O) = "ok")
DesignMeetsProperty == Done => PVerdict(rq, O) = "ok"
FullExact  == (Served /\ resp.status = 200) => (resp.body = Content(file) /\ resp.clen = Len(resp.body) /\ resp.cr = NoCR)
SliceExact == (Served /\ resp.status = 206) =>
                  /\ resp.cr[1] >= 0 /\ resp.cr[1] <= resp.cr[2] /\ resp.cr[2] < resp.cr[3]
                  /\ resp.body = Slice(Content(file), resp.cr[1], resp.cr[2] + 1)
ContentRangeConsistent == (Served /\ resp.status = 206) =>
                  /\ resp.cr[3] = Len(Content(file))
                  /\ resp.clen = resp.cr[2] - resp.cr[1] + 1 /\ resp.clen = Len(resp.body) /\ resp.clen > 0
ZeroSizeIgnoresRange == (Served /\ Len(Content(file)) = 0 /\ resp.status \notin {304, 400}) => (resp.status = 200 /\ resp.body = <<>>)
UnsatCarriesSize == (Served /\ resp.status = 416) => (resp.cr = Star(Len(Content(file))) /\ Len(Content(file)) > 0)
NotModifiedNoBody == (Done /\ resp.status = 304) => (resp.body = <<>> /\ rq.ims.k = "date" /\ rq.ims.d >= 0 /\ file # FAIL)
(* the time zone of the process is an environment dimension: the whole outcome is the same under every zone *)
DecisionIndependentOfZone == Done => \A z \in AllZones : Expected([rq EXCEPT !.zone = z]) = Expected(rq)
(* neither may it depend on where the server's clock stands relative to the dates involved *)
DecisionIndependentOfClock == Done => \A k \in AllClocks : Expected([rq EXCEPT !.clock = k]) = Expected(rq)

(* ---- positions of any magnitude ----
   The magnitude class of a position relative to a size n: below the size (each value its own class), equal to
   it, size + 1, further beyond, Huge.  The whole outcome depends only on the classes of the positions and on
   their order: whatever is decided for one Huge number is decided for all of them. *)
Mag(p, n) == IF IsHuge(p) THEN n + 3 ELSE Min(p[1], n + 2)
Ord(p, q) == IF PosLt(p, q) THEN -1 ELSE IF PosLt(q, p) THEN 1 ELSE 0
Positions(n) == {<<v, 0>> : v \in 0..(n + 4)} \cup {<<0, 1>>, <<0, 2>>}
SameMagnitudes(r, r2, n) == /\ r2.k = r.k
                            /\ Mag(PosA(r2), n) = Mag(PosA(r), n) /\ Mag(PosB(r2), n) = Mag(PosB(r), n)
                            /\ Ord(PosA(r2), PosB(r2)) = Ord(PosA(r), PosB(r))
Ranged == Served /\ rq.range.k \in {"fl", "f", "s"}
DecisionDependsOnlyOnMagnitudeClass ==
    Ranged => LET n == Len(Content(file)) IN
              \A p \in Positions(n), q \in (IF rq.range.k = "fl" THEN Positions(n) ELSE {<<0, 0>>}) :
                  LET r2 == RangeRec(rq.range.k, p[1], p[2], q[1], q[2]) IN
                  SameMagnitudes(rq.range, r2, n) => Expected([rq EXCEPT !.range = r2]) = Expected(rq)
(* and Huge is decided by the same arithmetic as the nearest numbers beyond the size: writing size + rank for a
   Huge position (the small positions of the request being at most the size) changes nothing *)
JustBeyond(p, n) == IF IsHuge(p) THEN <<n + p[2], 0>> ELSE p
HugeDecidedAsJustBeyond ==
    (Ranged /\ rq.range.a <= Len(Content(file)) /\ rq.range.b <= Len(Content(file))) =>
        LET n == Len(Content(file))
            p == JustBeyond(PosA(rq.range), n)
            q == JustBeyond(PosB(rq.range), n)
        IN  Expected([rq EXCEPT !.range = RangeRec(rq.range.k, p[1], p[2], q[1], q[2])]) = Expected(rq)
(* a position beyond the size never produces anything but 206 / 416 / 200 (empty file) / 400 (last < first): in
   particular never "not found" and never a server error *)
HugeNeverFails == (Ranged /\ (rq.range.ha > 0 \/ rq.range.hb > 0)) => resp.status \in {200, 206, 304, 400, 416}
HugeFirstUnsatisfiable == (Ranged /\ rq.range.k \in {"fl", "f"} /\ rq.range.ha > 0 /\ resp.status \notin {304, 400}
                           /\ Len(Content(file)) > 0) => (resp.status = 416 /\ resp.cr = Star(Len(Content(file))))
HugeLastClamped == (Ranged /\ rq.range.k = "fl" /\ rq.range.ha = 0 /\ rq.range.hb > 0 /\ resp.status # 304
                    /\ rq.range.a < Len(Content(file))) =>
                       (resp.status = 206 /\ resp.cr = <<rq.range.a, Len(Content(file)) - 1, Len(Content(file))>>)
HugeSuffixWhole == (Ranged /\ rq.range.k = "s" /\ rq.range.ha > 0 /\ resp.status # 304 /\ Len(Content(file)) > 0) =>
                       (resp.status = 206 /\ resp.body = Content(file)
                        /\ resp.cr = <<0, Len(Content(file)) - 1, Len(Content(file))>>)
=============================================================================
