INIT MCInit
NEXT MCNext
CONSTANTS
  Keys <- MCKeys
  HandlerIds = {1, 2}
  CTypes <- MCCTypes
  Defaults <- MCDefaults
  NoRaiseCalls <- MCNoRaise
  MaxObjs = 2
  MaxUpdate = 1
  ClearOnSet = TRUE
  ClearOnDelete = TRUE
  BareKeyShortcut = FALSE
  Depth = 3
CONSTRAINT Bound
VIEW View
INVARIANT WellFormedMaps
INVARIANT NeverStale
INVARIANT MemoCoherent
INVARIANT FirstOfBest
INVARIANT ShortcutInsideRule
PROPERTY MCIndependent
