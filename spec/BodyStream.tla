---------------------------- MODULE BodyStream ----------------------------
(* C07: request body streams deliver exactly the declared body: no loss, no over-read.

   Two stacks, one cursor.  The application sees a flat Cursor (CursorOps) over
        Body == Take(Sent, CL)
   where Sent is what the server really has.  Behind the cursor sits the accounting the
   streams need because they cannot see Body, only a server interface:
     WSGI  a raw file-like object that happily hands out foreign bytes after the body
           (`wire`); the stream keeps a `budget` of bytes it may still take and asks the raw
           object for sizes (`reach` = furthest byte offset any ask could have touched);
     ASGI  a receive() callable producing events (chunks with or without `body` /
           `more_body` keys, empty chunks, chunks running past Content-Length, a disconnect);
           the stream keeps a `budget`, a look-ahead buffer `buf` and counts events (`recv`).
   One action per public call.  The invariants at the bottom are the property.  The BOOLEAN
   constants are the wrong-design switches used for the vacuity runs: with all of
   them at their good value the invariants hold, flipping any one breaks a named invariant. *)
EXTENDS BodyStreamOps, TLC

CONSTANTS Datas,              \* WSGI: byte strings the server may hold
          Scripts,            \* ASGI: event sequences the server may deliver (each has a terminal event)
          CLs,                \* Content-Length values, NIL = header absent
          Sizes,              \* size arguments offered to the sized operations (-1 = None)
          ShortReads,         \* WSGI: the raw object may answer read(k) with 1..k bytes
          ChargeByRequested,  \* wrong design: budget is charged by the size asked, not by the bytes returned
          BoundLineOps,       \* good design: readlines / iteration go through the bounded readline
          TruncateChunks,     \* good design: a chunk running past the budget is cut
          CountTruncated,     \* good design: the bytes kept of a cut chunk count as available
          HonourDisconnect,   \* good design: http.disconnect ends the stream
          TellFromZero        \* good design: the position indicator starts at 0, whatever was pre-loaded

(* ------------------------------------------------------------------------------------------
   State
   ------------------------------------------------------------------------------------------ *)
VARIABLES iface,    \* "wsgi" | "asgi"
          cl,       \* Content-Length or NIL
          sent,     \* WSGI: bytes the server holds (ASGI: <<>>)
          evs,      \* ASGI: the event script (WSGI: <<>>)
          first,    \* ASGI: the first event was pre-loaded by the framework (first_event=)
          body,     \* Take(Sent, CL): what the application may ever see (fixed at Init: BodyStreamOps!WBody / ABody)
          endIdx,   \* ASGI: number of events after which the end of the body is known (fixed at Init: BodyStreamOps!AEndIdx)
          budget,   \* bytes that may still be taken from the server
          buf,      \* ASGI: received, not yet returned
          recv,     \* ASGI: events consumed so far (the pre-loaded one included)
          rawPos,   \* WSGI: bytes taken from the raw object
          reach,    \* WSGI: max over all asks of (offset before the ask + size asked); BIG for an unsized ask
          out,      \* ghost: every byte accounted for so far (returned, or discarded by exhaust)
          ret,      \* ghost: number of bytes returned to the application
          told,     \* ASGI: the position indicator the stream maintains (tell())
          closed, exh, blocked,
          last      \* the last call and what it reported

vars == <<iface, cl, sent, evs, first, body, endIdx, budget, buf, recv, rawPos, reach, out, ret, told, closed, exh, blocked, last>>
conf == <<iface, cl, sent, evs, first, body, endIdx>>

Body == body
wire == Wire(sent, cl)
EofOf(b, bud) == IF b = <<>> /\ bud <= 0 THEN 1 ELSE 0
Eof  == EofOf(buf, budget) = 1

Rec(op, n, res, lines, stop, err, eof, tell, rc) ==
    [op |-> op, n |-> n, res |-> res, lines |-> lines, stop |-> stop, err |-> err, eof |-> eof, tell |-> tell, recv |-> rc]

(* ------------------------------------------------------------------------------------------
   ASGI mechanism: one receive step, and the loop every reading call runs
   ------------------------------------------------------------------------------------------ *)
St(b, bud, rc, av, blk) == [buf |-> b, budget |-> bud, recv |-> rc, avail |-> av, blocked |-> blk]

Step(s) ==
    LET e     == evs[s.recv + 1]
        chunk == EvBody(e)
        over  == Len(chunk) > s.budget
        kept  == IF over /\ TruncateChunks THEN Take(chunk, s.budget) ELSE chunk
        b1    == IF over THEN 0 ELSE s.budget - Len(chunk)
        a1    == s.avail + (IF over /\ ~CountTruncated THEN 0 ELSE Len(kept))
        b2    == IF More(e) \/ (IsDisc(e) /\ ~HonourDisconnect) THEN b1 ELSE 0
    IN  St(s.buf \o kept, b2, s.recv + 1, a1, FALSE)

RECURSIVE Fill(_, _)
Fill(s, need) ==                      \* receive until the budget is used up or `need` bytes are buffered
    IF s.budget <= 0 \/ s.avail >= need THEN s
    ELSE IF s.recv >= Len(evs) THEN [s EXCEPT !.blocked = TRUE]     \* receive() would never return
    ELSE Fill(Step(s), need)

Set(b, bud, rc, rp, rch, o, rt, cls, ex, blk, lst) ==
    /\ buf' = b /\ budget' = bud /\ recv' = rc /\ rawPos' = rp /\ reach' = rch /\ out' = o /\ ret' = rt
    /\ told' = (IF iface = "asgi" THEN told + (rt - ret) ELSE told)
    /\ closed' = cls /\ exh' = ex /\ blocked' = blk /\ last' = lst
    /\ UNCHANGED conf

Refuse(op, n) ==                      \* a closed ASGI stream refuses every operation
    Set(buf, budget, recv, rawPos, reach, out, ret, closed, exh, blocked,
        Rec(op, n, <<>>, <<>>, FALSE, "closed", EofOf(buf, budget), told, recv))

ATake(op, n, s, k) ==                 \* hand out the first k buffered bytes of the state s the loop ended in
    LET data == Take(s.buf, k)
        rest == Drop(s.buf, k)
    IN  Set(rest, s.budget, s.recv, rawPos, reach, out \o data, ret + Len(data), closed, exh, s.blocked,
            Rec(op, n, data, <<>>, FALSE, "", EofOf(rest, s.budget), told + Len(data), s.recv))

S0 == St(buf, budget, recv, Len(buf), FALSE)

AReadAllAs(op, n) ==
    IF closed THEN Refuse(op, n)
    ELSE LET s == Fill(S0, BIG) IN ATake(op, n, s, Len(s.buf))

ARead(n) ==
    /\ iface = "asgi"
    /\ IF closed THEN Refuse("read", n)
       ELSE IF Eof \/ n = 0 THEN ATake("read", n, S0, 0)
       ELSE IF n < 0 THEN AReadAllAs("read", n)
       ELSE LET s == Fill(S0, n)
            IN  ATake("read", n, s, IF s.avail <= n THEN Len(s.buf) ELSE n)
AReadAll == iface = "asgi" /\ AReadAllAs("readall", -1)
AIter    == iface = "asgi" /\ AReadAllAs("iter", -1)         \* a complete `async for`; res is the concatenation
AExhaust ==
    /\ iface = "asgi"
    /\ IF closed THEN Refuse("exhaust", -1)
       ELSE LET s == Fill(St(<<>>, budget, recv, 0, FALSE), BIG)
            IN  Set(<<>>, 0, s.recv, rawPos, reach, out \o buf \o s.buf, ret, closed, TRUE, s.blocked,
                    Rec("exhaust", -1, <<>>, <<>>, FALSE, "", 1, told, s.recv))
AClose ==
    /\ iface = "asgi"
    /\ Set(<<>>, 0, recv, rawPos, reach, out, ret, TRUE, exh, blocked,
           Rec("close", -1, <<>>, <<>>, FALSE, "", 1, told, recv))

(* ------------------------------------------------------------------------------------------
   WSGI mechanism
   ------------------------------------------------------------------------------------------ *)
WReq(n)      == IF n < 0 \/ n > budget THEN budget ELSE n          \* the size after fix-up
RawLens(k)   == LET a == Min(k, Len(wire) - rawPos) IN IF ShortReads /\ a > 1 THEN 1..a ELSE {a}
Charge(k, j) == IF ChargeByRequested THEN k ELSE j
Seen         == Take(wire, rawPos + budget)                        \* what bounded asks can ever touch

WApply(op, n, r, lines, stop, asked, charge, returned) ==
    LET nb == budget - charge
    IN  Set(<<>>, nb, 0, rawPos + Len(r),
            IF asked < 0 THEN reach ELSE IF asked >= BIG THEN BIG ELSE Max(reach, rawPos + asked),
            out \o r, IF returned THEN ret + Len(r) ELSE ret, closed, exh \/ ~returned, FALSE,
            Rec(op, n, IF returned THEN r ELSE <<>>, lines, stop, "", EofOf(<<>>, nb), -1, 0))

WRead(n) ==
    /\ iface = "wsgi"
    /\ LET k == WReq(n) IN \E j \in RawLens(k) :
           WApply("read", n, Slice(wire, rawPos, rawPos + j), <<>>, FALSE, k, Charge(k, j), TRUE)
WReadLine(n) ==
    /\ iface = "wsgi"
    /\ LET k == WReq(n)
           r == ExpReadLine(wire, rawPos, k)
       IN  WApply("readline", n, r, <<>>, FALSE, k, Charge(k, Len(r)), TRUE)
WReadLines(h) ==
    /\ iface = "wsgi"
    /\ IF BoundLineOps
         THEN LET ls == ExpReadLines(Seen, rawPos, h)
              IN  WApply("readlines", h, Concat(ls), ls, FALSE, budget, Len(Concat(ls)), TRUE)
         ELSE LET k  == WReq(h)                                    \* the raw readlines(hint) has no byte bound
                  ls == ExpReadLines(wire, rawPos, k)
              IN  WApply("readlines", h, Concat(ls), ls, FALSE, BIG, Charge(k, Len(Concat(ls))), TRUE)
WNext ==
    /\ iface = "wsgi"
    /\ IF BoundLineOps
         THEN LET r == ExpReadLine(Seen, rawPos, -1) IN WApply("next", -1, r, <<>>, r = <<>>, budget, Len(r), TRUE)
         ELSE LET r == ExpReadLine(wire, rawPos, -1) IN WApply("next", -1, r, <<>>, r = <<>>, BIG, 0, TRUE)
WIterAll ==                                                        \* list(stream)
    /\ iface = "wsgi"
    /\ IF BoundLineOps
         THEN LET ls == ExpReadLines(Seen, rawPos, -1)
              IN  WApply("iterall", -1, Concat(ls), ls, FALSE, budget, Len(Concat(ls)), TRUE)
         ELSE LET ls == ExpReadLines(wire, rawPos, -1)
              IN  WApply("iterall", -1, Concat(ls), ls, FALSE, BIG, 0, TRUE)
WExhaust ==
    /\ iface = "wsgi"
    /\ IF ChargeByRequested
         THEN \E j \in RawLens(budget) :                           \* the first read is charged in full, the next asks for 0
                  WApply("exhaust", -1, Slice(wire, rawPos, rawPos + j), <<>>, FALSE, budget, budget, FALSE)
         ELSE LET j == Min(budget, Len(wire) - rawPos)
              IN  WApply("exhaust", -1, Slice(wire, rawPos, rawPos + j), <<>>, FALSE, budget, j, FALSE)
WClose ==                                                          \* io.IOBase.close(): a flag, nothing else
    /\ iface = "wsgi"
    /\ Set(buf, budget, recv, rawPos, reach, out, ret, TRUE, exh, blocked,
           Rec("close", -1, <<>>, <<>>, FALSE, "", EofOf(<<>>, budget), -1, 0))

(* ------------------------------------------------------------------------------------------ *)
Blank == Rec("init", 0, <<>>, <<>>, FALSE, "", 0, 0, 0)

InitWsgi ==
    /\ iface = "wsgi" /\ sent \in Datas /\ cl \in CLs /\ evs = <<>> /\ first = FALSE
    /\ body = WBody(sent, cl) /\ endIdx = 0
    /\ budget = WCL(cl) /\ buf = <<>> /\ recv = 0 /\ rawPos = 0 /\ reach = 0
    /\ out = <<>> /\ ret = 0 /\ told = 0 /\ closed = FALSE /\ exh = FALSE /\ blocked = FALSE
    /\ last = [Blank EXCEPT !.eof = EofOf(<<>>, WCL(cl)), !.tell = -1]

InitAsgi ==
    /\ iface = "asgi" /\ evs \in Scripts /\ cl \in CLs /\ sent = <<>> /\ first \in BOOLEAN
    /\ (first => evs[1].t = "req")
    /\ body = ABody(evs, cl) /\ endIdx = AEndIdx(evs, cl)
    /\ LET b0 == IF cl = NIL THEN BIG ELSE cl
           s  == IF first THEN Step(St(<<>>, b0, 0, 0, FALSE)) ELSE St(<<>>, b0, 0, 0, FALSE)
       IN  /\ buf = s.buf /\ budget = s.budget /\ recv = s.recv
           /\ told = (IF TellFromZero THEN 0 ELSE Len(s.buf))
           /\ last = [Blank EXCEPT !.eof = EofOf(s.buf, s.budget), !.recv = s.recv,
                                   !.tell = IF TellFromZero THEN 0 ELSE Len(s.buf)]
    /\ rawPos = 0 /\ reach = 0 /\ out = <<>> /\ ret = 0 /\ closed = FALSE /\ exh = FALSE /\ blocked = FALSE

Init == InitWsgi \/ InitAsgi

Next == \/ \E n \in Sizes : WRead(n) \/ WReadLine(n) \/ WReadLines(n) \/ ARead(n)
        \/ WNext \/ WIterAll \/ WExhaust \/ WClose
        \/ AReadAll \/ AIter \/ AExhaust \/ AClose

Spec == Init /\ [][Next]_vars

(* ------------------------------------------------------------------------------------------
   The property
   ------------------------------------------------------------------------------------------ *)
EndKnown == IF iface = "wsgi" THEN Len(out) = WCL(cl)
            ELSE recv >= endIdx \/ (cl # NIL /\ Len(out) = cl)

(* what was handed out (and what is buffered) is the body, in order, nothing lost, nothing foreign;
   once end-of-stream is reported everything was handed out *)
PrefixOfBody     == /\ IsPrefix(out \o buf, Body)
                    /\ (Eof /\ ~closed) => out = Body
SizedReadBounded == (last.op \in {"read", "readline"} /\ last.n >= 0) => Len(last.res) <= last.n
(* the server is never asked for anything behind Content-Length / behind the end of the body *)
NeverAskBeyondCL == IF iface = "wsgi" THEN reach <= WCL(cl)
                    ELSE recv <= Max(endIdx, IF first THEN 1 ELSE 0)
(* tell() is the number of bytes returned; eof is reported exactly when the end is known and reached *)
IndicatorsAgree  == /\ (~exh => ret = Len(out))
                    /\ last.eof = EofOf(buf, budget)
                    /\ (iface = "asgi" => (last.tell = told /\ (~exh => told = ret)))
                    /\ (EndKnown /\ out = Body) => Eof
(* a disconnect ends the stream where it is; no call ever waits for an event that cannot come *)
DisconnectEndsStream == /\ ~blocked
                        /\ (iface = "asgi" /\ DiscSeen(evs, recv)) => budget = 0
TypeOK == /\ budget >= 0 /\ ret <= Len(out) /\ rawPos <= Len(wire) /\ recv <= Len(evs)
=============================================================================
