---------------------------- MODULE BodyStream ----------------------------
(* C07: request body streams deliver exactly the declared body: no loss, no over-read.

   Two stacks, one cursor.  The application sees a flat Cursor (CursorOps) over
        Body == Take(Sent, CL)
   where Sent is what the server really has and CL is what a valid, non-negative reading of the
   Content-Length header allows (0 for a header no such reading exists for).  Behind the cursor
   sits the accounting the streams need because they cannot see Body, only a server interface:
     WSGI  a raw file-like object that happily hands out foreign bytes after the body
           (`wire`); the stream keeps a `budget` of bytes it may still take and asks the raw
           object for sizes (`reach` = furthest byte offset any ask could have touched);
     ASGI  a receive() callable producing events (chunks with or without `body` /
           `more_body` keys, empty chunks, chunks running past Content-Length, a disconnect);
           the stream keeps a `budget`, a look-ahead buffer `buf` and counts events (`recv`).
           Async iteration is stepwise (AIterNext hands out one chunk and suspends; what the
           generator does only when it is resumed is the pending state `pterm` / `pacc`);
           AIterBreak abandons a suspended iterator: from then on (`ab`) the documentation
           promises nothing but the byte bounds.
   One action per public call.  The invariants at the bottom are the property.  The BOOLEAN
   constants are the wrong-design switches used for the vacuity runs: with all of
   them at their good value the invariants hold, flipping any one breaks a named invariant. *)
EXTENDS BodyStreamOps, TLC

CONSTANTS Datas,              \* WSGI: byte strings the server may hold
          Scripts,            \* ASGI: event sequences the server may deliver (each has a terminal event)
          CLs,                \* Content-Length headers [k: "absent" | "valid" | "lenient" | "unusable", v: the number read]
          Sizes,              \* size arguments offered to the sized operations (negative = None)
          ShortReads,         \* WSGI: the raw object may answer read(k) with 1..k bytes
          ChargeByRequested,  \* wrong design: budget is charged by the size asked, not by the bytes returned
          BoundLineOps,       \* good design: readlines / iteration go through the bounded readline
          TruncateChunks,     \* good design: a chunk running past the budget is cut
          CountTruncated,     \* good design: the bytes kept of a cut chunk count as available
          HonourDisconnect,   \* good design: http.disconnect ends the stream
          TellFromZero,       \* good design: the position indicator starts at 0, whatever was pre-loaded
          RejectNegativeCL,   \* good design: a negative Content-Length never becomes the budget
          AccountBeforeYield, \* good design: an iterated chunk is accounted for before it is handed out
          ExhaustToTheEnd     \* good design: exhaust() reads until nothing comes, not until a short chunk

(* ------------------------------------------------------------------------------------------
   State
   ------------------------------------------------------------------------------------------ *)
VARIABLES iface,    \* "wsgi" | "asgi"
          clh,      \* the Content-Length header as sent
          cl,       \* what a valid reading of it allows: NIL (absent, ASGI), or n >= 0
          sent,     \* WSGI: bytes the server holds (ASGI: <<>>)
          evs,      \* ASGI: the event script (WSGI: <<>>)
          first,    \* ASGI: the first event was pre-loaded by the framework (first_event=)
          body,     \* Take(Sent, CL): what the application may ever see (fixed at Init: BodyStreamOps!WBody / ABody)
          endIdx,   \* ASGI: number of events after which the end of the body is known (fixed at Init: BodyStreamOps!AEndIdx)
          budget,   \* bytes that may still be taken from the server
          buf,      \* ASGI: received, not yet returned
          recv,     \* ASGI: events consumed so far (the pre-loaded one included)
          rawPos,   \* WSGI: bytes taken from the raw object
          reach,    \* WSGI: max over all asks of (offset before the ask + size asked); BIG for an unsized ask
          out,      \* ghost: every byte accounted for so far (returned, or discarded by exhaust)
          ret,      \* ghost: number of bytes returned to the application
          told,     \* ASGI: the position indicator the stream maintains (tell())
          closed, exh, blocked,
          it,       \* ASGI: an iterator is suspended at a yield
          ab,       \* ASGI: a suspended iterator was abandoned (break)
          pterm,    \* ASGI: the event whose chunk was just yielded was the last one; noticed on resumption
          pacc,     \* ASGI, wrong design only: bytes yielded but not yet accounted for
          last      \* the last call and what it reported

vars == <<iface, clh, cl, sent, evs, first, body, endIdx, budget, buf, recv, rawPos, reach, out, ret, told, closed, exh,
          blocked, it, ab, pterm, pacc, last>>
conf == <<iface, clh, cl, sent, evs, first, body, endIdx>>

Body == body
wire == Wire(sent, cl)
EofOf(b, bud) == IF b = <<>> /\ bud <= 0 THEN 1 ELSE 0
Eof  == EofOf(buf, budget) = 1

Rec(op, n, res, lines, stop, err, eof, tell, rc) ==
    [op |-> op, n |-> n, res |-> res, lines |-> lines, stop |-> stop, err |-> err, eof |-> eof, tell |-> tell, recv |-> rc]

(* ------------------------------------------------------------------------------------------
   ASGI mechanism: one receive step, and the loop every reading call runs
   ------------------------------------------------------------------------------------------ *)
St(b, bud, rc, av, blk) == [buf |-> b, budget |-> bud, recv |-> rc, avail |-> av, blocked |-> blk]
Ends(e) == ~(More(e) \/ (IsDisc(e) /\ ~HonourDisconnect))            \* nothing may be expected after e

Step(s) ==
    LET e     == evs[s.recv + 1]
        chunk == EvBody(e)
        over  == Len(chunk) > s.budget
        kept  == IF over /\ TruncateChunks THEN Take(chunk, s.budget) ELSE chunk
        b1    == IF over THEN 0 ELSE s.budget - Len(chunk)
        a1    == s.avail + (IF over /\ ~CountTruncated THEN 0 ELSE Len(kept))
    IN  St(s.buf \o kept, IF Ends(e) THEN 0 ELSE b1, s.recv + 1, a1, FALSE)

RECURSIVE Fill(_, _)
Fill(s, need) ==                      \* receive until the budget is used up or `need` bytes are buffered
    IF s.budget <= 0 \/ s.avail >= need THEN s
    ELSE IF s.recv >= Len(evs) THEN [s EXCEPT !.blocked = TRUE]     \* receive() would never return
    ELSE Fill(Step(s), need)

(* the iterator's loop: receive until an event brings a chunk (which is yielded before the event's
   more_body flag is looked at) or the body ends.  Result: [chunk, budget, recv, pterm, blocked] *)
RECURSIVE Pull(_, _)
Pull(bud, rc) ==
    IF bud <= 0 THEN [chunk |-> <<>>, budget |-> bud, recv |-> rc, pterm |-> FALSE, blocked |-> FALSE]
    ELSE IF rc >= Len(evs) THEN [chunk |-> <<>>, budget |-> bud, recv |-> rc, pterm |-> FALSE, blocked |-> TRUE]
    ELSE LET e     == evs[rc + 1]
             chunk == EvBody(e)
             over  == Len(chunk) > bud
             kept  == IF over /\ TruncateChunks THEN Take(chunk, bud) ELSE chunk
             b1    == IF over THEN 0 ELSE bud - Len(chunk)
         IN  IF kept # <<>> THEN [chunk |-> kept, budget |-> b1, recv |-> rc + 1, pterm |-> Ends(e), blocked |-> FALSE]
             ELSE Pull(IF Ends(e) THEN 0 ELSE b1, rc + 1)

Set(b, bud, rc, rp, rch, o, rt, tl, cls, ex, blk, lst) ==
    /\ buf' = b /\ budget' = bud /\ recv' = rc /\ rawPos' = rp /\ reach' = rch /\ out' = o /\ ret' = rt
    /\ told' = tl /\ closed' = cls /\ exh' = ex /\ blocked' = blk /\ last' = lst
    /\ UNCHANGED conf
NoIter == UNCHANGED <<it, ab, pterm, pacc>>

Refuse(op, n) ==                      \* a closed ASGI stream refuses every operation
    Set(buf, budget, recv, rawPos, reach, out, ret, told, closed, exh, blocked,
        Rec(op, n, <<>>, <<>>, FALSE, "closed", EofOf(buf, budget), told, recv))

ATake(op, n, s, k) ==                 \* hand out the first k buffered bytes of the state s the loop ended in
    LET data == Take(s.buf, k)
        rest == Drop(s.buf, k)
    IN  Set(rest, s.budget, s.recv, rawPos, reach, out \o data, ret + Len(data), told + Len(data), closed, exh,
            s.blocked, Rec(op, n, data, <<>>, FALSE, "", EofOf(rest, s.budget), told + Len(data), s.recv))

S0   == St(buf, budget, recv, Len(buf), FALSE)
ACan == iface = "asgi" /\ ~it /\ ~blocked      \* while an iterator is suspended the documentation allows nothing else

AReadAllAs(op, n) ==
    IF closed THEN Refuse(op, n)
    ELSE LET s == Fill(S0, BIG) IN ATake(op, n, s, Len(s.buf))

ARead(n) ==                           \* None / -1: everything; other negative sizes and 0: nothing
    /\ ACan /\ NoIter
    /\ IF closed THEN Refuse("read", n)
       ELSE IF Eof \/ n = 0 \/ n < -1 THEN ATake("read", n, S0, 0)
       ELSE IF n = -1 THEN AReadAllAs("read", n)
       ELSE LET s == Fill(S0, n)
            IN  ATake("read", n, s, IF s.avail <= n THEN Len(s.buf) ELSE n)
AReadAll == ACan /\ NoIter /\ AReadAllAs("readall", -1)
AIter    == ACan /\ ~ab /\ NoIter /\ AReadAllAs("iter", -1)     \* a complete `async for`; res is the concatenation
AExhaust ==
    /\ ACan /\ NoIter
    /\ IF closed THEN Refuse("exhaust", -1)
       ELSE LET s == Fill(St(<<>>, budget, recv, 0, FALSE), BIG)
            IN  Set(<<>>, 0, s.recv, rawPos, reach, out \o buf \o s.buf, ret, told, closed, TRUE, s.blocked,
                    Rec("exhaust", -1, <<>>, <<>>, FALSE, "", 1, told, s.recv))
AClose ==
    /\ ACan /\ NoIter
    /\ Set(<<>>, 0, recv, rawPos, reach, out, ret, told, TRUE, exh, blocked,
           Rec("close", -1, <<>>, <<>>, FALSE, "", 1, told, recv))

(* one step of `async for`: start or resume the generator, run it to its next yield (or to its end) *)
Yield(chunk, bud, rc, pt, acc) ==     \* bud: the budget with the chunk already deducted; acc: accounted for before the yield
    LET nb  == IF acc THEN bud ELSE bud + Len(chunk)
        nt  == IF acc THEN told + pacc + Len(chunk) ELSE told + pacc
    IN  /\ Set(<<>>, nb, rc, rawPos, reach, out \o chunk, ret + Len(chunk), nt, closed, exh, FALSE,
               Rec("iternext", -1, chunk, <<>>, FALSE, "", EofOf(<<>>, nb), nt, rc))
        /\ it' = TRUE /\ pterm' = pt /\ pacc' = (IF acc THEN 0 ELSE Len(chunk)) /\ UNCHANGED ab
Finish(bud, rc, blk) ==
    /\ Set(<<>>, bud, rc, rawPos, reach, out, ret, told + pacc, closed, exh, blk,
           Rec("iternext", -1, <<>>, <<>>, TRUE, "", EofOf(<<>>, bud), told + pacc, rc))
    /\ it' = FALSE /\ pterm' = FALSE /\ pacc' = 0 /\ UNCHANGED ab
AIterNext ==
    /\ iface = "asgi" /\ ~ab /\ ~blocked
    /\ IF ~it /\ closed THEN Refuse("iternext", -1) /\ NoIter
       ELSE IF ~it /\ Eof THEN Finish(budget, recv, FALSE)
       ELSE IF ~it /\ buf # <<>> THEN Yield(buf, budget, recv, FALSE, TRUE)
       ELSE LET b0 == IF pterm THEN 0 ELSE budget - pacc
                p  == Pull(b0, recv)
            IN  IF p.chunk # <<>> THEN Yield(p.chunk, p.budget, p.recv, p.pterm, AccountBeforeYield)
                ELSE Finish(p.budget, p.recv, p.blocked)
AIterBreak ==                         \* leave the loop: the generator never gets to run again
    /\ iface = "asgi" /\ it
    /\ it' = FALSE /\ ab' = TRUE /\ pterm' = FALSE /\ pacc' = 0
    /\ Set(buf, budget, recv, rawPos, reach, out, ret, told, closed, exh, blocked,
           Rec("iterbreak", -1, <<>>, <<>>, FALSE, "", EofOf(buf, budget), told, recv))

(* ------------------------------------------------------------------------------------------
   WSGI mechanism
   ------------------------------------------------------------------------------------------ *)
NOASK        == 0 - BIG
WReq(n)      == IF n < 0 \/ n > budget THEN budget ELSE n          \* the size after fix-up (any negative size: all)
RawAvail(k)  == IF k < 0 THEN Len(wire) - rawPos ELSE Min(k, Len(wire) - rawPos)
RawLens(k)   == LET a == RawAvail(k) IN IF ShortReads /\ a > 1 THEN 1..a ELSE {a}
Seen         == Take(wire, rawPos + Max(budget, 0))                \* what bounded asks can ever touch
(* the budget after an ask for k bytes answered with j: nothing for a positive size is the early end of the wire *)
After(k, j)  == IF ChargeByRequested THEN budget - k ELSE IF j = 0 /\ k > 0 THEN 0 ELSE budget - j

WApply(op, n, r, lines, stop, asked, nb, returned) ==
    /\ Set(<<>>, nb, 0, rawPos + Len(r),
           IF asked = NOASK THEN reach ELSE IF asked < 0 \/ asked >= BIG THEN BIG ELSE Max(reach, rawPos + asked),
           out \o r, IF returned THEN ret + Len(r) ELSE ret, told, closed, exh \/ ~returned, FALSE,
           Rec(op, n, IF returned THEN r ELSE <<>>, lines, stop, "", EofOf(<<>>, nb), -1, 0))
    /\ NoIter

WRead(n) ==
    /\ iface = "wsgi"
    /\ LET k == WReq(n) IN \E j \in RawLens(k) :
           WApply("read", n, Slice(wire, rawPos, rawPos + j), <<>>, FALSE, k, After(k, j), TRUE)
WReadLine(n) ==
    /\ iface = "wsgi"
    /\ LET k == WReq(n)
           r == ExpReadLine(wire, rawPos, k)
       IN  WApply("readline", n, r, <<>>, FALSE, k, After(k, Len(r)), TRUE)
(* the line loops end with an empty readline() unless a hint stopped them; After() applies to that last call too *)
AfterLines(total, byHint) ==
    LET left == budget - total IN IF byHint \/ left <= 0 THEN left ELSE 0
WReadLines(h) ==
    /\ iface = "wsgi"
    /\ IF BoundLineOps
         THEN LET ls == ExpReadLines(Seen, rawPos, h)
                  t  == Len(Concat(ls))
              IN  WApply("readlines", h, Concat(ls), ls, FALSE, budget,
                         AfterLines(t, Hint(h) >= 0 /\ t > 0 /\ t >= Hint(h)), TRUE)
         ELSE LET k  == WReq(h)                                    \* the raw readlines(hint) has no byte bound
                  ls == ExpReadLines(wire, rawPos, k)
              IN  WApply("readlines", h, Concat(ls), ls, FALSE, BIG, After(k, Len(Concat(ls))), TRUE)
WNext ==
    /\ iface = "wsgi"
    /\ IF BoundLineOps
         THEN LET r == ExpReadLine(Seen, rawPos, -1) IN WApply("next", -1, r, <<>>, r = <<>>, budget, After(budget, Len(r)), TRUE)
         ELSE LET r == ExpReadLine(wire, rawPos, -1) IN WApply("next", -1, r, <<>>, r = <<>>, BIG, budget, TRUE)
WIterAll ==                                                        \* list(stream)
    /\ iface = "wsgi"
    /\ IF BoundLineOps
         THEN LET ls == ExpReadLines(Seen, rawPos, -1)
              IN  WApply("iterall", -1, Concat(ls), ls, FALSE, budget, AfterLines(Len(Concat(ls)), FALSE), TRUE)
         ELSE LET ls == ExpReadLines(wire, rawPos, -1)
              IN  WApply("iterall", -1, Concat(ls), ls, FALSE, BIG, budget, TRUE)
WExhaust ==
    /\ iface = "wsgi"
    /\ IF ChargeByRequested \/ ~ExhaustToTheEnd
         THEN \E j \in RawLens(budget) :                           \* one (possibly short) chunk and the loop is left
                  WApply("exhaust", -1, Slice(wire, rawPos, rawPos + j), <<>>, FALSE, budget,
                         IF ChargeByRequested THEN 0 ELSE After(budget, j), FALSE)
         ELSE LET j == RawAvail(budget)                            \* chunk after chunk until nothing comes
              IN  WApply("exhaust", -1, Slice(wire, rawPos, rawPos + j), <<>>, FALSE, budget, Min(budget, 0), FALSE)
WClose ==                                                          \* io.IOBase.close(): a flag, nothing else
    /\ iface = "wsgi" /\ NoIter
    /\ Set(buf, budget, recv, rawPos, reach, out, ret, told, TRUE, exh, blocked,
           Rec("close", -1, <<>>, <<>>, FALSE, "", EofOf(<<>>, budget), -1, 0))

(* ------------------------------------------------------------------------------------------ *)
Blank == Rec("init", 0, <<>>, <<>>, FALSE, "", 0, 0, 0)
Usable(h) == h.k \in {"valid", "lenient"}                          \* a non-negative number can be read from it

InitWsgi ==
    /\ iface = "wsgi" /\ sent \in Datas /\ clh \in CLs /\ evs = <<>> /\ first = FALSE
    /\ cl = (IF Usable(clh) THEN clh.v ELSE 0)                     \* absent / unusable: no body
    /\ body = WBody(sent, cl) /\ endIdx = 0
    /\ budget = (IF clh.k = "unusable" /\ ~RejectNegativeCL THEN clh.v ELSE cl)
    /\ buf = <<>> /\ recv = 0 /\ rawPos = 0 /\ reach = 0
    /\ out = <<>> /\ ret = 0 /\ told = 0 /\ closed = FALSE /\ exh = FALSE /\ blocked = FALSE
    /\ it = FALSE /\ ab = FALSE /\ pterm = FALSE /\ pacc = 0
    /\ last = [Blank EXCEPT !.eof = EofOf(<<>>, budget), !.tell = -1]

InitAsgi ==                           \* an unusable header is refused when the stream is asked for: no stream, no state
    /\ iface = "asgi" /\ evs \in Scripts /\ clh \in CLs /\ clh.k # "unusable" /\ sent = <<>> /\ first \in BOOLEAN
    /\ cl = (IF Usable(clh) THEN clh.v ELSE NIL)
    /\ (first => evs[1].t = "req")
    /\ body = ABody(evs, cl) /\ endIdx = AEndIdx(evs, cl)
    /\ LET b0 == IF cl = NIL THEN BIG ELSE cl
           s  == IF first THEN Step(St(<<>>, b0, 0, 0, FALSE)) ELSE St(<<>>, b0, 0, 0, FALSE)
       IN  /\ buf = s.buf /\ budget = s.budget /\ recv = s.recv
           /\ told = (IF TellFromZero THEN 0 ELSE Len(s.buf))
           /\ last = [Blank EXCEPT !.eof = EofOf(s.buf, s.budget), !.recv = s.recv,
                                   !.tell = IF TellFromZero THEN 0 ELSE Len(s.buf)]
    /\ rawPos = 0 /\ reach = 0 /\ out = <<>> /\ ret = 0 /\ closed = FALSE /\ exh = FALSE /\ blocked = FALSE
    /\ it = FALSE /\ ab = FALSE /\ pterm = FALSE /\ pacc = 0

Init == InitWsgi \/ InitAsgi

Next == \/ \E n \in Sizes : WRead(n) \/ WReadLine(n) \/ WReadLines(n) \/ ARead(n)
        \/ WNext \/ WIterAll \/ WExhaust \/ WClose
        \/ AReadAll \/ AIter \/ AExhaust \/ AClose \/ AIterNext \/ AIterBreak

Spec == Init /\ [][Next]_vars

(* ------------------------------------------------------------------------------------------
   The property
   ------------------------------------------------------------------------------------------ *)
Limit    == IF iface = "wsgi" THEN WCL(cl) ELSE cl
EndKnown == IF iface = "wsgi" THEN Len(out) = WCL(cl)
            ELSE (recv >= endIdx /\ ~pterm) \/ (cl # NIL /\ Len(out) = cl)

(* what was handed out (and what is buffered) is the body, in order, nothing lost, nothing foreign;
   once end-of-stream is reported everything was handed out; never more than Content-Length bytes,
   whatever the application did with its iterator *)
PrefixOfBody     == /\ ~ab => IsPrefix(out \o buf, Body)
                    /\ (Eof /\ ~closed /\ ~ab) => out = Body
                    /\ Limit # NIL => Len(out) + Len(buf) <= Limit
SizedReadBounded == (last.op \in {"read", "readline"} /\ last.n >= 0) => Len(last.res) <= last.n
(* the server is never asked for anything behind Content-Length / behind the end of the body *)
NeverAskBeyondCL == IF iface = "wsgi" THEN reach <= WCL(cl)
                    ELSE ~ab => recv <= Max(endIdx, IF first THEN 1 ELSE 0)
(* tell() is the number of bytes returned; eof is reported exactly when the end is known and reached *)
IndicatorsAgree  == /\ (~exh => ret = Len(out))
                    /\ last.eof = EofOf(buf, budget)
                    /\ (iface = "asgi" => (last.tell = told /\ (~exh => told = ret)))
                    /\ (EndKnown /\ out = Body /\ ~ab) => Eof
(* a disconnect ends the stream where it is; no call ever waits for an event that cannot come *)
DisconnectEndsStream == ~ab => /\ ~blocked
                               /\ (iface = "asgi" /\ DiscSeen(evs, recv) /\ ~pterm) => budget <= 0
(* exhaust() leaves nothing behind: the declared body (or what there is of it) is consumed, eof is reported *)
ExhaustEndsStream == (last.op = "exhaust" /\ last.err = "" /\ ~ab) => (Eof /\ out = Body)
TypeOK == /\ ret <= Len(out) /\ rawPos <= Len(wire) /\ recv <= Len(evs) /\ (it => iface = "asgi")
=============================================================================
