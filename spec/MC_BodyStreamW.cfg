INIT XInit
NEXT XNext
CONSTANTS
  Datas <- MCDatas
  Scripts <- MCScripts
  CLs <- QCLs
  Sizes <- QSizes
  ShortReads <- SwShort
  ChargeByRequested <- SwCharge
  BoundLineOps <- SwBound
  TruncateChunks <- SwTrunc
  CountTruncated <- SwCount
  HonourDisconnect <- SwDisc
  TellFromZero <- SwTell
  RejectNegativeCL <- SwNeg
  AccountBeforeYield <- SwYield
  ExhaustToTheEnd <- SwExh
  Depth = 0
  MaxEvents = 2
  MaxEvLen = 3
  MaxData = 3
INVARIANT Target
