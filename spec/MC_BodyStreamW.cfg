INIT XInit
NEXT XNext
CONSTANTS
  Datas <- MCDatas
  Scripts <- MCScripts
  CLs <- MCCLs
  Sizes <- MCSizes
  ShortReads <- SwShort
  ChargeByRequested <- SwCharge
  BoundLineOps <- SwBound
  TruncateChunks <- SwTrunc
  CountTruncated <- SwCount
  HonourDisconnect <- SwDisc
  TellFromZero <- SwTell
  Depth = 0
  MaxEvents = 2
  MaxEvLen = 3
  MaxData = 3
INVARIANT Target
