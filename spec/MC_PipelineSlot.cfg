INIT SlotInit
NEXT SlotNext
CONSTANTS
  Stacks <- StackFull1
  Indeps <- Both
  Targets <- OnlyRouted
  MaxHooks = 2
  InitRegs <- C3Regs
  RegClasses <- None
  RegBehs <- None
  MaxRegs = 0
  RaiseClasses <- C3RaiseQ
  RenderClasses <- None
  Mro <- MCMro
  StatusOf <- MCStatus
  OwnVary <- MCOwnVary
  MaxReqs = 1
  WrongDesign <- MCWrong
  SameObj = FALSE
  MaxFaults = 1
  SlotMethods <- Methods5
  SlotSuffixes <- AllSuffixes
  AddGroups <- NoGroups
  MaxAddCalls = 0
  MaxComps = 1
INVARIANT TypeOK
INVARIANT SlotTypeOK
INVARIANT ClassHooksWrapSlot
INVARIANT ReqTopDown
INVARIANT ResourceMwOnlyIfRouted
INVARIANT ResponderOnlyIfClean
INVARIANT ResponseBottomUp
INVARIANT ResponseOnce
INVARIANT SucceededIffNoRaise
INVARIANT EmitSlot

