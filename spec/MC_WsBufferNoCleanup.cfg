\* vacuity witness: a framework that skips its cleanup when the responder ends on a connection known to be gone
\* must violate AfterAppReturn (pump parked at the exactly full queue, holding the disconnect)
INIT XInit
NEXT XNext
CONSTANTS
  MaxQs = {1, 2}
  NMsg = 2
  DiscChoices = {TRUE}
  GeCmp = TRUE
  AwaitStop = TRUE
  NotifyPop = TRUE
  ReleaseOnEnd = TRUE
  Faults = FALSE
  StopAfterSend = TRUE
  CleanupOnDisc = FALSE
  MaxSendFail = 1
  Family = "none"
  MaxOps = 2
  MaxCancel = 0
  Depth = 0
INVARIANT AfterAppReturn
