----------------------------- MODULE UriLong -----------------------------
(* C10, long inputs: what makes the reading of an arbitrarily long text decidable from the readings
   of short pieces.

   decode:  the OCTETS of a concatenation are the concatenation of the octets at every split that does
            not cut an escape (Uri!DecodeConcat); the TEXT is the UTF-8 reading of the whole.  The
            texts of two pieces concatenate iff the octets of the left piece do not end inside a
            sequence that the right piece goes on with (U8Complete); where a split falls inside a
            character, that character comes out ONCE in the whole, never as the replacement characters
            the two pieces would yield on their own (Uri!DecodeChunkLaw).
   encode:  works code point by code point, so the encodings of pieces concatenate at every split
            (Uri!EncodeConcat); "already fully escaped" is a conjunction over pieces that do not cut an
            escape (Uri!CheckEscapedConcat).

   A long input is therefore handed to the trace judge as a DICTIONARY of short chunks and the sequence
   of dictionary indices that spells it; the judge evaluates the spec functions on the chunks only and
   checks that the chunks may be put together (H:chunk otherwise). *)
EXTENDS UriOps

(* the reading of b from position i ends inside a sequence that further octets could complete
   (its last U+FFFD stands for a proper prefix of a well-formed sequence cut by the end of input) *)
RECURSIVE U8Pending(_, _)
U8Pending(b, i) ==
    IF i > Len(b) THEN FALSE
    ELSE LET x == b[i] IN
      IF x < 128 THEN U8Pending(b, i + 1)
      ELSE IF x >= 194 /\ x <= 223 THEN
          IF i + 1 > Len(b) THEN TRUE
          ELSE IF Cont(b, i + 1) THEN U8Pending(b, i + 2) ELSE U8Pending(b, i + 1)
      ELSE IF x >= 224 /\ x <= 239 THEN
          LET lo == IF x = 224 THEN 160 ELSE 128
              hi == IF x = 237 THEN 159 ELSE 191
          IN  IF i + 1 > Len(b) THEN TRUE
              ELSE IF ~InR(b, i + 1, lo, hi) THEN U8Pending(b, i + 1)
              ELSE IF i + 2 > Len(b) THEN TRUE
              ELSE IF ~Cont(b, i + 2) THEN U8Pending(b, i + 2)
              ELSE U8Pending(b, i + 3)
      ELSE IF x >= 240 /\ x <= 244 THEN
          LET lo == IF x = 240 THEN 144 ELSE 128
              hi == IF x = 244 THEN 143 ELSE 191
          IN  IF i + 1 > Len(b) THEN TRUE
              ELSE IF ~InR(b, i + 1, lo, hi) THEN U8Pending(b, i + 1)
              ELSE IF i + 2 > Len(b) THEN TRUE
              ELSE IF ~Cont(b, i + 2) THEN U8Pending(b, i + 2)
              ELSE IF i + 3 > Len(b) THEN TRUE
              ELSE IF ~Cont(b, i + 3) THEN U8Pending(b, i + 3)
              ELSE U8Pending(b, i + 4)
      ELSE U8Pending(b, i + 1)

(* b can be followed by any octets without changing the reading of b *)
U8Complete(b) == ~U8Pending(b, 1)

(* the same, said without the scanner: whichever continuation octet follows, it is read on its own
   (every proper prefix of a well-formed sequence accepts 0x80 or 0xBF as its next octet) *)
U8CompleteDecl(b) == \A c \in {128, 191} : U8Read(b \o <<c>>) = U8Read(b) \o <<FFFD>>

(* the octet c goes on with the sequence b ends in *)
Continues(b, c) == U8Read(b \o <<c>>) # U8Read(b) \o U8Read(<<c>>)

(* a piece of text that can be followed by anything: its escapes and its characters are whole *)
ChunkOK(c, plus) == Closed(c) /\ U8Complete(DecodeBytes(c, plus))

(* ---- putting chunk readings together: D a sequence of values per dictionary entry, q the indices ---- *)
RECURSIVE CatRange(_, _, _, _)
CatRange(D, q, lo, hi) ==
    IF lo > hi THEN <<>>
    ELSE IF lo = hi THEN D[q[lo]]
    ELSE LET mid == (lo + hi) \div 2 IN CatRange(D, q, lo, mid) \o CatRange(D, q, mid + 1, hi)

CatChunks(D, q) == CatRange(D, q, 1, Len(q))

(* per dictionary entry, evaluated once (explicit sequences: TLC keeps them as tuples) *)
RECURSIVE DecodeAll(_, _, _)
DecodeAll(dict, plus, k) ==
    IF k > Len(dict) THEN <<>> ELSE <<Decode(dict[k], plus)>> \o DecodeAll(dict, plus, k + 1)

RECURSIVE ChunkOKAll(_, _, _)
ChunkOKAll(dict, plus, k) ==
    IF k > Len(dict) THEN <<>> ELSE <<ChunkOK(dict[k], plus)>> \o ChunkOKAll(dict, plus, k + 1)

RECURSIVE EncodeAll(_, _, _)
EncodeAll(dict, allowed, k) ==
    IF k > Len(dict) THEN <<>> ELSE <<Encode(dict[k], allowed)>> \o EncodeAll(dict, allowed, k + 1)

RECURSIVE ClosedAll(_, _)
ClosedAll(dict, k) ==
    IF k > Len(dict) THEN <<>> ELSE <<Closed(dict[k])>> \o ClosedAll(dict, k + 1)

(* every chunk but the last one may be followed by anything *)
ChunksJoin(ok, q) == \A j \in 1..Len(q) - 1 : ok[q[j]]

(* the reading of the long text spelled by (dict, q), from the chunk readings *)
DecodeLong(dict, q, plus)    == CatChunks(DecodeAll(dict, plus, 1), q)
EncodeLong(dict, q, allowed) == CatChunks(EncodeAll(dict, allowed, 1), q)
TextOf(dict, q)              == CatChunks(dict, q)
==========================================================================
