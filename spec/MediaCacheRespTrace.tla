-------------------------- MODULE MediaCacheRespTrace --------------------------
(* Trace judge for the response side of C12.  A trace is one real response:
     [rtype, ev: statements made on the Response inside the responder, sent: [kind, v], eq]
   ev[i] = [op: "new"|"mutsame"|"same"|"none"|"render"|"setdata"|"cleardata"|"settext"|"cleartext", kind, v];
   for "render", kind/v say what render_body() returned ("text" | "data" | "none" | "media" + the
   version number the harness wrote into the document and read back with the trusted decoder).
   sent: the same reading of the body that reached the client; eq: that body, sent back as a
   request, deserialised to a document equal to the snapshot taken at the last assignment.
     P:render  render_body() returned something else than the model's body
     P:sent    the client got another body than the document as last assigned (or text/data/none)
     P:eq      right version marker but the document is not equal to the one assigned
     H:invalid the harness made a statement the model does not allow there                      *)
EXTENDS MediaCacheResp, Json, IOUtils

Traces == JsonDeserialize(IOEnv.TRACE_FILE)
VARIABLES tid, l, verdict
tvars == <<tid, l, verdict, rtype, media, nobj, nver, rendered, data, text, last>>
T == Traces[tid]

TInit == /\ tid \in 1..Len(Traces) /\ l = 1 /\ verdict = "ok" /\ Init /\ rtype = Traces[tid].rtype

Valid(e) == /\ e.op \in {"new", "mutsame", "same", "none", "render", "setdata", "cleardata", "settext", "cleartext"}
            /\ e.op \in {"mutsame", "same"} => media.o # 0
            /\ e.op \in {"new", "mutsame"} => nver < MaxVersions
Act(e) == CASE e.op = "new"       -> AssignNew
            [] e.op = "mutsame"   -> MutateAssignSame
            [] e.op = "same"      -> AssignSame
            [] e.op = "none"      -> AssignNone
            [] e.op = "render"    -> Render
            [] e.op = "setdata"   -> SetData(TRUE)
            [] e.op = "cleardata" -> SetData(FALSE)
            [] e.op = "settext"   -> SetText(TRUE)
            [] e.op = "cleartext" -> SetText(FALSE)

SameBody(a, b) == a.kind = b.kind /\ (a.kind = "media" => a.v = b.v)

Step ==
    /\ l >= 1 /\ l <= Len(T.ev) /\ verdict = "ok"
    /\ LET e == T.ev[l] IN
         IF Valid(e)
         THEN /\ Act(e)
              /\ verdict' = IF e.op = "render" /\ ~SameBody(e, last') THEN "P:render"
                            ELSE IF e.op \in {"new", "mutsame"} /\ e.v # last'.v THEN "H:invalid" ELSE "ok"
         ELSE verdict' = "H:invalid" /\ UNCHANGED vars
    /\ l' = l + 1 /\ UNCHANGED tid

Final == IF verdict # "ok" THEN verdict
         ELSE IF ~SameBody(T.sent, Body) THEN "P:sent"
         ELSE IF Body.kind = "media" /\ ~T.eq THEN "P:eq" ELSE "ok"

Done ==
    /\ l >= 1 /\ (l > Len(T.ev) \/ verdict # "ok")
    /\ PrintT(<<"VERDICT", tid, Final, l - 1>>)
    /\ l' = -1 /\ UNCHANGED <<tid, verdict, rtype, media, nobj, nver, rendered, data, text, last>>

TNext == Step \/ Done
TSpec == TInit /\ [][TNext]_tvars
Sound == RenderingIsFresh /\ SentIsLastAssigned
================================================================================
