INIT AInit
NEXT HNext
CONSTANTS
  Datas <- MCDatas
  Scripts <- MCScripts
  CLs <- SimCLs
  Sizes <- SimSizes
  ShortReads = TRUE
  ChargeByRequested = FALSE
  BoundLineOps = TRUE
  TruncateChunks = TRUE
  CountTruncated = TRUE
  HonourDisconnect = TRUE
  TellFromZero = TRUE
  RejectNegativeCL = TRUE
  AccountBeforeYield = TRUE
  ExhaustToTheEnd = TRUE
  Depth = 5
  MaxEvents = 3
  MaxEvLen = 3
  MaxData = 0
INVARIANT TypeOK
INVARIANT PrefixOfBody
INVARIANT SizedReadBounded
INVARIANT NeverAskBeyondCL
INVARIANT IndicatorsAgree
INVARIANT DisconnectEndsStream
INVARIANT ExhaustEndsStream
INVARIANT Emit
