INIT ObjInit
NEXT ObjNext
CONSTANTS
  Templates = {}
  ResKinds = {}
  SinkPats = {}
  StaticPrefixes = {}
  MaxCalls = 0
  NewestFirst = TRUE
  RoutesFirst = TRUE
  OtherForAll = FALSE
  EmptyMeansAll = FALSE
  StatusSucceeds = FALSE
  StarWithCreds = FALSE
  AliasCallerSet = FALSE
  MemoDecision = FALSE
  KeepHist = FALSE
  MaxServed = 2
  MaxMut = 1
INVARIANT OnlyAllowedOrigins
INVARIANT NoOriginUntouched
INVARIANT GrantIsEchoOrStar
INVARIANT CredentialsOnlyIfConfigured
INVARIANT NoWildcardWithCredentials
INVARIANT PreflightOnlyOnSuccessWithAllow
INVARIANT AllowRemovedOnPreflight
INVARIANT DeniedPreflightWithdrawsGrants
INVARIANT AllowOtherwiseKept
INVARIANT GrantFunctionOfConfigAndRequest
