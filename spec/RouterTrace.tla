-------------------------- MODULE RouterTrace --------------------------
(* Trace judge for C01.  IOEnv.ROUTER_UNIVERSE names the batch's universe [ts, ps, conv, bad, mconv]
   (template segments of all traces, trusted converter table); IOEnv.TRACE_FILE the traces.
   A trace is [ev |-> <<event>>]; one event per public call of the router under test, logged at
   its return, next to what a SHADOW router -- a real router that is fed only the accepted
   adds -- did for the same call:
      add   [op |-> "add", t (segment indices), r (resource number), c (compile flag),
             out |-> "ok" | "rej" (UnacceptableRouteError) | "exc" (anything else), sout (shadow)]
      find  [op |-> "find", p (path segments), out |-> "hit" | "miss" | "exc", res, tmpl, params
             (<<[f, ty, v]>>), sout, sres, stmpl, sparams (shadow)]
   The judge keeps the tree of the ACCEPTED adds only (Router!AddTo with rollback) and compares
   every call with the reference.  Total: the first failing clause ends the trace.
      P:internal-error  a call raised something that is not a rejection
      P:reject-noop     after a rejected add the router and its shadow differ, the shadow agreeing
                        with the reference (on an add: they differ) -- a rejected add was not a no-op
      P:route           wrong hit/miss, wrong resource or wrong template
      P:leak            a parameter that is not a field of the matched template
      P:params          field values differ
      P:multiseg-not-last  a template that puts something after, or next to, a field whose converter consumes
                        multiple segments (path, or user-defined with CONSUME_MULTIPLE_SEGMENTS) was accepted
      D:accept          accept/reject differs from the modelled acceptance rules (not demanded
                        by the property; reported as a note)                                  *)
EXTENDS RouterUniverse, Router

Traces == JsonDeserialize(IOEnv.TRACE_FILE)
JTS  == UTS
JBad == UBad
JCT  == UCT

(* Router's `tree` is used as the tree of the accepted adds; its other variables are idle here *)
VARIABLES tid, l, verdict
jvars == <<tid, l, verdict, vars>>
ideal == tree
nrej  == nadds                                  \* here: the number of rejected adds so far
Idle  == UNCHANGED <<accepted, finder, last>>

T  == Traces[tid]
Ev == T.ev[l]

JInit == /\ tid \in 1..Len(Traces) /\ l = 1 /\ verdict = "ok"
         /\ tree = EmptyTree /\ accepted = <<>> /\ finder = [lazy |-> TRUE, t |-> EmptyTree] /\ nadds = 0 /\ last = 0

ParamSet(ps) == {ps[i] : i \in DOMAIN ps}
(* first failing clause of one observed lookup against the reference answer x *)
FindClause(x, out, res, tmpl, params) ==
    IF out = "exc" THEN "P:internal-error"
    ELSE IF (out = "hit") # x.found THEN "P:route"
    ELSE IF ~x.found THEN "ok"
    ELSE IF res # x.res \/ tmpl # x.node THEN "P:route"
    ELSE IF ~({params[i].f : i \in DOMAIN params} \subseteq UNION {NamesOf[x.node[i]] : i \in DOMAIN x.node}) THEN "P:leak"
    ELSE IF ParamSet(params) # ParamSet(x.params) \/ Len(params) # Len(x.params) THEN "P:params"
    ELSE "ok"

JudgeFind ==
    LET x    == Lookup(ideal, Ev.p)
        main == FindClause(x, Ev.out, Ev.res, Ev.tmpl, Ev.params)
    IN  IF main = "ok" THEN "ok"
        ELSE IF nrej > 0 /\ FindClause(x, Ev.sout, Ev.sres, Ev.stmpl, Ev.sparams) = "ok" THEN "P:reject-noop"
        ELSE main

JudgeAdd(a) ==
    IF Ev.out # Ev.sout THEN "P:reject-noop"
    ELSE IF Ev.out = "exc" THEN "P:internal-error"
    ELSE IF Ev.out = "ok" /\ a.out \in {"pathNotLast", "pathInMulti"} THEN "P:multiseg-not-last"
    ELSE IF (Ev.out = "ok") # (a.out = "ok") THEN "D:accept"
    ELSE "ok"

Step ==
    /\ l >= 1 /\ l <= Len(T.ev) /\ verdict = "ok"
    /\ IF Ev.op = "add"
       THEN LET a == AddTo(ideal, Ev.t, Ev.r, TRUE) IN
              /\ verdict' = JudgeAdd(a)
              /\ tree' = IF Ev.out = "ok" /\ a.out = "ok" THEN a.t ELSE tree
              /\ nadds' = IF Ev.out = "ok" THEN nadds ELSE nadds + 1
       ELSE /\ verdict' = JudgeFind
            /\ UNCHANGED <<tree, nadds>>
    /\ l' = l + 1 /\ UNCHANGED tid /\ Idle

Done ==
    /\ l >= 1 /\ (l > Len(T.ev) \/ verdict # "ok")
    /\ PrintT(<<"VERDICT", tid, verdict, l - 1>>)
    /\ l' = -1 /\ UNCHANGED <<tid, tree, nadds, verdict>> /\ Idle

JNext == Step \/ Done
JSpec == JInit /\ [][JNext]_jvars
Sound == l >= -1
=========================================================================
