INIT XInit
NEXT HNext
CONSTANTS
  Kinds <- MCKinds
  NV <- MCNV
  MaxOcc = 2
  MaxCalls = 3
  Conv <- MCConv
  Bounds <- MCBounds
INVARIANT StoreOnlyOnSuccess
INVARIANT HistoryFree
INVARIANT EmitHistory
