---------------------------- MODULE Pipeline ----------------------------
(* C03 / C04: the life cycle of one request through an assembled falcon application.

   Assembly (configuration):  a stack of middleware components, each implementing a subset of
   {process_request, process_resource, process_response}; the independent_middleware flag; the
   kind of target the request reaches (a routed resource responder, a sink, nothing); the number
   of before/after hooks stacked on the responder; the error-handler registry (the three
   default registrations followed by add_error_handler calls in order).

   Components: shape[c] is the set of method slots component c implements for the interface at hand.
   A slot may be given under its plain name, under the *_async name, or both, independently per slot:
   on ASGI a slot runs its *_async method if there is one, else the plain coroutine; on WSGI the plain
   method runs and *_async is ignored.

   Hooks: nb before hooks and na after hooks are stacked on the responder by decorators at method
   level and/or class level, in any mixture.  Documented stacking: before hooks run outermost
   decorator first, after hooks innermost first; class-level decorators wrap every responder of the
   decorated class - defined by it or inherited, suffixed or not - outside the method-level ones.
   Hook i below is the i-th in that execution order, whatever the mixture.

   One action per call the framework makes into application code ("call site").  What the
   called code does is chosen when the site is reached: return, mark the response complete
   (request/resource middleware), or raise an exception of some class.  Handler selection walks
   the class linearisation `Mro[cls]` (supplied by the harness from real Python classes: C3 is
   trusted, the walk is specified here).

   Observables: `calls` (every call with its arguments), and the abstract response
   <<status, body, hdrs, vary>> plus `escaped` (an exception left the application callable).
   hdrs: the raising calls whose exceptions' own headers are on the response.  vary: the tokens of the
   Vary header: 0 = Accept, k > 0 = the token call k appended when it put its marker body on the
   response, -k = the Vary header the exception raised by call k carries itself (classes with
   OwnVary).  An error's headers are *set* (replacing a same-named header), Accept is *appended*.

   One application object serves up to MaxReqs requests; error handlers may be registered between
   them (NextRequest returns to the setup phase), so the registry a request sees is a history.

   Abstract body values:   none | mark(k): set by call k | err(k): rendering of the HTTP error raised
   by call k | e500: rendering of a fresh HTTPInternalServerError | stext(k): text of the HTTP status
   raised by call k | hset(k): set by the error handler invoked as call k | hbad(k): media set by the
   error handler invoked as call k that no media handler can serialise.
   How an HTTP error is rendered for a given Accept header is ErrorRender.tla's business. *)
EXTENDS Integers, Sequences, FiniteSets, TLC

CONSTANTS Stacks,         \* set of component stacks: sequences of subsets of {"req","rsrc","resp"}
          Indeps,         \* subset of BOOLEAN: settings of independent_middleware
          Targets,        \* subset of {"routed", "sink", "unrouted"}
          MaxHooks,       \* up to this many before hooks and after hooks on a routed responder
          InitRegs,       \* set of registration sequences present before the setup phase
          RegClasses, RegBehs, MaxRegs,   \* add_error_handler(cls, handler with behaviour beh) histories
          RaiseClasses,   \* exception classes offered at application call sites
          RenderClasses,  \* exception classes offered to the body-rendering site
          Mro,            \* class name -> its linearisation (sequence of class names, itself first)
          StatusOf,       \* class name -> HTTP status its instances carry (0: not an HTTP class)
          OwnVary,        \* class name -> instances carry a Vary header of their own (besides their marker headers)
          MaxReqs,        \* requests served by one application object (handlers may be added between them)
          WrongDesign     \* "none", or the name of a deliberately wrong design (vacuity control)

VARIABLES shape, indep, target, nb, na, reg,                      \* assembly
          phase, i, complete, succeeded, hasres, dep, left, pend, \* control state of the request
          nreq,                                                   \* number of the request being served by this application object
          calls, faults,                                          \* observable call sequence; number of non-return choices
          status, body, hdrs, vary, escaped                       \* abstract response

cfgv  == <<shape, indep, target, nb, na, nreq>>     \* what no step of a request changes
ctlv  == <<phase, i, complete, succeeded, hasres, dep, left, pend>>
respv == <<status, body, hdrs, vary, escaped>>
vars  == <<cfgv, reg, ctlv, calls, faults, respv>>

N == Len(shape)

(* A registration is [cls, beh, obj]: obj identifies the handler *object* (the number of the registration
   that first used it).  The same object may be registered again for other classes (AddSame; also what a
   tuple registration does); what the application can tell apart is which object ran. *)
Defaults == << [cls |-> "Exception",  beh |-> "def500",    obj |-> 1],
               [cls |-> "HTTPError",  beh |-> "defErr",    obj |-> 2],
               [cls |-> "HTTPStatus", beh |-> "defStatus", obj |-> 3] >>
WithObjs(r) == [j \in 1..Len(r) |-> [cls |-> r[j].cls, beh |-> r[j].beh, obj |-> Len(Defaults) + j]]

SetStatus(o)     == 460 + o     \* status a "set" handler (handler object o) puts on the response
DraftStatus(o)   == IF o % 2 = 0 THEN 302 ELSE 202   \* text-less HTTPFound / HTTPStatus a "draftst" handler raises
HandlerErrStatus == 409         \* status of the HTTPError an "http" handler raises
HandlerStStatus  == 203         \* status of the HTTPStatus a "status" handler raises

NoBody   == [k |-> "none", id |-> 0]
Mark(k)  == [k |-> "mark", id |-> k]
NoPend   == [cls |-> "", idx |-> 0, back |-> ""]
Call(site, c, act, cls, res, ok, x) ==
    [site |-> site, c |-> c, act |-> act, cls |-> cls, res |-> res, ok |-> ok, x |-> x]
Idx == Len(calls) + 1            \* the index the call being made will have

Init == /\ shape \in Stacks /\ indep \in Indeps /\ target \in Targets
        /\ nb \in (IF target = "routed" THEN 0..MaxHooks ELSE {0})
        /\ na \in (IF target = "routed" THEN 0..MaxHooks ELSE {0})
        /\ reg \in {Defaults \o WithObjs(r) : r \in InitRegs}
        /\ phase = "setup" /\ i = 1 /\ complete = FALSE /\ succeeded = FALSE /\ hasres = FALSE
        /\ dep = <<>> /\ left = <<>> /\ pend = NoPend
        /\ nreq = 1 /\ calls = <<>> /\ faults = 0
        /\ status = 200 /\ body = NoBody /\ hdrs = {} /\ vary = {} /\ escaped = FALSE

(* ------------------------------ assembly ------------------------------ *)
AddHandler(cls, beh) ==
    /\ phase = "setup" /\ Len(reg) < Len(Defaults) + MaxRegs
    /\ reg' = Append(reg, [cls |-> cls, beh |-> beh, obj |-> Len(reg) + 1])
    /\ UNCHANGED <<cfgv, ctlv, calls, faults, respv>>

(* the handler object of registration k is registered for cls as well (again, or as part of a tuple) *)
AddSame(cls, k) ==
    /\ phase = "setup" /\ Len(reg) < Len(Defaults) + MaxRegs
    /\ k \in (Len(Defaults) + 1)..Len(reg) /\ reg[k].obj = k
    /\ reg' = Append(reg, [cls |-> cls, beh |-> reg[k].beh, obj |-> k])
    /\ UNCHANGED <<cfgv, ctlv, calls, faults, respv>>

Start == /\ phase = "setup" /\ phase' = "req"
         /\ UNCHANGED <<cfgv, reg, i, complete, succeeded, hasres, dep, left, pend, calls, faults, respv>>

(* the same application object serves another request; what it has registered stays *)
NextRequest ==
    /\ phase = "end" /\ nreq < MaxReqs
    /\ nreq' = nreq + 1 /\ phase' = "setup" /\ i' = 1 /\ complete' = FALSE /\ succeeded' = FALSE /\ hasres' = FALSE
    /\ dep' = <<>> /\ left' = <<>> /\ pend' = NoPend /\ calls' = <<>> /\ faults' = 0
    /\ status' = 200 /\ body' = NoBody /\ hdrs' = {} /\ vary' = {} /\ escaped' = FALSE
    /\ UNCHANGED <<shape, indep, target, nb, na, reg>>

(* ------------------------- handler selection --------------------------- *)
Reverse(s) == [j \in 1..Len(s) |-> s[Len(s) + 1 - j]]
HasReg(cls) == \E k \in 1..Len(reg) : reg[k].cls = cls
(* A class may have several bases: Mro[c] is the whole linearisation, mixins and other secondary bases included.
   PrimaryChain(c) follows the first base only (c, its first base, that one's first base, ...); the wrong design
   "primary_chain_only" looks for handlers along that chain and so misses a handler registered for a secondary base. *)
RECURSIVE PrimaryChain(_)
PrimaryChain(c) == IF Len(Mro[c]) = 1 THEN <<c>> ELSE <<c>> \o PrimaryChain(Mro[c][2])
OffPrimaryChain(c) == {Mro[c][j] : j \in 1..Len(Mro[c])} \ {PrimaryChain(c)[j] : j \in 1..Len(PrimaryChain(c))}
Walk(c) == IF WrongDesign = "mro_reversed" THEN Reverse(Mro[c])
           ELSE IF WrongDesign = "primary_chain_only" THEN PrimaryChain(c) ELSE Mro[c]
Nearest(c) == LET m == Walk(c)
                  j == CHOOSE j \in 1..Len(m) : HasReg(m[j]) /\ \A j2 \in 1..(j - 1) : ~HasReg(m[j2])
              IN  m[j]
RegOf(cls) == IF WrongDesign = "first_reg_wins"
              THEN CHOOSE k \in 1..Len(reg) : reg[k].cls = cls /\ \A k2 \in 1..(k - 1) : reg[k2].cls # cls
              ELSE CHOOSE k \in 1..Len(reg) : reg[k].cls = cls /\ \A k2 \in (k + 1)..Len(reg) : reg[k2].cls # cls
Handler(c) == RegOf(Nearest(c))       \* index into reg; 1..3 are the framework's defaults

(* --------------------------- response stack ---------------------------- *)
RespComps == {c \in 1..N : "resp" \in shape[c]}
Desc(S) == [j \in 1..Cardinality(S) |-> CHOOSE c \in S : Cardinality({d \in S : d > c}) = j - 1]
Asc(S)  == [j \in 1..Cardinality(S) |-> CHOOSE c \in S : Cardinality({d \in S : d < c}) = j - 1]
RespStack == IF indep THEN (IF WrongDesign = "resp_forward" THEN Asc(RespComps) ELSE Desc(RespComps))
             ELSE dep
QueueOf(j) == IF ~indep /\ "resp" \in shape[j] THEN <<j>> \o dep ELSE dep

(* a call site raises: what it had put on the response is still there (to be discarded) *)
RaiseAt(site, c, cls, back, marks) ==
    /\ calls' = Append(calls, Call(site, c, "raise", cls, hasres, succeeded, 0))
    /\ body' = (IF marks THEN Mark(Idx) ELSE body)
    /\ vary' = (IF marks THEN vary \cup {Idx} ELSE vary)
    /\ pend' = [cls |-> cls, idx |-> Idx, back |-> back]
    /\ phase' = "handle"

(* --------------------- request middleware, top-down -------------------- *)
ReqCall(act, cls) ==
    /\ phase = "req" /\ i <= N /\ "req" \in shape[i] /\ ~complete
    /\ \/ /\ act = "ret"
          /\ calls' = Append(calls, Call("req", i, "ret", "", FALSE, FALSE, 0))
          /\ i' = i + 1 /\ dep' = QueueOf(i)
          /\ UNCHANGED <<phase, complete, pend, body, vary, faults>>
       \/ /\ act = "complete"
          /\ calls' = Append(calls, Call("req", i, "complete", "", FALSE, FALSE, 0))
          /\ i' = i + 1 /\ dep' = QueueOf(i) /\ complete' = TRUE /\ body' = Mark(Idx) /\ vary' = vary \cup {Idx}
          /\ faults' = faults + 1
          /\ UNCHANGED <<phase, pend>>
       \/ /\ act = "raise"
          /\ RaiseAt("req", i, cls, "enter", TRUE)
          /\ dep' = (IF WrongDesign = "queue_before_call" THEN QueueOf(i) ELSE dep)
          /\ faults' = faults + 1
          /\ UNCHANGED <<i, complete>>
    /\ UNCHANGED <<cfgv, reg, succeeded, hasres, left, status, hdrs, escaped>>

ReqSkip ==      \* no process_request here, or (dependent mode) the response is already complete
    /\ phase = "req" /\ i <= N /\ ~("req" \in shape[i] /\ ~complete) /\ ~(indep /\ complete)
    /\ i' = i + 1 /\ dep' = QueueOf(i)
    /\ UNCHANGED <<cfgv, reg, phase, complete, succeeded, hasres, left, pend, calls, faults, respv>>

ReqDone ==
    /\ phase = "req" /\ (i > N \/ (indep /\ complete))
    /\ phase' = "route"
    /\ UNCHANGED <<cfgv, reg, i, complete, succeeded, hasres, dep, left, pend, calls, faults, respv>>

(* nothing raised so far: the success flag is set and the response stack is entered *)
Succeed == /\ succeeded' = TRUE /\ phase' = "resp" /\ left' = RespStack

Route ==
    /\ phase = "route"
    /\ IF complete
         THEN /\ Succeed /\ UNCHANGED <<i, hasres>>
         ELSE /\ hasres' = (target = "routed") /\ i' = 1
              /\ phase' = (IF target = "routed" THEN "rsrc" ELSE "responder")
              /\ UNCHANGED <<succeeded, left>>
    /\ UNCHANGED <<cfgv, reg, complete, dep, pend, calls, faults, respv>>

(* ------------- resource middleware (routed requests only) -------------- *)
RsrcCall(act, cls) ==
    /\ phase = "rsrc" /\ i <= N /\ "rsrc" \in shape[i] /\ ~complete
    /\ \/ /\ act = "ret"
          /\ calls' = Append(calls, Call("rsrc", i, "ret", "", TRUE, FALSE, 0))
          /\ i' = i + 1
          /\ UNCHANGED <<phase, complete, pend, body, vary, faults>>
       \/ /\ act = "complete"
          /\ calls' = Append(calls, Call("rsrc", i, "complete", "", TRUE, FALSE, 0))
          /\ i' = i + 1 /\ complete' = TRUE /\ body' = Mark(Idx) /\ vary' = vary \cup {Idx} /\ faults' = faults + 1
          /\ UNCHANGED <<phase, pend>>
       \/ /\ act = "raise"
          /\ RaiseAt("rsrc", i, cls, "enter", TRUE) /\ faults' = faults + 1
          /\ UNCHANGED <<i, complete>>
    /\ UNCHANGED <<cfgv, reg, succeeded, hasres, dep, left, status, hdrs, escaped>>

RsrcSkip ==
    /\ phase = "rsrc" /\ i <= N /\ "rsrc" \notin shape[i] /\ ~complete
    /\ i' = i + 1
    /\ UNCHANGED <<cfgv, reg, phase, complete, succeeded, hasres, dep, left, pend, calls, faults, respv>>

RsrcDone ==
    /\ phase = "rsrc" /\ (i > N \/ complete)
    /\ IF complete THEN Succeed /\ UNCHANGED i
                   ELSE phase' = "before" /\ i' = 1 /\ UNCHANGED <<succeeded, left>>
    /\ UNCHANGED <<cfgv, reg, complete, hasres, dep, pend, calls, faults, respv>>

(* ----------- before hooks, responder (or sink), after hooks ------------ *)
BeforeCall(act, cls) ==
    /\ phase = "before" /\ i <= nb
    /\ \/ /\ act = "ret"
          /\ calls' = Append(calls, Call("before", i, "ret", "", TRUE, FALSE, 0))
          /\ i' = i + 1 /\ UNCHANGED <<phase, pend, body, vary, faults>>
       \/ /\ act = "raise"
          /\ RaiseAt("before", i, cls, "enter", TRUE) /\ faults' = faults + 1 /\ UNCHANGED i
    /\ UNCHANGED <<cfgv, reg, complete, succeeded, hasres, dep, left, status, hdrs, escaped>>

BeforeDone ==
    /\ phase = "before" /\ i > nb /\ phase' = "responder"
    /\ UNCHANGED <<cfgv, reg, i, complete, succeeded, hasres, dep, left, pend, calls, faults, respv>>

RespSite == IF target = "routed" THEN "responder" ELSE "sink"
ResponderCall(act, cls) ==
    /\ phase = "responder" /\ target # "unrouted"
    /\ \/ /\ act = "ret"                                  \* a responder that returns has produced a body
          /\ calls' = Append(calls, Call(RespSite, 0, "ret", "", hasres, FALSE, 0))
          /\ body' = Mark(Idx) /\ vary' = vary \cup {Idx} /\ phase' = "after" /\ i' = 1 /\ UNCHANGED <<pend, faults>>
       \/ /\ act = "raise"
          /\ RaiseAt(RespSite, 0, cls, "enter", TRUE) /\ faults' = faults + 1 /\ UNCHANGED i
    /\ UNCHANGED <<cfgv, reg, complete, succeeded, hasres, dep, left, status, hdrs, escaped>>

NotFound ==     \* nothing matched: the framework's own responder raises its HTTPRouteNotFound (no headers of its own)
    /\ phase = "responder" /\ target = "unrouted"
    /\ RaiseAt("notfound", 0, "HTTPRouteNotFound", "enter", FALSE)
    /\ UNCHANGED <<cfgv, reg, i, complete, succeeded, hasres, dep, left, faults, status, hdrs, escaped>>

AfterCall(act, cls) ==                                    \* i-th after hook counted from the responder outwards
    /\ phase = "after" /\ i <= na
    /\ \/ /\ act = "ret"
          /\ calls' = Append(calls, Call("after", i, "ret", "", TRUE, FALSE, 0))
          /\ i' = i + 1 /\ UNCHANGED <<phase, pend, body, vary, faults>>
       \/ /\ act = "raise"
          /\ RaiseAt("after", i, cls, "enter", TRUE) /\ faults' = faults + 1 /\ UNCHANGED i
    /\ UNCHANGED <<cfgv, reg, complete, succeeded, hasres, dep, left, status, hdrs, escaped>>

AfterDone ==
    /\ phase = "after" /\ i > na
    /\ Succeed
    /\ UNCHANGED <<cfgv, reg, i, complete, hasres, dep, pend, calls, faults, respv>>

(* ----------------- response middleware, bottom-up ----------------------- *)
RespCall(act, cls) ==
    /\ phase = "resp" /\ left # <<>>
    /\ \/ /\ act = "ret"
          /\ calls' = Append(calls, Call("resp", Head(left), "ret", "", hasres, succeeded, 0))
          /\ left' = Tail(left) /\ UNCHANGED <<phase, pend, body, vary, faults>>
       \/ /\ act = "raise"
          /\ RaiseAt("resp", Head(left), cls, "loop", TRUE)
          /\ left' = Tail(left) /\ faults' = faults + 1
    /\ UNCHANGED <<cfgv, reg, i, complete, succeeded, hasres, dep, status, hdrs, escaped>>

RespDone ==
    /\ phase = "resp" /\ left = <<>> /\ phase' = "render"
    /\ UNCHANGED <<cfgv, reg, i, complete, succeeded, hasres, dep, left, pend, calls, faults, respv>>

(* ------------------------ rendering the body --------------------------- *)
RenderCall(act, cls) ==
    /\ phase = "render"
    /\ \/ /\ act = "ret" /\ body.k # "hbad" /\ phase' = "end" /\ UNCHANGED <<pend, calls, body, faults>>
       \/ /\ act = "raise" /\ body.k = "mark"             \* an application-provided body may fail to serialise
          /\ calls' = Append(calls, Call("render", 0, "raise", cls, FALSE, FALSE, 0))
          /\ pend' = [cls |-> cls, idx |-> Idx, back |-> "end"] /\ phase' = "handle"
          /\ faults' = faults + 1 /\ UNCHANGED body
    /\ UNCHANGED <<cfgv, reg, i, complete, succeeded, hasres, dep, left, status, hdrs, vary, escaped>>

RenderBad(cls) ==       \* what a "setbad" handler left on the response cannot be serialised: rendering must raise
    /\ phase = "render" /\ body.k = "hbad"
    /\ calls' = Append(calls, Call("render", 0, "raise", cls, FALSE, FALSE, 0))
    /\ pend' = [cls |-> cls, idx |-> Idx, back |-> "end"] /\ phase' = "handle"
    /\ UNCHANGED <<cfgv, reg, i, complete, succeeded, hasres, dep, left, faults, respv>>

(* ---------------------- handling a raised exception -------------------- *)
(* An exception raised while the body is rendered is handled like any other and the response the
   handler composed is rendered in turn.  Wrong design "render_drops_body" (DESIGN 6, F10, the
   behaviour before the fix): status and headers of the error go out, its body does not.
   If that second rendering fails as well the response goes out without a body (named fallback;
   what exactly is sent then is model detail, not demanded by the property). *)
SecondRenderFailureDropsBody == NoBody
AfterRenderFailure(b) == IF WrongDesign = "render_drops_body" THEN NoBody
                         ELSE IF b.k = "hbad" THEN SecondRenderFailureDropsBody ELSE b

ResetBeforeHandler == IF WrongDesign = "no_reset" THEN body ELSE NoBody

Effect(h) ==
    LET beh == reg[h].beh
        b0  == ResetBeforeHandler
        r(st, bd, hd, vy, esc) == [st |-> st, bd |-> bd, hd |-> hd, vy |-> vy, esc |-> esc]
        own == IF OwnVary[pend.cls] THEN {-pend.idx} ELSE vary   \* set_headers replaces an earlier Vary
    IN  CASE beh = "def500"    -> r(500, [k |-> "e500", id |-> 0], hdrs, vary \cup {0}, FALSE)
          [] beh = "defErr"    -> r(StatusOf[pend.cls], [k |-> "err", id |-> pend.idx], hdrs \cup {pend.idx}, own \cup {0}, FALSE)
          [] beh = "defStatus" -> r(StatusOf[pend.cls], [k |-> "stext", id |-> pend.idx], hdrs \cup {pend.idx}, own, FALSE)
          [] beh = "set"       -> r(SetStatus(reg[h].obj), [k |-> "hset", id |-> Idx], hdrs, vary, FALSE)
          [] beh = "setbad"    -> r(SetStatus(reg[h].obj), [k |-> "hbad", id |-> Idx], hdrs, vary, FALSE)
          \* the handler first drafts a body (as "set" does) and then raises: what it raised is rendered, the draft is not
          [] beh = "draftst"   -> r(DraftStatus(reg[h].obj), IF WrongDesign = "status_keeps_draft" THEN [k |-> "hset", id |-> Idx] ELSE NoBody,
                                    hdrs \cup {Idx}, vary, FALSE)
          [] beh = "drafterr"  -> r(HandlerErrStatus, [k |-> "err", id |-> Idx], hdrs \cup {Idx}, vary \cup {0}, FALSE)
          [] beh = "noop"      -> r(status, b0, hdrs, vary, FALSE)
          [] beh = "http"      -> r(HandlerErrStatus, [k |-> "err", id |-> Idx], hdrs \cup {Idx}, vary \cup {0}, FALSE)
          [] beh = "status"    -> r(HandlerStStatus, [k |-> "stext", id |-> Idx], hdrs \cup {Idx}, vary, FALSE)
          [] beh = "other"     -> r(status, b0, hdrs, vary, TRUE)     \* propagates: outside the property's promise

HandlerAct(beh) == IF beh \in {"http", "status", "other", "draftst", "drafterr"} THEN "raise" ELSE "ret"

HandleCall ==
    /\ phase = "handle"
    /\ LET h == Handler(pend.cls)
           e == Effect(h)
       IN  /\ calls' = Append(calls, Call("handler", h, HandlerAct(reg[h].beh), pend.cls, FALSE, FALSE, pend.idx))
           /\ status' = e.st /\ hdrs' = e.hd /\ vary' = e.vy /\ escaped' = e.esc
           /\ IF e.esc THEN /\ phase' = "end" /\ body' = e.bd /\ UNCHANGED <<left, succeeded>>
              ELSE CASE pend.back = "enter" -> /\ phase' = "resp" /\ left' = RespStack /\ body' = e.bd
                                               /\ UNCHANGED succeeded
                     [] pend.back = "loop"  -> /\ phase' = "resp" /\ body' = e.bd /\ succeeded' = FALSE
                                               /\ UNCHANGED left
                     [] pend.back = "end"   -> /\ phase' = "end" /\ body' = AfterRenderFailure(e.bd)
                                               /\ succeeded' = FALSE /\ UNCHANGED left
    /\ pend' = (IF pend.back = "end" /\ ~Effect(Handler(pend.cls)).esc
                THEN [pend EXCEPT !.back = IF Effect(Handler(pend.cls)).bd.k = "hbad" THEN "fallback" ELSE "rendered"]
                ELSE pend)
    /\ UNCHANGED <<cfgv, reg, i, complete, hasres, dep, faults>>

(* ------------------------------------------------------------------------ *)
ActCls(acts) == {<<a, "">> : a \in acts \ {"raise"}} \cup
                (IF "raise" \in acts THEN {<<"raise", c>> : c \in RaiseClasses} ELSE {})

Next == \/ \E c \in RegClasses, b \in RegBehs : AddHandler(c, b)
        \/ \E c \in RegClasses, k \in 1..Len(reg) : AddSame(c, k)
        \/ Start
        \/ \E p \in ActCls({"ret", "complete", "raise"}) : ReqCall(p[1], p[2]) \/ RsrcCall(p[1], p[2])
        \/ \E p \in ActCls({"ret", "raise"}) : BeforeCall(p[1], p[2]) \/ ResponderCall(p[1], p[2])
                                               \/ AfterCall(p[1], p[2]) \/ RespCall(p[1], p[2])
        \/ RenderCall("ret", "") \/ \E c \in RenderClasses : RenderCall("raise", c) \/ RenderBad(c)
        \/ ReqSkip \/ ReqDone \/ Route \/ RsrcSkip \/ RsrcDone \/ BeforeDone \/ NotFound \/ AfterDone \/ RespDone
        \/ HandleCall \/ NextRequest

Spec == Init /\ [][Next]_vars

(* ============================== properties ============================== *)
K(k) == calls[k]
Ix == 1..Len(calls)
AppSites == {"req", "rsrc", "before", "responder", "sink", "after", "resp"}
RaisedBefore(k) == \E j \in 1..(k - 1) : K(j).act = "raise"
Finished == phase = "end" /\ ~escaped

(* What application code can see: the framework's own not-found responder and its three default
   handlers are not application call sites.  ObsIdx numbers the visible calls (0: not visible).
   Handler calls are logged with the registration chosen (K(k).c); the application sees its object reg[c].obj. *)
Observable(c) == c.site # "notfound" /\ ~(c.site = "handler" /\ c.c <= Len(Defaults))
ObsIdx(k) == IF k < 1 \/ k > Len(calls) THEN 0
             ELSE IF ~Observable(calls[k]) THEN 0
             ELSE Cardinality({j \in 1..k : Observable(calls[j])})

(* C03 -------------------------------------------------------------------- *)
(* request methods top-down until one completes or raises *)
ReqTopDown == \A k \in Ix : K(k).site = "req" =>
                 \A j \in 1..(k - 1) : K(j).site = "req" /\ K(j).act = "ret" /\ K(j).c < K(k).c
(* resource methods only after a successful route match, in order, nothing completed or raised before *)
ResourceMwOnlyIfRouted == \A k \in Ix : K(k).site = "rsrc" =>
                 /\ target = "routed"
                 /\ \A j \in 1..(k - 1) : K(j).site \in {"req", "rsrc"} /\ K(j).act = "ret"
                                          /\ (K(j).site = "rsrc" => K(j).c < K(k).c)
(* hooks and responder only if nothing completed or raised; before hooks in order before it, after hooks after it *)
ResponderOnlyIfClean == \A k \in Ix : K(k).site \in {"before", "responder", "sink", "after"} =>
                 /\ \A j \in 1..(k - 1) : K(j).act = "ret" /\ K(j).site \in {"req", "rsrc", "before", "responder", "after"}
                 /\ (K(k).site = "sink") = (target = "sink")
                 /\ \A j \in 1..(k - 1) :
                       /\ K(j).site = K(k).site => K(j).c < K(k).c
                       /\ K(k).site = "before" => K(j).site \notin {"responder", "after"}
                       /\ K(k).site = "responder" => K(j).site # "after"
                 /\ K(k).site = "after" => \E j \in 1..(k - 1) : K(j).site = "responder"
                 /\ K(k).site = "responder" => Cardinality({j \in 1..(k - 1) : K(j).site = "before"}) = nb
(* response methods bottom-up, after everything else, at most once each *)
ResponseBottomUp == \A k \in Ix : K(k).site = "resp" =>
                 /\ \A j \in 1..(k - 1) : K(j).site = "resp" => K(j).c > K(k).c
                 /\ \A j \in (k + 1)..Len(calls) : K(j).site \in {"resp", "handler", "render"}
(* ... exactly once each; in dependent mode only for components whose own and all earlier request methods did not raise *)
ExpectedResp == IF indep THEN RespComps
                ELSE {c \in RespComps : \A k \in Ix : (K(k).site = "req" /\ K(k).c <= c) => K(k).act # "raise"}
ResponseOnce == (phase \in {"render", "end"} /\ ~escaped) =>
                 {K(k).c : k \in {x \in Ix : K(x).site = "resp"}} = ExpectedResp
(* the success flag is true exactly when nothing raised *)
SucceededIffNoRaise == \A k \in Ix : K(k).site = "resp" => (K(k).ok = ~RaisedBefore(k))

(* C04 -------------------------------------------------------------------- *)
Pos(m, x) == CHOOSE j \in 1..Len(m) : m[j] = x
InSeq(m, x) == \E j \in 1..Len(m) : m[j] = x
MostSpecificWins == \A k \in Ix : K(k).site = "handler" =>
                 LET m == Mro[K(k).cls]  hc == reg[K(k).c].cls
                 IN  /\ InSeq(m, hc)
                     /\ \A j \in 1..(Pos(m, hc) - 1) : ~HasReg(m[j])
(* a handler registered for a secondary base (off the primary chain) is chosen when nothing nearer is registered *)
SecondaryBaseHonoured == \A k \in Ix : K(k).site = "handler" =>
                 \A b \in OffPrimaryChain(K(k).cls) :
                    (HasReg(b) /\ \A j \in 1..(Pos(Mro[K(k).cls], b) - 1) : ~HasReg(Mro[K(k).cls][j])) => reg[K(k).c].cls = b
LatestRegistrationWins == \A k \in Ix : K(k).site = "handler" =>
                 \A k2 \in (K(k).c + 1)..Len(reg) : reg[k2].cls # reg[K(k).c].cls
(* the handler is given the exception that was raised, right after the raise *)
HandlerFollowsRaise == \A k \in Ix : K(k).site = "handler" =>
                 /\ k > 1 /\ K(k).x = k - 1 /\ K(k - 1).act = "raise" /\ K(k - 1).site # "handler"
                 /\ K(k - 1).cls = K(k).cls
EveryRaiseHandled == \A k \in Ix : (K(k).act = "raise" /\ K(k).site # "handler") =>
                 (k < Len(calls) => K(k + 1).site = "handler") /\ (k = Len(calls) => phase = "handle")
(* whatever was on the response when something raised is not what the client gets *)
StaleBodyDiscarded == Finished /\ body.k = "mark" => \A k \in Ix : K(k).site = "handler" => k < body.id
NeverEscapesByDefault == escaped => \E k \in Ix : K(k).site = "handler" /\ reg[K(k).c].beh = "other"
LastCall == calls[Len(calls)]
JustHandled == calls # <<>> /\ LastCall.site = "handler" /\ pend.back # "fallback"
HandlerRaisedErrorIsRendered ==
    /\ JustHandled /\ reg[LastCall.c].beh = "http"
          => status = HandlerErrStatus /\ body = [k |-> "err", id |-> Len(calls)] /\ Len(calls) \in hdrs /\ 0 \in vary
    /\ JustHandled /\ reg[LastCall.c].beh = "status"
          => status = HandlerStStatus /\ body = [k |-> "stext", id |-> Len(calls)] /\ Len(calls) \in hdrs
    /\ JustHandled /\ reg[LastCall.c].beh = "set"
          => status = SetStatus(reg[LastCall.c].obj) /\ body = [k |-> "hset", id |-> Len(calls)]
    \* RenderedFromTheStatus: a status raised by a handler is rendered from the status alone, whatever the handler drafted
    /\ JustHandled /\ reg[LastCall.c].beh = "draftst"
          => status = DraftStatus(reg[LastCall.c].obj) /\ body = NoBody /\ Len(calls) \in hdrs
    /\ JustHandled /\ reg[LastCall.c].beh = "drafterr"
          => status = HandlerErrStatus /\ body = [k |-> "err", id |-> Len(calls)] /\ Len(calls) \in hdrs /\ 0 \in vary
DefaultRendering ==
    /\ JustHandled /\ reg[LastCall.c].beh = "defErr"
          => status = StatusOf[LastCall.cls] /\ body = [k |-> "err", id |-> LastCall.x] /\ LastCall.x \in hdrs /\ 0 \in vary
             /\ (OwnVary[LastCall.cls] => -LastCall.x \in vary)
    /\ JustHandled /\ reg[LastCall.c].beh = "defStatus"
          => status = StatusOf[LastCall.cls] /\ body = [k |-> "stext", id |-> LastCall.x] /\ LastCall.x \in hdrs
    /\ JustHandled /\ reg[LastCall.c].beh = "def500" => status = 500 /\ body.k = "e500"
=========================================================================
