---------------------------- MODULE MC_MediaTypes ----------------------------
(* Bounded instances of MediaTypes.  Exhaustive instance: every header of <= MaxRanges ranges
   x every candidate list of <= MaxCands types.  Table instance (leg A): one JSON line per
   header with the quality of every media type.  Simulation instance (leg A): random cases
   with up to 3 ranges and 3 candidates. *)
EXTENDS MediaTypes, Json

P1 == Pm("p", "1")
P2 == Pm("p", "2")
R1 == Pm("r", "1")
Seq2Set(s) == {s[i] : i \in DOMAIN s}
TS(t, s) == <<t, s>>

(* quick vocabulary *)
PmapsRQ == <<(<<>>), <<P1>>, <<P2>>, <<R1>>, <<P1, R1>>>>
PmapsMQ == <<(<<>>), <<P1>>, <<R1>>, <<P1, R1>>>>
TsRQ    == <<TS("a", "x"), TS("a", "y"), TS("a", "*"), TS("b", "x"), TS("*", "x"), TS("*", "*")>>
TsMQ    == <<TS("a", "x"), TS("a", "*"), TS("*", "x")>>
(* thorough vocabulary *)
PmapsT  == <<(<<>>), <<P1>>, <<P2>>, <<R1>>, <<P1, R1>>, <<P2, R1>>>>
TsRT    == <<TS("a", "x"), TS("a", "y"), TS("a", "*"), TS("b", "x"), TS("b", "y"), TS("b", "*"),
             TS("*", "x"), TS("*", "y"), TS("*", "*")>>
TsMT    == <<TS("a", "x"), TS("a", "*"), TS("*", "x"), TS("*", "*"), TS("b", "y")>>
(* 400 = 0.0004: positive, but 0 when rounded to the grammar's three digits; 500400 = 0.5004 *)
QsQ     == {QABSENT, 0, 400}
QsT     == {QABSENT, 0, 400, 500400}

(* malformedness is orthogonal to everything else: one representative per kind *)
BadRanges == {MR(NOSLASH, NOSLASH, <<>>, QABSENT), MR("a", "x", <<>>, QBAD)}
MkRanges(tss, pms, qs) ==
    {MR(ts[1], ts[2], pm, q) : ts \in Seq2Set(tss), pm \in Seq2Set(pms), q \in qs} \cup BadRanges
(* all media types in a fixed order, so that a table row is just a sequence of numbers *)
MkTypes(tss, pms) ==
    [i \in 1..(Len(tss) * Len(pms)) |->
        MT(tss[((i - 1) \div Len(pms)) + 1][1], tss[((i - 1) \div Len(pms)) + 1][2], pms[((i - 1) % Len(pms)) + 1])]

(* ranges with q at every position among their parameters (first / middle / last) *)
Positions(pm, q) == IF q = QABSENT THEN {Len(pm)} ELSE 0..Len(pm)
MkRangesP(tss, pms, qs) ==
    UNION {{MRP(ts[1], ts[2], pm, q, qp) : qp \in Positions(pm, q)} : ts \in Seq2Set(tss), pm \in Seq2Set(pms), q \in qs}
(* position vocabulary: ranges with 0-2 parameters x q absent / 0 / 0.5004 x every position; candidates of one
   type that carry / lack / differ in each parameter *)
TsRP    == <<TS("a", "x"), TS("a", "*"), TS("*", "*")>>
PmapsRP == <<(<<>>), <<P1>>, <<P1, R1>>>>
TsMP    == <<TS("a", "x")>>
RangesP == MkRangesP(TsRP, PmapsRP, {QABSENT, 0, 500400}) \cup BadRanges \cup {MRP("a", "x", <<P1>>, QBAD, 0)}
AllMP   == MkTypes(TsMP, PmapsT)
MTypesP == Seq2Set(AllMP)
RangesQ == MkRanges(TsRQ, PmapsRQ, QsQ)
RangesT == MkRanges(TsRT, PmapsT, QsT)
AllMQ   == MkTypes(TsMQ, PmapsMQ)
AllMT   == MkTypes(TsMT, PmapsT)
MTypesQ == Seq2Set(AllMQ)
MTypesT == Seq2Set(AllMT)
(* simulation vocabulary: everything *)
RangesS == MkRangesP(TsRQ, PmapsT, {QABSENT, 0, 100, 400, 500100, 500400, 999900, QONE}) \cup BadRanges
           \cup {MR("b", "y", <<P1>>, QBAD), MRP("b", "y", <<P1>>, QBAD, 0)}
AllMS   == MkTypes(TsMT, PmapsT)
MTypesS == Seq2Set(AllMS)

CONSTANT AllM      \* the ordered media types of the table instance

XAddRange == \E r \in Ranges : AddRange(r)
XAddCand  == \E m \in MTypes : AddCand(m)
XNext     == XAddRange \/ XAddCand

(* leg A, table: one line per header *)
EmitTable == (hdr # <<>> /\ cands = <<>>) =>
    PrintT(ToJson([hdr |-> hdr,
                   q   |-> [i \in DOMAIN AllM |-> QualityOutcome(hdr, AllM[i])],
                   acc |-> [i \in DOMAIN AllM |-> AcceptsOutcome(hdr, AllM[i]).v],
                   nm  |-> [i \in DOMAIN AllM |-> Cardinality(Matching(hdr, AllM[i]))]]))
(* the position table also says which of the whole row best_match / client_prefers pick (small rows only: the fold
   over a 30-type row exhausts TLC's stack) *)
EmitTableP == (hdr # <<>> /\ cands = <<>>) =>
    PrintT(ToJson([hdr |-> hdr,
                   q   |-> [i \in DOMAIN AllM |-> QualityOutcome(hdr, AllM[i])],
                   acc |-> [i \in DOMAIN AllM |-> AcceptsOutcome(hdr, AllM[i]).v],
                   nm  |-> [i \in DOMAIN AllM |-> Cardinality(Matching(hdr, AllM[i]))],
                   best |-> BestOutcome(hdr, AllM), pref |-> PrefersOutcome(hdr, AllM)]))
(* the order of the table columns, printed once *)
ASSUME PrintT(ToJson([allm |-> AllM]))

(* leg A, cases: header + candidate list + every outcome *)
EmitCase == (cands # <<>>) =>
    PrintT(ToJson([hdr |-> hdr, cands |-> cands,
                   q     |-> [i \in DOMAIN cands |-> QualityOutcome(hdr, cands[i])],
                   best  |-> BestOutcome(hdr, cands),
                   pref  |-> PrefersOutcome(hdr, cands),
                   nmatch |-> [i \in DOMAIN cands |-> Cardinality(Matching(hdr, cands[i]))]]))
==============================================================================
