INIT Init
NEXT MCNext
CONSTANTS
  Accepts <- MCAccepts
  ExtraHandlers <- MCExtra
  Errors <- MCErrorsQ
INVARIANT OwnStatusAndVary
INVARIANT JsonByDefault
INVARIANT KindConsistent
INVARIANT ClientPreferenceHonoured
INVARIANT NothingAcceptableNoBody
INVARIANT Emit
