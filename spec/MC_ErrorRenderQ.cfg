INIT Init
NEXT MCNext
CONSTANTS
  Accepts <- MCAccepts
  ExtraHandlers <- MCExtra
  WrongRender <- MCWrongRender
  Errors <- MCErrorsQ
INVARIANT OwnStatusAndVary
INVARIANT OwnHeadersSent
INVARIANT ToDictHonoured
INVARIANT JsonByDefault
INVARIANT KindConsistent
INVARIANT ClientPreferenceHonoured
INVARIANT NothingAcceptableNoBody
INVARIANT SpellingIrrelevant
INVARIANT Emit
