---------------------------- MODULE MediaCacheResp ----------------------------
(* C12, response side: what one Response finally sends after a history of assignments and
   renderings.  The media setter invalidates the cached rendering (documented), also when the SAME
   object is assigned again after having been mutated in place, so the body sent deserialises to
   the document as it was at the LAST assignment of resp.media.

   Documents are abstracted to version numbers: every new object and every in-place mutation
   creates a new version; `media` is the assigned object and the version it had when assigned
   (o = 0: None); `rendered` is the version the cached rendering was made from (-1 = no cached
   rendering); `data` / `text` are set or not (both outrank media when the body is chosen).
   `rtype` says which Response class the app uses: the framework's own ("default") or a subclass
   given as response_type ("custom"; the ASGI app then awaits Response.render_body() instead of
   its inlined copy).  Nothing depends on it (ResponseTypeIsIrrelevant), nor on whether the
   document is truthy: [], {}, 0, 0.0, False and "" are documents like any other.
   One action per statement a responder / middleware / test helper can make on the Response.    *)
EXTENDS Integers, Sequences, TLC

CONSTANTS MaxVersions,        \* bound on versions created
          SetterInvalidates   \* TRUE = design; FALSE = wrong design "assigning the same object keeps the rendering"

VARIABLES rtype, media, nobj, nver, rendered, data, text, last
vars == <<rtype, media, nobj, nver, rendered, data, text, last>>

None == [o |-> 0, v |-> 0]
Rec(op, kind, v) == [op |-> op, kind |-> kind, v |-> v]

Init == /\ rtype \in {"default", "custom"}
        /\ media = None /\ nobj = 0 /\ nver = 0 /\ rendered = -1 /\ data = FALSE /\ text = FALSE
        /\ last = Rec("init", "none", 0)

(* the body the framework produces now: text, else data, else the (cached) rendering of media *)
MediaVersion == IF rendered # -1 THEN rendered ELSE media.v
Body == IF text THEN Rec("body", "text", 0)
        ELSE IF data THEN Rec("body", "data", 0)
        ELSE IF media.o = 0 THEN Rec("body", "none", 0)
        ELSE Rec("body", "media", MediaVersion)

Assign(m, op, same) ==
    /\ media' = m
    /\ rendered' = IF SetterInvalidates \/ ~same THEN -1 ELSE rendered
    /\ last' = Rec(op, "none", m.v)

AssignNew ==                 \* resp.media = <a new document object>
    /\ nver < MaxVersions
    /\ nobj' = nobj + 1 /\ nver' = nver + 1
    /\ Assign([o |-> nobj + 1, v |-> nver + 1], "new", FALSE)
    /\ UNCHANGED <<rtype, data, text>>
MutateAssignSame ==          \* d = resp.media; d[...] = ...; resp.media = d
    /\ media.o # 0 /\ nver < MaxVersions
    /\ nver' = nver + 1
    /\ Assign([o |-> media.o, v |-> nver + 1], "mutsame", TRUE)
    /\ UNCHANGED <<rtype, nobj, data, text>>
AssignSame ==                \* resp.media = resp.media (unchanged object)
    /\ media.o # 0
    /\ Assign(media, "same", TRUE)
    /\ UNCHANGED <<rtype, nobj, nver, data, text>>
AssignNone ==                \* resp.media = None
    /\ Assign(None, "none", FALSE)
    /\ UNCHANGED <<rtype, nobj, nver, data, text>>
Render ==                    \* resp.render_body(): returns the body and caches a media rendering it had to make
    /\ last' = [Body EXCEPT !.op = "render"]
    /\ rendered' = IF ~text /\ ~data /\ media.o # 0 THEN MediaVersion ELSE rendered
    /\ UNCHANGED <<rtype, media, nobj, nver, data, text>>
SetData(b)  == data' = b /\ last' = Rec(IF b THEN "setdata" ELSE "cleardata", "none", 0) /\ UNCHANGED <<rtype, media, nobj, nver, rendered, text>>
SetText(b)  == text' = b /\ last' = Rec(IF b THEN "settext" ELSE "cleartext", "none", 0) /\ UNCHANGED <<rtype, media, nobj, nver, rendered, data>>

Next == AssignNew \/ MutateAssignSame \/ AssignSame \/ AssignNone \/ Render
        \/ (\E b \in BOOLEAN : SetData(b)) \/ (\E b \in BOOLEAN : SetText(b))
Spec == Init /\ [][Next]_vars

(* ---- properties ---- *)
(* a cached rendering is always a rendering of the document as last assigned *)
RenderingIsFresh == rendered # -1 => (media.o # 0 /\ rendered = media.v)
(* hence the body sent, when it is the media, is the document as it was at the last assignment *)
SentIsLastAssigned == Body.kind = "media" => Body.v = media.v
RenderedWhatWouldBeSent == last.op = "render" => (last.kind = Body.kind /\ last.v = Body.v)
===============================================================================
