-------------------------- MODULE MediaTypesTrace --------------------------
(* Trace judge for C11a.  A trace is [ev: events]; an event is one call of
   falcon.mediatypes.quality / best_match or Request.client_accepts / client_prefers on a
   header the harness generated from the media-range grammar, logged at its return:
     [op, hdr, cands, res, exc]
   hdr: the abstract ranges the header string was rendered from, cands: abstract media types,
   res: quality in millionths / index of the returned candidate (0 = none, -1 = not a
   candidate) / 1-0 for accepts, exc: "none" | "value" (a documented ValueError) | "other".
   The calls are independent of each other; vocabulary and sizes are unbounded here.
     P:exc        an exception other than the documented value errors escaped
     P:rejected   a well-formed header was rejected
     P:quality / P:best / P:accepts / P:prefers   result differs from MediaTypesOps
     D:malformed  a malformed header was not answered the way the model describes
                  (error from quality/best_match, False/None from the request methods)      *)
EXTENDS MediaTypesOps, TLC, Json, IOUtils

Traces == JsonDeserialize(IOEnv.TRACE_FILE)

VARIABLES tid, l, verdict, dnote, nt
vars == <<tid, l, verdict, dnote, nt>>
T == Traces[tid]

Init == tid \in 1..Len(Traces) /\ l = 1 /\ verdict = "ok" /\ dnote = "ok" /\ nt = 0

(* non-triviality rule of the evidence: >= 2 ranges of the header match some candidate *)
NonTrivial(e) == ~AnyMalformed(e.hdr) /\ \E i \in DOMAIN e.cands : Cardinality(Matching(e.hdr, e.cands[i])) >= 2

Expected(e) == CASE e.op = "quality" -> QualityOutcome(e.hdr, e.cands[1])
                 [] e.op = "accepts" -> AcceptsOutcome(e.hdr, e.cands[1])
                 [] e.op = "best"    -> BestOutcome(e.hdr, e.cands)
                 [] e.op = "prefers" -> PrefersOutcome(e.hdr, e.cands)

BadCase(e) == e.cands # <<>> /\ AnyMalformed(e.hdr)

JudgeP(e) ==
    IF e.exc = "other" THEN "P:exc"
    ELSE IF BadCase(e) THEN (IF e.op \in {"accepts", "prefers"} /\ e.exc # "none" THEN "P:exc" ELSE "ok")
    ELSE IF e.exc # "none" THEN "P:rejected"
    ELSE IF e.res # Expected(e).v THEN "P:" \o e.op
    ELSE "ok"

JudgeD(e) ==
    IF ~BadCase(e) THEN "ok"
    ELSE LET x == Expected(e) IN
         IF x.err # (e.exc = "value") THEN "D:malformed"
         ELSE IF ~x.err /\ e.res # x.v THEN "D:malformed"
         ELSE "ok"

Step ==
    /\ l >= 1 /\ l <= Len(T.ev) /\ verdict = "ok"
    /\ LET e == T.ev[l] IN
         /\ verdict' = JudgeP(e)
         /\ dnote' = IF dnote # "ok" THEN dnote
                     ELSE LET d == JudgeD(e) IN IF d = "ok" THEN "ok" ELSE d \o "#" \o ToString(l)
         /\ nt' = IF NonTrivial(e) THEN nt + 1 ELSE nt
    /\ l' = l + 1 /\ UNCHANGED tid

Done ==
    /\ l >= 1 /\ (l > Len(T.ev) \/ verdict # "ok")
    /\ PrintT(<<"VERDICT", tid, IF verdict = "ok" THEN dnote ELSE verdict, l - 1, nt>>)
    /\ l' = -1 /\ UNCHANGED <<tid, verdict, dnote, nt>>

Next == Step \/ Done
Spec == Init /\ [][Next]_vars
Sound == l >= -1
============================================================================
