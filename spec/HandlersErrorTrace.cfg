INIT TInit
NEXT TNext
CONSTANTS
  Keys = {}
  HandlerIds = {}
  CTypes = {}
  Defaults = {}
  NoRaiseCalls = {}
  MaxObjs = 1
  MaxUpdate = 0
  ClearOnSet = TRUE
  ClearOnDelete = TRUE
  BareKeyShortcut = FALSE
  Accepts = {}
  JsonT <- TJson
  TextXmlT <- TTXml
  AppXmlT <- TAXml
  SufJson <- TSufJson
  SufXml <- TSufXml
  MemoiseOffered = FALSE
  ExactLookup = FALSE
INVARIANT Sound
