INIT TInit
NEXT TNext
CONSTANTS
  Keys = {}
  HandlerIds = {}
  CTypes = {}
  Defaults = {}
  NoRaiseCalls = {}
  MaxObjs = 1
  MaxUpdate = 0
  ClearOnSet = TRUE
  ClearOnDelete = TRUE
  Accepts = {}
  JsonT <- TJson
  TextXmlT <- TTXml
  AppXmlT <- TAXml
  MemoiseOffered = FALSE
INVARIANT Sound
