INIT AInit
NEXT ANext
CONSTANTS
  Templates <- MCTemplates
  ResKinds <- SmallResKinds
  SinkPats <- MCSinkPats
  StaticPrefixes <- MCStaticPrefixes
  Methods <- MCMethods
  Paths <- MCPaths
  MaxCalls = 2
  NewestFirst = TRUE
  RoutesFirst = TRUE
INVARIANT Emit
