\* leg A2: fine-grained behaviours (TLC -simulate), projected to stimulus scripts of Depth tokens
INIT XInit
NEXT RNext
CONSTANTS
  MaxQs = {0, 1, 2, 3, 4}
  NMsg = 6
  DiscChoices = {TRUE, FALSE}
  GeCmp = TRUE
  AwaitStop = TRUE
  NotifyPop = TRUE
  ReleaseOnEnd = TRUE
  Faults = TRUE
  StopAfterSend = TRUE
  CleanupOnDisc = TRUE
  MaxSendFail = 1
  Family = "none"
  MaxOps = 8
  MaxCancel = 3
  Depth = 28
INVARIANT REmit
INVARIANT Fifo
INVARIANT Bounded
