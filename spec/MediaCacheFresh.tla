---------------------------- MODULE MediaCacheFresh ----------------------------
(* C12 across requests: the media cache of MediaCache.tla belongs to ONE request.  Every request
   parses its own body into an object of its own; what a responder does to its parsed media
   afterwards (pop / insert a key, append to a list) is invisible to every other request, also to
   one with a byte-identical body, on another app, on the other stack (FreshPerRequest).

   reqs[i] = [p: payload id, o: the object get_media() returned].  content[o] is what object o
   holds now: "decoded" (= Decode(payload), as parsed) or "edited" (mutated in place since).
   Memoised = FALSE is the design; TRUE is the wrong design "parsing is memoised on the payload,
   every request with the same bytes is handed the same object" (vacuity switch).                *)
EXTENDS Integers, Sequences, FiniteSets, TLC

CONSTANTS Payloads, MaxReqs, Memoised

VARIABLES reqs, content, memo, last
vars == <<reqs, content, memo, last>>

Rec(op, r, p, fresh, eq) == [op |-> op, r |-> r, p |-> p, fresh |-> fresh, eq |-> eq]
Init == reqs = <<>> /\ content = <<>> /\ memo = [p \in Payloads |-> 0] /\ last = Rec("init", 0, 0, TRUE, TRUE)

Objects == {reqs[i].o : i \in DOMAIN reqs}

(* a request with payload p arrives and its responder calls get_media() *)
Request(p) ==
    /\ Len(reqs) < MaxReqs
    /\ LET shared == Memoised /\ memo[p] # 0
           o == IF shared THEN memo[p] ELSE Len(content) + 1
       IN  /\ content' = IF shared THEN content ELSE Append(content, "decoded")
           /\ memo' = [memo EXCEPT ![p] = o]
           /\ reqs' = Append(reqs, [p |-> p, o |-> o])
           /\ last' = Rec("get", Len(reqs) + 1, p, o \notin Objects, (IF shared THEN content[o] ELSE "decoded") = "decoded")
(* the responder of request r edits the media it got, in place *)
Edit(r) ==
    /\ r \in DOMAIN reqs
    /\ content' = [content EXCEPT ![reqs[r].o] = "edited"]
    /\ last' = Rec("edit", r, reqs[r].p, TRUE, TRUE)
    /\ UNCHANGED <<reqs, memo>>

Next == (\E p \in Payloads : Request(p)) \/ (\E r \in DOMAIN reqs : Edit(r))
Spec == Init /\ [][Next]_vars

(* every request's media equals the decoding of ITS body and is an object no other request holds *)
FreshPerRequest == last.op = "get" => (last.fresh /\ last.eq)
OneObjectPerRequest == \A i, j \in DOMAIN reqs : i # j => reqs[i].o # reqs[j].o
================================================================================
