INIT LInit
NEXT LNext
CONSTANTS
  NoLower = {}
  AppendGuard = TRUE
  FreshCookie = TRUE
  UseSecureDefault = TRUE
  SnapshotDefault = FALSE
  Depth = 4
  Bases = {"x-a", "etag", "link", "location", "content-type", "content-disposition"}
  Casings = {0, 1, 17, 4094, 1048575}
  Vals = {"v1", "v2", "a, b"}
  DefaultMedia = "application/json"
  Randomized = FALSE
  CkAlpha = {97}
  CkLen = 0
  CkTwoPass = FALSE
  EncLen = 1
INVARIANT Emit
