INIT TInit
NEXT TNext
CONSTANTS
  MaxVersions = 1000
  SetterInvalidates = TRUE
INVARIANT Sound
