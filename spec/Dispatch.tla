---------------------------- MODULE Dispatch ----------------------------
(* C02: which responder answers a request, as a function of how the app was assembled.

   State   = the dispatch tables of one app: routes (template -> resource entry), sinks and
             static routes (each in consultation order), the sink_before_static_route flag.
   Actions = the public assembly calls: AddRoute (accepted / rejected because the suffix
             selects no responder), AddSink, AddStatic.  Requests do not change the state:
             Outcome(m, p) is the decision for request method m and path p in the current
             state, Visible(m, p) what a client / the generated responders can observe of it.

   Text is Seq(code point).  The module carries its own small route matcher (DMatch: literal, single-field
   and multi-field segments without converters - what the dispatch property needs; C01 owns the router, and the
   splitting of a multi-field segment is taken from C01's SegMatch by INSTANCE).

   The invariants state the property declaratively, next to the operational Outcome, which
   follows the shape of the code (route lookup, then one ordered scan of sinks + statics). *)
EXTENDS Bytes, TLC

CONSTANTS Templates,       \* route templates offered to AddRoute: Seq([k: "lit"|"var"|"cx", s: text])
          ResKinds,        \* resources: [plain: SUBSET methods, sfx: SUBSET methods] (on_x / on_x_s)
          SinkPats,        \* sink prefixes: Seq([k: token kind, s: text / group name / alternatives]) (see SinkMatch)
          StaticPrefixes,  \* static prefixes (text, starting with "/", no trailing "/")
          MaxCalls,        \* bound on the number of assembly calls
          NewestFirst,     \* design switch: a new sink/static goes to the FRONT of its list (TRUE = the design)
          RoutesFirst      \* design switch: routes are consulted before sinks/statics (TRUE = the design)

VARIABLES routes,    \* set of [tmpl, rid, sfx, impl, ord]: at most one entry per template (re-adding overrides, ord stays)
          sinks,     \* Seq([id, pat])            in consultation order
          statics,   \* Seq([id, prefix, fb])     in consultation order
          sbs,       \* sink_before_static_route
          n,         \* assembly calls made so far (ids of resources / sinks / statics are call numbers)
          last       \* the last assembly call (uniform record), for behaviour export

vars == <<routes, sinks, statics, sbs, n, last>>

SLASH == 47
IsDigit(c) == c >= 48 /\ c <= 57

(* falcon.constants (public: falcon.HTTP_METHODS, falcon.WEBDAV_METHODS) *)
HttpMethods == {"CONNECT", "DELETE", "GET", "HEAD", "OPTIONS", "PATCH", "POST", "PUT", "TRACE"}
WebDavMethods == {"CHECKIN", "CHECKOUT", "COPY", "LOCK", "MKCOL", "MOVE", "PROPFIND", "PROPPATCH", "REPORT",
                  "UNCHECKIN", "UNLOCK", "UPDATE", "VERSION-CONTROL"}
Meta == {"WEBSOCKET"}                       \* not an HTTP method: never advertised, rejected on HTTP requests
Combined == HttpMethods \cup WebDavMethods \cup Meta

-----------------------------------------------------------------------------
(* text helpers *)
RECURSIVE LStripSlash(_)
LStripSlash(p) == IF p # <<>> /\ Head(p) = SLASH THEN LStripSlash(Tail(p)) ELSE p

RECURSIVE SplitOn(_, _)        \* Python's s.split(sep): at least one, possibly empty, piece
SplitOn(s, sep) ==
    LET C == {i \in 1..Len(s) : s[i] = sep}
    IN  IF C = {} THEN <<s>>
        ELSE LET i == CHOOSE i \in C : \A j \in C : i <= j
             IN  <<SubSeq(s, 1, i - 1)>> \o SplitOn(SubSeq(s, i + 1, Len(s)), sep)
SplitSlash(s) == SplitOn(s, SLASH)

Segments(p) == SplitSlash(LStripSlash(p))

-----------------------------------------------------------------------------
(* template segments.  [k |-> "lit", s |-> text]   literal text, compared as text (whatever characters it contains)
                        [k |-> "var", s |-> name]   one field spanning the whole segment: matches any segment, the empty one included
                        [k |-> "cx",  s |-> text]   a multi-field ("complex") segment, s = the segment as written in the template,
                                                    e.g. v{major}.{minor}: literal chunks and >= 1 field expressions (no converters).
   How a multi-field segment splits a path segment is C01's: SegMatch!Split (leftmost field longest, every field non-empty,
   the literal chunks as plain text) is reused, not copied. *)
SM == INSTANCE SegMatch WITH CT <- [lf |-> 10]       \* characters are code points here: line feed = 10
LBRACE == 123
RBRACE == 125
RECURSIVE CxItems(_)          \* the segment text -> the items of SegMatch (field names stay texts)
CxItems(s) ==
    IF s = <<>> THEN <<>>
    ELSE IF Head(s) = LBRACE
         THEN LET j == FindFrom(s, <<RBRACE>>, 0)
              IN  <<[t |-> "fld", v |-> <<>>, f |-> Slice(s, 1, j), c |-> SM!NoConv]>> \o CxItems(Drop(s, j + 1))
         ELSE LET j == FindFrom(s, <<LBRACE>>, 0)
              IN  <<[t |-> "lit", v |-> Take(s, j), f |-> <<>>, c |-> SM!NoConv]>> \o CxItems(Drop(s, j))
CxFields(s) == LET its == CxItems(s) IN {its[i].f : i \in {j \in DOMAIN its : its[j].t = "fld"}}
(* what is left when every field expression is replaced by "v" (two multi-field siblings of one shape are refused) *)
CxShape(s) == LET its == CxItems(s) IN Concat([i \in DOMAIN its |-> IF its[i].t = "fld" THEN <<118>> ELSE its[i].v])
WellFormedCx(s) ==
    LET its == CxItems(s)
        F   == {j \in DOMAIN its : its[j].t = "fld"}
    IN  /\ Len(its) >= 2 /\ F # {}
        /\ \A j \in F : its[j].f # <<>> /\ \A x \in DOMAIN its[j].f : its[j].f[x] \notin {58, LBRACE, RBRACE}   \* no converter
        /\ \A j \in DOMAIN its : j \notin F => \A x \in DOMAIN its[j].v : its[j].v[x] \notin {LBRACE, RBRACE, SLASH, 32}
        /\ \A i, j \in F : i # j => its[i].f # its[j].f
        /\ \A j \in F : (j + 1) \notin F                              \* two adjacent fields: no text between them to split at
WellFormedTmpl(t) ==
    /\ \A i \in DOMAIN t : t[i].k \in {"lit", "var", "cx"} /\ (t[i].k = "cx" => WellFormedCx(t[i].s))
    /\ \A i, j \in DOMAIN t : i # j => (IF t[i].k = "cx" THEN CxFields(t[i].s) ELSE IF t[i].k = "var" THEN {t[i].s} ELSE {})
                                       \cap (IF t[j].k = "cx" THEN CxFields(t[j].s) ELSE IF t[j].k = "var" THEN {t[j].s} ELSE {}) = {}

(* one template segment against one path segment: whether it matches and the fields it binds *)
NoHit == [ok |-> FALSE, kw |-> {}]
SegHit(t, seg) ==
    CASE t.k = "lit" -> [ok |-> t.s = seg, kw |-> {}]
      [] t.k = "var" -> [ok |-> TRUE, kw |-> {[n |-> t.s, v |-> seg]}]
      [] OTHER       -> LET r == SM!Split(CxItems(t.s), 1, seg, 0)
                        IN  IF r.ok THEN [ok |-> TRUE, kw |-> {[n |-> r.caps[j].f, v |-> r.caps[j].s] : j \in DOMAIN r.caps}]
                            ELSE NoHit

(* DMatch: depth-first search over the tree of accepted templates; at every level the literal child is tried
   first, then the multi-field children in the order in which they were created, then the (single) field child,
   with backtracking: a child whose segment matches but whose branch holds no resource for the rest of the path
   is abandoned and the walk goes on with the next sibling.  Field values are added only along the successful branch. *)
Lit(t) == [k |-> "lit", s |-> t]
Tmpls(rs) == {e.tmpl : e \in rs}
IsNode(rs, pre) == \E e \in rs : IsPrefix(pre, e.tmpl)
HasEntry(rs, t) == \E e \in rs : e.tmpl = t
EntryAt(rs, t) == CHOOSE e \in rs : e.tmpl = t
ThroughField(rs, pre) == {e \in rs : IsPrefix(pre, e.tmpl) /\ Len(e.tmpl) > Len(pre) /\ e.tmpl[Len(pre) + 1].k = "var"}
FieldChildren(rs, pre) == {e.tmpl[Len(pre) + 1] : e \in ThroughField(rs, pre)}
CxChildren(rs, pre) == {e.tmpl[Len(pre) + 1] : e \in {x \in rs : IsPrefix(pre, x.tmpl) /\ Len(x.tmpl) > Len(pre) /\ x.tmpl[Len(pre) + 1].k = "cx"}}
(* a tree node is created by the first add_route whose template runs through it: entries carry `ord`, the number of the
   call that FIRST added their template (re-adding a template keeps it); tables written down without it fall back to rid *)
OrdOf(e) == IF "ord" \in DOMAIN e THEN e.ord ELSE e.rid
NodeOrd(rs, node) == LET O == {OrdOf(e) : e \in {x \in rs : IsPrefix(node, x.tmpl)}} IN CHOOSE o \in O : \A q \in O : o <= q
(* the routers refuse two different fields at one position and two different multi-field segments of one shape;
   the pools/generators respect that *)
ConflictFree(rs) == \A t \in Tmpls(rs) : \A k \in 0..(Len(t) - 1) :
                        /\ Cardinality(FieldChildren(rs, SubSeq(t, 1, k))) <= 1
                        /\ \A a, b \in CxChildren(rs, SubSeq(t, 1, k)) : a # b => CxShape(a.s) # CxShape(b.s)

NoRoute == [found |-> FALSE, tmpl |-> <<>>, kw |-> {}]

RECURSIVE Dfs(_, _, _, _)
Dfs(rs, pre, segs, kw) ==
    LET lvl == Len(pre) + 1
        seg == segs[lvl]
        Try(child, kw2) ==
            LET node == Append(pre, child)
            IN  IF ~IsNode(rs, node) THEN NoRoute
                ELSE IF lvl = Len(segs)
                     THEN (IF HasEntry(rs, node) THEN [found |-> TRUE, tmpl |-> node, kw |-> kw2] ELSE NoRoute)
                     ELSE Dfs(rs, node, segs, kw2)
        viaLit == Try(Lit(seg), kw)
        RECURSIVE TryCx(_)
        TryCx(C) ==                        \* the multi-field children not yet tried, oldest first
            IF C = {} THEN NoRoute
            ELSE LET c == CHOOSE c \in C : \A d \in C : NodeOrd(rs, Append(pre, c)) <= NodeOrd(rs, Append(pre, d))
                     h == SegHit(c, seg)
                     r == IF h.ok THEN Try(c, kw \cup h.kw) ELSE NoRoute
                 IN  IF r.found THEN r ELSE TryCx(C \ {c})
        viaCx == TryCx(CxChildren(rs, pre))
        fs == ThroughField(rs, pre)
    IN  IF viaLit.found THEN viaLit
        ELSE IF viaCx.found THEN viaCx
        ELSE IF fs = {} THEN NoRoute
        ELSE LET f == (CHOOSE e \in fs : TRUE).tmpl[lvl] IN Try(f, kw \cup {[n |-> f.s, v |-> seg]})

DMatch(rs, p) == Dfs(rs, <<>>, Segments(p), {})


-----------------------------------------------------------------------------
(* sink prefixes: a compiled regular expression matched at the START of the path; the NAMED groups that
   took part in the match arrive as keyword arguments, unnamed groups never do.  Pattern language (tokens):
     flags    (first token only) the flags of the expression, see SinkMatch
     lit      literal text
     digits   (?P<name>\d+)          seg    (?P<name>[^/]+)          named groups (s = the name)
     udigits  (\d+)                  useg   ([^/]+)                  the same, unnamed
     ualt     (x|y|..)               unnamed alternation of literals, s = the alternatives joined by "|";
                                     no alternative is a prefix of another
     optlit   (text)?                unnamed optional group, LAST token only, text starts with "/"
     optrest  (/REST)?$              unnamed optional group "/" + any text (REST = dot star) + end anchor, LAST token only
     optndig  (?:text(?P<name>\d+))?      optnseg  (?:text(?P<name>[^/]+))?     a named group inside an optional
     optcdig  (text(?P<name>\d+))?        optcseg  (text(?P<name>[^/]+))?       non-capturing / capturing group;
                                     s = text "|" name, text starts with "/".  The optional group takes part if
                                     it can AND the rest of the pattern then matches (greedy, with backtracking to
                                     "skipped").  A named group that did not take part still arrives as a keyword
                                     argument: its value is NONE (Python: None).
   A run group (digits / seg / udigits / useg) is followed by the end of the pattern, by a literal starting
   with "/" or by a trailing optional token, so greedy matching needs no backtracking (WellFormedSink). *)
BAR == 124
RunKinds == {"digits", "seg", "udigits", "useg"}
NamedKinds == {"digits", "seg"}
OptKinds == {"optlit", "optrest"}
OptNamedKinds == {"optndig", "optnseg", "optcdig", "optcseg"}
NONE == <<-1>>                       \* the value of a named group that did not take part in the match
OptText(tok) == SplitOn(tok.s, BAR)[1]
OptName(tok) == SplitOn(tok.s, BAR)[2]
WellFormedSink(pat) ==
    \A i \in 1..Len(pat) :
        /\ pat[i].k = "flags" => i = 1
        /\ pat[i].k \in OptKinds => (i = Len(pat) /\ (pat[i].k = "optrest" \/ (pat[i].s # <<>> /\ Head(pat[i].s) = SLASH)))
        /\ ((pat[i].k \in RunKinds \cup OptNamedKinds) /\ i < Len(pat)) =>
               \/ pat[i + 1].k \in OptKinds \cup OptNamedKinds
               \/ (pat[i + 1].k = "lit" /\ pat[i + 1].s # <<>> /\ Head(pat[i + 1].s) = SLASH)
        /\ pat[i].k \in OptNamedKinds => /\ Len(SplitOn(pat[i].s, BAR)) = 2
                                          /\ OptText(pat[i]) # <<>> /\ Head(OptText(pat[i])) = SLASH /\ OptName(pat[i]) # <<>>
        /\ pat[i].k = "ualt" => LET A == SplitOn(pat[i].s, BAR)
                                IN  \A x \in 1..Len(A), y \in 1..Len(A) : x # y => ~IsPrefix(A[x], A[y])

RECURSIVE RunLen(_, _, _)
RunLen(p, i, digitsOnly) ==          \* length of the maximal run of group characters from 1-based position i
    IF i > Len(p) \/ p[i] = SLASH \/ (digitsOnly /\ ~IsDigit(p[i])) THEN 0 ELSE 1 + RunLen(p, i + 1, digitsOnly)

(* case folding for IGNORECASE (ASCII letters) *)
Fold(c) == IF c >= 65 /\ c <= 90 THEN c + 32 ELSE c
FoldText(t) == [j \in 1..Len(t) |-> Fold(t[j])]
At(p, d, i, ci) == IF ci THEN i + Len(d) <= Len(p) /\ FoldText(Slice(p, i, i + Len(d))) = FoldText(d) ELSE IsAt(p, d, i)

NoSink == [found |-> FALSE, kw |-> {}]
RECURSIVE SinkFromF(_, _, _, _, _)
SinkFromF(pat, p, i, kw, ci) ==      \* i: 0-based offset into p; ci: literal text is compared ignoring case
    IF pat = <<>> THEN [found |-> TRUE, kw |-> kw]
    ELSE LET tok == Head(pat)
         IN  CASE tok.k = "lit" ->
                    (IF At(p, tok.s, i, ci) THEN SinkFromF(Tail(pat), p, i + Len(tok.s), kw, ci) ELSE NoSink)
               [] tok.k \in RunKinds ->
                    LET r == RunLen(p, i + 1, tok.k \in {"digits", "udigits"})
                    IN  IF r = 0 THEN NoSink
                        ELSE SinkFromF(Tail(pat), p, i + r,
                                       IF tok.k \in NamedKinds THEN kw \cup {[n |-> tok.s, v |-> Slice(p, i, i + r)]} ELSE kw, ci)
               [] tok.k = "ualt" ->
                    LET A == SplitOn(tok.s, BAR)
                        H == {x \in 1..Len(A) : At(p, A[x], i, ci)}
                    IN  IF H = {} THEN NoSink
                        ELSE SinkFromF(Tail(pat), p, i + Len(A[CHOOSE x \in H : TRUE]), kw, ci)
               [] tok.k = "optlit" ->           \* takes part or not: the named groups before it are delivered either way
                    SinkFromF(Tail(pat), p, IF At(p, tok.s, i, ci) THEN i + Len(tok.s) ELSE i, kw, ci)
               [] tok.k = "optrest" ->
                    (IF i = Len(p) \/ p[i + 1] = SLASH THEN SinkFromF(Tail(pat), p, Len(p), kw, ci) ELSE NoSink)
               [] tok.k \in OptNamedKinds ->
                    LET lit  == OptText(tok)
                        j    == i + Len(lit)
                        r    == IF At(p, lit, i, ci) THEN RunLen(p, j + 1, tok.k \in {"optndig", "optcdig"}) ELSE 0
                        with == IF r = 0 THEN NoSink
                                ELSE SinkFromF(Tail(pat), p, j + r, kw \cup {[n |-> OptName(tok), v |-> Slice(p, j, j + r)]}, ci)
                    IN  IF with.found THEN with
                        ELSE SinkFromF(Tail(pat), p, i, kw \cup {[n |-> OptName(tok), v |-> NONE]}, ci)
(* the matcher of a sink is its pattern WITH its flags: a first token [k |-> "flags", s |-> letters] carries the flags
   of a precompiled expression (or an inline (?i)); "i" (105) = IGNORECASE changes what matches; VERBOSE / DOTALL / ASCII
   change only how the same pattern is written and are forms the harness rotates over *)
HasFlags(pat) == pat # <<>> /\ Head(pat).k = "flags"
IgnoreCase(pat) == HasFlags(pat) /\ \E j \in 1..Len(Head(pat).s) : Head(pat).s[j] = 105
Body(pat) == IF HasFlags(pat) THEN Tail(pat) ELSE pat
SinkFrom(pat, p, i, kw) == SinkFromF(pat, p, i, kw, FALSE)
SinkMatch(pat, p) == SinkFromF(Body(pat), p, 0, {}, IgnoreCase(pat))
GroupNames(pat) == {pat[i].s : i \in {j \in 1..Len(pat) : pat[j].k \in NamedKinds}}
                   \cup {OptName(pat[i]) : i \in {j \in 1..Len(pat) : pat[j].k \in OptNamedKinds}}

(* static routes: the prefix is completed with "/" and compared as text; with a fallback file the
   bare prefix matches too.  `prefix` is the prefix WITHOUT a trailing "/": whether the application wrote
   "/a" or "/a/" makes no difference (the spelling is kept in the assembly call only, for the replay) *)
StaticMatch(s, p) == IsPrefix(s.prefix \o <<SLASH>>, p) \/ (s.fb /\ p = s.prefix)
Remainder(s, p) == Drop(p, Len(s.prefix) + 1)
(* what a static route that was picked does with the remainder (observation function only; C16 owns
   the details): it answers 404 itself for an empty remainder without fallback, for a remainder that
   starts with "/", contains "//" or ends with "."; otherwise it serves a file (the harness provides one) *)
Serves(s, p) ==
    LET r == Remainder(s, p)
    IN  /\ (r # <<>> \/ s.fb)
        /\ (r = <<>> \/ (Head(r) # SLASH /\ r[Len(r)] # 46))
        /\ \A i \in 1..(Len(r) - 1) : ~(r[i] = SLASH /\ r[i + 1] = SLASH)

-----------------------------------------------------------------------------
(* the decision *)
Fb(kind, id, x) == [kind |-> kind, id |-> id, x |-> x]
Fallbacks == LET S == [i \in 1..Len(sinks) |-> Fb("sink", sinks[i].id, i)]
                 T == [i \in 1..Len(statics) |-> Fb("static", statics[i].id, i)]
             IN  IF sbs THEN S \o T ELSE T \o S
FbMatches(f, p) == IF f.kind = "sink" THEN SinkMatch(sinks[f.x].pat, p).found ELSE StaticMatch(statics[f.x], p)

Out(kind, id, sfx, kw, hasAllow, allow) ==
    [kind |-> kind, id |-> id, sfx |-> sfx, kw |-> kw, hasAllow |-> hasAllow, allow |-> allow]

RECURSIVE Scan(_, _)
Scan(fbs, p) ==
    IF fbs = <<>> THEN Out("NotFound", -1, "", {}, FALSE, {})
    ELSE LET f == Head(fbs)
         IN  IF FbMatches(f, p)
             THEN (IF f.kind = "sink" THEN Out("Sink", f.id, "", SinkMatch(sinks[f.x].pat, p).kw, FALSE, {})
                                      ELSE Out("Static", f.id, "", {}, FALSE, {}))
             ELSE Scan(Tail(fbs), p)

Advertised(e) == e.impl \ Meta                 \* the HTTP methods the resource implements

ViaRoute(m, r) ==
    LET e == EntryAt(routes, r.tmpl)
    IN  IF m \in e.impl THEN Out("Responder", e.rid, e.sfx, r.kw, FALSE, {})
        ELSE IF m = "OPTIONS" THEN Out("AutoOptions", e.rid, e.sfx, {}, TRUE, Advertised(e))
        ELSE IF m \in Combined THEN Out("NotAllowed", e.rid, e.sfx, {}, TRUE, Advertised(e) \cup {"OPTIONS"})
        ELSE Out("BadMethod", e.rid, e.sfx, {}, FALSE, {})     \* a method falcon does not know, on a routed path: 400

(* r: result of the route lookup for the path, f: result of the fallback scan for the path *)
OutcomeOf(m, r, f) ==
    IF m \in Meta THEN Out("BadRequest", -1, "", {}, FALSE, {})
    ELSE IF RoutesFirst
         THEN (IF r.found THEN ViaRoute(m, r) ELSE f)
         ELSE (IF f.kind # "NotFound" THEN f ELSE IF r.found THEN ViaRoute(m, r) ELSE f)

Outcome(m, p) == OutcomeOf(m, DMatch(routes, p), Scan(Fallbacks, p))

(* what can be observed: status, who recorded a call (generated responders and sinks log themselves;
   a static route is recognised by the length of the file it serves), keyword arguments, Allow *)
Vis(status, who, id, sfx, kw, hasAllow, allow) ==
    [status |-> status, who |-> who, id |-> id, sfx |-> sfx, kw |-> kw, hasAllow |-> hasAllow, allow |-> allow]

StaticById(id) == CHOOSE i \in 1..Len(statics) : statics[i].id = id
VisibleOf(m, p, o) ==
        CASE o.kind = "Responder"   -> Vis(200, "res", o.id, o.sfx, o.kw, FALSE, {})
          [] o.kind = "Sink"        -> Vis(200, "sink", o.id, "", o.kw, FALSE, {})
          [] o.kind = "AutoOptions" -> Vis(200, "none", -1, "", {}, TRUE, o.allow)
          [] o.kind = "NotAllowed"  -> Vis(405, "none", -1, "", {}, TRUE, o.allow)
          [] o.kind = "BadMethod"   -> Vis(400, "none", -1, "", {}, FALSE, {})
          [] o.kind = "BadRequest"  -> Vis(400, "none", -1, "", {}, FALSE, {})
          [] o.kind = "NotFound"    -> Vis(404, "none", -1, "", {}, FALSE, {})
          [] o.kind = "Static"      ->
                IF m = "OPTIONS" THEN Vis(200, "none", -1, "", {}, TRUE, {"GET"})        \* every static route answers OPTIONS alike
                ELSE IF Serves(statics[StaticById(o.id)], p) THEN Vis(200, "static", o.id, "", {}, FALSE, {})
                ELSE Vis(404, "none", -1, "", {}, FALSE, {})
Visible(m, p) == VisibleOf(m, p, Outcome(m, p))

-----------------------------------------------------------------------------
(* assembly *)
Call(op, ok, id, tmpl, sfx, plain, sfxm, pat, prefix, fb) ==
    [op |-> op, ok |-> ok, id |-> id, tmpl |-> tmpl, sfx |-> sfx, plain |-> plain, sfxm |-> sfxm,
     pat |-> pat, prefix |-> prefix, fb |-> fb, sl |-> FALSE]

Init == /\ routes = {} /\ sinks = <<>> /\ statics = <<>> /\ sbs \in BOOLEAN /\ n = 0
        /\ last = Call("init", TRUE, 0, <<>>, "", {}, {}, <<>>, <<>>, FALSE)

Put(seq, x) == IF NewestFirst THEN <<x>> \o seq ELSE Append(seq, x)

(* the methods a resource implements under a suffix = the methods for which it has a CALLABLE attribute
   on_<method>[_<suffix>].  Attributes of such a name holding data, and whether the resource object itself is
   truthy, are deliberately no part of the model: the harness rotates over them and the decision must not change *)
ImplOf(kind, sfx) == IF sfx = "" THEN kind.plain ELSE kind.sfx

(* effects of the accepted calls (also used, unguarded, by the trace judge) *)
RouteEntry(t, id, kind, sfx) == [tmpl |-> t, rid |-> id, sfx |-> sfx, impl |-> ImplOf(kind, sfx),
                                 ord |-> IF HasEntry(routes, t) THEN OrdOf(EntryAt(routes, t)) ELSE id]
RoutesWith(t, id, kind, sfx) == {e \in routes : e.tmpl # t} \cup {RouteEntry(t, id, kind, sfx)}
SuffixSelectsNothing(kind, sfx) == sfx # "" /\ ImplOf(kind, sfx) = {}

(* add_route(t, resource, suffix=sfx): the entry of an already present template is replaced *)
AddRoute(t, kind, sfx) ==
    /\ n < MaxCalls
    /\ ~SuffixSelectsNothing(kind, sfx)
    /\ ConflictFree(RoutesWith(t, n + 1, kind, sfx))
    /\ routes' = RoutesWith(t, n + 1, kind, sfx)
    /\ n' = n + 1
    /\ last' = Call("route", TRUE, n + 1, t, sfx, kind.plain, kind.sfx, <<>>, <<>>, FALSE)
    /\ UNCHANGED <<sinks, statics, sbs>>

(* a suffix for which the resource has no responder at all: the call raises and changes nothing *)
AddRouteRejected(t, kind, sfx) ==
    /\ n < MaxCalls
    /\ SuffixSelectsNothing(kind, sfx)
    /\ n' = n + 1
    /\ last' = Call("route", FALSE, n + 1, t, sfx, kind.plain, kind.sfx, <<>>, <<>>, FALSE)
    /\ UNCHANGED <<routes, sinks, statics, sbs>>

AddSink(pat) ==
    /\ n < MaxCalls
    /\ sinks' = Put(sinks, [id |-> n + 1, pat |-> pat])
    /\ n' = n + 1
    /\ last' = Call("sink", TRUE, n + 1, <<>>, "", {}, {}, pat, <<>>, FALSE)
    /\ UNCHANGED <<routes, statics, sbs>>

(* add_static_route(prefix or prefix + "/", dir [, fallback_filename]); sl: written with a trailing slash *)
AddStaticSpelled(prefix, fb, sl) ==
    /\ n < MaxCalls
    /\ statics' = Put(statics, [id |-> n + 1, prefix |-> prefix, fb |-> fb])
    /\ n' = n + 1
    /\ last' = [Call("static", TRUE, n + 1, <<>>, "", {}, {}, <<>>, prefix, fb) EXCEPT !.sl = sl]
    /\ UNCHANGED <<routes, sinks, sbs>>
AddStatic(prefix, fb) == AddStaticSpelled(prefix, fb, FALSE)

Next == \/ \E t \in Templates, k \in ResKinds, s \in {"", "s"} : AddRoute(t, k, s) \/ AddRouteRejected(t, k, s)
        \/ \E pat \in SinkPats : AddSink(pat)
        \/ \E pre \in StaticPrefixes, fb \in BOOLEAN, sl \in BOOLEAN : AddStaticSpelled(pre, fb, sl)

Spec == Init /\ [][Next]_vars

-----------------------------------------------------------------------------
(* the property, clause by clause, for one request (m, p) with decision o.  c is the declarative
   reading of the path: c.p the path, c.segs its segments, c.hit whether some route template matches it, c.S / c.T
   the positions of the sinks / static routes that match it. *)
SegsMatch(t, segs) == Len(t) = Len(segs) /\ \A i \in 1..Len(t) : SegHit(t[i], segs[i]).ok
(* the fields of template t with the values the segments give them *)
TmplKw(t, segs) == UNION {SegHit(t[i], segs[i]).kw : i \in 1..Len(t)}
(* a multi-field segment read back: its literal chunks and the (non-empty) values of its fields, in order, ARE the segment *)
CxRebuilds(s, seg, kw) ==
    LET its == CxItems(s)
        val(f) == (CHOOSE x \in kw : x.n = f).v
    IN  /\ \A j \in DOMAIN its : its[j].t = "fld" => /\ Cardinality({x \in kw : x.n = its[j].f}) = 1
                                                     /\ val(its[j].f) # <<>>
        /\ Concat([j \in DOMAIN its |-> IF its[j].t = "fld" THEN val(its[j].f) ELSE its[j].v]) = seg
PathFacts(p) ==
    LET segs == Segments(p)
    IN  [p    |-> p,
         segs |-> segs,
         hit  |-> \E e \in routes : SegsMatch(e.tmpl, segs),
         S    |-> {i \in 1..Len(sinks) : SinkMatch(sinks[i].pat, p).found},
         T    |-> {i \in 1..Len(statics) : StaticMatch(statics[i], p)}]
MaxId(seq, S) == CHOOSE id \in {seq[i].id : i \in S} : \A j \in S : seq[j].id <= id

(* a route always masks sinks and static routes; without a route hit no resource is involved *)
RouteMasksFallbacks(m, c, o) ==
    m \notin Meta => (c.hit <=> o.kind \in {"Responder", "AutoOptions", "NotAllowed", "BadMethod"})

(* otherwise the most recently added matching sink or static route, sinks and statics in the configured order *)
Lifo(m, c, o) ==
    (m \notin Meta /\ ~c.hit) =>
          /\ (c.S = {} /\ c.T = {}) <=> o.kind = "NotFound"
          /\ o.kind = "Sink"   => /\ c.S # {} /\ o.id = MaxId(sinks, c.S)
                                  /\ (c.T = {} \/ sbs)
          /\ o.kind = "Static" => /\ c.T # {} /\ o.id = MaxId(statics, c.T)
                                  /\ (c.S = {} \/ ~sbs)
          /\ o.kind \in {"Sink", "Static", "NotFound"}

(* 405: exactly the implemented HTTP methods plus OPTIONS; automatic OPTIONS: exactly the implemented ones *)
AllowExact(m, c, o) ==
    /\ o.kind = "NotAllowed"  => \E e \in routes : /\ e.rid = o.id /\ m \notin e.impl
                                                   /\ o.hasAllow /\ o.allow = (e.impl \ Meta) \cup {"OPTIONS"}
    /\ o.kind = "AutoOptions" => \E e \in routes : /\ e.rid = o.id /\ m = "OPTIONS" /\ "OPTIONS" \notin e.impl
                                                   /\ o.hasAllow /\ o.allow = e.impl \ Meta
    /\ o.hasAllow => (o.allow \cap Meta = {} /\ o.allow \subseteq Combined)
    /\ o.hasAllow <=> o.kind \in {"NotAllowed", "AutoOptions"}

(* a responder runs only if the resource implements the method under the suffix the route was added with *)
SuffixIsolation(m, c, o) ==
    o.kind = "Responder" => \E e \in routes : e.rid = o.id /\ e.sfx = o.sfx /\ m \in e.impl /\ SegsMatch(e.tmpl, c.segs)

(* keyword arguments are exactly the template's fields (with the path's segments as values) / the
   prefix's named groups *)
KwargsAreFields(m, c, o) ==
    /\ o.kind = "Responder" => \E e \in routes : /\ e.rid = o.id /\ SegsMatch(e.tmpl, c.segs)
                                                 /\ {x.n : x \in o.kw} = {x.n : x \in TmplKw(e.tmpl, c.segs)}
                                                 /\ Cardinality(o.kw) = Cardinality({x.n : x \in o.kw})
                                                 /\ \A i \in 1..Len(e.tmpl) :
                                                       /\ e.tmpl[i].k = "var" => [n |-> e.tmpl[i].s, v |-> c.segs[i]] \in o.kw
                                                       /\ e.tmpl[i].k = "cx" => CxRebuilds(e.tmpl[i].s, c.segs[i], o.kw)
    /\ o.kind = "Sink" => \E i \in 1..Len(sinks) : /\ sinks[i].id = o.id
                                                   /\ {x.n : x \in o.kw} = GroupNames(sinks[i].pat)     \* the named groups, all of them,
                                                   /\ Cardinality(o.kw) = Cardinality(GroupNames(sinks[i].pat))   \* one value each,
                                                   /\ \A x \in o.kw : x.v = NONE \/ (x.v # <<>> /\ Occurs(c.p, x.v))   \* a non-empty piece of the path, or NONE
    /\ o.kind \notin {"Responder", "Sink"} => o.kw = {}

(* HTTP requests with the WEBSOCKET pseudo-method are refused before routing *)
MetaRefused(m, c, o) == m \in Meta => o.kind = "BadRequest"
=========================================================================
