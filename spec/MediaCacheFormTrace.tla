-------------------------- MODULE MediaCacheFormTrace --------------------------
(* Trace judge for the form round trip.  A trace is one real round trip:
     [media, out: "ok" | "renderfail" | "readfail", back]
   media as in MediaCacheForm (scalar / name ids index the harness' table of distinct texts);
   back: the mapping the request side returned, as Seq([n, xs]) in its own iteration order, a
   string value given as a one-element xs; single[i] tells whether entry i was a string (TRUE)
   or a list.
     P:exc     serialising the documented media form, or reading it back, failed
     P:form    the mapping read back is not the one MediaCacheForm!Parse(Flatten(media)) gives
     P:shape   right strings, but a single value came back as a list or several as a string   *)
EXTENDS MediaCacheForm, Json, IOUtils
Traces == JsonDeserialize(IOEnv.TRACE_FILE)
VARIABLES tid, l
tvars == <<tid, l, media, wire, back, phase>>
T == Traces[tid]
TInit == tid \in 1..Len(Traces) /\ l = 1 /\ media = Traces[tid].media /\ wire = <<>> /\ back = <<>> /\ phase = 0
Verdict == IF T.out # "ok" THEN "P:exc"
           ELSE IF T.back # back THEN "P:form"
           ELSE IF \E i \in DOMAIN back : T.single[i] # (Len(back[i].xs) = 1) THEN "P:shape"
           ELSE "ok"
Step == l = 1 /\ Next /\ UNCHANGED <<tid, l>>
Done == l = 1 /\ phase = 2 /\ PrintT(<<"VERDICT", tid, Verdict, 1>>) /\ l' = -1 /\ UNCHANGED <<tid, media, wire, back, phase>>
TNext == Step \/ Done
Sound == FormLaw
================================================================================
