-------------------------- MODULE ResponseEmitTrace --------------------------
(* Trace judge for C05.  Reads a JSON list of observations recorded from the real framework under
   the independent PEP 3333 / ASGI monitors:
     [c: the case (see ResponseEmit), ev: the server-visible events start/body/eof with the
      projected header values (cl, ct), pieces: the received body as a list of source pieces
      [src, idx] (for a file-like read in blocks of the framework's choosing - kind filefull - the
      segments wholly received), begun, closes: what the stream double saw (closes = close() calls on
      the very object assigned to resp.stream, not on an iterator derived from it), raised / sendFailed: an injected
      fault really fired, renderFailed: body rendering raised the injected fault (handled by an
      error handler: the response judged is the re-filled one, ResponseEmit!Eff), renderFails:
      how many renderings raised, exc: an exception escaped the application callable, errors: number of
      protocol errors the monitor reported]
   Every trace is one initial state.  The judge is total: it consumes every event, evaluates the
   clauses of ResponseEmit (the very operators that are the invariants of the emission machine)
   on every prefix and on the finished observation, and records the first failing clause.
     P:ExactlyOneStart  P:OnlyLastHasNoMoreBody  P:NothingAfterFinal  P:BodilessHaveNoBytes
     P:TypelessHaveNoFrameworkType  P:OthersHaveType  P:StatusLineWellFormed   (on every prefix)
     P:Exception   an exception reached the server although no fault was injected
     P:Protocol    the protocol monitor reported an error (status line, header types, ...)
     P:Precedence  P:LengthConsistent  P:CloseExactlyOnceOnceBegun   (on the finished observation) *)
EXTENDS Integers, Sequences, TLC, Json, IOUtils

Traces == JsonDeserialize(IOEnv.TRACE_FILE)

VARIABLES tid, l, verdict
vars == <<tid, l, verdict>>

T == Traces[tid]

(* the machine's variables are bound to the observation; only the clause operators are used *)
RE == INSTANCE ResponseEmit WITH RenderSetsType <- FALSE, BodilessByLine <- FALSE, ForgetCloseOnFault <- FALSE, StaleLengthOnRenderFault <- FALSE, StatusStringAsIs <- FALSE, ReturnOnDisconnect <- FALSE,
          c0 <- T.c, c <- T.c, pc <- "done", ev <- T.ev, k <- 0, hand <- -1, sends <- 0,
          begun <- T.begun, closes <- T.closes, raised <- T.raised, sendFailed <- T.sendFailed

(* the response the clauses speak about *)
C == IF T.renderFailed THEN RE!Eff(T.c, T.renderFails >= 2, T.begun) ELSE T.c
Faulted  == T.raised \/ T.sendFailed
Complete == ~Faulted /\ ~T.exc
Prefix(n) == [c |-> C, ev |-> SubSeq(T.ev, 1, n), pieces |-> <<>>, begun |-> T.begun, closes |-> 0,
              complete |-> FALSE, ended |-> FALSE]
Whole     == [c |-> C, ev |-> T.ev, pieces |-> T.pieces, begun |-> T.begun, closes |-> T.closes,
              complete |-> Complete, ended |-> TRUE]

JudgePrefix(o) ==
    IF ~RE!ExactlyOneStartC(o) THEN "P:ExactlyOneStart"
    ELSE IF ~RE!NothingAfterFinalC(o) THEN "P:NothingAfterFinal"
    ELSE IF ~RE!OnlyLastHasNoMoreBodyC(o) THEN "P:OnlyLastHasNoMoreBody"
    ELSE IF ~RE!BodilessHaveNoBytesC(o) THEN "P:BodilessHaveNoBytes"
    ELSE IF ~RE!TypelessHaveNoFrameworkTypeC(o) THEN "P:TypelessHaveNoFrameworkType"
    ELSE IF ~RE!OthersHaveTypeC(o) THEN "P:OthersHaveType"
    ELSE IF ~RE!StatusLineWellFormedC(o) THEN "P:StatusLineWellFormed"
    ELSE "ok"

JudgeWhole(o) ==
    IF T.exc /\ ~Faulted THEN "P:Exception"
    ELSE IF T.errors > 0 THEN "P:Protocol"
    ELSE IF ~RE!ExactlyOneStartC(o) THEN "P:ExactlyOneStart"
    ELSE IF ~RE!OnlyLastHasNoMoreBodyC(o) THEN "P:OnlyLastHasNoMoreBody"
    ELSE IF ~RE!PrecedenceC(o) THEN "P:Precedence"
    ELSE IF ~RE!LengthConsistentC(o) THEN "P:LengthConsistent"
    ELSE IF ~RE!CloseExactlyOnceOnceBegunC(o) THEN "P:CloseExactlyOnceOnceBegun"
    ELSE "ok"

Init == tid \in 1..Len(Traces) /\ l = 1 /\ verdict = "ok"

Step ==
    /\ l >= 1 /\ l <= Len(T.ev) /\ verdict = "ok"
    /\ verdict' = JudgePrefix(Prefix(l))
    /\ l' = l + 1 /\ UNCHANGED tid

Finish ==
    /\ l = Len(T.ev) + 1 /\ verdict = "ok"
    /\ verdict' = JudgeWhole(Whole)
    /\ l' = l + 1 /\ UNCHANGED tid

Done ==
    /\ l >= 1 /\ (l > Len(T.ev) + 1 \/ verdict # "ok")
    /\ PrintT(<<"VERDICT", tid, verdict, l - 1>>)
    /\ l' = -1 /\ UNCHANGED <<tid, verdict>>

Next == Step \/ Finish \/ Done
Spec == Init /\ [][Next]_vars
Sound == l >= -1
===============================================================================
