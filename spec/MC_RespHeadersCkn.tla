------------------------ MODULE MC_RespHeadersCkn ------------------------
(* C15: bounded instance for the alphabet of cookie NAMES (operators: RespHeadersOps, "cookie NAMES").
   A module of its own so that the other instances of MC_RespHeaders need not assign its constants. *)
EXTENDS MC_RespHeaders
(* ---- cookie NAMES: law + decision table (MC_RespHeadersCkn*.cfg) ------------------------ *)
(* every name of at most CknLen characters over CknAlpha (the instance lists the complete token alphabet - the 15
   special characters, every digit, every letter - all 17 separators, blank, TAB, controls, DEL, non-ASCII): so each
   character stands at the start, in the middle and at the end of a name, and names made of specials only occur.
   The law: a name the writer accepts, sent back in one Cookie header with two cookies before it (one with a quoted
   value holding ";" and "=") and two after it (one empty), is read back under the same name with the same value and the
   neighbours keep theirs.  CknHttpCookies = TRUE is the wrong design "accept what http.cookies accepts" (colon).
   A name is exported (for the replay on set_cookie / unset_cookie -> Set-Cookie line -> Cookie header -> both Request
   classes) when it is at most CknEmitLen long or drawn from CknEmitAlpha. *)
CONSTANTS CknAlpha, CknAlpha3, CknLen, CknHttpCookies, CknEmitLen, CknEmitAlpha
CknFullAlpha == CknSpecials \cup CknSeparators \cup (48..57) \cup (65..90) \cup (97..122) \cup {32, 9, 0, 1, 10, 13, 31, 127, 128, 233, 255, 8364}
CknSmallAlpha == CknSpecials \cup {58, 59, 61, 44, 47, 34, 92, 40, 64, 91, 123} \cup {48, 97, 32, 1, 233}    \* quick: 3-character names
CknValue  == <<107, 61, 118, 32, 34>>                                 \* k=v "   (goes out quoted; holds "=" and a quote)
CknBefore == << [n |-> <<98, 101, 102, 48>>, v |-> <<118, 49>>],       \* bef0=v1
                [n |-> <<98, 101, 102, 49>>, v |-> <<120, 59, 121, 61, 122>>] >>   \* bef1="x\073y=z"
CknAfter  == << [n |-> <<97, 102, 116, 48>>, v |-> <<>>],              \* aft0=""
                [n |-> <<97, 102, 116, 49>>, v |-> <<119, 50>>] >>     \* aft1=w2
CknAccepted(n) == IF CknHttpCookies THEN CookieNameLegalHttpCookies(n) ELSE CookieNameLegal(n)
CknRec(n) == [n |-> n, legal |-> CookieNameLegal(n), accepted |-> CknAccepted(n),
                    hdr |-> IF CknAccepted(n) THEN CookieHeader(CknBefore \o <<[n |-> n, v |-> CknValue]>> \o CknAfter) ELSE <<>>]
(* the names grow by one character per step, so that TLC's workers share the enumeration: names of at most 2
   characters over CknAlpha, names of 3 characters over CknAlpha3 *)
CknInit == Init /\ sd = TRUE /\ h = CknRec(<<>>)
CknNext == /\ Len(h.n) < CknLen
           /\ \E c \in (IF Len(h.n) < 2 THEN CknAlpha
                        ELSE IF \A i \in 1..2 : h.n[i] \in CknAlpha3 THEN CknAlpha3 ELSE {}) : h' = CknRec(Append(h.n, c))
           /\ UNCHANGED vars
CookieNameRoundTrip == CookieNameRoundTripOf(h.accepted, h.n, CknValue, CknBefore, CknAfter)
(* an accepted name stands in the header verbatim, right after the "; " that ends its predecessor *)
CookieNameVerbatim == h.accepted => (\E i \in 1..Len(h.hdr) : SubSeq(h.hdr, i, i + Len(h.n) + 2) = <<59, 32>> \o h.n \o <<61>>)
(* the refused characters: one separator / blank / control / non-ASCII character anywhere makes the name illegal *)
CookieNameRefusals == h.legal = (h.n # <<>> /\ \A i \in 1..Len(h.n) :
                                    h.n[i] \notin CknSeparators /\ h.n[i] > 32 /\ h.n[i] < 127)
(* the neighbours and the value are the same for every name: exported once, with the empty name *)
CknEmit == (Len(h.n) <= CknEmitLen \/ \A i \in 1..Len(h.n) : h.n[i] \in CknEmitAlpha) =>
           IF h.n = <<>> THEN PrintT(ToJson([n |-> h.n, legal |-> h.legal, value |-> CknValue, before |-> CknBefore, after |-> CknAfter]))
           ELSE PrintT(ToJson([n |-> h.n, legal |-> h.legal]))
============================================================================
