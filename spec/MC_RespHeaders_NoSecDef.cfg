INIT XInit
NEXT XNext
CONSTANTS
  NoLower = {}
  AppendGuard = TRUE
  FreshCookie = TRUE
  UseSecureDefault = FALSE
  SnapshotDefault = FALSE
  Depth = 3
  Bases = {"x-a", "etag"}
  Casings = {0, 1, 17}
  Vals = {"v1", "v2"}
  DefaultMedia = "application/json"
  Randomized = FALSE
  CkAlpha = {97}
  CkLen = 0
  CkTwoPass = FALSE
  EncLen = 1
INVARIANT XReadBackIsMap
INVARIANT SetCookieGuarded
INVARIANT NoSetCookieInMap
INVARIANT EmitOncePerPlainHeader
INVARIANT AsgiNamesLower
INVARIANT OneLinePerCookieAndRawCookie
INVARIANT CookieExactAttrs
INVARIANT SecureDefaultsFromOption
INVARIANT UnsetExpires
PROPERTY XSetCookieUntouched
