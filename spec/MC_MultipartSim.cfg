INIT SimInit
NEXT MCNext
CONSTANTS
  CharsetClass <- MCCharsetClass
  DelimWithCRLF = TRUE
  PartPool <- MCPartPool
  EnvPool <- MCEnvPool
  LimitsOf <- MCLimitsOf
  Sizes <- SimSizes
  RDelims <- MCRDelims
  MaxParts = 3
  MaxOps = 2
  MaxRetry = 1
  ContentSel = {1, 2, 3, 4, 5, 6, 7, 8, 9, 10, 11, 12}
  ProfileSel = {1, 2, 3, 4, 7, 8, 9, 10, 11}
  UseJson = TRUE
  BoundarySel = {1, 2, 3, 4, 5}
  PreSel = {1, 2, 3}
  EpiSel = {1, 2, 3}
  FinSel = {TRUE, FALSE}
  LimModes = {"base", "count", "hdr", "buf"}
  EditPos <- NoPos
  EditKinds = {}
  EditVals = {}
  Depth = 14
INVARIANT ParseOfEncodeIsForm
INVARIANT QuotedRoundTrip
INVARIANT LimitsExactAtThreshold
INVARIANT Emit
