---------------------------- MODULE MC_MediaCacheResp ----------------------------
EXTENDS MediaCacheResp, Json
VARIABLE h
CONSTANT Depth
Keep == UNCHANGED h
Log  == Len(h) < Depth /\ h' = Append(h, last')
XAssignNew == AssignNew /\ Keep
XMutateAssignSame == MutateAssignSame /\ Keep
XAssignSame == AssignSame /\ Keep
XAssignNone == AssignNone /\ Keep
XRender == Render /\ Keep
XSetData == (\E b \in BOOLEAN : SetData(b)) /\ Keep
XSetText == (\E b \in BOOLEAN : SetText(b)) /\ Keep
XNext == XAssignNew \/ XMutateAssignSame \/ XAssignSame \/ XAssignNone \/ XRender \/ XSetData \/ XSetText
ANext == (AssignNew /\ Log) \/ (MutateAssignSame /\ Log) \/ (AssignSame /\ Log) \/ (AssignNone /\ Log) \/ (Render /\ Log)
         \/ ((\E b \in BOOLEAN : SetData(b)) /\ Log) \/ ((\E b \in BOOLEAN : SetText(b)) /\ Log)
MCInit == Init /\ h = <<>>
(* a behaviour = the statements (with what render_body returned) + the body finally sent *)
Emit == (Len(h) = Depth) => PrintT(ToJson([rtype |-> rtype, ev |-> h, sent |-> Body]))
==================================================================================
