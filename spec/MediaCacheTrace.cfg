INIT TInit
NEXT TNext
CONSTANTS
  Stacks = {"wsgi", "asgi"}
  Framings <- AnyFraming
  CTypes = {"json", "form", "none"}
  HandlerOf <- IdHandler
  BodyKinds = {"empty", "valid", "truncated", "badenc", "hookfail", "blank", "padded"}
  CacheError = TRUE
  CacheDefault = FALSE
  HandlerDecidesEmpty = TRUE
  KeepFirstError = TRUE
  Contexts = {"plain", "except", "exceptself", "mw", "errh"}
INVARIANT Sound
