-------------------------- MODULE HandlersTrace --------------------------
(* Trace judge for C11b.  A trace is [init: mapping of object 1, ev: events]; an event is one
   public call on a falcon.media.Handlers object (or one resolution made through
   Request.get_media / Response.render_body / Request.get_param_as_json) logged at its return:
     [op, o, k, h, pairs, ct, d, r, res, exc, map]
   res: handler id returned / resolved (0 = none), exc: "none" | "keyerror" | "415" | "other" |
        "raised" (updatefail: the caller's own exception came back out of update(), as it must),
   map: the mapping of the object as its public view reports it after the call
        (for copy: the mapping of the new object).
   Every event is replayed with the action of Handlers.tla it stands for.  Total: the first
   failing P-clause goes to `verdict`, the first failing D-clause to `dnote`.
     P:exc     an exception that is neither KeyError nor the 415 error escaped
     P:stale   a resolution returned a handler the CURRENT mapping (as the object itself
               reports it) does not designate for that type by the matching rule
     P:first   no key is literally equal to the effective type, and the handler returned is not the one under
               the FIRST registered key of maximal positive quality (the matching rule's best match)
     P:415     "unsupported" although a key of the current mapping matches, or a handler
               although none matches; or the error was (not) raised against raise_not_found
     D:which   a designated handler, but not the one Handlers!Designated picks (exact key
               first, then first of maximal quality)
     D:map     the mapping reported after the call differs from the model's
     D:ret     return value / KeyError of pop, setdefault, del differs from the model's      *)
EXTENDS Handlers, Json, IOUtils

Traces == JsonDeserialize(IOEnv.TRACE_FILE)

VARIABLES tid, l, verdict, dnote, ns
tvars == <<tid, l, verdict, dnote, ns, objs, last>>

T == Traces[tid]

TInit == /\ tid \in 1..Len(Traces) /\ l = 1 /\ verdict = "ok" /\ dnote = "ok" /\ ns = 0
         /\ objs = <<[map |-> Traces[tid].init, memo |-> {}]>>
         /\ last = Rec("init", 0, NOKEY, 0, NOCT, NOKEY, FALSE, 0, FALSE)

Valid(e) == /\ e.o \in DOMAIN objs
            /\ e.op \in {"set", "del", "pop", "update", "updatefail", "clear", "setdefault", "copy", "resolve"}
            /\ e.op = "copy" => objs[e.o].map # <<>>

Act(e) == CASE e.op = "set"        -> Set(e.o, e.k, e.h)
            [] e.op = "del"        -> Del(e.o, e.k)
            [] e.op = "pop"        -> Pop(e.o, e.k, e.r)
            [] e.op = "update"     -> Update(e.o, e.pairs)
            [] e.op = "updatefail" -> UpdateFail(e.o, e.pairs)
            [] e.op = "clear"      -> Clear(e.o)
            [] e.op = "setdefault" -> SetDefault(e.o, e.k, e.h)
            [] e.op = "copy"       -> Copy(e.o)
            [] e.op = "resolve"    -> Resolve(e.o, e.ct, e.d, e.r)

(* clauses the property states; judged against the mapping the object itself reports *)
JudgeP(e) ==
    IF e.exc = "other" \/ (e.exc = "raised") # (e.op = "updatefail") THEN "P:exc"
    ELSE IF e.op # "resolve" THEN "ok"
    ELSE LET ds == DesignatedSet(e.map, e.ct, e.d) IN
         IF e.res # NONE /\ e.res \notin ds THEN "P:stale"
         ELSE IF e.res # NONE /\ ~ShortcutApplies(e.map, e.ct, e.d) /\ e.res # RuleDesignated(e.map, e.ct, e.d) THEN "P:first"
         ELSE IF (e.res = NONE) # (ds = {}) THEN "P:415"
         ELSE IF (e.exc = "415") # (e.res = NONE /\ e.r) THEN "P:415"
         ELSE "ok"

(* evidence counter: resolutions of a type that is NOT literally a key while >= 2 keys of the reported mapping have
   maximal positive quality under different handlers (only P:first tells them apart) *)
Informative(e) == /\ e.op = "resolve" /\ ~ShortcutApplies(e.map, e.ct, e.d)
                  /\ Cardinality(DesignatedSet(e.map, e.ct, e.d)) >= 2

(* model detail; x = the model's record of the call, m = the model's mapping afterwards *)
JudgeD(e, x, m) ==
    IF e.map # m THEN "D:map"
    ELSE IF e.op = "resolve" /\ e.res # x.res THEN "D:which"
    ELSE IF e.op \in {"pop", "setdefault", "copy"} /\ e.res # x.res THEN "D:ret"
    ELSE IF e.op \in {"pop", "del"} /\ (e.exc = "keyerror") # x.err THEN "D:ret"
    ELSE "ok"

Step ==
    /\ l >= 1 /\ l <= Len(T.ev) /\ verdict = "ok"
    /\ LET e == T.ev[l] IN
         IF Valid(e)
         THEN /\ Act(e)
              /\ verdict' = JudgeP(e)
              /\ dnote' = IF dnote # "ok" THEN dnote
                          ELSE LET d == JudgeD(e, last', objs'[IF e.op = "copy" THEN Len(objs') ELSE e.o].map)
                               IN IF d = "ok" THEN "ok" ELSE d \o "#" \o ToString(l)
         ELSE /\ verdict' = "H:invalid" /\ UNCHANGED <<objs, last, dnote>>
    /\ ns' = ns + (IF Informative(T.ev[l]) THEN 1 ELSE 0)
    /\ l' = l + 1 /\ UNCHANGED tid

Done ==
    /\ l >= 1 /\ (l > Len(T.ev) \/ verdict # "ok")
    /\ PrintT(<<"VERDICT", tid, IF verdict = "ok" THEN dnote ELSE verdict, l - 1, ns>>)
    /\ l' = -1 /\ UNCHANGED <<tid, verdict, dnote, ns, objs, last>>

TNext == Step \/ Done
TSpec == TInit /\ [][TNext]_tvars
(* the model's own invariants keep holding while it follows the implementation *)
Sound == WellFormedMaps /\ MemoCoherent
==========================================================================
