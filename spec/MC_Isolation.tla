-------------------------- MODULE MC_Isolation --------------------------
EXTENDS Isolation, Json
CONSTANT NR
MCReqs == 1..NR
MCKeys == 1..4
MCKeyOf == [r \in MCReqs |-> r]
AReceive == \E r \in Reqs : Receive(r)
AMemo    == \E r \in Reqs : Memo(r)
AAwait   == \E r \in Reqs : Await(r)
ASend    == \E r \in Reqs : Send(r)
MCNext == AReceive \/ AMemo \/ AAwait \/ ASend
MCSpec == Init /\ [][MCNext]_vars /\ \A r \in Reqs : WF_vars(Step(r))
=========================================================================
