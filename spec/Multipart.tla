----------------------------- MODULE Multipart -----------------------------
(* C13: multipart/form-data.  A client composes a form (AddPart) and encodes it with the
   reference encoder (Seal); the wire may damage the body by one edit (Corrupt, corruption
   instances only); a handler configured with limits receives it (Serve) and the server
   side iterates the parsed form (NextPart) while the application consumes each part.

   The iteration is written as the code does it, as steps of the flat cursor of
   CursorOps over the encoded body: PipeUntil(delimiter, consume), Peek(2) = "--",
   ReadUntil(CRLF, 0, consume), ReadUntil(CRLFCRLF, maxHeaders, consume), header
   filtering, part-count check, Delimit (the part stream is the body cut at the next
   delimiter).  Between two iteration steps the application consumes the yielded part
   as it likes: not at all, partially, fully, through the stream or the buffered
   accessors.  Transport chunking and reader buffering do not occur in this module:
   their absence is part of the property.

   Byte strings are Seq(0..255), text is a sequence of code points, "absent" is NONE. *)
EXTENDS CursorOps, TLC

CONSTANT CharsetClass(_)   \* trusted: what a charset label (bytes) names: "utf8", "bogus" (no such charset) or "other"
CONSTANT DelimWithCRLF    \* design switch.  TRUE: after the first boundary the delimiter is CRLF "--" boundary
                          \* (RFC 7578, 4.1).  FALSE is the wrong design kept for the vacuity run.

NONE  == <<-1>>
CRLF  == <<13, 10>>
CRLF2 == <<13, 10, 13, 10>>
DASH2 == <<45, 45>>
COLSP == <<58, 32>>
QUOTE == <<34>>

H_DISP     == <<67, 111, 110, 116, 101, 110, 116, 45, 68, 105, 115, 112, 111, 115, 105, 116, 105, 111, 110>>   \* Content-Disposition
H_DISP_LC  == <<99, 111, 110, 116, 101, 110, 116, 45, 100, 105, 115, 112, 111, 115, 105, 116, 105, 111, 110>>  \* content-disposition
H_CTYPE    == <<67, 111, 110, 116, 101, 110, 116, 45, 84, 121, 112, 101>>                                      \* Content-Type
H_CTYPE_LC == <<99, 111, 110, 116, 101, 110, 116, 45, 116, 121, 112, 101>>                                     \* content-type
H_CTE      == <<67, 111, 110, 116, 101, 110, 116, 45, 84, 114, 97, 110, 115, 102, 101, 114, 45, 69, 110, 99, 111, 100, 105, 110, 103>>    \* Content-Transfer-Encoding
H_CTE_LC   == <<99, 111, 110, 116, 101, 110, 116, 45, 116, 114, 97, 110, 115, 102, 101, 114, 45, 101, 110, 99, 111, 100, 105, 110, 103>>  \* content-transfer-encoding
V_BINARY   == <<98, 105, 110, 97, 114, 121>>                                                                  \* binary
V_FD       == <<102, 111, 114, 109, 45, 100, 97, 116, 97, 59, 32, 110, 97, 109, 101, 61, 34>>                  \* form-data; name="
V_FILE     == <<59, 32, 102, 105, 108, 101, 110, 97, 109, 101, 61, 34>>                                        \* ; filename="
V_STAR     == <<59, 32, 102, 105, 108, 101, 110, 97, 109, 101, 42, 61, 85, 84, 70, 45, 56, 39, 39>>            \* ; filename*=UTF-8''
X_PART     == <<88, 45, 80, 97, 114, 116, 58, 32, 49>>                                                        \* X-Part: 1
T_PLAIN    == <<116, 101, 120, 116, 47, 112, 108, 97, 105, 110>>                                              \* text/plain
T_PLAIN_CS == <<116, 101, 120, 116, 47, 112, 108, 97, 105, 110, 59, 32, 99, 104, 97, 114, 115, 101, 116, 61, 117, 116, 102, 45, 56>>  \* text/plain; charset=utf-8
T_JSON     == <<97, 112, 112, 108, 105, 99, 97, 116, 105, 111, 110, 47, 106, 115, 111, 110>>                   \* application/json
T_OCTET    == <<97, 112, 112, 108, 105, 99, 97, 116, 105, 111, 110, 47, 111, 99, 116, 101, 116, 45, 115, 116, 114, 101, 97, 109>>  \* application/octet-stream

(* ====================================================================== *)
(* The reference encoder                                                  *)
(* ====================================================================== *)
(* A part is [name, fkind, fname, fback, ctype, hv, content]:
     name    field name, code points
     fkind   0 no filename, 1 plain quoted filename, 2 RFC 5987 extended (filename*=UTF-8''..),
             3 both: plain fallback first, then the extended one; 4 both, the extended one first
     fback   the plain fallback sent next to the extended name (fkind 3, 4), code points
     fname   file name, code points
     ctype   Content-Type value (bytes) or NONE for "no such header"
     hv      header rendering: 0 canonical, 1 lower-case field names, 2 a foreign header
             field first (must be ignored), 3 Content-Transfer-Encoding: binary last (allowed)
     content the exact content bytes *)

Utf8(c) == IF c < 128 THEN <<c>>
           ELSE IF c < 2048 THEN <<192 + (c \div 64), 128 + (c % 64)>>
           ELSE IF c < 65536 THEN <<224 + (c \div 4096), 128 + ((c \div 64) % 64), 128 + (c % 64)>>
           ELSE <<240 + (c \div 262144), 128 + ((c \div 4096) % 64), 128 + ((c \div 64) % 64), 128 + (c % 64)>>
Utf8Seq(s) == Concat([i \in 1..Len(s) |-> Utf8(s[i])])

HexD(n) == IF n < 10 THEN 48 + n ELSE 55 + n
IsAttrChar(x) == (x >= 48 /\ x <= 57) \/ (x >= 65 /\ x <= 90) \/ (x >= 97 /\ x <= 122) \/ x \in {45, 46, 95}
Pct(x) == IF IsAttrChar(x) THEN <<x>> ELSE <<37, HexD(x \div 16), HexD(x % 16)>>
PctSeq(s) == Concat([i \in 1..Len(s) |-> Pct(s[i])])

(* Quoted strings (RFC 2183 / RFC 822): the value goes between double quotes, a double quote and a
   backslash inside it are written \" and \\; nothing else is escaped, so a ";" may occur inside the
   quotes and does not end the parameter.  Quote / Unquote are inverse (QuotedRoundTrip).  A text
   ending in a backslash is excluded: the closing quote after an escaped backslash is where the
   parameter splitter falcon inherited from cgi.parse_header miscounts (recorded observation). *)
QuotableText(s) == /\ \A i \in 1..Len(s) : /\ s[i] \notin {13, 10, 0}
                                           /\ s[i] < 1114112 /\ ~(s[i] >= 55296 /\ s[i] <= 57343)
                   /\ (Len(s) > 0 => s[Len(s)] # 92)
Quote(s) == IF \A i \in 1..Len(s) : s[i] \notin {34, 92} THEN s
            ELSE Concat([i \in 1..Len(s) |-> IF s[i] \in {34, 92} THEN <<92, s[i]>> ELSE <<s[i]>>])
(* a backslash opens an escape iff an even number of backslashes stands immediately before it *)
BackslashRun(q, i) == LET J == {j \in 0..(i - 1) : \A m \in (i - j)..(i - 1) : q[m] = 92}
                      IN  CHOOSE j \in J : \A k \in J : k <= j
Unquote(q) == LET K == SelectSeq([i \in 1..Len(q) |-> i], LAMBDA i : ~(q[i] = 92 /\ BackslashRun(q, i) % 2 = 0))
              IN  [k \in 1..Len(K) |-> q[K[k]]]

PartOk(p) == /\ QuotableText(p.name) /\ QuotableText(p.fname)
             /\ (p.fkind \in {2, 3, 4} => p.fname # <<>>)
             /\ (p.fkind = 0 => p.fname = <<>>)
             /\ QuotableText(p.fback) /\ (p.fkind \notin {3, 4} => p.fback = <<>>)

EncDisp(p) == V_FD \o Utf8Seq(Quote(p.name)) \o QUOTE
              \o (CASE p.fkind = 1 -> V_FILE \o Utf8Seq(Quote(p.fname)) \o QUOTE
                    [] p.fkind = 2 -> V_STAR \o PctSeq(Utf8Seq(p.fname))
                    [] p.fkind = 3 -> V_FILE \o Utf8Seq(Quote(p.fback)) \o QUOTE \o V_STAR \o PctSeq(Utf8Seq(p.fname))
                    [] p.fkind = 4 -> V_STAR \o PctSeq(Utf8Seq(p.fname)) \o V_FILE \o Utf8Seq(Quote(p.fback)) \o QUOTE
                    [] OTHER -> <<>>)

EncHeaders(p) ==
    LET nd == IF p.hv = 1 THEN H_DISP_LC ELSE H_DISP
        nt == IF p.hv = 1 THEN H_CTYPE_LC ELSE H_CTYPE
    IN  (IF p.hv = 2 THEN X_PART \o CRLF ELSE <<>>)
        \o nd \o COLSP \o EncDisp(p)
        \o (IF p.ctype # NONE THEN CRLF \o nt \o COLSP \o p.ctype ELSE <<>>)
        \o (IF p.hv = 3 THEN CRLF \o H_CTE \o COLSP \o V_BINARY ELSE <<>>)

DashB(b) == DASH2 \o b
Delim(b) == CRLF \o DASH2 \o b
EncPart(p, b) == DashB(b) \o CRLF \o EncHeaders(p) \o CRLF2 \o p.content \o CRLF

(* e = [b, pre, epi, fin]: boundary, preamble, epilogue, whether CRLF follows the close delimiter *)
Preamble(e) == IF e.pre = <<>> THEN <<>> ELSE e.pre \o CRLF
Encode(form, e) ==
    Preamble(e) \o Concat([i \in 1..Len(form) |-> EncPart(form[i], e.b)])
    \o DashB(e.b) \o DASH2 \o (IF e.fin THEN CRLF ELSE <<>>) \o e.epi

(* the encoder's precondition (RFC 2046, 5.1): the boundary delimiter occurs nowhere in the
   encapsulated data, and the dash-boundary does not occur in the preamble *)
(* RFC 2046, 5.1: 1..70 characters of  DIGIT / ALPHA / ' ( ) + _ , - . / : = ?  and space, not ending with
   a space (a leading space is legal; such a boundary travels quoted in Content-Type) *)
BChar(c) == (c >= 48 /\ c <= 57) \/ (c >= 65 /\ c <= 90) \/ (c >= 97 /\ c <= 122)
            \/ c \in {39, 40, 41, 43, 95, 44, 45, 46, 47, 58, 61, 63, 32}
Encodable(form, e) ==
    /\ Len(e.b) >= 1 /\ Len(e.b) <= 70
    /\ (\A i \in 1..Len(e.b) : BChar(e.b[i])) /\ e.b[Len(e.b)] # 32
    /\ FindFrom(Preamble(e) \o DashB(e.b), DashB(e.b), 0) = Len(Preamble(e))
    /\ \A i \in 1..Len(form) :
         /\ PartOk(form[i])
         /\ FindFrom(form[i].content \o Delim(e.b), Delim(e.b), 0) = Len(form[i].content)

(* ====================================================================== *)
(* Reading a header block (what the iteration keeps of it)                *)
(* ====================================================================== *)
(* The block is split at every CRLF (occurrences of CRLF cannot overlap); a line is given by its
   start: 0 or the position after a CRLF; it ends at the next CRLF or at the end of the block.
   Written without recursion so that TLC can evaluate it on blocks of any length. *)
LineStarts(s) == {0} \cup {i + 2 : i \in {j \in 0..(Len(s) - 2) : IsAt(s, CRLF, j)}}
LineAt(s, a)  == Slice(s, a, FindFrom(s, CRLF, a))

Lower(s) == [i \in 1..Len(s) |-> IF s[i] >= 65 /\ s[i] <= 90 THEN s[i] + 32 ELSE s[i]]

(* "name: value" -> lower-cased name and value; a line without ": " is not a field *)
Field(line) ==
    LET k == FindFrom(line, COLSP, 0)
    IN  IF k = Len(line) THEN [ok |-> FALSE, name |-> <<>>, value |-> <<>>]
        ELSE [ok |-> TRUE, name |-> Lower(Slice(line, 0, k)), value |-> Slice(line, k + 2, Len(line))]

(* value of the last field called hname (lower case), NONE if there is none *)
HeaderVal(block, hname) ==
    LET I == {a \in LineStarts(block) : Field(LineAt(block, a)).ok /\ Field(LineAt(block, a)).name = hname}
    IN  IF I = {} THEN NONE ELSE Field(LineAt(block, CHOOSE a \in I : \A c \in I : c <= a)).value

RejectsTransferEncoding(block) ==            \* RFC 7578, 4.7: anything but "binary" is refused
    \E a \in LineStarts(block) :
        LET f == Field(LineAt(block, a)) IN f.ok /\ f.name = H_CTE_LC /\ f.value # V_BINARY

(* ====================================================================== *)
(* One step of the form iteration                                         *)
(* ====================================================================== *)
(* B body, b boundary, p cursor, pro "still in the prologue", y parts yielded so far,
   lm = [count, hdr, buf] the configured limits (count 0 = unlimited).
   Result [kind, why, hdr, pos, pend]:
     kind "part": hdr is the header block, pos the start and pend the end of the content;
     kind "end":  the close delimiter was read;
     kind "error": the multipart parse error, why in {"structure","headers","cte","count"}. *)
Out(kind, why, hdr, pos, pend) == [kind |-> kind, why |-> why, hdr |-> hdr, pos |-> pos, pend |-> pend]

Advance(B, b, p, pro, y, lm) ==
    LET delim == IF pro \/ ~DelimWithCRLF THEN DashB(b) ELSE Delim(b)
        a == OPipeUntil(B, p, delim, TRUE)
    IN  IF a.err THEN Out("error", "structure", <<>>, a.pos, a.pos)
        ELSE IF OPeek(B, a.pos, 2, 2).res = DASH2
               THEN LET z == ORead(B, a.pos, 2) IN Out("end", "", <<>>, z.pos, z.pos)
        ELSE LET c == OReadUntil(B, a.pos, CRLF, 0, TRUE)
             IN  IF c.err THEN Out("error", "structure", <<>>, c.pos, c.pos)
                 ELSE LET h == OReadUntil(B, c.pos, CRLF2, lm.hdr, TRUE)
                      IN  IF h.err THEN Out("error", "headers", <<>>, h.pos, h.pos)
                          ELSE IF RejectsTransferEncoding(h.res) THEN Out("error", "cte", <<>>, h.pos, h.pos)
                          ELSE IF lm.count > 0 /\ y + 1 > lm.count THEN Out("error", "count", <<>>, h.pos, h.pos)
                          ELSE Out("part", "", h.res, h.pos,
                                   SubEnd(B, h.pos, IF DelimWithCRLF THEN Delim(b) ELSE DashB(b)))

(* ====================================================================== *)
(* What the accessors of a yielded part must report                        *)
(* ====================================================================== *)
V_CHARSET == <<59, 32, 99, 104, 97, 114, 115, 101, 116, 61>>                     \* ; charset=
CTypeOf(hdr) == LET v == HeaderVal(hdr, H_CTYPE_LC) IN IF v = NONE THEN T_PLAIN ELSE v     \* RFC 7578, 4.4 default

(* name / filename / content type as the accessors must report them.  A Content-Disposition value the
   reference encoder produced for a part of the form decodes to that part's fields; no such
   header at all means "no name, no filename" (NONE); anything else (only possible for damaged
   bodies: a value that is no longer the encoder's, possibly no longer UTF-8) is left open
   (UNKNOWN): the accessor may report any value or raise the parse error, nothing else.  The
   content type is the 7-bit header value as it stands; a value with other bytes is left open
   in the same way. *)
UNKNOWN == <<-2>>
DispIndex(form, v) ==
    LET I == {i \in 1..Len(form) : EncDisp(form[i]) = v} IN IF I = {} THEN 0 ELSE CHOOSE i \in I : TRUE
(* RFC 6266, 4.3: when both forms are present the extended one is the file name, in either order *)
FNameOf(p) == IF p.fkind = 0 THEN NONE ELSE p.fname
(* well-formed UTF-8 (Unicode 15, table 3-7): shortest forms only, no surrogates, <= U+10FFFF.
   Text is represented by its UTF-8 encoding, so "decodes to t" reads "is well formed and equals
   Utf8Seq(t)". *)
IsAscii(s) == \A i \in 1..Len(s) : s[i] < 128
Cont(x) == x >= 128 /\ x <= 191
(* length of the sequence a lead byte announces; 0: not a lead byte *)
SeqLen(a) == IF a < 128 THEN 1 ELSE IF a >= 194 /\ a <= 223 THEN 2 ELSE IF a >= 224 /\ a <= 239 THEN 3
             ELSE IF a >= 240 /\ a <= 244 THEN 4 ELSE 0
SecondOk(a, b) == CASE a = 224 -> b >= 160 /\ b <= 191
                    [] a = 237 -> b >= 128 /\ b <= 159
                    [] a = 240 -> b >= 144 /\ b <= 191
                    [] a = 244 -> b >= 128 /\ b <= 143
                    [] OTHER   -> Cont(b)
(* continuation bytes are never lead bytes, so the segmentation is unique: every byte that is not a
   continuation byte must start a complete sequence that is followed by another such byte (or the end),
   and the first byte must be one.  (No recursion: evaluated on contents of any length.) *)
Utf8Valid(s) ==
    /\ (Len(s) > 0 => ~Cont(s[1]))
    /\ \A i \in 1..Len(s) :
          Cont(s[i]) \/
            LET n == SeqLen(s[i])
            IN  /\ n > 0 /\ i + n - 1 <= Len(s)
                /\ (n > 1 => SecondOk(s[i], s[i + 1]))
                /\ \A k \in 2..(n - 1) : Cont(s[i + k])
                /\ (i + n <= Len(s) => ~Cont(s[i + n]))

(* code points of a well-formed UTF-8 string (no recursion: the lead bytes are selected, each one
   gives its code point) *)
CpAt(s, i) ==
    LET n == SeqLen(s[i])
    IN  CASE n = 1 -> s[i]
          [] n = 2 -> (s[i] - 192) * 64 + (s[i + 1] - 128)
          [] n = 3 -> (s[i] - 224) * 4096 + (s[i + 1] - 128) * 64 + (s[i + 2] - 128)
          [] OTHER -> (s[i] - 240) * 262144 + (s[i + 1] - 128) * 4096 + (s[i + 2] - 128) * 64 + (s[i + 3] - 128)
Utf8Decode(s) ==
    LET L == SelectSeq([i \in 1..Len(s) |-> i], LAMBDA i : ~Cont(s[i]))
    IN  [k \in 1..Len(L) |-> CpAt(s, L[k])]

(* ---- RFC 8187 / 5987 extended value  charset ' language ' value-chars ---------------------- *)
(* Only read for damaged bodies (an undamaged Content-Disposition is the encoder's and decodes to
   the encoded part).  PERR: the accessor must raise the parse error.  LAX t: the accessor reports
   exactly t, or raises the parse error.  UNKNOWN: left open (the value is not an ext-value a strict
   reader can interpret: unbalanced quotes, characters outside the token sets, a malformed escape,
   a charset this specification has no decoder for). *)
PERR == <<-3>>
Lax(t) == <<-4>> \o t
IsLax(f) == Len(f) > 0 /\ f[1] = -4
HexVal(c) == IF c >= 48 /\ c <= 57 THEN c - 48 ELSE IF c >= 65 /\ c <= 70 THEN c - 55
             ELSE IF c >= 97 /\ c <= 102 THEN c - 87 ELSE -1
WordChar(c) == (c >= 48 /\ c <= 57) \/ (c >= 65 /\ c <= 90) \/ (c >= 97 /\ c <= 122) \/ c = 95
PctOk(s) == \A i \in 1..Len(s) : s[i] = 37 => (i + 2 <= Len(s) /\ HexVal(s[i + 1]) >= 0 /\ HexVal(s[i + 2]) >= 0)
PctDecode(s) ==          \* precondition PctOk(s); escapes cannot overlap (hex digits are not "%")
    LET K == SelectSeq([i \in 1..Len(s) |-> i],
                       LAMBDA i : ~((i > 1 /\ s[i - 1] = 37) \/ (i > 2 /\ s[i - 2] = 37)))
    IN  [k \in 1..Len(K) |-> IF s[K[k]] = 37 THEN 16 * HexVal(s[K[k] + 1]) + HexVal(s[K[k] + 2]) ELSE s[K[k]]]
ExtFilename(x) ==
    LET q1    == FindFrom(x, <<39>>, 0)
        q2    == FindFrom(x, <<39>>, q1 + 1)
        label == Slice(x, 0, q1)
        lang  == Slice(x, q1 + 1, q2)
        val   == Slice(x, q2 + 1, Len(x))
    IN  IF \/ q1 >= Len(x) \/ q2 >= Len(x) \/ label = <<>> \/ val = <<>>
           \/ \E i \in 1..Len(x) : x[i] < 33 \/ x[i] > 126 \/ x[i] \in {34, 59, 92}
           \/ \E i \in 1..Len(label) : ~(WordChar(label[i]) \/ label[i] = 45)
           \/ \E i \in 1..Len(lang) : ~WordChar(lang[i])
           \/ ~PctOk(val)
          THEN UNKNOWN
        ELSE CASE CharsetClass(label) = "utf8"  -> (IF Utf8Valid(PctDecode(val)) THEN Lax(Utf8Decode(PctDecode(val))) ELSE PERR)
               [] CharsetClass(label) = "bogus" -> PERR
               [] OTHER -> UNKNOWN

V_STARKEY == <<59, 32, 102, 105, 108, 101, 110, 97, 109, 101, 42, 61>>            \* ; filename*=
ExtPrefix(p) == V_FD \o Utf8Seq(Quote(p.name)) \o QUOTE \o V_STARKEY

FieldsOf(form, hdr) ==
    LET v == HeaderVal(hdr, H_DISP_LC)
        k == DispIndex(form, v)
        X == {i \in 1..Len(form) : form[i].fkind = 2 /\ IsPrefix(ExtPrefix(form[i]), v)}
    IN  IF v = NONE THEN [name |-> NONE, fname |-> NONE]
        ELSE IF k > 0 THEN [name |-> form[k].name, fname |-> FNameOf(form[k])]
        ELSE IF X # {} /\ Utf8Valid(v)                 \* (a value that is not UTF-8 cannot be read at all: open)
          THEN LET p == form[CHOOSE i \in X : TRUE]      \* name intact, the extended file name was damaged
               IN  [name |-> p.name, fname |-> ExtFilename(Drop(v, Len(ExtPrefix(p))))]
        ELSE [name |-> UNKNOWN, fname |-> UNKNOWN]

(* ---- what get_text() makes of the content type ------------------------------------------------ *)
(* "utf8"    text/plain, no charset parameter (the default) or one that names UTF-8
   "bogus"   text/plain; charset=L where L names nothing that can decode: an unknown label, the empty
             label, a label with an embedded NUL, a label under which not even "" decodes ("undefined")
             - the content cannot be decoded, so get_text() must raise the parse error
   "nontext" one of the encoder's other types: get_text() is None
   "open"    anything else (damaged bodies, other real charsets, values that are not 7-bit) *)
TextKind(ct) ==
    IF ct = T_PLAIN THEN "utf8"
    ELSE IF ct \in {T_JSON, T_OCTET} THEN "nontext"
    ELSE IF ~IsAscii(ct) \/ ~IsPrefix(T_PLAIN \o V_CHARSET, ct) THEN "open"
    ELSE LET lab == Drop(ct, Len(T_PLAIN) + Len(V_CHARSET))
         IN  IF \E i \in 1..Len(lab) : lab[i] = 0 THEN "bogus"
             ELSE IF \E i \in 1..Len(lab) : ~(WordChar(lab[i]) \/ lab[i] = 45) THEN "open"
             ELSE IF CharsetClass(lab) \in {"utf8", "bogus"} THEN CharsetClass(lab) ELSE "open"

(* ====================================================================== *)
(* State machine                                                           *)
(* ====================================================================== *)
CONSTANTS PartPool,      \* part records the client may add
          EnvPool,       \* [b, pre, epi, fin] records
          LimitsOf(_, _),\* (form, env) -> set of limit records offered for that form
          MaxParts,
          Sizes,         \* size arguments of stream.read(n), n >= 0
          RDelims,       \* delimiters the application may read_until on a part stream
          MaxOps,        \* consumption calls per part
          MaxRetry       \* further calls allowed on a part once a buffered accessor found it too large

VARIABLES form, env, lim, body,
          edited,    \* the body was damaged on its way (one edit), so it is no longer Encode(form, env)
          st,        \* "compose" | "sealed" | "iter" (before the first part / between parts) | "part" | "end" | "error"
          pos, pro, yielded,
          cur,       \* header block of the part in hand
          pstart, pend,
          cache,     \* buffered content of the part in hand (get_data memo), NONE if not buffered
          toolarge,  \* a buffered accessor of the part in hand failed with "body part is too large"
          nops,
          last       \* the last server-side call and what it returned

vars == <<form, env, lim, body, edited, st, pos, pro, yielded, cur, pstart, pend, cache, toolarge, nops, last>>

Rec(op, n, d, c, out, why, res, name, fname, ctype) ==
    [op |-> op, n |-> n, d |-> d, c |-> c, out |-> out, why |-> why, res |-> res,
     name |-> name, fname |-> fname, ctype |-> ctype]
Plain(op, n, d, c, out, why, res) == Rec(op, n, d, c, out, why, res, NONE, NONE, NONE)

NoEnv == [b |-> <<>>, pre |-> <<>>, epi |-> <<>>, fin |-> FALSE]
NoLim == [count |-> 0, hdr |-> 0, buf |-> 0]

Init == /\ form = <<>> /\ env = NoEnv /\ lim = NoLim /\ body = <<>> /\ edited = FALSE
        /\ st = "compose" /\ pos = 0 /\ pro = TRUE /\ yielded = 0 /\ cur = <<>>
        /\ pstart = 0 /\ pend = 0 /\ cache = NONE /\ toolarge = FALSE /\ nops = 0
        /\ last = Plain("init", 0, <<>>, FALSE, "", "", <<>>)

(* ---- client ---- *)
AddPart(p) ==
    /\ st = "compose" /\ Len(form) < MaxParts
    /\ form' = Append(form, p)
    /\ UNCHANGED <<env, lim, body, edited, st, pos, pro, yielded, cur, pstart, pend, cache, toolarge, nops, last>>

Seal(e) ==                       \* the client picks boundary / preamble / epilogue and encodes
    /\ st = "compose" /\ Encodable(form, e)
    /\ env' = e /\ body' = Encode(form, e) /\ st' = "sealed"
    /\ UNCHANGED <<form, lim, edited, pos, pro, yielded, cur, pstart, pend, cache, toolarge, nops, last>>

(* ---- the wire: at most one edit (only used by the corruption instances) ---- *)
ApplyEdit(s, i, kind, v) ==
    CASE kind = "del" -> SubSeq(s, 1, i - 1) \o SubSeq(s, i + 1, Len(s))
      [] kind = "ins" -> SubSeq(s, 1, i - 1) \o <<v>> \o SubSeq(s, i, Len(s))
      [] OTHER        -> [s EXCEPT ![i] = v]
Corrupt(i, kind, v) ==
    /\ st = "sealed" /\ ~edited
    /\ i >= 1 /\ i <= Len(body) + (IF kind = "ins" THEN 1 ELSE 0)
    /\ (kind = "sub" => body[i] # v)
    /\ body' = ApplyEdit(body, i, kind, v) /\ edited' = TRUE
    /\ UNCHANGED <<form, env, lim, st, pos, pro, yielded, cur, pstart, pend, cache, toolarge, nops, last>>

(* ---- server: a handler configured with limits lm receives the body ---- *)
Serve(lm) ==
    /\ st = "sealed"
    /\ lim' = lm /\ st' = "iter"
    /\ UNCHANGED <<form, env, body, edited, pos, pro, yielded, cur, pstart, pend, cache, toolarge, nops, last>>

(* ---- server: the iteration ---- *)
D == SubSeq(body, 1, pend)             \* what the stream of the part in hand can ever deliver

NextPart ==
    /\ st \in {"iter", "part"}
    /\ LET x == Advance(body, env.b, pos, pro, yielded, lim)
           f == FieldsOf(form, x.hdr)
       IN  /\ st' = (IF x.kind = "part" THEN "part" ELSE x.kind)
           /\ pos' = x.pos /\ pstart' = x.pos /\ pend' = x.pend /\ cur' = x.hdr
           /\ yielded' = (IF x.kind = "part" THEN yielded + 1 ELSE yielded)
           /\ last' = (IF x.kind = "part"
                         THEN Rec("next", -1, <<>>, FALSE, "part", "", <<>>, f.name, f.fname,
                                  IF IsAscii(CTypeOf(x.hdr)) THEN CTypeOf(x.hdr) ELSE UNKNOWN)
                         ELSE Plain("next", -1, <<>>, FALSE, x.kind, x.why, <<>>))
    /\ pro' = FALSE /\ cache' = NONE /\ toolarge' = FALSE /\ nops' = 0
    /\ UNCHANGED <<form, env, lim, body, edited>>

(* ---- server: the application consumes the part in hand ---- *)
CanConsume == st = "part" /\ nops < MaxOps + (IF toolarge THEN MaxRetry ELSE 0)
CanStream  == CanConsume /\ ~toolarge      \* after a size failure only the buffered accessors are asked again
Consumed(op, n, d, c, out, why, res, newpos) ==
    /\ pos' = newpos /\ nops' = nops + 1
    /\ last' = Plain(op, n, d, c, out, why, res)
    /\ UNCHANGED <<form, env, lim, body, edited, st, pro, yielded, cur, pstart, pend>>

ReadSome(n) == /\ CanStream /\ n >= 0
               /\ LET r == ORead(D, pos, n) IN Consumed("read", n, <<>>, FALSE, "ok", "", r.res, r.pos)
               /\ UNCHANGED <<cache, toolarge>>
ReadAll     == /\ CanStream
               /\ LET r == ORead(D, pos, -1) IN Consumed("read", -1, <<>>, FALSE, "ok", "", r.res, r.pos)
               /\ UNCHANGED <<cache, toolarge>>
ReadUntil(d, n, c) ==
    /\ CanStream
    /\ LET r == OReadUntil(D, pos, d, n, c)
       IN  Consumed("read_until", n, d, c, IF r.err THEN "delim" ELSE "ok", "", IF r.err THEN <<>> ELSE r.res, r.pos)
    /\ UNCHANGED <<cache, toolarge>>
Exhaust     == /\ CanStream
               /\ Consumed("exhaust", -1, <<>>, FALSE, "ok", "", <<>>, pend)
               /\ UNCHANGED <<cache, toolarge>>

(* get_data(): everything that is left, provided it fits the buffer limit; memoised.  A part that
   was found too large stays too large: every later call fails the same way and never hands out
   content (neither the bytes read by the failed attempt nor what is left behind them). *)
Buffered == IF toolarge THEN [res |-> <<>>, pos |-> pos, err |-> TRUE]
            ELSE IF cache # NONE THEN [res |-> cache, pos |-> pos, err |-> FALSE]
            ELSE LET r == ORead(D, pos, lim.buf + 1) IN [res |-> r.res, pos |-> r.pos, err |-> Len(r.res) > lim.buf]
GetData ==
    /\ CanConsume
    /\ LET r == Buffered
       IN  /\ Consumed("get_data", -1, <<>>, FALSE, IF r.err THEN "error" ELSE "ok", IF r.err THEN "size" ELSE "",
                       IF r.err THEN <<>> ELSE r.res, r.pos)
           /\ cache' = (IF r.err THEN NONE ELSE r.res) /\ toolarge' = r.err

(* get_text(): None unless the part is text/plain; otherwise the buffered content decoded with
   the declared charset, the parse error if it does not decode or if the charset names no decoder
   (the content stays buffered in both cases).  The text is reported as its UTF-8 encoding. *)
(* (CPython decodes the empty byte string to "" without consulting the codec, so for an empty content
   under a label that names no decoder both "" and the parse error are accepted: left open) *)
OpenText == \/ TextKind(CTypeOf(cur)) = "open"
            \/ (TextKind(CTypeOf(cur)) = "bogus" /\ ~Buffered.err /\ Buffered.res = <<>>)
GetText ==
    /\ CanConsume /\ ~OpenText
    /\ IF TextKind(CTypeOf(cur)) = "nontext"
         THEN Consumed("get_text", -1, <<>>, FALSE, "none", "", <<>>, pos) /\ UNCHANGED <<cache, toolarge>>
         ELSE LET r  == Buffered
                  ok == ~r.err /\ TextKind(CTypeOf(cur)) = "utf8" /\ Utf8Valid(r.res)
              IN  /\ Consumed("get_text", -1, <<>>, FALSE, IF ok THEN "ok" ELSE "error",
                              IF r.err THEN "size" ELSE IF ok THEN "" ELSE "text",
                              IF ok THEN r.res ELSE <<>>, r.pos)
                  /\ cache' = (IF r.err THEN NONE ELSE r.res) /\ toolarge' = r.err

(* get_text() on a part whose content type is "open": the outcome is left open - None, text or the
   parse error - but it must be one of these; the part is not touched again. *)
GetTextOpen ==
    /\ CanConsume /\ OpenText
    /\ pos' = pos /\ nops' = MaxOps + MaxRetry
    /\ last' = Plain("get_text", -1, <<>>, FALSE, "open", "", <<>>)
    /\ UNCHANGED <<form, env, lim, body, edited, st, pro, yielded, cur, pstart, pend, cache, toolarge>>

(* get_media() on an untouched application/json part: the whole content goes to the JSON handler *)
GetMedia ==
    /\ CanStream /\ CTypeOf(cur) = T_JSON /\ pos = pstart /\ cache = NONE
    /\ LET r == ORead(D, pos, -1) IN Consumed("get_media", -1, <<>>, FALSE, "ok", "", r.res, r.pos)
    /\ UNCHANGED <<cache, toolarge>>

Next == \/ \E p \in PartPool : AddPart(p)
        \/ \E e \in EnvPool : Seal(e)
        \/ (st = "sealed" /\ \E lm \in LimitsOf(form, env) : Serve(lm))
        \/ NextPart
        \/ \E n \in Sizes : ReadSome(n)
        \/ ReadAll \/ Exhaust \/ GetData \/ GetText \/ GetTextOpen \/ GetMedia
        \/ \E d \in RDelims, n \in Sizes \cup {-1}, c \in BOOLEAN : ReadUntil(d, n, c)

Spec == Init /\ [][Next]_vars

(* ====================================================================== *)
(* Properties                                                              *)
(* ====================================================================== *)
Sent == st \notin {"compose", "sealed"} /\ ~edited

(* which limit, if any, stops the iteration at part i of the form that was sent *)
HdrTooBig(i)  == Len(EncHeaders(form[i])) > lim.hdr
CountTooBig(i) == lim.count > 0 /\ i > lim.count
FirstStop == LET S == {i \in 1..Len(form) : HdrTooBig(i) \/ CountTooBig(i)}
             IN  IF S = {} THEN 0 ELSE CHOOSE i \in S : \A j \in S : i <= j

(* Parse(Encode(form)) = form, however the earlier parts were consumed: the i-th yield is the
   i-th encoded part (header block and content, byte for byte, and the accessors report the
   encoded name / filename / content type), and the end is reported after exactly Len(form) parts *)
ParseOfEncodeIsForm ==
    (Sent /\ last.op = "next") =>
        /\ last.out = "part" =>
             /\ yielded <= Len(form)
             /\ (FirstStop = 0 \/ yielded < FirstStop)
             /\ cur = EncHeaders(form[yielded])
             /\ Slice(body, pstart, pend) = form[yielded].content
             /\ last.name = form[yielded].name
             /\ last.fname = FNameOf(form[yielded])
             /\ last.ctype = (IF form[yielded].ctype = NONE THEN T_PLAIN ELSE form[yielded].ctype)
        /\ last.out = "end" => (yielded = Len(form) /\ FirstStop = 0)

(* the quoted-string encoding of every name / file name of the form is read back as that text *)
QuotedRoundTrip ==
    \A i \in 1..Len(form) : /\ Unquote(Quote(form[i].name)) = form[i].name
                            /\ Unquote(Quote(form[i].fname)) = form[i].fname

(* limits are exact: the iteration fails at part i iff i is the first part whose header block is
   longer than the limit or whose index exceeds the part count (0 = no limit).  "If": a step
   that reaches part FirstStop can neither yield it nor report the end (ParseOfEncodeIsForm), so
   it fails; "only if" and the reason are stated here ... *)
LimitsExactAtThreshold ==
    /\ (Sent /\ last.op = "next" /\ last.out = "error") => (FirstStop > 0 /\ yielded = FirstStop - 1)
    /\ (Sent /\ last.op = "next" /\ last.out = "error") =>
         last.why = (IF HdrTooBig(FirstStop) THEN "headers" ELSE "count")
(* ... a buffered accessor fails iff more than lim.buf bytes were left in the part, and once it
   has failed that way every later buffered access of the same part fails the same way *)
BufferLimitExact ==
    [][((GetData \/ GetText) /\ cache = NONE /\ last'.out # "none") =>
          /\ ~toolarge => (last'.why = "size") = (pend - pos > lim.buf)
          /\ (Sent /\ pos = pstart) => ((last'.why = "size") = (Len(form[yielded].content) > lim.buf))
          /\ toolarge => (last'.out = "error" /\ last'.why = "size" /\ toolarge')
          /\ last'.out = "ok" => (pos' = pend /\ last'.res = Slice(body, pos, pend))]_vars
SizeFailureSticks ==
    (st = "part" /\ toolarge) => (cache = NONE /\ (last.op \in {"get_data", "get_text"} => last.out \in {"error", "none", "open"}))

(* what the application gets from a part is a piece of that part, in order, and the cursor
   stays inside the part *)
ContentExact ==
    (st = "part") =>
        /\ pstart <= pos /\ pos <= pend /\ pend <= Len(body)
        /\ (last.op \in {"read", "get_media"}) => Slice(body, pos - Len(last.res), pos) = last.res
        /\ (last.op \in {"read", "get_media"} /\ last.n < 0) => pos = pend
        /\ (last.op = "read_until" /\ last.out = "ok") =>
              LET k == IF last.c THEN Len(last.d) ELSE 0
              IN  /\ Slice(body, pos - k - Len(last.res), pos - k) = last.res
                  /\ last.c => IsAt(body, last.d, pos - k)
                  /\ ~Occurs(last.res, last.d)
        /\ (last.op = "exhaust") => pos = pend

(* a damaged body still has a definite outcome: every step of the iteration ends in a part that
   lies inside the body, in the end of the form or in the parse error, and it moves forward, so
   the iteration cannot get stuck or loop *)
CorruptionIsErrorOrWellDefined ==
    /\ st \in {"compose", "sealed", "iter", "part", "end", "error"}
    /\ pos <= Len(body)
    /\ (st = "part") => (pstart <= pend /\ pend <= Len(body) /\ Len(cur) <= lim.hdr
                          /\ (lim.count > 0 => yielded <= lim.count))
Progress == [][NextPart => (pos' > pos \/ st' \in {"end", "error"})]_vars
=============================================================================
