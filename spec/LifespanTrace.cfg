INIT TInit
NEXT TNext
CONSTANTS
  HandlerStacks <- Empty
  AddShapes <- Empty
  MaxAdds = 99
  MaxCycles = 99
INVARIANT Sound
