INIT TInit
NEXT TNext
CONSTANTS
  HandlerStacks <- Empty
INVARIANT Sound
