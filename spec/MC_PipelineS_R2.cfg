INIT SInit
NEXT SNext
CONSTANTS
  Stacks <- StackFull1
  Indeps <- OnlyIndep
  Targets <- OnlyRouted
  MaxHooks = 0
  InitRegs <- NoRegs
  RegClasses <- SRegClasses
  RegBehs <- SRegBehs2
  MaxRegs = 2
  RaiseClasses <- SRaise2
  RenderClasses <- SRender
  Mro <- MCMro
  StatusOf <- MCStatus
  OwnVary <- MCOwnVary
  MaxReqs = 2
  WrongDesign = "none"
  SameObj = FALSE
  MaxFaults = 1
INVARIANT EmitLast
