INIT MCInit
NEXT ANext
CONSTANTS
  Versions = {20, 21, 22, 23, 24}
  QueueSizes = {0, 1, 2, 4}
  TextIds = {1, 2}
  DataIds = {1, 2}
  CloseArgs <- SimCloseArgs
  DiscCodes <- MCDisc
  ErrCodes = {1011, 999, 4000}
  Faults = {"lost", "lost1000", "other", "badcode"}
  MwKinds = {"none", "pass", "accept", "deny", "resacc"}
  RouteKinds = {"ok", "miss", "noresp"}
  HandlerKinds = {"default", "close", "noop", "http"}
  FirstKinds = {"connect", "disc"}
  MaxSteps = 6
  MaxClient = 4
  Depth = 12
INVARIANT AtMostOneAccept
INVARIANT DataOnlyBetweenAcceptAndClose
INVARIANT AtMostOneClose
INVARIANT NothingAfterClose
INVARIANT NothingAfterLost
INVARIANT CloseAlwaysSent
INVARIANT Emit
