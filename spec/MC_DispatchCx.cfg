INIT XInit
NEXT XNext
CONSTANTS
  Templates <- CxTemplates
  ResKinds <- CxResKinds
  SinkPats <- CxSinkPats
  StaticPrefixes <- CxStaticPrefixes
  Methods <- CxMethods
  Paths <- CxPaths
  MaxCalls = 3
  NewestFirst = TRUE
  RoutesFirst = TRUE
INVARIANT InvAllClauses
INVARIANT InvConflictFree
INVARIANT InvWellFormedTemplates
