------------------------- MODULE RouterUniverse -------------------------
(* The universe of a Router instance as written by the harness (checks/c01.py):
   IOEnv.ROUTER_UNIVERSE names a JSON file [ts, ps, conv, bad] -- template segments, path-segment
   representatives, the trusted converter table (CPython's own int()/float()/uuid.UUID()/strptime()
   over every substring of the path segments in use) and the invalid field names.
   A module of its own, EXTENDed BEFORE Router, so that TLC has cached U when it tabulates Router's
   per-segment constants (otherwise every reference re-reads the file). *)
EXTENDS Integers, Sequences, Json, IOUtils

U == JsonDeserialize(IOEnv.ROUTER_UNIVERSE)
UTS  == U.ts
UBad == {U.bad[i] : i \in DOMAIN U.bad}
Tab(k) == LET R == {U.conv[i] : i \in {j \in DOMAIN U.conv : U.conv[j].k = k}}
          IN  [s \in {r.s : r \in R} |-> CHOOSE r \in R : r.s = s]
(* each table is its own constant so that it is computed once *)
TabInt   == Tab("int")
TabFloat == Tab("float")
TabUuid  == Tab("uuid")
TabDt    == Tab("dt")
UCT == [int |-> TabInt, float |-> TabFloat, uuid |-> TabUuid, dt |-> TabDt]
=========================================================================
