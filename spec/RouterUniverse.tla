------------------------- MODULE RouterUniverse -------------------------
(* The universe of a Router instance as written by the harness (checks/c01.py):
   IOEnv.ROUTER_UNIVERSE names a JSON file [ts, ps, conv, bad, mconv] -- template segments, path-segment
   representatives, the trusted converter table (CPython's own int()/float()/uuid.UUID()/strptime()
   over every substring of the path segments in use) and the invalid field names.
   A module of its own, EXTENDed BEFORE Router, so that TLC has cached U when it tabulates Router's
   per-segment constants (otherwise every reference re-reads the file). *)
EXTENDS Integers, Sequences, Json, IOUtils

U == JsonDeserialize(IOEnv.ROUTER_UNIVERSE)
UTS  == U.ts
UBad == {U.bad[i] : i \in DOMAIN U.bad}
Tab(k) == LET R == {U.conv[i] : i \in {j \in DOMAIN U.conv : U.conv[j].k = k}}
          IN  [s \in {r.s : r \in R} |-> CHOOSE r \in R : r.s = s]
(* each table is its own constant so that it is computed once *)
TabInt   == Tab("int")
TabFloat == Tab("float")
TabUuid  == Tab("uuid")
TabDt    == Tab("dt")
(* user-defined converters that consume multiple segments: U.mconv is a JSON object {identifier: {key: [ok, ty, v]}},
   i.e. a record of records; key = the list of remaining path segments written as ONE string, the segments
   separated by "/" (injective: a segment holds no "/"); the entry is the answer of the converter's own
   convert(list).  A list that is missing makes TLC stop (machinery failure), it is not read as a veto. *)
TabMulti == U.mconv
UCT == [int |-> TabInt, float |-> TabFloat, uuid |-> TabUuid, dt |-> TabDt, multi |-> TabMulti]
=========================================================================
