INIT ObjInit
NEXT ObjNext
CONSTANTS
  Templates = {}
  ResKinds = {}
  SinkPats = {}
  StaticPrefixes = {}
  MaxCalls = 0
  NewestFirst = TRUE
  RoutesFirst = TRUE
  OtherForAll = TRUE
  EmptyMeansAll = FALSE
  StatusSucceeds = FALSE
  StarWithCreds = FALSE
  AliasCallerSet = FALSE
  MemoDecision = FALSE
  KeepHist = FALSE
  MaxServed = 3
  MaxMut = 2
INVARIANT OnlyAllowedOrigins
INVARIANT NoOriginUntouched
INVARIANT GrantIsEchoOrStar
INVARIANT CredentialsOnlyIfConfigured
INVARIANT NoWildcardWithCredentials
INVARIANT PreflightOnlyOnSuccessWithAllow
INVARIANT AllowRemovedOnPreflight
INVARIANT DeniedPreflightWithdrawsGrants
INVARIANT AllowOtherwiseKept
INVARIANT GrantFunctionOfConfigAndRequest
PROPERTY PolicyFixedAtConstruction
