INIT Init
NEXT Next
CONSTANTS
  Datas <- MCDatasQ
  BlockSize = 4
  MaxChunks = 2
  Statuses = {200}
  Announces = {FALSE}
  Interleave = FALSE
  ShortReadEndsBody = FALSE
  EmptyChunkEndsBody = FALSE
  AsgiReadsOnce = TRUE
INVARIANT ResponseEqualAcrossStacks
