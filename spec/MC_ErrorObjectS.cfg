INIT HInit
NEXT HNext
CONSTANTS
  Accepts <- OAccepts
  ExtraHandlers <- OExtra
  Errors <- NoErrors
  WrongRender = "none"
  MaxAmends = 4
  MaxPeeks = 3
  MaxRenders = 3
INVARIANT Emit
