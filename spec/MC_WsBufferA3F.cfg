\* leg A3: scenario family "failclose" - every capacity 1..4, 0..capacity+1 client messages +- disconnect, run to quiescence
INIT ZInit
NEXT ZNext
CONSTANTS
  MaxQs = {1, 2, 3, 4}
  NMsg = 5
  DiscChoices = {TRUE, FALSE}
  GeCmp = TRUE
  AwaitStop = TRUE
  NotifyPop = TRUE
  ReleaseOnEnd = TRUE
  Faults = FALSE
  StopAfterSend = TRUE
  CleanupOnDisc = TRUE
  MaxSendFail = 1
  Family = "failclose"
  MaxOps = 9
  MaxCancel = 0
  Depth = 0
INVARIANT ZEmit
INVARIANT Conserved
INVARIANT AfterAppReturn
