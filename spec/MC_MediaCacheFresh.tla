---------------------------- MODULE MC_MediaCacheFresh ----------------------------
EXTENDS MediaCacheFresh, Json
VARIABLE h
CONSTANT Depth
Keep == UNCHANGED h
Log  == Len(h) < Depth /\ h' = Append(h, last')
XRequest == (\E p \in Payloads : Request(p)) /\ Keep
XEdit    == (\E r \in DOMAIN reqs : Edit(r)) /\ Keep
XNext    == XRequest \/ XEdit
ARequest == (\E p \in Payloads : Request(p)) /\ Log
AEdit    == (\E r \in DOMAIN reqs : Edit(r)) /\ Log
ANext    == ARequest \/ AEdit
MCInit   == Init /\ h = <<>>
Emit == (Len(h) = Depth) => PrintT(ToJson([ev |-> h]))
===================================================================================
