INIT MCOInit
NEXT MCONext
CONSTANTS
  Accepts <- OAccepts
  ExtraHandlers <- OExtra
  Errors <- NoErrors
  WrongRender <- MCWrongRender
  MaxAmends = 3
  MaxPeeks = 2
  MaxRenders = 3
INVARIANT RenderedIsCurrent
INVARIANT NegotiatedFromCurrent
INVARIANT ErrTracksVal
INVARIANT PresenceFollowsAmend
