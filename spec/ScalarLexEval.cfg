INIT EInit
NEXT ENext
INVARIANT EmitConv
