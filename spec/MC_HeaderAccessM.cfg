INIT MInit
NEXT MNext
CONSTANTS
  Bounds <- BoundsQ
  ReqSet <- ReqsFull
  ReadAttrs <- Attrs
  Depth = 0
  SharedUriSlot = FALSE
INVARIANT MemoSound
INVARIANT CacheSound
INVARIANT LookupSound
