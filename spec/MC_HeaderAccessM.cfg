INIT MInit
NEXT MNext
CONSTANTS
  Bounds <- BoundsQ
  ReqSet <- ReqsSmall
  ReadAttrs <- MidAttrs
  Depth = 0
  SharedUriSlot = FALSE
INVARIANT MemoSound
INVARIANT CacheSound
INVARIANT LookupSound
