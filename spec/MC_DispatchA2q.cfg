INIT AInit
NEXT ANext
CONSTANTS
  Templates <- QTemplates
  ResKinds <- SmallResKinds
  SinkPats <- QSinkPats
  StaticPrefixes <- MCStaticPrefixes
  Methods <- QMethods
  Paths <- QPaths
  MaxCalls = 2
  NewestFirst = TRUE
  RoutesFirst = TRUE
INVARIANT Emit
