\* vacuity witness: a receive that keeps waiting after the pump task has ended (close() from the other
\* task, server failure) must violate PendingReleased
SPECIFICATION XFairSpec
CONSTANTS
  MaxQs = {1}
  NMsg = 1
  DiscChoices = {FALSE}
  GeCmp = TRUE
  AwaitStop = TRUE
  NotifyPop = TRUE
  ReleaseOnEnd = FALSE
  Faults = TRUE
  StopAfterSend = TRUE
  CleanupOnDisc = TRUE
  MaxSendFail = 1
  Family = "none"
  MaxOps = 2
  MaxCancel = 0
  Depth = 0
PROPERTY PendingReleased
