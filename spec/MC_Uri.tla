------------------------------ MODULE MC_Uri ------------------------------
(* Bounded instances of Uri.  Every public function is a named action so that TLC's
   coverage shows it fired; Emit exports one JSON case per <<input, function, output>>. *)
EXTENDS Uri, UriHosts, Json

(* C10's 14-symbol alphabet: '%' '+' '4' 'C' 'E' (upper hex) 'a' (lower hex) 'G' (no hex digit)
   '/' (reserved) '~' (unreserved mark) ' ' NUL, U+00E9 (2 octets), U+FF14 FULLWIDTH DIGIT FOUR
   (3 octets; a digit for Unicode, not for RFC 3986), U+1F600 (4 octets) *)
UriAlphabet  == {37, 43, 52, 67, 69, 97, 71, 47, 126, 32, 0, 233, 65300, 128512}
(* control characters: 'a' '%' '4' '1' '0' LF CR TAB -- every string <= 4, so LF/CR/TAB in every position incl.
   the last one ("abc\n", "%41\n", "\r\n", "\n\n"), and the escapes of the lowest octets "%00" (NUL), "%01",
   "%0a", "%10", for all functions *)
CtlAlphabet  == {97, 37, 52, 49, 48, 10, 13, 9}
UriFns       == {"decode", "encode", "encode_value", "encode_check_escaped", "encode_value_check_escaped"}
(* authority alphabet: 'a' '.' '1' ':' '[' ']' 'v'  ("[v1.a]" is the shortest IPvFuture literal) *)
HostAlphabet == {97, 46, 49, 58, 91, 93, 118}
HostFns      == {"parse_host"}

On(f) == f \in Fns          \* (conjunctions, so that TLC's coverage reports these names)
XDecode        == On("decode") /\ \E p \in BOOLEAN : DoDecode(p)
XEncode        == On("encode") /\ DoEncode
XEncodeValue   == On("encode_value") /\ DoEncodeValue
XEncodeCE      == On("encode_check_escaped") /\ DoEncodeCE
XEncodeValueCE == On("encode_value_check_escaped") /\ DoEncodeValueCE
XParseHost     == On("parse_host") /\ DoParseHost
XNext == XDecode \/ XEncode \/ XEncodeValue \/ XEncodeCE \/ XEncodeValueCE \/ XParseHost

(* escape-dense inputs: every sequence of <= n TOKENS.  The tokens are the escapes of the octets of one
   2-octet (C3 A9), one 3-octet (E2 82 AC) and one 4-octet character (F0 9F 98 80) - so that every way of
   cutting a character, every truncation and every wrong continuation occurs -, plus 'a', '+', the
   malformed "%4" (an escape again when 'a' follows) and a raw U+00E9.  These instances carry the laws for
   long inputs (DecodeChunkLaw, CheckEscapedConcat, EncodedPiecesAreChunks). *)
TokPool == { <<37, 67, 51>>, <<37, 65, 57>>,                                   \* %C3 %A9
             <<37, 69, 50>>, <<37, 56, 50>>, <<37, 65, 67>>,                   \* %E2 %82 %AC
             <<37, 70, 48>>, <<37, 57, 70>>, <<37, 57, 56>>, <<37, 56, 48>>,   \* %F0 %9F %98 %80
             <<97>>, <<43>>, <<37, 52>>, <<233>> }                             \* a + %4 e-acute
TokInputs(n) == {Concat(ts) : ts \in SeqsUpTo(TokPool, n)}
TokInputs4 == TokInputs(4)
TokInputs3 == TokInputs(3)
TokInputs2 == TokInputs(2)
(* quick: <= 3 tokens of the pool, and every 4-token sequence over the 4-octet character's escapes and 'a' *)
TokPool4   == { <<37, 70, 48>>, <<37, 57, 70>>, <<37, 57, 56>>, <<37, 56, 48>>, <<97>> }
TokInputsQ == TokInputs3 \cup {Concat(ts) : ts \in [1..4 -> TokPool4]}
TokFnsQ == {"decode", "encode_value_check_escaped"}
TokFnsT == {"decode", "encode_value", "encode_value_check_escaped"}
(* wrong-design switch (MC_UriTokBad.cfg: U8Complete <- AnySplit): "decode piece by piece at any split that
   does not cut an escape and put the texts together" must be caught by DecodeChunkLaw *)
AnySplit(b) == TRUE

(* wrong-design switch for the vacuity run (MC_UriBad.cfg: HexUp <- LowHexDigit): an encoder that
   writes lower-case escapes must be caught by EncodeOutputAlphabet *)
LowHexDigit(n) == IF n < 10 THEN 48 + n ELSE 87 + n

(* one JSON object per applied function; `bytes` is the octet string before the UTF-8 reading
   (decode only), `closed`/`esc` are the spec-side classifications the harness needs *)
Emit == fn # "init" =>
    PrintT(ToJson([s |-> s, fn |-> fn, plus |-> plus, out |-> out, port |-> port,
                   bytes |-> IF fn = "decode" THEN DecodeBytes(s, plus) ELSE <<>>,
                   closed |-> Closed(s),
                   valid |-> IF fn = "parse_host" THEN ValidHostForm(s) ELSE FALSE,
                   colon |-> IF fn = "parse_host" THEN HasColon(s) ELSE FALSE,
                   esc |-> IF fn \in {"encode_check_escaped", "encode_value_check_escaped"}
                           THEN FullyEscaped(s, AllowedOf(fn)) ELSE FALSE]))
===========================================================================
