------------------------------ MODULE MC_Uri ------------------------------
(* Bounded instances of Uri.  Every public function is a named action so that TLC's
   coverage shows it fired; Emit exports one JSON case per <<input, function, output>>. *)
EXTENDS Uri, UriHosts, Json

(* C10's 14-symbol alphabet: '%' '+' '4' 'C' 'E' (upper hex) 'a' (lower hex) 'G' (no hex digit)
   '/' (reserved) '~' (unreserved mark) ' ' NUL, U+00E9 (2 octets), U+FF14 FULLWIDTH DIGIT FOUR
   (3 octets; a digit for Unicode, not for RFC 3986), U+1F600 (4 octets) *)
UriAlphabet  == {37, 43, 52, 67, 69, 97, 71, 47, 126, 32, 0, 233, 65300, 128512}
(* control characters: 'a' '%' '4' '1' '0' LF CR TAB -- every string <= 4, so LF/CR/TAB in every position incl.
   the last one ("abc\n", "%41\n", "\r\n", "\n\n"), and the escapes of the lowest octets "%00" (NUL), "%01",
   "%0a", "%10", for all functions *)
CtlAlphabet  == {97, 37, 52, 49, 48, 10, 13, 9}
UriFns       == {"decode", "encode", "encode_value", "encode_check_escaped", "encode_value_check_escaped"}
(* authority alphabet: 'a' '.' '1' ':' '[' ']' 'v'  ("[v1.a]" is the shortest IPvFuture literal) *)
HostAlphabet == {97, 46, 49, 58, 91, 93, 118}
HostFns      == {"parse_host"}

On(f) == f \in Fns          \* (conjunctions, so that TLC's coverage reports these names)
XDecode        == On("decode") /\ \E p \in BOOLEAN : DoDecode(p)
XEncode        == On("encode") /\ DoEncode
XEncodeValue   == On("encode_value") /\ DoEncodeValue
XEncodeCE      == On("encode_check_escaped") /\ DoEncodeCE
XEncodeValueCE == On("encode_value_check_escaped") /\ DoEncodeValueCE
XParseHost     == On("parse_host") /\ DoParseHost
XNext == XDecode \/ XEncode \/ XEncodeValue \/ XEncodeCE \/ XEncodeValueCE \/ XParseHost

(* wrong-design switch for the vacuity run (MC_UriBad.cfg: HexUp <- LowHexDigit): an encoder that
   writes lower-case escapes must be caught by EncodeOutputAlphabet *)
LowHexDigit(n) == IF n < 10 THEN 48 + n ELSE 87 + n

(* one JSON object per applied function; `bytes` is the octet string before the UTF-8 reading
   (decode only), `closed`/`esc` are the spec-side classifications the harness needs *)
Emit == fn # "init" =>
    PrintT(ToJson([s |-> s, fn |-> fn, plus |-> plus, out |-> out, port |-> port,
                   bytes |-> IF fn = "decode" THEN DecodeBytes(s, plus) ELSE <<>>,
                   closed |-> Closed(s),
                   valid |-> IF fn = "parse_host" THEN ValidHostForm(s) ELSE FALSE,
                   colon |-> IF fn = "parse_host" THEN HasColon(s) ELSE FALSE,
                   esc |-> IF fn \in {"encode_check_escaped", "encode_value_check_escaped"}
                           THEN FullyEscaped(s, AllowedOf(fn)) ELSE FALSE]))
===========================================================================
