-------------------------- MODULE LifespanTrace --------------------------
(* Trace judge for the lifespan clause of C03: [hs, shutdown (the server sent lifespan.shutdown),
   ev: handler calls, sent: events the application sent].
     P3:lifespan-order   the handler called is not the one the discipline requires next
     P3:lifespan-missing a handler the discipline requires was not called
     P3:lifespan-extra   a handler ran after the sequence had to stop
     P3:lifespan-events  the events sent to the server differ *)
EXTENDS Lifespan, Json, IOUtils
Traces == JsonDeserialize(IOEnv.TRACE_FILE)
Empty == {}
VARIABLES tid, l, st, verdict
tvars == <<tid, l, st, verdict>>
T == Traces[tid]
Ev == T.ev[l]
HaveEv == l <= Len(T.ev)
SetOf(s) == {s[j] : j \in 1..Len(s)}

TInit == /\ tid \in 1..Len(Traces) /\ l = 1 /\ st = "run" /\ verdict = "ok"
         /\ hs = [c \in 1..Len(Traces[tid].hs) |-> SetOf(Traces[tid].hs[c])]
         /\ phase = "idle" /\ i = 0 /\ calls = <<>> /\ sent = <<>>

MSite == CASE phase = "startup" /\ i <= N /\ "startup" \in hs[i]  -> <<"startup", i>>
           [] phase = "shutdown" /\ i >= 1 /\ "shutdown" \in hs[i] -> <<"shutdown", i>>
           [] OTHER -> <<"", 0>>
Fail(v) == verdict' = v /\ st' = "fin" /\ UNCHANGED <<vars, tid, l>>
Silent == /\ MSite[1] = ""
          /\ \/ RecvStartup \/ StartupSkip \/ StartupDone \/ (T.shutdown /\ RecvShutdown) \/ ShutdownSkip \/ ShutdownDone
          /\ UNCHANGED tvars
Consume == /\ MSite[1] # ""
           /\ IF ~HaveEv THEN Fail("P3:lifespan-missing")
              ELSE IF <<Ev.site, Ev.c>> # MSite THEN Fail("P3:lifespan-order")
              ELSE IF Ev.act \notin {"ok", "raise"} THEN Fail("H:act")
              ELSE (StartupCall(Ev.act) \/ ShutdownCall(Ev.act)) /\ l' = l + 1 /\ UNCHANGED <<tid, st, verdict>>
Quiescent == phase = "down" \/ (phase = "up" /\ ~T.shutdown)
Finish == /\ st = "run" /\ Quiescent
          /\ IF HaveEv THEN Fail("P3:lifespan-extra")
             ELSE verdict' = (IF T.sent # sent THEN "P3:lifespan-events" ELSE "ok") /\ st' = "fin" /\ UNCHANGED <<vars, tid, l>>
Done == /\ st = "fin" /\ PrintT(<<"VERDICT", tid, verdict, l - 1>>) /\ st' = "done" /\ UNCHANGED <<vars, tid, l, verdict>>
TNext == (st = "run" /\ (Silent \/ Consume \/ Finish)) \/ Done
Sound == st = "run" => verdict = "ok"
=========================================================================
