-------------------------- MODULE LifespanTrace --------------------------
(* Trace judge for the lifespan clause of C03.  A trace is the history of ONE application object:
   [hs0: lifespan methods of the initial components,
    cycles: <<[adds: shapes of components added before this cycle, shutdown: the server sent
               lifespan.shutdown in this cycle, ev: handler calls, sent: events the application sent]>>].
     P3:lifespan-order   the handler called is not the one the discipline requires next
     P3:lifespan-missing a handler the discipline requires was not called
     P3:lifespan-extra   a handler ran after the sequence had to stop
     P3:lifespan-events  the events sent to the server in a cycle differ *)
EXTENDS Lifespan, Json, IOUtils
Traces == JsonDeserialize(IOEnv.TRACE_FILE)
Empty == {}
VARIABLES tid, k, l, st, verdict
tvars == <<tid, k, l, st, verdict>>
T == Traces[tid]
Cy == T.cycles[k]
Ev == Cy.ev[l]
HaveEv == l <= Len(Cy.ev)
SetOf(s) == {s[j] : j \in 1..Len(s)}

TInit == /\ tid \in 1..Len(Traces) /\ k = 1 /\ l = 1 /\ st = "run" /\ verdict = "ok"
         /\ hs = [c \in 1..Len(Traces[tid].hs0) |-> SetOf(Traces[tid].hs0[c])]
         /\ phase = "out" /\ i = 0 /\ cycle = 0 /\ adds = <<>> /\ sd = <<>> /\ calls = <<>> /\ sent = <<>>

(* before cycle k: the add_middleware calls the history made, then the scope is entered *)
Setup == /\ phase = "out" /\ cycle = k - 1
         /\ LET done == Cardinality({a \in 1..Len(adds) : adds[a].after = k - 1}) IN
              IF done < Len(Cy.adds) THEN AddMiddleware(SetOf(Cy.adds[done + 1])) ELSE Enter
         /\ UNCHANGED tvars

MSite == CASE phase = "startup" /\ i <= N /\ "startup" \in hs[i]  -> <<"startup", i>>
           [] phase = "shutdown" /\ i >= 1 /\ "shutdown" \in hs[i] -> <<"shutdown", i>>
           [] OTHER -> <<"", 0>>
Fail(v) == verdict' = v /\ st' = "fin" /\ UNCHANGED <<vars, tid, k, l>>
Silent == /\ MSite[1] = "" /\ cycle = k
          /\ \/ RecvStartup \/ StartupSkip \/ StartupDone \/ (Cy.shutdown /\ RecvShutdown) \/ ShutdownSkip \/ ShutdownDone
          /\ UNCHANGED tvars
Consume == /\ MSite[1] # ""
           /\ IF ~HaveEv THEN Fail("P3:lifespan-missing")
              ELSE IF <<Ev.site, Ev.c>> # MSite THEN Fail("P3:lifespan-order")
              ELSE IF Ev.act \notin {"ok", "raise"} THEN Fail("H:act")
              ELSE (StartupCall(Ev.act) \/ ShutdownCall(Ev.act)) /\ l' = l + 1 /\ UNCHANGED <<tid, k, st, verdict>>
Quiescent == cycle = k /\ (phase = "out" \/ (phase = "up" /\ ~Cy.shutdown))
CycleEnd == /\ st = "run" /\ Quiescent
            /\ IF HaveEv THEN Fail("P3:lifespan-extra")
               ELSE IF Cy.sent # Evs(k) THEN Fail("P3:lifespan-events")
               ELSE IF k < Len(T.cycles)
                      THEN /\ (IF phase = "up" THEN Abandon ELSE UNCHANGED vars)
                           /\ k' = k + 1 /\ l' = 1 /\ UNCHANGED <<tid, st, verdict>>
                      ELSE st' = "fin" /\ UNCHANGED <<vars, tid, k, l, verdict>>
Done == /\ st = "fin" /\ PrintT(<<"VERDICT", tid, verdict, (k - 1) * 1000 + l - 1>>) /\ st' = "done"
        /\ UNCHANGED <<vars, tid, k, l, verdict>>
TNext == (st = "run" /\ (Setup \/ Silent \/ Consume \/ CycleEnd)) \/ Done
Sound == st = "run" => verdict = "ok"
=========================================================================
