INIT Init
NEXT MCNext
CONSTANTS
  Stacks <- NoStack
  Indeps <- OnlyIndep
  Targets <- OnlyRouted
  MaxHooks = 0
  InitRegs <- NoRegs
  RegClasses <- GRegClasses2
  RegBehs <- SRegBehs
  MaxRegs = 3
  RaiseClasses <- GRaise2
  RenderClasses <- None
  Mro <- MCMro
  StatusOf <- MCStatus
  OwnVary <- MCOwnVary
  MaxReqs = 4
  WrongDesign = "none"
  SameObj = TRUE
  MaxFaults = 1
INVARIANT TypeOK
INVARIANT ReqTopDown
INVARIANT ResourceMwOnlyIfRouted
INVARIANT ResponderOnlyIfClean
INVARIANT ResponseBottomUp
INVARIANT ResponseOnce
INVARIANT SucceededIffNoRaise
INVARIANT MostSpecificWins
INVARIANT LatestRegistrationWins
INVARIANT HandlerFollowsRaise
INVARIANT EveryRaiseHandled
INVARIANT StaleBodyDiscarded
INVARIANT NeverEscapesByDefault
INVARIANT HandlerRaisedErrorIsRendered
INVARIANT DefaultRendering
