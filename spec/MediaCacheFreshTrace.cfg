INIT TInit
NEXT TNext
CONSTANTS
  Payloads = {1, 2, 3}
  MaxReqs = 1000
  Memoised = FALSE
INVARIANT Sound
