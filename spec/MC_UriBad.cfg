INIT Init
NEXT XNext
CONSTANTS
  HexUp <- LowHexDigit
  Alphabet <- UriAlphabet
  MaxLen = 2
  Fns <- UriFns
  Extra <- NoInputs
  KnownLiterals <- KnownLits
INVARIANT DecodeTotal
INVARIANT DecodeIdentityOnPlain
INVARIANT DecodeConcat
INVARIANT DecodeChunkLaw
INVARIANT EncodeOutputAlphabet
INVARIANT EncodeConcat
INVARIANT DecodeEncodeId
INVARIANT EncodedPiecesAreChunks
INVARIANT CheckEscapedFixpoint
INVARIANT CheckEscapedConcat
