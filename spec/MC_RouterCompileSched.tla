--------------------- MODULE MC_RouterCompileSched ---------------------
(* schedule export: the history of which thread moved, printed when every thread is done.
   The harness drives real threads through the router in these orders (leg A of C19). *)
EXTENDS MC_RouterCompile
VARIABLE sched
SInit == Init /\ sched = <<>>
SNext == \E t \in Threads : Step(t) /\ sched' = Append(sched, t)
AllDone == \A t \in Threads : pc[t] = "done"
Emit == AllDone => PrintT(ToJson([sched |-> sched, compiles |-> compiles]))
=======================================================================
