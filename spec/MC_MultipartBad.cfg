INIT MCInit
NEXT XNext
CONSTANTS
  DelimWithCRLF = FALSE
  PartPool <- MCPartPool
  EnvPool <- MCEnvPool
  LimitsOf <- MCLimitsOf
  Sizes <- NoSizes
  RDelims <- NoRDelims
  MaxParts = 1
  MaxOps = 1
  MaxRetry = 1
  ContentSel = {1, 9}
  ProfileSel = {1}
  UseJson = FALSE
  BoundarySel = {1}
  PreSel = {1}
  EpiSel = {1}
  FinSel = {TRUE}
  LimModes = {"base"}
  EditPos <- NoPos
  EditKinds = {}
  EditVals = {}
  Depth = 0
INVARIANT ParseOfEncodeIsForm
