---------------------------- MODULE MC_StaticRoute ----------------------------
(* Bounded instances of StaticRoute.  Remainders are assembled from a traversal grammar of
   tokens (each a short atom string); Range / If-Modified-Since instances start from the
   files of every size instead.  Emit exports every finished request with the outcome the
   design gives it (leg A); the ASSUME exports the file-system constant the harness builds. *)
EXTENDS StaticRoute, Json

PathTokens == { <<SEP>>, <<DOT>>, DD, <<DOT, DOT, SEP>>, <<SP>>, <<BSL>>, <<BAD>>,
                <<"f3">>, <<"f5", DOT, "t">>, <<"sub">>, <<"g2">>, <<"x">>,
                <<SEP, "tmp", SEP, "base", SEP>>, <<"root", "x">>, <<"s4">>, <<"o5">>, <<"L", "L", "L">> }
TravTokens == { <<SEP>>, <<DOT>>, DD, <<DOT, DOT, SEP>>, <<"f3">>, <<"sub">>, <<"g2">>,
                <<SEP, "tmp", SEP, "base", SEP>>, <<"root", "x">>, <<"s4">>, <<"o5">> }
(* seeds for the wrong-design runs: the attacks each switch is there to stop *)
AttackSeeds == { <<SEP, "tmp", SEP, "base", SEP, "root", "x", SEP>>, <<DOT, DOT, SEP>>, <<"sub", SEP, DOT, DOT, SEP, DOT, DOT, SEP>> }
AttackTokens == { <<"s4">>, <<"o5">>, <<"root", "x">>, <<SEP>>, <<"f3">> }
EmptyOnly  == { <<>> }
AllFbs     == {"none", "in", "out"}
RangeFbs   == {"none", "out"}
NoRangeOnly == {NoRange}
UtcOnly    == {"UTC"}
Date(d)    == [k |-> "date", d |-> d]
BadIms     == [k |-> "bad", d |-> 0]
NoImsOnly(z) == {NoIms}
RangeIms(z)  == {NoIms, BadIms, Date(-1), Date(0), Date(1)}
(* conditional requests under every zone: at the modification time, one second either side, at the zone's
   offset(s) either side of it (+-1 s), and far away *)
Abs(x) == IF x < 0 THEN -x ELSE x
CondDeltas(z) == {-1, 0, 1, -34560000, 345600000, 1500000000}
                 \cup {s * (Abs(ZoneOffsets(z)[i]) + e) : s \in {-1, 1}, e \in {-1, 0, 1}, i \in {1, 2}}
CondIms(z)   == {NoIms, BadIms} \cup {Date(d) : d \in CondDeltas(z)}
CondFiles    == { <<"f0">>, <<"f3">>, <<"x">> }
R(k, a, b) == RangeRec(k, a, 0, b, 0)
RangeSpecs == {NoRange, R("unit", 0, 1), R("bad", 0, 0)}
              \cup {R("fl", a, b) : a \in 0..7, b \in 0..7}
              \cup {R("f", a, 0) : a \in 0..7} \cup {R("s", a, 0) : a \in 0..7}
CondRanges   == {NoRange, R("fl", 1, 1), R("s", 2, 0), R("bad", 0, 0)}
SizedFiles == { <<"f0">>, <<"f1">>, <<"f2">>, <<"f3">>, <<"f4">>, <<"f5", DOT, "t">>, <<"f6">>, <<"x">> }
NoTokens   == {}
(* positions far beyond the file size: Huge first / last / both (every order of two Huge numbers) / suffix, next
   to the small positions at and just beyond the size they must be decided like *)
HugeRanges == {R("fl", a, b) : a \in 0..2, b \in {0, 2, 7}} \cup {R("f", a, 0) : a \in {0, 1, 3, 6, 7}}
              \cup {R("s", a, 0) : a \in {1, 3, 6, 7}}
              \cup {RangeRec("fl", a, 0, 0, hb) : a \in 0..7, hb \in 1..2}
              \cup {RangeRec("fl", 0, ha, 0, hb) : ha \in 1..2, hb \in 1..2}
              \cup {RangeRec("fl", 0, 1, b, 0) : b \in {0, 1, 6, 7}}
              \cup {RangeRec("f", 0, hr, 0, 0) : hr \in 1..2} \cup {RangeRec("s", 0, hr, 0, 0) : hr \in 1..2}
HugeFiles  == { <<"f0">>, <<"f1">>, <<"f3">>, <<"f6">>, <<"sub", SEP, "g2">>, <<"x">> }
HugeIms(z) == {NoIms, Date(-1), Date(0)}
(* small Range instance for the wrong-design runs *)
SmallRanges == {NoRange} \cup {R("fl", a, b) : a \in 0..3, b \in 0..3} \cup {R("f", a, 0) : a \in 0..3} \cup {R("s", a, 0) : a \in 0..3}
SmallFiles  == { <<"f0">>, <<"f2">>, <<"f3">> }
SmallIms(z) == {NoIms, Date(-1), Date(0), Date(1)}
NoFbOnly    == {"none"}

Emit == Done => PrintT(ToJson([t |-> "case", c |-> rq, e |-> O]))
(* histories on one route object: the mutable file and a fixed one, with and without fallback *)
QuickZones == {"UTC", "XXX5", "America/New_York", "Asia/Tokyo", "Pacific/Kiritimati"}
PastOnly   == {"past"}
AbsentOnly == {0}
AnyM       == {0, 1, 2}
HistFiles  == { <<"m">>, <<"f3">> }
HistRanges == {NoRange, R("s", 2, 0)}
EmitHist == (Done /\ nreq = MaxReq) =>
            PrintT(ToJson([t |-> "hist", steps |-> Append(h, [m |-> mstate, c |-> rq, e |-> O])]))

Atoms == {SEP, DOT, SP, BSL, BAD, "f0", "f1", "f2", "f3", "f4", "f5", "f6", "t", "sub", "g2", "tmp", "base", "root",
          "x", "u", "m", "s4", "o5", "fb3", "L", "M"}
RECURSIVE SetToList(_)
SetToList(S) == IF S = {} THEN <<>> ELSE LET e == CHOOSE e \in S : TRUE IN <<e>> \o SetToList(S \ {e})
FileRec(e) == [path |-> e.path, size |-> e.size, content |-> ContentSeq(e.tag, e.size)]
ASSUME PrintT(ToJson([t |-> "fs",
                      files |-> SetToList({FileRec(e) : e \in StaticFS}),
                      widths |-> [a \in Atoms |-> Width(a)],
                      root |-> Root, sibling |-> Sib, fbin |-> FbPath("in"), fbout |-> FbPath("out"), maxwidth |-> MaxWidth,
                      zones |-> [z \in AllZones |-> ZoneOffsets(z)], nolm |-> NoLM,
                      clocks |-> [k \in AllClocks |-> NowMinusMtime(k)],
                      mfile |-> Root \o << <<"m">> >>,
                      mversions |-> <<ContentSeq(12, 3), ContentSeq(13, 5)>>]))
===============================================================================
