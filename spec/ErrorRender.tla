---------------------------- MODULE ErrorRender ----------------------------
(* C04, rendering clause: what the default error serializer makes of an HTTPError for a given
   Accept header and response configuration.

   A media type is a record [t, s] (type, subtype).  An Accept value is
     [absent, malformed, raw, msfx, ranges]    ranges: sequence of [t, s, q, sfx]
   with q in tenths (0..10) and sfx in {"", "json", "xml"} saying whether the text "+json" /
   "+xml" occurs in the range (the serializer's fallback heuristic looks for it).  `raw`/`msfx`
   describe a header that is not a list of media ranges at all.

   Negotiation: candidates are JSON, then (if xml_error_serialization) text/xml and
   application/xml, then the configured media handlers that can serialise, in registration order.  A candidate's
   quality is the q of the most specific range matching it (exact type beats wildcard; ties on
   specificity go to the larger q); the best candidate wins, the first one on ties, and only if
   its quality is > 0.  Without a winner "+json" / "+xml" anywhere in the header select JSON /
   application/xml.  JSON is always serialisable; another winner is serialised by its configured
   media handler if there is one, else by the built-in XML writer if enabled, else no body. *)
EXTENDS Integers, Sequences, FiniteSets, TLC

MT(t, s) == [t |-> t, s |-> s]
JSON    == MT("application", "json")
TEXTXML == MT("text", "xml")
APPXML  == MT("application", "xml")
MULTIPART == MT("multipart", "form-data")
URLENC  == MT("application", "x-www-form-urlencoded")
NONE    == MT("", "")
DefaultHandlers == <<JSON, MULTIPART, URLENC>>      \* media handlers a fresh application has

(* Media types are case-insensitive (RFC 9110, 8.3.1).  A range is written in some spelling cs: "lower", "upper"
   (APPLICATION/VND.ACME+XML), "sfx" (only the structured-syntax suffix / the subtype's tail in upper case:
   application/vnd.acme.v2+JSON) or "mixed" (Application/Vnd.Acme+Json).  t, s and sfx are what the protocol
   reads, i.e. the lower-case form; the spelling takes part in nothing below except the named wrong design
   "suffix_case_sensitive" (the +json / +xml fallback looking for the lower-case text only). *)
CONSTANT WrongRender
Spellings == {"lower", "upper", "sfx", "mixed"}
Range(t, s, q, sfx) == [t |-> t, s |-> s, q |-> q, sfx |-> sfx, cs |-> "lower"]
Spelled(r, cs) == [r EXCEPT !.cs = cs]
Lowered(acc) == [acc EXCEPT !.ranges = [j \in 1..Len(acc.ranges) |-> Spelled(acc.ranges[j], "lower")]]
SfxSeen(r) == WrongRender # "suffix_case_sensitive" \/ r.cs = "lower"
AnyRange == Range("*", "*", 10, "")

Ranges(acc) == IF acc.absent THEN <<AnyRange>> ELSE IF acc.malformed THEN <<>> ELSE acc.ranges
HasSfx(acc, x) == IF acc.absent THEN FALSE
                  ELSE IF acc.malformed THEN acc.msfx = x
                  ELSE \E j \in 1..Len(acc.ranges) : acc.ranges[j].sfx = x /\ SfxSeen(acc.ranges[j])

Matches(r, m) == (r.t = "*" \/ r.t = m.t) /\ (r.s = "*" \/ r.s = m.s)
(* specificity first (type, then subtype), q last: one integer key per matching range *)
Key(r, m) == IF Matches(r, m) THEN ((IF r.t = "*" THEN 0 ELSE 2) + (IF r.s = "*" THEN 0 ELSE 1)) * 11 + r.q ELSE -1
Max(S) == CHOOSE x \in S : \A y \in S : y <= x
Quality(m, rs) == LET ks == {Key(rs[j], m) : j \in 1..Len(rs)} \cup {-1}
                      k  == Max(ks)
                  IN  IF k < 0 THEN 0 ELSE k % 11

InSeq(s, x) == \E j \in 1..Len(s) : s[j] = x
Predefined(xmlOn) == IF xmlOn THEN <<JSON, TEXTXML, APPXML>> ELSE <<JSON>>
(* only a handler that can serialise is a candidate: the multipart form handler is parse-only *)
Serializes(h) == h # MULTIPART
Candidates(xmlOn, handlers) ==
    Predefined(xmlOn) \o SelectSeq(handlers, LAMBDA h : ~InSeq(Predefined(xmlOn), h) /\ Serializes(h))

BestMatch(cands, rs) ==
    IF cands = <<>> THEN NONE
    ELSE LET best == Max({Quality(cands[j], rs) : j \in 1..Len(cands)})
             j0   == CHOOSE j \in 1..Len(cands) : Quality(cands[j], rs) = best
                                                  /\ \A j2 \in 1..(j - 1) : Quality(cands[j2], rs) # best
         IN  IF best > 0 THEN cands[j0] ELSE NONE

Preferred(acc, xmlOn, handlers) ==
    LET p == BestMatch(Candidates(xmlOn, handlers), Ranges(acc))
    IN  IF p # NONE THEN p
        ELSE IF HasSfx(acc, "json") THEN JSON
        ELSE IF HasSfx(acc, "xml") THEN APPXML
        ELSE NONE

Negotiate(acc, xmlOn, handlers) ==
    LET p == Preferred(acc, xmlOn, handlers)
    IN  IF p = NONE THEN [kind |-> "none", ctype |-> NONE]
        ELSE IF p = JSON THEN [kind |-> "json", ctype |-> JSON]
        ELSE IF InSeq(handlers, p) THEN [kind |-> "media", ctype |-> p]
        ELSE IF xmlOn THEN [kind |-> "xml", ctype |-> p]
        ELSE [kind |-> "none", ctype |-> p]

(* the document: title always; description, code, link only when the error has them *)
Fields(e) == {"title"} \cup (IF e.desc THEN {"description"} ELSE {}) \cup (IF e.code THEN {"code"} ELSE {})
             \cup (IF e.link THEN {"link"} ELSE {})
(* to_dict() is the documented customisation point: a subclass may add a field ("adds": problems),
   drop one ("drops": description) or rename one ("renames": title -> summary).  JSON and every
   configured media handler encode what to_dict() returns; the built-in XML writer is field based. *)
DictFields(e) == CASE e.shape = "adds"    -> Fields(e) \cup {"problems"}
                   [] e.shape = "drops"   -> Fields(e) \ {"description"}
                   [] e.shape = "renames" -> (Fields(e) \ {"title"}) \cup {"summary"}
                   [] OTHER               -> Fields(e)
DocFields(e, kind) == IF kind \in {"json", "media"} THEN DictFields(e) ELSE IF kind = "xml" THEN Fields(e) ELSE {}

(* ---- headers the header-bearing error / redirect classes derive from their constructor arguments ----
   ctor = [kind, n, date, items, loc]:
     "retry"     413 / 429 / 503 (retry_after): none (n = -1, ~date) -> no header; an integer n >= 0 (0 = retry
                 now) -> Retry-After: n; a datetime -> Retry-After: its HTTP-date (written "<http-date>" here)
     "allow"     405 (allowed_methods = items) -> Allow: the methods joined by ", " (always present)
     "range"     416 (resource_length = n) -> Content-Range: bytes */n
     "challenge" 401 (challenges = items) -> WWW-Authenticate: the challenges joined by ", ", none if empty
     "location"  301/302/303/307/308 redirects (HTTPStatus, not HTTPError) -> Location: the target as given *)
NoCtor == [kind |-> "none", n |-> -1, date |-> FALSE, items |-> <<>>, loc |-> ""]
RECURSIVE Join(_)
Join(q) == IF q = <<>> THEN "" ELSE IF Len(q) = 1 THEN q[1] ELSE q[1] \o ", " \o Join(Tail(q))
H(name, value) == [name |-> name, value |-> value]
OwnHeaders(c) ==
    CASE c.kind = "retry"     -> IF c.date THEN {H("retry-after", "<http-date>")}
                                 ELSE IF c.n >= 0 THEN {H("retry-after", ToString(c.n))} ELSE {}
      [] c.kind = "allow"     -> {H("allow", Join(c.items))}
      [] c.kind = "range"     -> {H("content-range", "bytes */" \o ToString(c.n))}
      [] c.kind = "challenge" -> IF c.items = <<>> THEN {} ELSE {H("www-authenticate", Join(c.items))}
      [] c.kind = "location"  -> {H("location", c.loc)}
      [] OTHER                -> {}
IsRedirect(e) == e.ctor.kind = "location"

Render(e, acc, xmlOn, handlers) ==
    LET n == Negotiate(acc, xmlOn, handlers)
    IN  IF IsRedirect(e)       \* an HTTPStatus: its status and headers, no negotiated document
        THEN [status |-> e.status, kind |-> "none", ctype |-> NONE, vary |-> FALSE, fields |-> {}, own |-> OwnHeaders(e.ctor)]
        ELSE [status |-> e.status, kind |-> n.kind, ctype |-> n.ctype, vary |-> TRUE,
              fields |-> DocFields(e, n.kind), own |-> OwnHeaders(e.ctor)]

(* ------------------------- decision-table machine ----------------------- *)
CONSTANTS Accepts, ExtraHandlers, Errors
VARIABLES acc, xmlOn, extra, err, out
vars == <<acc, xmlOn, extra, err, out>>
Pending == [status |-> 0, kind |-> "", ctype |-> NONE, vary |-> FALSE, fields |-> {}, own |-> {}]
Handlers == DefaultHandlers \o extra
Init == /\ acc \in Accepts /\ xmlOn \in BOOLEAN /\ extra \in ExtraHandlers /\ err \in Errors /\ out = Pending
RenderError == /\ out = Pending /\ out' = Render(err, acc, xmlOn, Handlers) /\ UNCHANGED <<acc, xmlOn, extra, err>>
Next == RenderError
Spec == Init /\ [][Next]_vars

Done == out # Pending
Cands == Candidates(xmlOn, Handlers)
Q(m) == Quality(m, Ranges(acc))
OwnStatusAndVary == Done => out.status = err.status /\ (out.vary = ~IsRedirect(err))
(* "retry now" is a retry-after of 0, not the absence of one; every header-bearing constructor shows in the response *)
OwnHeadersSent == Done =>
    /\ out.own = OwnHeaders(err.ctor)
    /\ (err.ctor.kind = "retry" /\ ~err.ctor.date /\ err.ctor.n = 0) => H("retry-after", "0") \in out.own
    /\ (err.ctor.kind \in {"allow", "range", "location"}) => out.own # {}
(* what a subclass makes of to_dict() reaches every representation built from the dict *)
ToDictHonoured == Done /\ out.kind \in {"json", "media"} =>
    /\ err.shape = "adds" => "problems" \in out.fields
    /\ err.shape = "drops" => "description" \notin out.fields
    /\ err.shape = "renames" => "summary" \in out.fields /\ "title" \notin out.fields
JsonByDefault == Done /\ ~IsRedirect(err) /\ (acc.absent \/ (~acc.malformed /\ acc.ranges = <<AnyRange>>)) => out.kind = "json"
KindConsistent == Done /\ ~IsRedirect(err) =>
    /\ out.kind = "json" => out.ctype = JSON
    /\ out.kind = "xml" => xmlOn /\ out.ctype \in {TEXTXML, APPXML} /\ ~InSeq(Handlers, out.ctype)
    /\ out.kind = "media" => InSeq(Handlers, out.ctype) /\ out.ctype # JSON
    /\ (out.kind = "none") = (out.fields = {})
(* the client's preference is honoured: nothing it likes better (or equally, but listed first) was available *)
ClientPreferenceHonoured == Done /\ ~IsRedirect(err) /\ BestMatch(Cands, Ranges(acc)) # NONE =>
    /\ out.ctype = BestMatch(Cands, Ranges(acc))
    /\ Q(out.ctype) > 0
    /\ \A j \in 1..Len(Cands) : Q(Cands[j]) <= Q(out.ctype)
    /\ Q(JSON) = Q(out.ctype) => out.ctype = JSON
(* the spelling of the Accept header's media ranges is immaterial: same rendering as for the lower-case spelling *)
SpellingIrrelevant == Done => out = Render(err, Lowered(acc), xmlOn, Handlers)
NothingAcceptableNoBody == Done /\ BestMatch(Cands, Ranges(acc)) = NONE /\ ~HasSfx(acc, "json") /\ ~HasSfx(acc, "xml")
                           => out.kind = "none"
=============================================================================
