---------------------------- MODULE ErrorRender ----------------------------
(* C04, rendering clause: what the default error serializer makes of an HTTPError for a given
   Accept header and response configuration.

   A media type is a record [t, s] (type, subtype).  An Accept value is
     [absent, malformed, raw, msfx, ranges]    ranges: sequence of [t, s, q, sfx]
   with q in tenths (0..10) and sfx in {"", "json", "xml"} saying whether the text "+json" /
   "+xml" occurs in the range (the serializer's fallback heuristic looks for it).  `raw`/`msfx`
   describe a header that is not a list of media ranges at all.

   Negotiation: candidates are JSON, then (if xml_error_serialization) text/xml and
   application/xml, then the configured media handlers that can serialise, in registration order.  A candidate's
   quality is the q of the most specific range matching it (exact type beats wildcard; ties on
   specificity go to the larger q); the best candidate wins, the first one on ties, and only if
   its quality is > 0.  Without a winner "+json" / "+xml" anywhere in the header select JSON /
   application/xml.  JSON is always serialisable; another winner is serialised by its configured
   media handler if there is one, else by the built-in XML writer if enabled, else no body. *)
EXTENDS Integers, Sequences, FiniteSets, TLC

MT(t, s) == [t |-> t, s |-> s]
JSON    == MT("application", "json")
TEXTXML == MT("text", "xml")
APPXML  == MT("application", "xml")
MULTIPART == MT("multipart", "form-data")
URLENC  == MT("application", "x-www-form-urlencoded")
NONE    == MT("", "")
DefaultHandlers == <<JSON, MULTIPART, URLENC>>      \* media handlers a fresh application has

Range(t, s, q, sfx) == [t |-> t, s |-> s, q |-> q, sfx |-> sfx]
AnyRange == Range("*", "*", 10, "")

Ranges(acc) == IF acc.absent THEN <<AnyRange>> ELSE IF acc.malformed THEN <<>> ELSE acc.ranges
HasSfx(acc, x) == IF acc.absent THEN FALSE
                  ELSE IF acc.malformed THEN acc.msfx = x
                  ELSE \E j \in 1..Len(acc.ranges) : acc.ranges[j].sfx = x

Matches(r, m) == (r.t = "*" \/ r.t = m.t) /\ (r.s = "*" \/ r.s = m.s)
(* specificity first (type, then subtype), q last: one integer key per matching range *)
Key(r, m) == IF Matches(r, m) THEN ((IF r.t = "*" THEN 0 ELSE 2) + (IF r.s = "*" THEN 0 ELSE 1)) * 11 + r.q ELSE -1
Max(S) == CHOOSE x \in S : \A y \in S : y <= x
Quality(m, rs) == LET ks == {Key(rs[j], m) : j \in 1..Len(rs)} \cup {-1}
                      k  == Max(ks)
                  IN  IF k < 0 THEN 0 ELSE k % 11

InSeq(s, x) == \E j \in 1..Len(s) : s[j] = x
Predefined(xmlOn) == IF xmlOn THEN <<JSON, TEXTXML, APPXML>> ELSE <<JSON>>
(* only a handler that can serialise is a candidate: the multipart form handler is parse-only *)
Serializes(h) == h # MULTIPART
Candidates(xmlOn, handlers) ==
    Predefined(xmlOn) \o SelectSeq(handlers, LAMBDA h : ~InSeq(Predefined(xmlOn), h) /\ Serializes(h))

BestMatch(cands, rs) ==
    IF cands = <<>> THEN NONE
    ELSE LET best == Max({Quality(cands[j], rs) : j \in 1..Len(cands)})
             j0   == CHOOSE j \in 1..Len(cands) : Quality(cands[j], rs) = best
                                                  /\ \A j2 \in 1..(j - 1) : Quality(cands[j2], rs) # best
         IN  IF best > 0 THEN cands[j0] ELSE NONE

Preferred(acc, xmlOn, handlers) ==
    LET p == BestMatch(Candidates(xmlOn, handlers), Ranges(acc))
    IN  IF p # NONE THEN p
        ELSE IF HasSfx(acc, "json") THEN JSON
        ELSE IF HasSfx(acc, "xml") THEN APPXML
        ELSE NONE

Negotiate(acc, xmlOn, handlers) ==
    LET p == Preferred(acc, xmlOn, handlers)
    IN  IF p = NONE THEN [kind |-> "none", ctype |-> NONE]
        ELSE IF p = JSON THEN [kind |-> "json", ctype |-> JSON]
        ELSE IF InSeq(handlers, p) THEN [kind |-> "media", ctype |-> p]
        ELSE IF xmlOn THEN [kind |-> "xml", ctype |-> p]
        ELSE [kind |-> "none", ctype |-> p]

(* the document: title always; description, code, link only when the error has them *)
Fields(e) == {"title"} \cup (IF e.desc THEN {"description"} ELSE {}) \cup (IF e.code THEN {"code"} ELSE {})
             \cup (IF e.link THEN {"link"} ELSE {})

Render(e, acc, xmlOn, handlers) ==
    LET n == Negotiate(acc, xmlOn, handlers)
    IN  [status |-> e.status, kind |-> n.kind, ctype |-> n.ctype, vary |-> TRUE,
         fields |-> IF n.kind = "none" THEN {} ELSE Fields(e)]

(* ------------------------- decision-table machine ----------------------- *)
CONSTANTS Accepts, ExtraHandlers, Errors
VARIABLES acc, xmlOn, extra, err, out
vars == <<acc, xmlOn, extra, err, out>>
Pending == [status |-> 0, kind |-> "", ctype |-> NONE, vary |-> FALSE, fields |-> {}]
Handlers == DefaultHandlers \o extra
Init == /\ acc \in Accepts /\ xmlOn \in BOOLEAN /\ extra \in ExtraHandlers /\ err \in Errors /\ out = Pending
RenderError == /\ out = Pending /\ out' = Render(err, acc, xmlOn, Handlers) /\ UNCHANGED <<acc, xmlOn, extra, err>>
Next == RenderError
Spec == Init /\ [][Next]_vars

Done == out # Pending
Cands == Candidates(xmlOn, Handlers)
Q(m) == Quality(m, Ranges(acc))
OwnStatusAndVary == Done => out.status = err.status /\ out.vary
JsonByDefault == Done /\ (acc.absent \/ (~acc.malformed /\ acc.ranges = <<AnyRange>>)) => out.kind = "json"
KindConsistent == Done =>
    /\ out.kind = "json" => out.ctype = JSON
    /\ out.kind = "xml" => xmlOn /\ out.ctype \in {TEXTXML, APPXML} /\ ~InSeq(Handlers, out.ctype)
    /\ out.kind = "media" => InSeq(Handlers, out.ctype) /\ out.ctype # JSON
    /\ (out.kind = "none") = (out.fields = {})
(* the client's preference is honoured: nothing it likes better (or equally, but listed first) was available *)
ClientPreferenceHonoured == Done /\ BestMatch(Cands, Ranges(acc)) # NONE =>
    /\ out.ctype = BestMatch(Cands, Ranges(acc))
    /\ Q(out.ctype) > 0
    /\ \A j \in 1..Len(Cands) : Q(Cands[j]) <= Q(out.ctype)
    /\ Q(JSON) = Q(out.ctype) => out.ctype = JSON
NothingAcceptableNoBody == Done /\ BestMatch(Cands, Ranges(acc)) = NONE /\ ~HasSfx(acc, "json") /\ ~HasSfx(acc, "xml")
                           => out.kind = "none"
=============================================================================
