INIT MCInit
NEXT WrongNext
CONSTANTS
  Versions = {23}
  QueueSizes = {0}
  TextIds = {1}
  DataIds = {1}
  CloseArgs <- MCCloseArgs
  DiscCodes <- MCDisc
  ErrCodes = {1011}
  Faults = {"lost"}
  MwKinds = {"none"}
  RouteKinds = {"ok"}
  HandlerKinds = {"default"}
  FirstKinds = {"connect"}
  MaxSteps = 1
  MaxClient = 1
  Depth = 0
INVARIANT CloseAlwaysSent
VIEW MCView
