INIT TInit
NEXT TNext
CONSTANTS
  Stacks <- Empty
  Indeps <- Empty
  Targets <- Empty
  MaxHooks = 0
  InitRegs <- Empty
  RegClasses <- Empty
  RegBehs <- Empty
  MaxRegs = 0
  RaiseClasses <- Empty
  RenderClasses <- Empty
  Mro <- TMro
  StatusOf <- TStatus
  WrongDesign = "none"
INVARIANT Sound
