INIT TInit
NEXT TNext
CONSTANTS
  Stacks <- Empty
  Indeps <- Empty
  Targets <- Empty
  MaxHooks = 0
  InitRegs <- Empty
  RegClasses <- Empty
  RegBehs <- Empty
  MaxRegs = 99
  RaiseClasses <- Empty
  RenderClasses <- Empty
  Mro <- TMro
  StatusOf <- TStatus
  OwnVary <- TOwnVary
  MaxReqs = 99
  WrongDesign = "none"
INVARIANT Sound
