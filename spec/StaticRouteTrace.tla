-------------------------- MODULE StaticRouteTrace --------------------------
(* Trace judge for C16.  Reads a JSON list of traces recorded from the real static route:
     [c |-> request (path atoms, fb, head, range, ims),
      obs |-> observations of that request, one per interface / spelling that produced a
              different projection: [status, body, cr, clen, opens, exc]]
   Every trace is one initial state.  Total: every observation is consumed; the first failing
   property clause is recorded in `verdict` (P:exception, P:containment, P:must-serve, P:not-404,
   P:status, P:body, P:slice, P:206, P:416, P:416-size, P:304, P:304-body, P:content-range,
   P:content-length); the first difference from the designed outcome that the property does not
   demand is recorded in `dnote` (D:status, D:opens, D:body, D:content-range, D:content-length)
   and judging continues. *)
EXTENDS StaticRouteOps, Json, IOUtils

Traces == JsonDeserialize(IOEnv.TRACE_FILE)

VARIABLES tid, l, verdict, dnote
vars == <<tid, l, verdict, dnote>>
T == Traces[tid]

Init == tid \in 1..Len(Traces) /\ l = 1 /\ verdict = "ok" /\ dnote = "ok"

Step == /\ l >= 1 /\ l <= Len(T.obs) /\ verdict = "ok"
        /\ verdict' = PVerdict(T.c, T.obs[l])
        /\ dnote' = (IF dnote # "ok" THEN dnote ELSE DVerdict(T.c, T.obs[l]))
        /\ l' = l + 1 /\ UNCHANGED tid

Done == /\ l >= 1 /\ (l > Len(T.obs) \/ verdict # "ok")
        /\ PrintT(<<"VERDICT", tid, IF verdict # "ok" THEN verdict ELSE dnote, l - 1>>)
        /\ l' = -1 /\ UNCHANGED <<tid, verdict, dnote>>

Next == Step \/ Done
Spec == Init /\ [][Next]_vars
Sound == l <= Len(T.obs) + 1
=============================================================================
