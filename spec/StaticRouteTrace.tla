-------------------------- MODULE StaticRouteTrace --------------------------
(* Trace judge for C16.  Reads a JSON list of traces recorded from the real static route:
     [steps |-> sequence of [m |-> state of the mutable file root/m when the request was made (0 absent, 1, 2),
                             c |-> request (path atoms, fb, head, range, ims, zone, clock),
                             o |-> observation [status, body, cr, clen, opens, exc, lm]]]
   A single request observed under several interfaces / spellings is a trace whose steps repeat c; a history on
   one route object is a trace whose steps follow one another with the file system changing in between: every
   response is judged against the file system at that time (ResponseFollowsFileSystem).
   Every trace is one initial state.  Total: every step is consumed; the first failing property clause is
   recorded in `verdict` (P:exception, P:containment, P:must-serve, P:not-404, P:status, P:body, P:slice, P:206,
   P:416, P:416-size, P:304, P:304-body, P:content-range, P:content-length, P:last-modified); the first
   difference from the designed outcome that the property does not demand is recorded in `dnote` (D:status,
   D:opens, D:body, D:content-range, D:content-length, D:last-modified) and judging continues. *)
EXTENDS StaticRouteOps, Json, IOUtils

Traces == JsonDeserialize(IOEnv.TRACE_FILE)

VARIABLES tid, l, verdict, dnote
vars == <<tid, l, verdict, dnote, mstate>>
T == Traces[tid]
MAt(i) == IF i <= Len(T.steps) THEN T.steps[i].m ELSE 0

Init == /\ tid \in 1..Len(Traces) /\ l = 1 /\ verdict = "ok" /\ dnote = "ok"
        /\ mstate = (IF Len(Traces[tid].steps) >= 1 THEN Traces[tid].steps[1].m ELSE 0)

Step == /\ l >= 1 /\ l <= Len(T.steps) /\ verdict = "ok"
        /\ verdict' = PVerdict(T.steps[l].c, T.steps[l].o)          \* evaluated with mstate = T.steps[l].m
        /\ dnote' = (IF dnote # "ok" THEN dnote ELSE DVerdict(T.steps[l].c, T.steps[l].o))
        /\ mstate' = MAt(l + 1)
        /\ l' = l + 1 /\ UNCHANGED tid

Done == /\ l >= 1 /\ (l > Len(T.steps) \/ verdict # "ok")
        /\ PrintT(<<"VERDICT", tid, IF verdict # "ok" THEN verdict ELSE dnote, l - 1>>)
        /\ l' = -1 /\ UNCHANGED <<tid, verdict, dnote, mstate>>

Next == Step \/ Done
Spec == Init /\ [][Next]_vars
Sound == l <= Len(T.steps) + 1
=============================================================================
