INIT AInit
NEXT ANext
CONSTANTS
  Templates <- CxTemplates
  ResKinds <- CxResKinds
  SinkPats <- CxSinkPats
  StaticPrefixes <- CxStaticPrefixes
  Methods <- CxMethods
  Paths <- CxPaths
  MaxCalls = 4
  NewestFirst = TRUE
  RoutesFirst = TRUE
INVARIANT EmitDeep
