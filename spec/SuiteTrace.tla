----------------------------- MODULE SuiteTrace -----------------------------
(* G01 - judge for the exchanges falcon's own test suite makes (DESIGN section 3, growth path).

   engine/suite_recorder.py records, for every HTTP request any test of /repo/tests sends through
   falcon.App / falcon.asgi.App: the request, the server-visible response exactly as the server got
   it, which responder the app picked for which (method, path), the response object at the moment of
   emission, and the app configuration (falcon.inspect.inspect_app + order of the add_sink /
   add_static_route calls).  checks/g01.py projects every record onto the vocabulary of the existing
   specifications (it runs the independent protocol monitors of engine/drivers.py on the recorded
   response and parses templates / sink prefixes into Dispatch's tokens; it decides nothing) and
   this module judges the projection.  Every exchange is one initial state.

   Nothing is re-specified here.  The expectations are the operators of the property modules:

     part E (C05)  RE == INSTANCE ResponseEmit: the clause operators ExactlyOneStartC, NothingAfterFinalC,
                   OnlyLastHasNoMoreBodyC, BodilessHaveNoBytesC, TypelessHaveNoFrameworkTypeC,
                   OthersHaveTypeC, StatusLineWellFormedC (the status as it was handed to the server: a
                   native string "DDD SP reason" on WSGI, an int 100..999 on ASGI), PrecedenceC,
                   LengthConsistentC, applied in the order and to the
                   observation records of C05's own trace judge (ResponseEmitTrace), + the protocol
                   monitor (status line, native-string headers, byte-string blocks).  The case `c`
                   describes the response as it stood when it was emitted (after error handlers ran),
                   so "the application" of C05 is: responders, middleware and error handlers together.
     part H (C15)  RH == INSTANCE RespHeaders with the stores bound to what the server received:
                   EmitOncePerPlainHeader, AsgiNamesLower, OneLinePerCookieAndRawCookie - the
                   emission sentence of C15 ("the header list handed to the server contains each plain
                   header exactly once with lower-case ASGI names and one separate Set-Cookie line per
                   cookie and per appended raw cookie").  The map is the response's header store at
                   the moment of emission.
     part D (C02)  D == INSTANCE Dispatch with the tables bound to the inspected configuration:
                   Outcome(method, path) for the method and path the app routed on; who was picked
                   (resource responder under its suffix / sink / static route / 404 / 405 / automatic
                   OPTIONS), keyword arguments.
     part S (C02)  status and Allow exactness of the default answers (404; 405 with Allow =
                   implemented + OPTIONS; automatic OPTIONS 200 with Allow = implemented).

   Expressible.  The suite legitimately does things the three statements do not speak about.  Such an
   exchange (or one part of it) is SKIPPED - counted under the reason below, never accepted.  The
   reasons are facts the recorder observed, never the outcome of a clause:

     whole exchange (ExchangeSkip)
       no-request          ASGI: the client was gone before the first http.request event; falcon answers
                           nothing (nothing to judge)
       exception-escaped   an exception left the app callable, or the response stream raised while the
                           server iterated it: error-path tests that expect the exception to escape
                           (handlers removed, BaseException, unsupported scope, raising streams, header
                           values ASGI cannot encode).  The statements speak about what the server
                           receives when the app *answers*.
     part E
       invalid-status      the test put a value into resp.status that is no status (not an int 100..999,
                           http.HTTPStatus or "<3 digits> <reason>" as str / bytes): outside C05's quantifier
       custom-response     a response class of the test's own that replaces render_body() (the body is then
                           whatever that method returns, not one of the documented sources), or whose
                           emission did not pass through falcon's header emission (no snapshot)
       hop-by-hop-by-app   the test itself set a hop-by-hop header (PEP 3333 forbids the application to);
                           what the monitor then reports is the test's doing
       type-origin-unknown ASGI, 204/304 with a Content-Type equal to the default media type while
                           resp.media was rendered: whether the application or the rendering supplied it
                           cannot be observed from outside
       falsy-stream        the chosen body source is a falsy stream object (outside C05's domain)
       An exchange the *server* aborted (send failed, iterable not exhausted) is NOT skipped: the judge is told
       sendFailed and, as C05's does, judges what was received.  Where an exception was handled on ASGI the
       judge is told fk = "render" (a render-phase fault cannot be excluded from outside), which exempts exactly
       PrecedenceC as C05 does; on WSGI a render-phase fault is observed exactly.
       CloseExactlyOnceOnceBegunC is not judged: the suite's stream objects are not instrumented.
     part H
       no-emission-snapshot   as custom-response; or no response start reached the server
       malformed-list         the server did not get a list of string pairs (part E reports that)
     part D
       not-routed          no routing took place: a middleware completed the response or raised, or the
                           method is the WEBSOCKET pseudo-method
       custom-router       the app uses a router inspect_app cannot describe
       custom-methods      the test extended falcon's method universe (FALCON_CUSTOM_HTTP_METHODS)
       template-vocabulary some route template has a converter, a multi-field segment or two field names at
                           one position (C01's domain; Dispatch has literal and single-field segments)
       sink-vocabulary     some sink prefix is not made of literal text, (?P<n>\d+), (?P<n>[^/]+), (\d+), ([^/]+) with
                           at most the IGNORECASE flag, or is not Dispatch!WellFormedSink; or a static prefix is
                           not "/literal/"
       order-unknown       the order of the add_sink / add_static_route calls was not observed (obs.ids: the
                           assembly calls that registered the callable that ran; one callable may serve several)
       responder-unnamed   the picked responder cannot be named (no uri_template, not an on_* method,
                           non-string keyword arguments)
     part S (in addition to part D)
       not-default-answer  the decision is not 404 / 405 / automatic OPTIONS
       middleware          the app has middleware (it may rewrite the answer: CORS does), or it could not be inspected
       own-error-handler   the app registered error handlers of its own (they render the 404 / 405)
       no-response         nothing reached the server *)
EXTENDS Integers, Sequences, FiniteSets, TLC, Json, IOUtils

Traces == JsonDeserialize(IOEnv.TRACE_FILE)

VARIABLES tid, l, verdict
vars == <<tid, l, verdict>>

T == Traces[tid]
SeqRange(s) == {s[i] : i \in 1..Len(s)}

-----------------------------------------------------------------------------
(* part E: ResponseEmit's clause operators on the record (fields c, ev, pieces, begun, closes, raised,
   sendFailed, exc, errors - the observation format of ResponseEmitTrace) *)
RE == INSTANCE ResponseEmit WITH RenderSetsType <- FALSE, BodilessByLine <- FALSE, ForgetCloseOnFault <- FALSE, StaleLengthOnRenderFault <- FALSE, StatusStringAsIs <- FALSE, ReturnOnDisconnect <- FALSE,
          c0 <- T.c, c <- T.c, pc <- "done", ev <- T.ev, k <- 0, hand <- -1, sends <- 0,
          begun <- T.begun, closes <- T.closes, raised <- T.raised, sendFailed <- T.sendFailed

(* The observation records and the order of the clauses are those of ResponseEmitTrace (Prefix / Whole / JudgePrefix /
   JudgeWhole; P:Exception is subsumed by exception-escaped, the close clause is not observable).  They are written
   out here because an INSTANCE of that module reads the trace file through its own `Traces` definition, which TLC
   re-evaluates on every use inside an instance (minutes instead of seconds). *)
Complete == ~T.sendFailed /\ ~T.exc
PrefixObs(n) == [c |-> T.c, ev |-> SubSeq(T.ev, 1, n), pieces |-> <<>>, begun |-> T.begun, closes |-> 0,
                 complete |-> FALSE, ended |-> FALSE]
WholeObs     == [c |-> T.c, ev |-> T.ev, pieces |-> T.pieces, begun |-> T.begun, closes |-> T.closes,
                 complete |-> Complete, ended |-> TRUE]

JudgePrefix(o) ==
    IF ~RE!ExactlyOneStartC(o) THEN "P:ExactlyOneStart"
    ELSE IF ~RE!NothingAfterFinalC(o) THEN "P:NothingAfterFinal"
    ELSE IF ~RE!OnlyLastHasNoMoreBodyC(o) THEN "P:OnlyLastHasNoMoreBody"
    ELSE IF ~RE!BodilessHaveNoBytesC(o) THEN "P:BodilessHaveNoBytes"
    ELSE IF ~RE!TypelessHaveNoFrameworkTypeC(o) THEN "P:TypelessHaveNoFrameworkType"
    ELSE IF ~RE!OthersHaveTypeC(o) THEN "P:OthersHaveType"
    ELSE IF ~RE!StatusLineWellFormedC(o) THEN "P:StatusLineWellFormed"
    ELSE "ok"

JudgeWhole(o) ==
    IF T.errors > 0 THEN "P:Protocol"
    ELSE IF ~RE!ExactlyOneStartC(o) THEN "P:ExactlyOneStart"
    ELSE IF ~RE!OnlyLastHasNoMoreBodyC(o) THEN "P:OnlyLastHasNoMoreBody"
    ELSE IF ~RE!PrecedenceC(o) THEN "P:Precedence"
    ELSE IF ~RE!LengthConsistentC(o) THEN "P:LengthConsistent"
    ELSE "ok"

ExchangeSkip ==
    IF T.x.norequest THEN "no-request"
    ELSE IF T.x.escaped THEN "exception-escaped"
    ELSE ""

EmitSkip ==
    IF ExchangeSkip # "" THEN ExchangeSkip
    ELSE IF ~T.x.snap \/ T.x.ownrender THEN "custom-response"
    ELSE IF T.x.badstatus THEN "invalid-status"
    ELSE IF T.x.hopbyhop THEN "hop-by-hop-by-app"
    ELSE IF T.x.ctunknown /\ RE!Typeless(T.c) THEN "type-origin-unknown"
    ELSE IF T.x.falsystream /\ RE!Chosen(T.c) = "stream" THEN "falsy-stream"
    ELSE ""

(* JudgePrefix is evaluated on the longest prefix only.  Its clauses (at most one start and nothing before it,
   nothing after a final event, every non-last body event has more_body, no bytes for a bodiless response, the
   Content-Type class and the status of the start event) are prefix-closed: a prefix has no more starts, finals, bytes than the
   whole and the same first event, so they hold on every prefix iff they hold on the longest one.  (C05's judge
   walks the prefixes to name the position; the suite has responses of a thousand blocks.) *)
EmitVerdict ==
    IF EmitSkip # "" THEN "skip/" \o EmitSkip
    ELSE LET p == JudgePrefix(PrefixObs(Len(T.ev))) IN IF p # "ok" THEN p ELSE JudgeWhole(WholeObs)

-----------------------------------------------------------------------------
(* part H: the emission invariants of RespHeaders, the stores bound to what the server received *)
H == T.h
HdrKeys == {[b |-> p.b, c |-> p.c] : p \in SeqRange(H.plain)}
EmHdr   == [k \in HdrKeys |-> (CHOOSE p \in SeqRange(H.plain) : p.b = k.b /\ p.c = k.c).v]

(* the Set-Cookie lines the server received: those that are an appended raw cookie verbatim (each raw
   value accounts for one line), the others carry the cookies of the jar *)
RECURSIVE RemoveFirstText(_, _)
RemoveFirstText(s, t) == IF s = <<>> THEN <<>> ELSE IF Head(s).text = t THEN Tail(s) ELSE <<Head(s)>> \o RemoveFirstText(Tail(s), t)
HasText(s, t) == \E i \in 1..Len(s) : s[i].text = t
RECURSIVE SplitRaw(_, _, _)
SplitRaw(lines, raws, got) ==
    IF raws = <<>> THEN [raw |-> got, rest |-> lines]
    ELSE IF HasText(lines, Head(raws)) THEN SplitRaw(RemoveFirstText(lines, Head(raws)), Tail(raws), Append(got, Head(raws)))
    ELSE SplitRaw(lines, Tail(raws), got)
Split == SplitRaw(H.lines, H.rawvals, <<>>)
EmJar == [k \in {Split.rest[i].name : i \in 1..Len(Split.rest)} |-> TRUE]
Written == [k \in SeqRange(H.cookies) |-> TRUE]

RHO == INSTANCE RespHeadersOps
StoreMap == RHO!PutAll(RHO!EmptyMap, H.model)          \* the header store at emission, case-folded
WantMap  == IF H.media # "" /\ "content-type" \notin DOMAIN StoreMap THEN RHO!Put(StoreMap, "content-type", H.media) ELSE StoreMap

RH == INSTANCE RespHeaders WITH NoLower <- {}, AppendGuard <- TRUE, FreshCookie <- TRUE, UseSecureDefault <- TRUE, SnapshotDefault <- FALSE,
          hdr <- EmHdr, raw <- Split.raw, jar <- EmJar, sd <- FALSE, opt <- FALSE, model <- WantMap, nraw <- H.nraw,
          written <- Written, last <- [op |-> "emit", sc |-> FALSE, err |-> FALSE, res |-> <<>>, ck |-> "", sec |-> ""]

HdrSkip ==
    IF ExchangeSkip # "" THEN ExchangeSkip
    ELSE IF ~H.ok THEN "no-emission-snapshot"
    ELSE IF ~H.wellformed THEN "malformed-list"
    ELSE ""

HdrVerdict ==
    IF HdrSkip # "" THEN "skip/" \o HdrSkip
    ELSE IF ~RH!EmitOncePerPlainHeader THEN "P:EmitOncePerPlainHeader"
    ELSE IF T.c.iface = "asgi" /\ ~RH!AsgiNamesLower THEN "P:AsgiNamesLower"
    ELSE IF ~(RH!OneLinePerCookieAndRawCookie /\ Len(H.lines) = RH!CookieLines) THEN "P:OneLinePerCookieAndRawCookie"
    ELSE "ok"

-----------------------------------------------------------------------------
(* part D / S: Dispatch's decision for the inspected configuration *)
Dd == T.d
D0 == INSTANCE Dispatch WITH Templates <- {}, ResKinds <- {}, SinkPats <- {}, StaticPrefixes <- {}, MaxCalls <- 0,
          NewestFirst <- TRUE, RoutesFirst <- TRUE,
          routes <- {}, sinks <- <<>>, statics <- <<>>, sbs <- FALSE, n <- 0, last <- <<>>

CfgRoutes == {[tmpl |-> r.tmpl, rid |-> r.rid, sfx |-> r.sfx, impl |-> SeqRange(r.impl)] : r \in SeqRange(Dd.routes)}
(* the assembly calls in the order they were made; Dispatch!Put places each one *)
RECURSIVE Assembled(_, _)
Assembled(asm, kind) ==
    IF asm = <<>> THEN <<>>
    ELSE LET a == asm[Len(asm)]
             before == Assembled(SubSeq(asm, 1, Len(asm) - 1), kind)
         IN  IF a.kind # kind THEN before
             ELSE IF kind = "sink" THEN D0!Put(before, [id |-> a.id, pat |-> a.pat])
             ELSE D0!Put(before, [id |-> a.id, prefix |-> a.prefix, fb |-> a.fb])

D == INSTANCE Dispatch WITH Templates <- {}, ResKinds <- {}, SinkPats <- {}, StaticPrefixes <- {}, MaxCalls <- 0,
         NewestFirst <- TRUE, RoutesFirst <- TRUE,
         routes <- CfgRoutes, sinks <- Assembled(Dd.asm, "sink"), statics <- Assembled(Dd.asm, "static"),
         sbs <- Dd.sbs, n <- 0, last <- <<>>

DispSkip ==
    IF ExchangeSkip = "no-request" THEN ExchangeSkip
    ELSE IF ~Dd.routed THEN "not-routed"
    ELSE IF ~Dd.stdrouter THEN "custom-router"
    ELSE IF Dd.custommethods THEN "custom-methods"
    ELSE IF ~Dd.tmplok \/ ~D!ConflictFree(CfgRoutes) THEN "template-vocabulary"
    ELSE IF ~Dd.sinkok \/ (\E i \in 1..Len(Dd.asm) : Dd.asm[i].kind = "sink" /\ ~D0!WellFormedSink(Dd.asm[i].pat)) THEN "sink-vocabulary"
    ELSE IF ~Dd.orderok THEN "order-unknown"
    ELSE IF ~Dd.whook THEN "responder-unnamed"
    ELSE ""

KindName(k) == CASE k = "Responder" -> "res" [] k = "Sink" -> "sink" [] k = "Static" -> "static"
                 [] k = "NotFound" -> "notfound" [] k = "NotAllowed" -> "notallowed"
                 [] k = "AutoOptions" -> "options" [] k = "BadMethod" -> "badmethod" [] OTHER -> "badrequest"

Decision == D!Outcome(Dd.m, Dd.p)
ObsKw == {[n |-> x.n, v |-> x.v] : x \in SeqRange(Dd.obs.kw)}

DispVerdict ==
    IF DispSkip # "" THEN "skip/" \o DispSkip
    ELSE LET o == Decision IN
         IF Dd.obs.kind # KindName(o.kind) THEN "P:who"
         ELSE IF o.kind \in {"Responder", "Sink", "Static"} /\ o.id \notin SeqRange(Dd.obs.ids) THEN "P:who"
         ELSE IF o.kind = "Responder" /\ Dd.obs.sfx # o.sfx THEN "P:suffix"
         ELSE IF o.kind \in {"Responder", "Sink"} /\ ObsKw # o.kw THEN "P:kwargs"
         ELSE "ok"

StatusSkip ==
    IF DispSkip # "" THEN DispSkip
    ELSE IF ExchangeSkip # "" THEN ExchangeSkip
    ELSE IF Decision.kind \notin {"NotFound", "NotAllowed", "AutoOptions"} THEN "not-default-answer"
    ELSE IF Dd.middleware THEN "middleware"
    ELSE IF Dd.ownhandlers THEN "own-error-handler"
    ELSE IF Dd.obs.status < 0 THEN "no-response"
    ELSE ""

StatusVerdict ==
    IF StatusSkip # "" THEN "skip/" \o StatusSkip
    ELSE LET o == Decision
             v == D!VisibleOf(Dd.m, Dd.p, o) IN
         IF Dd.obs.status # v.status THEN "P:status"
         ELSE IF Dd.obs.hasAllow # v.hasAllow \/ SeqRange(Dd.obs.allow) # v.allow THEN "P:allow"
         ELSE "ok"

-----------------------------------------------------------------------------
Init == tid \in 1..Len(Traces) /\ l = 1 /\ verdict = ""

(* one tuple per part (TLC wraps long tuples over several lines) *)
Judge ==
    /\ l = 1
    /\ PrintT(<<"VE", tid, EmitVerdict>>)
    /\ PrintT(<<"VH", tid, HdrVerdict>>)
    /\ PrintT(<<"VD", tid, DispVerdict>>)
    /\ PrintT(<<"VS", tid, StatusVerdict>>)
    /\ verdict' = "done"
    /\ l' = -1 /\ UNCHANGED tid

Next == Judge
Spec == Init /\ [][Next]_vars
Sound == l >= -1
=============================================================================
