INIT MCInit
NEXT MCNext
CONSTANTS
  Alphabet = {65, 66, 10, 120}
  MaxLen = 7
  Sizes <- SimSizes
  Delims <- MCDelims
  ChunkSizes = {1, 2, 3, 4}
  MaxDepth = 2
  Depth = 6
INVARIANT NoSkipNoDup
INVARIANT Emit
