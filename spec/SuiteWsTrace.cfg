INIT TInit
NEXT TNext
CONSTANTS
  Versions = {20, 21, 22, 23, 24}
  QueueSizes = {0}
  TextIds = {1}
  DataIds = {1}
  CloseArgs = {0}
  DiscCodes = {0}
  ErrCodes = {1011}
  Faults = {"lost", "lost1000", "other", "badcode"}
  MwKinds = {"none"}
  RouteKinds = {"ok"}
  HandlerKinds = {"default"}
  FirstKinds = {"connect"}
INVARIANT Sound
