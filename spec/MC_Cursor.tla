---------------------------- MODULE MC_Cursor ----------------------------
(* Bounded instance of Cursor with a history variable.  Every disjunct of Cursor!Next is
   a named action here so that TLC's coverage shows which operations fired. *)
EXTENDS Cursor, Json
VARIABLE h
CONSTANT Depth
MCDelims  == {<<65>>, <<65, 66>>, <<10>>}
MCSizes   == {-1, 0, 1, 2}
QSizes    == {-1, 1, 2}
SimSizes  == {-1, 0, 1, 2, 3, 5}
Log       == Len(h) < Depth /\ h' = Append(h, last')
XInit     == Init /\ h = <<>>          \* exhaustive instance: the history stays empty, so it adds no states
Keep      == UNCHANGED h
MCInit    == Init /\ h = <<>>
ARead      == (\E n \in Sizes : Read(n)) /\ Log
APeek      == (\E n \in Sizes : Peek(n)) /\ Log
AReadLine  == (\E n \in Sizes : ReadLine(n)) /\ Log
AReadLines == (\E n \in Sizes : ReadLines(n)) /\ Log
AReadUntil == (\E d \in Delims, n \in Sizes, c \in BOOLEAN : ReadUntil(d, n, c)) /\ Log
APipeUntil == (\E d \in Delims, c \in BOOLEAN : PipeUntil(d, c)) /\ Log
ADelimit   == (\E d \in Delims : Delimit(d)) /\ Log
AExhaust   == Exhaust /\ Log
AEndSub    == EndSub /\ Log
XRead      == (\E n \in Sizes : Read(n)) /\ Keep
XPeek      == (\E n \in Sizes : Peek(n)) /\ Keep
XReadLine  == (\E n \in Sizes : ReadLine(n)) /\ Keep
XReadLines == (\E n \in Sizes : ReadLines(n)) /\ Keep
XReadUntil == (\E d \in Delims, n \in Sizes, c \in BOOLEAN : ReadUntil(d, n, c)) /\ Keep
XPipeUntil == (\E d \in Delims, c \in BOOLEAN : PipeUntil(d, c)) /\ Keep
XDelimit   == (\E d \in Delims : Delimit(d)) /\ Keep
XExhaust   == Exhaust /\ Keep
XEndSub    == EndSub /\ Keep
XNext == XRead \/ XPeek \/ XReadLine \/ XReadLines \/ XReadUntil \/ XPipeUntil \/ XDelimit \/ XExhaust \/ XEndSub
MCNext == ARead \/ APeek \/ AReadLine \/ AReadLines \/ AReadUntil \/ APipeUntil \/ ADelimit \/ AExhaust \/ AEndSub
MCSpec == MCInit /\ [][MCNext]_<<vars, h>>
MCMonotone == [][pos' >= pos]_<<vars, h>>
(* behaviour export: one JSON object per finished behaviour *)
Emit == (Len(h) = Depth) => PrintT(ToJson([data |-> data, cs |-> cs, ev |-> h]))
==========================================================================
