---------------------------- MODULE MC_Handlers ----------------------------
(* Bounded instances of Handlers: named wrapper actions for coverage, a depth constraint, and
   (simulation instance only) a history variable exported as JSON for leg A. *)
EXTENDS Handlers, Json
VARIABLE h
CONSTANT Depth

P1 == Pm("p", "1")
TAX   == MT("a", "x", <<>>)
TAXP  == MT("a", "x", <<P1>>)
TAS   == MT("a", "*", <<>>)
TAY   == MT("a", "y", <<>>)
TBY   == MT("b", "y", <<>>)
TBYP  == MT("b", "y", <<P1>>)
TSS   == MT("*", "*", <<>>)

R1 == Pm("r", "1")
P2 == Pm("p", "2")
TAXPR == MT("a", "x", <<P1, R1>>)     \* the parameterised key's type with an extra parameter (charset)
TAXRP == MT("a", "x", <<R1, P1>>)     \* ... with the parameters written in the other order
TAXP2 == MT("a", "x", <<P2>>)         \* ... differing in the parameter
(* keys: a bare key next to a parameterised key of the same type (application/json, application/json; version=2),
   a subtype wildcard (the full wildcard joins them in the simulated histories); both insertion orders arise from Init + Set / SetDefault / Update and
   from Pop / Del followed by re-registration *)
MCKeys     == {TAX, TAXP, TAS}
(* content types as written: literal and otherwise spelled, extra / reordered / differing parameters, q = 0 at
   both ends, a positive q inside *)
MCCTypes   == {Lit(TAX), Lit(TAXP), Alt(TAXP), Alt(TAXPR), Lit(TAXP2), Lit(TBY), Wq(TAXP, 0, 1), AnyType, NoType}
(* the depth-4 instance keeps the old size: the literal and the merely matching spelling of the parameterised type, q = 0 *)
MCCTypes4  == {Lit(TAX), Lit(TAXP), Alt(TAXP), Wq(TAXP, 0, 1), AnyType, NoType}
AllCTypes  == MCCTypes \cup {Alt(TAX), Lit(TAXRP), Lit(TAY), Wq(TAX, 0, 0), Wq(TAXP, 0, 0), Wq(TAXPR, 500000, 1)}
MCDefaults == {TAX, TBY}
MCNoRaise  == {<<Lit(TAX), TAX>>}
SimKeys    == {TAX, TAXP, TAS, TBY, TSS}
SimCTypes  == AllCTypes \cup {Lit(TAXPR), Alt(TAXRP), Wq(TAXPR, 0, 2), Wq(TAY, 0, 0), Wq(TAXP2, 400, 0)}
SimDefaults == {TAX, TBY}

Keep == UNCHANGED h
Log  == h' = Append(h, last')
Bound == TLCGet("level") <= Depth
(* which mutation produced a state is irrelevant for the exhaustive instance *)
View == <<objs, IF last.op = "resolve" THEN last ELSE Rec("mut", 0, NOKEY, 0, NOCT, NOKEY, FALSE, 0, FALSE)>>

XSet(o)        == \E k \in Keys, v \in HandlerIds : Set(o, k, v)
XSetDefault(o) == \E k \in Keys, v \in HandlerIds : SetDefault(o, k, v)
XDel(o)        == \E k \in Keys : Del(o, k)
XPop(o)        == \E k \in Keys, d \in BOOLEAN : Pop(o, k, d)
XUpdate(o)     == \E ps \in Pairs : Update(o, ps)
XUpdateFail(o) == \E ps \in Pairs : UpdateFail(o, ps)
XResolve(o)    == \/ \E ct \in CTypes, d \in Defaults : Resolve(o, ct, d, TRUE)
                  \/ \E cd \in NoRaiseCalls : Resolve(o, cd[1], cd[2], FALSE)

MSet        == (\E o \in DOMAIN objs : XSet(o)) /\ Keep
MSetDefault == (\E o \in DOMAIN objs : XSetDefault(o)) /\ Keep
MDel        == (\E o \in DOMAIN objs : XDel(o)) /\ Keep
MPop        == (\E o \in DOMAIN objs : XPop(o)) /\ Keep
MUpdate     == (\E o \in DOMAIN objs : XUpdate(o)) /\ Keep
MUpdateFail == (\E o \in DOMAIN objs : XUpdateFail(o)) /\ Keep
MClear      == (\E o \in DOMAIN objs : Clear(o)) /\ Keep
MCopy       == (\E o \in DOMAIN objs : Copy(o)) /\ Keep
MResolve    == (\E o \in DOMAIN objs : XResolve(o)) /\ Keep
MCInit == Init /\ h = <<>>
MCNext == MSet \/ MSetDefault \/ MDel \/ MPop \/ MUpdate \/ MUpdateFail \/ MClear \/ MCopy \/ MResolve

ASet        == (\E o \in DOMAIN objs : XSet(o)) /\ Log
ASetDefault == (\E o \in DOMAIN objs : XSetDefault(o)) /\ Log
ADel        == (\E o \in DOMAIN objs : XDel(o)) /\ Log
APop        == (\E o \in DOMAIN objs : XPop(o)) /\ Log
AUpdate     == (\E o \in DOMAIN objs : XUpdate(o)) /\ Log
AUpdateFail == (\E o \in DOMAIN objs : XUpdateFail(o)) /\ Log
AClear      == (\E o \in DOMAIN objs : Clear(o)) /\ Log
ACopy       == (\E o \in DOMAIN objs : Copy(o)) /\ Log
AResolve    == (\E o \in DOMAIN objs : XResolve(o)) /\ Log
(* resolutions are what is observable: give them half of the steps *)
SimNext == ASet \/ ASetDefault \/ ADel \/ APop \/ AUpdate \/ AUpdateFail \/ AClear \/ ACopy \/ AResolve

MCIndependent == [][\A o \in DOMAIN objs : (last'.op \notin {"copy"} /\ last'.o # o) => objs'[o] = objs[o]]_<<vars, h>>

(* behaviour export: initial mapping + the calls with what the spec says they return; the
   mapping after every call rides along so the harness can compare the public view *)
Emit == (Len(h) = Depth) => PrintT(ToJson([ev |-> h]))
NoDs == {}
IsRes == last'.op = "resolve"
LogFull == h' = Append(h, [call |-> last', maps |-> [o \in DOMAIN objs' |-> objs'[o].map],
                           ds |-> IF IsRes THEN DesignatedSet(objs'[last'.o].map, last'.ct, last'.d) ELSE NoDs,
                           sc |-> IsRes /\ ShortcutApplies(objs'[last'.o].map, last'.ct, last'.d),
                           rule |-> IF IsRes THEN RuleDesignated(objs'[last'.o].map, last'.ct, last'.d) ELSE NONE])
FSet        == (\E o \in DOMAIN objs : XSet(o)) /\ LogFull
FSetDefault == (\E o \in DOMAIN objs : XSetDefault(o)) /\ LogFull
FDel        == (\E o \in DOMAIN objs : XDel(o)) /\ LogFull
FPop        == (\E o \in DOMAIN objs : XPop(o)) /\ LogFull
FUpdate     == (\E o \in DOMAIN objs : XUpdate(o)) /\ LogFull
FUpdateFail == (\E o \in DOMAIN objs : XUpdateFail(o)) /\ LogFull
FClear      == (\E o \in DOMAIN objs : Clear(o)) /\ LogFull
FCopy       == (\E o \in DOMAIN objs : Copy(o)) /\ LogFull
FResolve    == (\E o \in DOMAIN objs : XResolve(o)) /\ LogFull
FInit == Init /\ h = <<[call |-> last, maps |-> [o \in DOMAIN objs |-> objs[o].map], ds |-> NoDs, sc |-> FALSE, rule |-> NONE]>>
FNext == FSet \/ FSetDefault \/ FDel \/ FPop \/ FUpdate \/ FUpdateFail \/ FClear \/ FCopy \/ FResolve \/ FResolve \/ FResolve
EmitFull == (Len(h) = Depth + 1) => PrintT(ToJson([ev |-> h]))
=============================================================================
