------------------------- MODULE RouterCompile -------------------------
(* C19 (threads): several first-ever requests race through the compiled router's lazy
   compilation.  One action = one source line of falcon/routing/compiled.py that touches
   state shared between threads (the finder attribute, the three list attributes, the lock).

   Heap model: list objects have identities.  `rvAttr` / `convAttr` are the list objects
   the router's attributes currently refer to; a compiling thread appends return values to
   the object it was *handed* (the attribute value at the time _generate_ast was called)
   and converters to whatever the attribute refers to *at each append* - exactly as the
   code does.  A finder (generated function) embeds the indices computed while it was
   generated; a lookup is right iff those indices select the right entries of the lists
   passed to it at call time.

   Design switches (wrong designs must violate SerialAnswer - vacuity witnesses):
     UseLock   the compile section is guarded by a lock
     Recheck   after acquiring the lock the thread re-tests whether compilation is still needed *)
EXTENDS Integers, Sequences, FiniteSets, TLC

CONSTANTS Threads, NRoutes, UseLock, Recheck, Want   \* Want \in [Threads -> 1..NRoutes]

Routes == 1..NRoutes
NoOne  == 0
Stub   == 0

VARIABLES findAttr,   \* Stub or index into finders
          finders,    \* generated functions: [rv: Routes -> index, cv: Routes -> index]
          lists,      \* list id -> contents (Seq(Routes))
          rvAttr, convAttr,   \* list ids the attributes point to
          lock,       \* owner thread or NoOne
          pc, myFind, myRv, myArgs, i, idx, gen, result, compiles

vars == <<findAttr, finders, lists, rvAttr, convAttr, lock, pc, myFind, myRv, myArgs, i, idx, gen, result, compiles>>

NewId == Len(lists) + 1

Init ==
    /\ findAttr = Stub /\ finders = <<>>
    /\ lists = << <<>>, <<>> >> /\ rvAttr = 1 /\ convAttr = 2
    /\ lock = NoOne
    /\ pc = [t \in Threads |-> "readFind"]
    /\ myFind = [t \in Threads |-> Stub]
    /\ myRv = [t \in Threads |-> 0]
    /\ myArgs = [t \in Threads |-> <<0, 0>>]
    /\ i = [t \in Threads |-> 0]
    /\ idx = [t \in Threads |-> 0]
    /\ gen = [t \in Threads |-> [rv |-> [r \in Routes |-> 0], cv |-> [r \in Routes |-> 0]]]
    /\ result = [t \in Threads |-> "none"]
    /\ compiles = 0

Goto(t, l) == pc' = [pc EXCEPT ![t] = l]

(* find(): `self._find(` - the attribute is read first *)
ReadFind(t) ==
    /\ pc[t] = "readFind"
    /\ myFind' = [myFind EXCEPT ![t] = findAttr]
    /\ Goto(t, "readArgs")
    /\ UNCHANGED <<findAttr, finders, lists, rvAttr, convAttr, lock, myRv, myArgs, i, idx, gen, result, compiles>>

(* `path, self._return_values, self._patterns, self._converters, params` *)
ReadArgs(t) ==
    /\ pc[t] \in {"readArgs", "readArgs2"}
    /\ myArgs' = [myArgs EXCEPT ![t] = <<rvAttr, convAttr>>]
    /\ Goto(t, IF pc[t] = "readArgs" THEN "call" ELSE "call2")
    /\ UNCHANGED <<findAttr, finders, lists, rvAttr, convAttr, lock, myFind, myRv, i, idx, gen, result, compiles>>

Answer(f, a, w) ==
    LET F == finders[f]  rv == lists[a[1]]  cv == lists[a[2]]
    IN  IF F.rv[w] = 0 \/ F.rv[w] > Len(rv) \/ F.cv[w] = 0 \/ F.cv[w] > Len(cv) THEN "crash"
        ELSE IF rv[F.rv[w]] = w /\ cv[F.cv[w]] = w THEN "ok" ELSE "wrong"

(* the call itself: either the generated function runs (it touches no shared attribute, only
   the objects it was given), or - the attribute still held the lazy stub when it was read -
   the thread enters _compile_and_find (the arguments it was given are ignored there) *)
Call(t) ==
    /\ pc[t] \in {"call", "call2"}
    /\ IF myFind[t] = Stub
         THEN /\ pc[t] = "call" /\ Goto(t, "acquire") /\ UNCHANGED result
         ELSE /\ result' = [result EXCEPT ![t] = Answer(myFind[t], myArgs[t], Want[t])]
              /\ Goto(t, "done")
    /\ UNCHANGED <<findAttr, finders, lists, rvAttr, convAttr, lock, myFind, myRv, myArgs, i, idx, gen, compiles>>

(* _compile_and_find(): `with self._compile_lock:` *)
Acquire(t) ==
    /\ pc[t] = "acquire"
    /\ IF UseLock THEN lock = NoOne /\ lock' = t ELSE UNCHANGED lock
    /\ Goto(t, "recheck")
    /\ UNCHANGED <<findAttr, finders, lists, rvAttr, convAttr, myFind, myRv, myArgs, i, idx, gen, result, compiles>>

(* `if self._find == self._compile_and_find:` *)
DoRecheck(t) ==
    /\ pc[t] = "recheck"
    /\ Goto(t, IF Recheck /\ findAttr # Stub THEN "release" ELSE "resetRv")
    /\ UNCHANGED <<findAttr, finders, lists, rvAttr, convAttr, lock, myFind, myRv, myArgs, i, idx, gen, result, compiles>>

(* _compile(): `self._return_values = []` (and patterns, which has the same shape) *)
ResetRv(t) ==
    /\ pc[t] = "resetRv"
    /\ lists' = Append(lists, <<>>) /\ rvAttr' = NewId
    /\ compiles' = compiles + 1
    /\ Goto(t, "resetConv")
    /\ UNCHANGED <<findAttr, finders, convAttr, lock, myFind, myRv, myArgs, i, idx, gen, result>>

(* `self._converters = []` *)
ResetConv(t) ==
    /\ pc[t] = "resetConv"
    /\ lists' = Append(lists, <<>>) /\ convAttr' = NewId
    /\ Goto(t, "handRv")
    /\ UNCHANGED <<findAttr, finders, rvAttr, lock, myFind, myRv, myArgs, i, idx, gen, result, compiles>>

(* `self._generate_ast(self._roots, self._ast, self._return_values, ...)`: the list object is handed over *)
HandRv(t) ==
    /\ pc[t] = "handRv"
    /\ myRv' = [myRv EXCEPT ![t] = rvAttr]
    /\ i' = [i EXCEPT ![t] = 1]
    /\ gen' = [gen EXCEPT ![t] = [rv |-> [r \in Routes |-> 0], cv |-> [r \in Routes |-> 0]]]
    /\ Goto(t, "convLen")
    /\ UNCHANGED <<findAttr, finders, lists, rvAttr, convAttr, lock, myFind, myArgs, idx, result, compiles>>

(* `converter_idx = len(self._converters)` *)
ConvLen(t) ==
    /\ pc[t] = "convLen"
    /\ idx' = [idx EXCEPT ![t] = Len(lists[convAttr]) + 1]
    /\ Goto(t, "convAppend")
    /\ UNCHANGED <<findAttr, finders, lists, rvAttr, convAttr, lock, myFind, myRv, myArgs, i, gen, result, compiles>>

(* `self._converters.append(converter_obj)` *)
ConvAppend(t) ==
    /\ pc[t] = "convAppend"
    /\ lists' = [lists EXCEPT ![convAttr] = Append(@, i[t])]
    /\ gen' = [gen EXCEPT ![t].cv[i[t]] = idx[t]]
    /\ Goto(t, "rvLen")
    /\ UNCHANGED <<findAttr, finders, rvAttr, convAttr, lock, myFind, myRv, myArgs, i, idx, result, compiles>>

(* `resource_idx = len(return_values)` *)
RvLen(t) ==
    /\ pc[t] = "rvLen"
    /\ idx' = [idx EXCEPT ![t] = Len(lists[myRv[t]]) + 1]
    /\ Goto(t, "rvAppend")
    /\ UNCHANGED <<findAttr, finders, lists, rvAttr, convAttr, lock, myFind, myRv, myArgs, i, gen, result, compiles>>

(* `return_values.append(node)` *)
RvAppend(t) ==
    /\ pc[t] = "rvAppend"
    /\ lists' = [lists EXCEPT ![myRv[t]] = Append(@, i[t])]
    /\ gen' = [gen EXCEPT ![t].rv[i[t]] = idx[t]]
    /\ IF i[t] < NRoutes THEN i' = [i EXCEPT ![t] = @ + 1] /\ Goto(t, "convLen")
                         ELSE UNCHANGED i /\ Goto(t, "publish")
    /\ UNCHANGED <<findAttr, finders, rvAttr, convAttr, lock, myFind, myRv, myArgs, idx, result, compiles>>

(* `self._find = self._compile()` - the assignment *)
Publish(t) ==
    /\ pc[t] = "publish"
    /\ finders' = Append(finders, gen[t])
    /\ findAttr' = Len(finders) + 1
    /\ Goto(t, "release")
    /\ UNCHANGED <<lists, rvAttr, convAttr, lock, myFind, myRv, myArgs, i, idx, gen, result, compiles>>

(* leaving the `with` block *)
Release(t) ==
    /\ pc[t] = "release"
    /\ IF UseLock THEN lock' = NoOne ELSE UNCHANGED lock
    /\ Goto(t, "readFind2")
    /\ UNCHANGED <<findAttr, finders, lists, rvAttr, convAttr, myFind, myRv, myArgs, i, idx, gen, result, compiles>>

(* `return self._find(` *)
ReadFind2(t) ==
    /\ pc[t] = "readFind2"
    /\ myFind' = [myFind EXCEPT ![t] = findAttr]
    /\ Goto(t, "readArgs2")
    /\ UNCHANGED <<findAttr, finders, lists, rvAttr, convAttr, lock, myRv, myArgs, i, idx, gen, result, compiles>>

Step(t) == \/ ReadFind(t) \/ ReadArgs(t) \/ Call(t) \/ Acquire(t) \/ DoRecheck(t) \/ ResetRv(t) \/ ResetConv(t)
           \/ HandRv(t) \/ ConvLen(t) \/ ConvAppend(t) \/ RvLen(t) \/ RvAppend(t) \/ Publish(t) \/ Release(t)
           \/ ReadFind2(t)

Next == \E t \in Threads : Step(t)
Spec == Init /\ [][Next]_vars /\ \A t \in Threads : WF_vars(Step(t))

(* ---- properties ---- *)
SerialAnswer   == \A t \in Threads : pc[t] = "done" => result[t] = "ok"
MutualExclusion == UseLock =>
    Cardinality({t \in Threads : pc[t] \in {"recheck", "resetRv", "resetConv", "handRv", "convLen", "convAppend",
                                              "rvLen", "rvAppend", "publish", "release"}}) <= 1
CompileOnce    == (UseLock /\ Recheck) => compiles <= 1
PublishedIsComplete == findAttr # Stub =>
    \A r \in Routes : finders[findAttr].rv[r] # 0 /\ finders[findAttr].cv[r] # 0
AllFinish      == <>(\A t \in Threads : pc[t] = "done")
=========================================================================
