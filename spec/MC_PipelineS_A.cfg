INIT SInit
NEXT SNext
CONSTANTS
  Stacks <- Stacks2
  Indeps <- Both
  Targets <- AllTargets
  MaxHooks = 1
  InitRegs <- C3Regs
  RegClasses <- None
  RegBehs <- None
  MaxRegs = 0
  RaiseClasses <- C3RaiseQ
  RenderClasses <- C3Render
  Mro <- MCMro
  StatusOf <- MCStatus
  OwnVary <- MCOwnVary
  MaxReqs = 1
  WrongDesign = "none"
  SameObj = FALSE
  MaxFaults = 1
INVARIANT Emit
