INIT XInit
NEXT XNext
VIEW XView
CONSTANTS
  TS <- MCTS
  CT <- MCCT
  BadNames <- MCBad
  Templates <- MCTemplates
  Paths <- MCPaths
  MaxAdds = 3
  MaxDepth = 2
  MaxPathLen = 2
  Depth = 0
  Rollback = TRUE
  ResetOnAdd = TRUE
INVARIANT FindIsIdealDFS
INVARIANT XWalkIsBestMatch
INVARIANT XNoLeak
INVARIANT RejectIsNoOp
INVARIANT TreeIsRef
INVARIANT XSplitSound
