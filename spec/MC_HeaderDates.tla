------------------------- MODULE MC_HeaderDates -------------------------
(* C09, HTTP-dates: bounded instance of the slot-level date grammar of HeaderAccessOps.
   A state is one header value (a token per slot).  The initial states are VALID dates in the three RFC 9110
   formats (Bases, built from <<day, month, year, time>> cores with the day name computed by the calendar of the
   specification); every action replaces ONE slot by another spelling of that slot's kind (valid or near-valid),
   at most MaxMut times.  So TLC enumerates every value within MaxMut slot edits of a valid date, keeps the
   shape, and decides valid | invalid for each: EmitD exports the decision table (the outcome of every date-typed
   accessor when Date, If-Modified-Since and If-Unmodified-Since all carry the value).
     MC_HeaderDatesQ.cfg  quick: one base per format, MaxMut = 2       MC_HeaderDates.cfg  thorough: nine bases
     MC_HeaderDatesC.cfg  coverage guard (no export) + vocabulary export for the random generator of leg B *)
EXTENDS HeaderAccessOps, Json

CONSTANTS Bases, MaxMut
VARIABLES ts, muts
vars == <<ts, muts>>

ShortOf(i) == CHOOSE n \in DOMAIN DayName : DayName[n].i = i /\ ~DayName[n].long
LongOf(i)  == CHOOSE n \in DOMAIN DayName : DayName[n].i = i /\ DayName[n].long
Y2Of(y)    == CHOOSE t \in DOMAIN YearTok : YearTok[t].form = "y2" /\ YearTok[t].v = YearTok[y].v
AscDay(d)  == IF DayTok[d].v < 10 THEN CHOOSE t \in DOMAIN DayTok : DayTok[t].form = "sp1d" /\ DayTok[t].v = DayTok[d].v ELSE d
Wd(c)      == Weekday(YearTok[c[3]].v, MonthNum[c[2]], DayTok[c[1]].v)          \* c = <<day, month, year4, time>>
Imf(c)  == <<ShortOf(Wd(c)), ",", SP, c[1], SP, c[2], SP, c[3], SP, c[4], SP, "GMT", "">>
R850(c) == <<LongOf(Wd(c)), ",", SP, c[1], "-", c[2], "-", Y2Of(c[3]), SP, c[4], SP, "GMT", "">>
Asc(c)  == <<ShortOf(Wd(c)), SP, c[2], SP, AscDay(c[1]), SP, c[4], SP, c[3], "">>
C1 == <<"06", "Nov", "1994", "08:49:37">>          \* RFC 9110's example
C2 == <<"29", "Feb", "1996", "23:59:59">>          \* leap day
C3 == <<"31", "Dec", "2024", "00:00:00">>
BasesQ == {Imf(C1), R850(C2), Asc(C3)}
BasesT == {Imf(c) : c \in {C1, C2, C3}} \cup {R850(c) : c \in {C1, C2, C3}} \cup {Asc(c) : c \in {C1, C2, C3}}

KindImf == <<"dn", "sep", "sep", "day", "sep", "mon", "sep", "year", "sep", "time", "sep", "zone", "tail">>
KindAsc == <<"dn", "sep", "mon", "sep", "day", "sep", "time", "sep", "year", "tail">>
KindAt(i) == IF Len(ts) = 13 THEN KindImf[i] ELSE KindAsc[i]
(* spellings the exhaustive instances put into a slot (subsets of the vocabulary of HeaderAccessOps) *)
MAlpha == [dn   |-> {"Sun", "Mon", "Tue", "Thu", "Sunday", "Thursday", "Don", "Thx", "sun", "SUN", ""},
           day  |-> {"06", "6", " 6", "00", "32", "30", "31", "29"},
           mon  |-> {"Nov", "Feb", "Dec", "Apr", "Avr", "Mai", "Okt", "Xxx", "apr", "APR"},
           year |-> {"1994", "1996", "2024", "1900", "94", "96", "24", "19945", "994"},
           time |-> {"08:49:37", "24:00:00", "23:60:00", "23:59:60", "08:49:61", "08:49:99", "8:49:37"},
           zone |-> {"GMT", "UTC", "+0000", "gmt", "EST", ""},
           sep  |-> {SP, "  ", "", "-", ","},
           tail |-> {"", SP, "x", " GMT"}]
FullAlpha == [dn |-> DOMAIN DayName \cup DayNameOdd, day |-> DOMAIN DayTok \cup DayOdd, mon |-> DOMAIN MonthNum \cup MonthOdd,
              year |-> DOMAIN YearTok \cup YearOdd, time |-> DOMAIN TimeTok, zone |-> ZoneToks, sep |-> SepToks, tail |-> TailToks]
ASSUME \A k \in DOMAIN MAlpha : MAlpha[k] \subseteq FullAlpha[k] /\ FullAlpha[k] \subseteq DateTokens

Init == ts \in Bases /\ muts = 0
Mut(kind) == /\ muts < MaxMut
             /\ \E i \in 1..Len(ts) : /\ KindAt(i) = kind
                                       /\ \E t \in MAlpha[kind] : t # ts[i] /\ ts' = [ts EXCEPT ![i] = t]
             /\ muts' = muts + 1
XMutDayName == Mut("dn") /\ muts' <= MaxMut
XMutDay     == Mut("day") /\ muts' <= MaxMut
XMutMonth   == Mut("mon") /\ muts' <= MaxMut
XMutYear    == Mut("year") /\ muts' <= MaxMut
XMutTime    == Mut("time") /\ muts' <= MaxMut
XMutZone    == Mut("zone") /\ muts' <= MaxMut
XMutSep     == Mut("sep") /\ muts' <= MaxMut
XMutTail    == Mut("tail") /\ muts' <= MaxMut
Next == XMutDayName \/ XMutDay \/ XMutMonth \/ XMutYear \/ XMutTime \/ XMutZone \/ XMutSep \/ XMutTail

(* ------------------------------------------------------------------------------ the request *)
DateReq(v) == [scheme |-> "http", server |-> <<"srv.test", 8000>>, peer |-> "127.0.0.1", root |-> "", path |-> "/", query |-> "",
               h |-> [n \in HNames |-> IF n \in {"date", "if-modified-since", "if-unmodified-since"} THEN Hdr(v) ELSE Absent]]
EmitD == PrintT(ToJson([g |-> "date", scheme |-> "http", t |-> ts, text |-> Cat(ts), fmt |-> DateParse(ts).fmt,
                        out |-> [j \in 1..Len(DateAttrs) |-> [a |-> DateAttrs[j], o |-> Fresh(DateReq(ts), DateAttrs[j])]]]))

(* ------------------------------------------------------------------------------ properties *)
DP == DateParse(ts)
Slots(kind) == {i \in 1..Len(ts) : KindAt(i) = kind}
TokAt(kind) == ts[CHOOSE i \in Slots(kind) : TRUE]                    \* for the kinds that occur once
BasesValid   == muts = 0 => DP.fmt # "none"
(* a value the grammar accepts has a valid spelling in every slot, and names a day that exists *)
ValidIsClean == DP.fmt # "none" =>
                    /\ TokAt("dn") \in DOMAIN DayName /\ TokAt("mon") \in DOMAIN MonthNum /\ TokAt("year") \in DOMAIN YearTok
                    /\ TokAt("day") \in DOMAIN DayTok /\ TokAt("time") \in DOMAIN TimeTok /\ TimeTok[TokAt("time")]
                    /\ TokAt("tail") = "" /\ (Len(ts) = 13 => TokAt("zone") = "GMT")
                    /\ \A i \in Slots("sep") : ts[i] \in {SP, ",", "-"}
DayExists    == DP.fmt # "none" =>
                    LET d == DayTok[TokAt("day")].v  m == TokAt("mon") IN
                    /\ d >= 1 /\ d <= 31
                    /\ (m = "Feb" => d <= 29) /\ (m \in {"Apr", "Jun", "Sep", "Nov"} => d <= 30)
                    /\ (m = "Feb" /\ d = 29 => YearTok[TokAt("year")].v % 4 = 0 /\ YearTok[TokAt("year")].v # 1900)
(* the strict and the obs-tolerant reading never name two different instants *)
ObsConsistent == LET s == DateStrict(ts)  o == DateObs(ts) IN
                    /\ o.k \in {"value", "any"} /\ s.k \in {"value", "value400", "any"}
                    /\ (o.k = "any") = (s.k = "any")
                    /\ o.k = "value" => s.s = o.s
                    /\ s.k = "value" => DP.fmt = "imf"
(* the instant does not depend on the format it is written in: two valid values with the same core agree *)
IsoShape == DP.fmt # "none" => DP.iso = ToString(YearTok[TokAt("year")].v) \o "-" \o D2(MonthNum[TokAt("mon")]) \o "-"
                                       \o D2(DayTok[TokAt("day")].v) \o "T" \o TokAt("time") \o "+00:00"
ASSUME PrintT(ToJson([datevocab |-> [bases |-> BasesT, kinds13 |-> KindImf, kinds10 |-> KindAsc, alpha |-> FullAlpha]]))
==========================================================================
