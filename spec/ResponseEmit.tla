---------------------------- MODULE ResponseEmit ----------------------------
(* C05: what the server receives for one filled-in response, on WSGI (PEP 3333) and ASGI.

   A *case* is how the application filled in the response plus the environment:
     iface   "wsgi" | "wsgifw" (server offers wsgi.file_wrapper) | "asgi"
     code    status code;  form  how the application wrote it: "int" | "line" (registry status
             line, e.g. falcon.HTTP_204) | "enum" (http.HTTPStatus) | "xline" (status line with
             a reason phrase of the application's own) | "strcode" (just the code in a string,
             '404') | "bytes" (a status line as a byte string) | "bytescode" (b'404')
     method  request method
     text, data, media   byte length of that body source, -1 = not set
     stream  the kind of object the application assigned to resp.stream:
             "none" | "iter" (an iterator - its own iterator - with close()) |
             "iterable" (an iterable with close() that is NOT its own iterator, e.g. a class whose __iter__ /
             __aiter__ is a generator function: iter(stream) is a derived object; close() is owed to the
             object the application assigned, not to anything derived from it) |
             "file" (file-like with close() whose read(n) returns short blocks: pipe / socket-like, every
             scripted block is non-empty and shorter than asked for; the end of the data is b'' only) |
             "filefull" (file-like with close() that honours n: the data is one byte string, read(n) returns
             exactly n bytes while that many are left, then the rest, then b''; chunks = the data as a list of
             segment lengths, whose boundaries need not coincide with the blocks, see Blocks) |
             "plain" (iterable without close()).  On ASGI the same kinds with async read / __aiter__ / close.
             chunks = what it produces, in order: the length
             of a block of bytes (0 = an empty block; for a file-like stream an empty block *is*
             the end, so 0 does not occur there) or -1 = None.  None is an ASGI matter: a file-like
             stream's read() may return None for "no data yet" (an empty body block is sent and
             reading goes on); an async iterator / generator producing None says "the end"
             (documented), nothing after it is asked for.  On WSGI every block must be bytes.
     sse     number of items of the SSE emitter, -1 = none (ASGI only);  sk = its script, one entry
             per item: 1 = an event, 0 = None (a keep-alive ping: the framework sends a comment
             event of its own in its place)
     cl      Content-Length set by the application, -1 = none;  ct  TRUE iff it set Content-Type
     fk, fa  fault: "none" | "stream" (the stream/emitter raises on its fa-th read, 0-based) |
             "send" (the server's fa-th send raises; send 0 is the response start, so on WSGI,
             where start_response is not made to fail, fa >= 1 is the (fa-1)-th body block) |
             "render" (rendering the body raises - unserialisable media, a raising media handler
             or render_body() itself - before anything was sent; an error handler then re-fills
             the response and it is rendered once more; fa = 1: only the first rendering raises,
             fa = 2: the second one raises too; see Eff)
             "disc" (environment action, not a failure: the client disconnects - receive() reports
             http.disconnect - when the SSE emitter has produced fa items; the framework stops
             asking the emitter and ends the response; nothing raises)
     err     length of the error document an error handler put into the response, -1 = none
             (always -1 in a case as the application fills it in; set by Eff)

   The emission is a state machine whose steps are the framework's emission steps, so that a
   fault falls *between any two* of them.  `ev` is the server-visible event sequence:
     start(cl, ct, sl)  start_response(..) / http.response.start;  sl = the status handed to the
                        server is well-formed: on WSGI a native string "DDD SP reason-phrase"
                        (PEP 3333), on ASGI an int 100..999
     body(n, more, ..)  a block of the WSGI iterable (more = TRUE) / http.response.body
     eof                the WSGI iterable is exhausted (the ASGI end is a body event with more = FALSE)
   The property clauses are operators over (case, ev, begun, closes, ...) and are used both as
   invariants of this machine (leg M) and by the trace judge ResponseEmitTrace (leg B).

   Wrong-design switches (FALSE in the design; turned on only to show that the invariants can
   fail - the first two are defects the code under test once had, both repaired):
     RenderSetsType     rendering resp.media stores the default media type in the response, so a
                        204/304 goes out with a framework-supplied Content-Type       (F9)
     BodilessByLine     the WSGI side recognises 100/101/204/304 by comparing the status *line*
                        with the registry's, so "204 Custom" is sent with a body       (F14)
     ForgetCloseOnFault a fault that interrupts streaming skips close()
     StaleLengthOnRenderFault  after a render-phase fault the forced Content-Length of the (empty)
                        error response is forgotten: none, or the application's stale one
     ReturnOnDisconnect after a client disconnect the SSE loop returns instead of ending the response:
                        no body event with more_body false is ever sent
     CloseDerivedIterator  the framework hands the server (or iterates itself) iter(stream) instead of the stream,
                        so close() reaches the derived iterator and not the object the application assigned
     StopAtShortBlock   the reading loop of a file-like stream takes a block shorter than it asked for as the
                        last one: the rest of a pipe-like reader's data is never sent
     (the last two are definitions, FALSE here and overridden by `Op <- ..` in the configuration files of the
      bounded instances, so that modules instantiating this one need not bind them)
     StatusStringAsIs   the WSGI side hands a status that already is a str to start_response
                        unchanged, so the bare code '404' goes out as the status line "404"      *)
EXTENDS Integers, Sequences, FiniteSets, TLC

CONSTANTS RenderSetsType, BodilessByLine, ForgetCloseOnFault, StaleLengthOnRenderFault, StatusStringAsIs, ReturnOnDisconnect

CloseDerivedIterator == FALSE
StopAtShortBlock     == FALSE
BlockSize == 8192                       \* what the framework asks a file-like stream for at a time (D-level)

BODILESS == {100, 101, 204, 304}
TYPELESS == {204, 304}

(* ------------------------------------------------------------------ the case, statically *)
IsAsgi(c)         == c.iface = "asgi"
StatusBodiless(c) == c.code \in BODILESS
Typeless(c)       == c.code \in TYPELESS
Bodiless(c)       == c.method = "HEAD" \/ StatusBodiless(c)

(* documented precedence text > data > media > stream; an SSE emitter supersedes them (ASGI) *)
Chosen(c) == IF IsAsgi(c) /\ c.sse >= 0 THEN "sse"
             ELSE IF c.err >= 0   THEN "err"      \* the handler's document; text/data/media were reset
             ELSE IF c.text >= 0  THEN "text"
             ELSE IF c.data >= 0  THEN "data"
             ELSE IF c.media >= 0 THEN "media"
             ELSE IF c.stream # "none" THEN "stream"
             ELSE "none"
Streamed(c)      == Chosen(c) \in {"stream", "sse"}
(* an async iterator / generator ends at its first None *)
NoneEnds(c)      == IsAsgi(c) /\ c.stream \in {"iter", "iterable", "plain"}
FileLike(c)      == c.stream \in {"file", "filefull"}
RECURSIVE UpToNone(_)
UpToNone(l)      == IF l = <<>> \/ Head(l) = -1 THEN <<>> ELSE <<Head(l)>> \o UpToNone(Tail(l))
LiveChunks(c)    == IF NoneEnds(c) THEN UpToNone(c.chunks) ELSE c.chunks      \* everything the source delivers
RECURSIVE SumSeq(_)
SumSeq(l)        == IF l = <<>> THEN 0 ELSE (IF Head(l) > 0 THEN Head(l) ELSE 0) + SumSeq(Tail(l))
(* n bytes read in blocks of BlockSize: full blocks, then the rest *)
Reblock(n)       == [i \in 1..((n + BlockSize - 1) \div BlockSize) |-> IF i * BlockSize <= n THEN BlockSize ELSE n - (i - 1) * BlockSize]
(* what the successive reads / next() calls return before the end: the scripted items, or - for a file-like that
   honours the size - the data cut into blocks of BlockSize *)
Blocks(c)        == IF c.stream = "filefull" THEN Reblock(SumSeq(c.chunks)) ELSE LiveChunks(c)
SsePiece(c, i)   == <<IF c.sk[i + 1] = 1 THEN "sse" ELSE "ping", i>>
MediaRendered(c) == c.text < 0 /\ c.data < 0 /\ c.media >= 0      \* rendering ignores stream / sse
RenderedLen(c)   == IF c.err >= 0 THEN c.err ELSE IF c.text >= 0 THEN c.text ELSE IF c.data >= 0 THEN c.data ELSE c.media   \* -1: nothing rendered
HasClose(c)      == c.stream \in {"iter", "iterable", "file", "filefull"}
DerivedIter(c)   == c.stream = "iterable"                 \* iter(stream) is not the stream
Faulty(c)        == c.fk # "none"

(* ---- a render-phase fault ----
   The exception is handled like any other: text, data and media of the response are reset and
   the default handler re-fills it as a 500 with a framework-supplied Content-Type (an
   application's own type is replaced) and its error document (ErrLen bytes, a D-level detail)
   as the body.  The re-filled response is then rendered once more; `again` = that rendering
   raises too, and the response goes out with an empty body.  Either way a rendered (possibly
   empty) body exists, so a stream the application had set is never begun (hence never closed);
   an SSE emitter stays.  `keep` is not used by the machine (it follows the code: FALSE); the trace
   judge sets it when it *observes* the stream being iterated under the error status, which the
   property does not forbid: the body is then a streamed one and carries no length obligation. *)
ErrLen == 38                            \* {"title": "500 Internal Server Error"}
Eff(c, again, keep) ==
    [c EXCEPT !.code = 500, !.form = "int", !.text = -1, !.data = -1, !.media = -1, !.ct = FALSE,
              !.err = IF again \/ keep THEN -1 ELSE ErrLen,
              !.stream = IF keep THEN c.stream ELSE "none", !.chunks = IF keep THEN c.chunks ELSE <<>>]
RenderFaulted(c) == c.fk = "render"

(* what the code under test takes for "bodiless" / "typeless" (= the design unless a switch is on) *)
LineSeen(c)       == ~(BodilessByLine /\ ~IsAsgi(c) /\ c.form = "xline")
SeenStatusBodiless(c) == StatusBodiless(c) /\ LineSeen(c)
SeenTypeless(c)   == Typeless(c) /\ LineSeen(c)
SeenBodiless(c)   == c.method = "HEAD" \/ SeenStatusBodiless(c)

(* ---- headers of the start event ---- *)
(* Content-Length.  Forced to the rendered length for a rendered body that is actually sent; 0 when
   nothing at all is sent; a streamed body keeps what the application set.  HeadAdvertisesLength: a
   HEAD response with a body-bearing status advertises the length GET would have, unless the
   application set one or the body would be streamed. *)
HeadAdvertisesLength(c) ==
    IF c.cl >= 0 THEN c.cl
    ELSE IF RenderedLen(c) >= 0 THEN RenderedLen(c)
    ELSE IF c.stream # "none" THEN -1
    ELSE 0
StartCL(c) ==
    IF SeenBodiless(c)
    THEN (IF SeenStatusBodiless(c) THEN c.cl ELSE HeadAdvertisesLength(c))
    ELSE CASE Chosen(c) \in {"text", "data", "media", "err"} -> RenderedLen(c)
           [] Chosen(c) = "none"                     -> IF StaleLengthOnRenderFault /\ RenderFaulted(c) THEN c.cl ELSE 0
           [] OTHER                                  -> c.cl
(* Content-Type class: "app" = the application's own, "fw" = supplied by the framework, "none" *)
StartCT(c) ==
    IF c.ct THEN "app"
    ELSE IF SeenTypeless(c) THEN (IF RenderSetsType /\ MediaRendered(c) THEN "fw" ELSE "none")
    ELSE "fw"

(* ---- events (uniform records, so that behaviours serialise uniformly) ---- *)
Evt(k, n, more, src, idx, cl, ct, sl) == [k |-> k, n |-> n, more |-> more, src |-> src, idx |-> idx, cl |-> cl, ct |-> ct, sl |-> sl]
(* every spelling of a status is normalised: WSGI gets "DDD SP reason" (the registry's phrase, or a
   stock one for an unknown code, when the application gave none), ASGI the integer code *)
StatusLineOK(c)    == ~(StatusStringAsIs /\ ~IsAsgi(c) /\ c.form = "strcode")
StartEvt(c)        == Evt("start", 0, TRUE, "", -1, StartCL(c), StartCT(c), StatusLineOK(c))
BodyEvt(n, more, src, idx) == Evt("body", n, more, src, idx, -1, "", TRUE)
EofEvt             == Evt("eof", 0, FALSE, "", -1, -1, "", TRUE)
FinalEvt           == BodyEvt(0, FALSE, "", -1)

IsFinal(e)  == e.k = "eof" \/ (e.k = "body" /\ ~e.more)
RECURSIVE Bytes(_)
Bytes(e)    == IF e = <<>> THEN 0 ELSE (IF Head(e).k = "body" THEN Head(e).n ELSE 0) + Bytes(Tail(e))
Starts(e)   == Cardinality({i \in DOMAIN e : e[i].k = "start"})
(* the body as a list of source pieces <<src, idx>>; empty blocks carry no piece *)
RECURSIVE Pieces(_)
Pieces(e)   == IF e = <<>> THEN <<>>
               ELSE (IF Head(e).k = "body" /\ Head(e).n > 0 THEN <<<<Head(e).src, Head(e).idx>>>> ELSE <<>>) \o Pieces(Tail(e))
RECURSIVE StreamPieces(_, _, _)
StreamPieces(src, lens, i) ==
    IF i >= Len(lens) THEN <<>>
    ELSE (IF lens[i + 1] > 0 THEN <<<<src, i>>>> ELSE <<>>) \o StreamPieces(src, lens, i + 1)
(* a streamed body whose block boundaries are not the source's segment boundaries (kind filefull): the pieces are
   the segments wholly contained in the n bytes received *)
RECURSIVE SegPieces(_, _, _)
SegPieces(lens, i, n) ==
    IF i >= Len(lens) \/ lens[i + 1] > n THEN <<>>
    ELSE (IF lens[i + 1] > 0 THEN <<<<"stream", i>>>> ELSE <<>>) \o SegPieces(lens, i + 1, n - lens[i + 1])
ObsPieces(cc, e) == IF cc.stream = "filefull" /\ Chosen(cc) = "stream"
                    THEN SegPieces(cc.chunks, 0, Bytes(e)) ELSE Pieces(e)
(* the pieces the property's precedence rule prescribes for a complete response: for a stream the concatenation
   of everything the source delivers, whatever the kind of object and however it is cut into blocks *)
ExpectedPieces(c) ==
    IF Bodiless(c) THEN <<>>
    ELSE CASE Chosen(c) = "sse"    -> [i \in 1..c.sse |-> SsePiece(c, i - 1)]
           [] Chosen(c) = "stream" -> StreamPieces("stream", LiveChunks(c), 0)
           [] Chosen(c) = "none"   -> <<>>
           [] OTHER                -> IF RenderedLen(c) > 0 THEN <<<<Chosen(c), 0>>>> ELSE <<>>
IsPrefixOf(s, t) == Len(s) <= Len(t) /\ SubSeq(t, 1, Len(s)) = s

(* ------------------------------------------------------------------ the property clauses *)
(* o = [c (the case; after a render-phase fault the re-filled response Eff(c, ..)), ev, pieces, begun, closes, complete, ended]:  pieces = the body bytes received, as the
   list of source pieces they consist of;  complete = the response was emitted to its end
   without an injected fault; ended = the request is over (completed or aborted by the fault). *)
StartOf(e) == e[CHOOSE i \in DOMAIN e : e[i].k = "start"]

ExactlyOneStartC(o) ==
    /\ Starts(o.ev) <= 1
    /\ o.ev # <<>> => o.ev[1].k = "start"                      \* nothing precedes the start
    /\ o.complete => Starts(o.ev) = 1
OnlyLastHasNoMoreBodyC(o) ==
    /\ \A i \in 1..(Len(o.ev) - 1) : o.ev[i].k = "body" => o.ev[i].more
    /\ o.complete => (o.ev # <<>> /\ IsFinal(o.ev[Len(o.ev)]))
NothingAfterFinalC(o) == \A i \in DOMAIN o.ev : IsFinal(o.ev[i]) => i = Len(o.ev)
(* after a render-phase fault the body is the error handler's business (D-level, see Eff) *)
(* after a client disconnect the emitter's remaining items need not be sent (where exactly the framework
   stops is a D-level detail); the response must still be well-formed and ended *)
Disconnected(c) == c.fk = "disc"
PrecedenceC(o) ==
    \/ RenderFaulted(o.c)
    \/ /\ IsPrefixOf(o.pieces, ExpectedPieces(o.c))
       /\ (o.complete /\ ~Disconnected(o.c)) => o.pieces = ExpectedPieces(o.c)
LengthRequired(c) == c.method # "HEAD" /\ ~StatusBodiless(c) /\ ~Streamed(c)
LengthConsistentC(o) ==
    (o.complete /\ LengthRequired(o.c) /\ Starts(o.ev) > 0) => StartOf(o.ev).cl = Bytes(o.ev)
BodilessHaveNoBytesC(o) == Bodiless(o.c) => Bytes(o.ev) = 0
TypelessHaveNoFrameworkTypeC(o) == (Typeless(o.c) /\ Starts(o.ev) > 0) => StartOf(o.ev).ct # "fw"
OthersHaveTypeC(o) == (~Typeless(o.c) /\ Starts(o.ev) > 0) => StartOf(o.ev).ct # "none"
StatusLineWellFormedC(o) == Starts(o.ev) > 0 => StartOf(o.ev).sl
(* closes = close() calls on the object the application assigned to resp.stream *)
CloseExactlyOnceOnceBegunC(o) ==
    /\ o.closes <= 1
    /\ (o.ended /\ o.begun /\ HasClose(o.c)) => o.closes = 1

(* ------------------------------------------------------------------ the emission machine *)
VARIABLES c0,         \* the case as the application filled it in
          c,          \* the response being emitted: c0, or Eff(c0, ..) after a render-phase fault
          pc,         \* next emission step
          ev,         \* events the server has received
          k,          \* next block / event index of the stream or emitter
          hand,       \* index of the block in hand, -1 = none
          sends,      \* send attempts so far (the fault counter)
          begun,      \* the stream has been asked for its first block
          closes,     \* close() calls on the stream
          raised,     \* the stream / emitter raised the injected fault
          sendFailed  \* the server's send raised the injected fault
vars == <<c0, c, pc, ev, k, hand, sends, begun, closes, raised, sendFailed>>

Start(case) == /\ c0 = case /\ c = case /\ pc = (IF case.fk = "render" THEN "render" ELSE "start") /\ ev = <<>> /\ k = 0 /\ hand = -1 /\ sends = 0
               /\ begun = FALSE /\ closes = 0 /\ raised = FALSE /\ sendFailed = FALSE

AfterStart ==
    IF SeenBodiless(c) THEN "empty"
    ELSE CASE Chosen(c) = "sse"    -> "sse"
           [] Chosen(c) = "stream" -> "read"
           [] Chosen(c) = "none"   -> "empty"
           [] OTHER                -> "body"

(* one send to the server: delivered, or the injected failure *)
Send(e, ok, bad) ==
    /\ sends' = sends + 1
    /\ (IF c.fk = "send" /\ c.fa = sends
        THEN (sendFailed' = TRUE /\ ev' = ev /\ pc' = bad)
        ELSE (sendFailed' = sendFailed /\ ev' = Append(ev, e) /\ pc' = ok))

(* rendering the body raises; the error handler re-fills the response, which is rendered again *)
RenderFails ==
    /\ pc = "render"
    /\ c' = Eff(c, c.fa >= 2, FALSE)
    /\ pc' = "start"
    /\ UNCHANGED <<c0, ev, k, hand, sends, begun, closes, raised, sendFailed>>

SendStart ==
    /\ pc = "start"
    /\ (IF IsAsgi(c) THEN Send(StartEvt(c), AfterStart, "done")
        ELSE (sends' = 1 /\ ev' = <<StartEvt(c)>> /\ pc' = AfterStart /\ UNCHANGED sendFailed))   \* start_response
    /\ UNCHANGED <<c0, c, k, hand, begun, closes, raised>>

(* a rendered (text / data / media) body: one block *)
SendBody ==
    /\ pc = "body"
    /\ Send(BodyEvt(RenderedLen(c), ~IsAsgi(c), Chosen(c), 0), IF IsAsgi(c) THEN "done" ELSE "eof", "done")
    /\ UNCHANGED <<c0, c, k, hand, begun, closes, raised>>

(* nothing to send: HEAD, a bodiless status, or no body source *)
SendEmpty ==
    /\ pc = "empty"
    /\ (IF IsAsgi(c) THEN Send(FinalEvt, "done", "done")
        ELSE (ev' = Append(ev, EofEvt) /\ pc' = "done" /\ UNCHANGED <<sends, sendFailed>>))      \* empty iterable
    /\ UNCHANGED <<c0, c, k, hand, begun, closes, raised>>

(* ask the stream for its next block: a block, exhaustion, or the injected failure *)
StreamRead ==
    /\ pc = "read"
    /\ begun' = TRUE
    /\ IF c.fk = "stream" /\ c.fa = k
       THEN raised' = TRUE /\ pc' = "fault" /\ UNCHANGED <<ev, k, hand>>
       ELSE /\ raised' = raised
            /\ IF k < Len(Blocks(c)) /\ ~(StopAtShortBlock /\ FileLike(c) /\ k > 0 /\ Blocks(c)[k] < BlockSize)
               THEN hand' = k /\ k' = k + 1 /\ pc' = "chunk" /\ ev' = ev
               ELSE /\ pc' = "exhausted" /\ UNCHANGED <<k, hand>>
                    /\ ev' = IF IsAsgi(c) THEN ev ELSE Append(ev, EofEvt)   \* the server sees StopIteration
    /\ UNCHANGED <<c0, c, sends, closes, sendFailed>>

StreamSendChunk ==
    /\ pc = "chunk"
    /\ Send(BodyEvt(IF Blocks(c)[hand + 1] < 0 THEN 0 ELSE Blocks(c)[hand + 1], TRUE, "stream", hand), "read", "fault")
    /\ hand' = -1
    /\ UNCHANGED <<c0, c, k, begun, closes, raised>>

(* close() of the stream: after exhaustion, and after a fault that interrupted streaming
   (ASGI: the framework's finally; WSGI: the server closes the returned iterable, which must
   reach the stream) *)
CloseStream ==
    /\ pc \in {"fault", "exhausted"}
    /\ closes' = closes + (IF HasClose(c) /\ ~(ForgetCloseOnFault /\ pc = "fault") /\ ~(CloseDerivedIterator /\ DerivedIter(c)) THEN 1 ELSE 0)
    /\ pc' = IF pc = "exhausted" /\ IsAsgi(c) THEN "final" ELSE "done"
    /\ UNCHANGED <<c0, c, ev, k, hand, sends, begun, raised, sendFailed>>

(* end of the WSGI iterable after a rendered body / the closing ASGI body event after a stream *)
Eof ==
    /\ pc \in {"eof", "final"}
    /\ (IF pc = "final" THEN Send(FinalEvt, "done", "done")
        ELSE (ev' = Append(ev, EofEvt) /\ pc' = "done" /\ UNCHANGED <<sends, sendFailed>>))
    /\ UNCHANGED <<c0, c, k, hand, begun, closes, raised>>

(* server-sent events (ASGI): the emitter is iterated, every event is one body block *)
SseNext ==
    /\ pc = "sse"
    /\ IF c.fk = "stream" /\ c.fa = k
       THEN raised' = TRUE /\ pc' = "done" /\ UNCHANGED <<k, hand>>
       ELSE /\ raised' = raised
            /\ IF k < c.sse THEN hand' = k /\ k' = k + 1 /\ pc' = "ssechunk"
               ELSE pc' = "final" /\ UNCHANGED <<k, hand>>
    /\ UNCHANGED <<c0, c, ev, sends, begun, closes, sendFailed>>
SseSend ==
    /\ pc = "ssechunk"
    \* the disconnect is noticed after the send that follows it: that item still goes out, then the end
    /\ Send(BodyEvt(1, TRUE, SsePiece(c, hand)[1], hand), IF Disconnected(c) /\ hand >= c.fa THEN (IF ReturnOnDisconnect THEN "done" ELSE "final") ELSE "sse", "done")
    /\ hand' = -1
    /\ UNCHANGED <<c0, c, k, begun, closes, raised>>

Next == RenderFails \/ SendStart \/ SendBody \/ SendEmpty \/ StreamRead \/ StreamSendChunk \/ CloseStream \/ Eof \/ SseNext \/ SseSend

Obs == [c |-> c, ev |-> ev, pieces |-> ObsPieces(c, ev), begun |-> begun, closes |-> closes,
        complete |-> (pc = "done" /\ ~raised /\ ~sendFailed), ended |-> pc = "done"]

ExactlyOneStart             == ExactlyOneStartC(Obs)
OnlyLastHasNoMoreBody       == OnlyLastHasNoMoreBodyC(Obs)
NothingAfterFinal           == NothingAfterFinalC(Obs)
Precedence                  == PrecedenceC(Obs)
LengthConsistent            == LengthConsistentC(Obs)
BodilessHaveNoBytes         == BodilessHaveNoBytesC(Obs)
TypelessHaveNoFrameworkType == TypelessHaveNoFrameworkTypeC(Obs)
OthersHaveType              == OthersHaveTypeC(Obs)
StatusLineWellFormed        == StatusLineWellFormedC(Obs)
CloseExactlyOnceOnceBegun   == CloseExactlyOnceOnceBegunC(Obs)
(* without a fault, after a (handled) render-phase fault and after a client disconnect every response is emitted to its end *)
FaultFreeCompletes          == (pc = "done" /\ c.fk \in {"none", "render", "disc"}) => Obs.complete
=============================================================================
