INIT Init
NEXT Next
CONSTANTS
  MaxRequests = 3
  SharedFallback = FALSE
INVARIANT ViewIndependentOfHistory
INVARIANT SeenNothingForeign
INVARIANT Emit
