INIT EncInit
NEXT EncNext
CONSTANTS
  NoLower = {}
  AppendGuard = TRUE
  FreshCookie = TRUE
  UseSecureDefault = TRUE
  SnapshotDefault = FALSE
  Depth = 1
  Bases = {"x-a"}
  Casings = {0}
  Vals = {"v1"}
  DefaultMedia = "application/json"
  Randomized = FALSE
  CkAlpha = {97}
  CkLen = 0
  CkTwoPass = FALSE
  EncLen = 2
INVARIANT EncEmit
