INIT Init
NEXT Next
CONSTANTS
  Methods = {"GET"}
  MaxHeaders = 1
  NTargets = 7
  NQueries = 1
  NPool = 8
  NBodies = 4
  NEndpoints = 8
  Kinds = {"echo"}
  NOptions = 2
  UnderscoreNames = FALSE
INVARIANT GeneratedAreWellFormed
INVARIANT EncodingsAgree
INVARIANT ClientSaysTheSame
INVARIANT RawMaterialKept
