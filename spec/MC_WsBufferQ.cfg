\* quick exhaustive design check: capacities 0..2, <= 3 messages +- disconnect, <= 5 calls, 1 cancellation
INIT XInit
NEXT XNext
CONSTANTS
  MaxQs = {0, 1, 2}
  NMsg = 3
  DiscChoices = {TRUE, FALSE}
  GeCmp = TRUE
  AwaitStop = TRUE
  NotifyPop = TRUE
  ReleaseOnEnd = TRUE
  Faults = TRUE
  StopAfterSend = TRUE
  CleanupOnDisc = TRUE
  MaxSendFail = 1
  Family = "none"
  MaxOps = 5
  MaxCancel = 1
  Depth = 0
INVARIANT TypeOK
INVARIANT Fifo
INVARIANT Conserved
INVARIANT Bounded
INVARIANT Held
INVARIANT PullsStopWhenFull
INVARIANT PumpStopsAfterDisc
INVARIANT DisconnectAfterPreceding
INVARIANT NoLostWake
INVARIANT WaitersConsistent
INVARIANT NothingLeftRunning
INVARIANT AfterAppReturn
INVARIANT AcceptedHasPump
INVARIANT QuietIsRight
PROPERTY XSenderLearnsPromptly
