INIT GInit
NEXT GNext
CONSTANTS
  Bounds <- BoundsTiny
  ReqSet <- ReqsSmall
  ReadAttrs <- UrlAttrs
  Depth = 0
  SharedUriSlot = FALSE
INVARIANT OutcomeShape
POSTCONDITION PostG
