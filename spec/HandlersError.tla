---------------------------- MODULE HandlersError ----------------------------
(* C11b continued: the same mutation histories on a Handlers mapping, observed at ERROR RENDERING.
   When an HTTPError is rendered (falcon.app_helpers.default_serialize_error) for a request whose
   Accept header is `hdr`, on an app whose resp_options carry the mapping objs[o] and the flag
   xml (xml_error_serialization):

     offered(t)   JSON, and with xml also text/xml and application/xml, then every key of the
                  mapping AS IT IS AT TIME t that is not among those (multipart is never offered)
     chosen       client_prefers(offered) = MediaTypesOps!BestIdx over the Accept header
                  (first of maximal positive quality: on equal weight JSON wins, being first)
     body         chosen = JSON: encoded by the handler the mapping designates for JSON now, else by
                  the framework's own JSON encoder;  otherwise by the handler the mapping designates
                  for the chosen type now; if there is none: the built-in XML document when xml is
                  on, else no body.  Content-Type = chosen (so Content-Type and body agree).
   OfferedFollowsMapping: the outcome is a function of (mapping at time t, xml, Accept) - nothing
   an earlier error rendering saw may be remembered.  MemoiseOffered = TRUE is the wrong design
   "the offered list is computed at the first error and kept while the Handlers object and the xml
   flag stay the same" (vacuity switch).                                                         *)
EXTENDS Handlers

CONSTANTS Accepts,          \* Accept headers (sequences of media ranges) offered to RenderError
          JsonT, TextXmlT, AppXmlT,
          SufJson, SufXml,  \* subtypes spelled with a "+json" / "+xml" structured-syntax suffix
          MemoiseOffered,
          ExactLookup

VARIABLES elast,            \* outcome of the last error rendering
          offmemo           \* wrong-design state: per object, the offered list remembered (<<>> = none) and its xml flag

evars == <<objs, last, elast, offmemo>>

XMLENC  == -1               \* body produced by the built-in XML serialisation
JSONENC == -2               \* body produced by the framework's own JSON encoder
NOBODY  == 0

Predefined(xml) == IF xml THEN <<JsonT, TextXmlT, AppXmlT>> ELSE <<JsonT>>
InSeq(s, x) == \E i \in DOMAIN s : s[i] = x
Offered(map, xml) == Predefined(xml) \o SelectSeq(KeySeq(map), LAMBDA k : ~InSeq(Predefined(xml), k))

(* nothing offered is acceptable: a range with a +json subtype anywhere in the header falls back on JSON, else one
   with +xml on application/xml (whatever the xml flag says); NOKEY = no representation *)
Mentions(hdr, S) == \E i \in DOMAIN hdr : hdr[i].s \in S
Chosen(offered, hdr) ==
    LET b == BestIdx(hdr, offered) IN
    IF b # 0 THEN offered[b]
    ELSE IF Mentions(hdr, SufJson) THEN JsonT ELSE IF Mentions(hdr, SufXml) THEN AppXmlT ELSE NOKEY
(* WHO renders the body of the chosen type t: the handler the mapping designates for t BY THE MATCHING RULE of
   Handlers.tla (t is spelled canonically, so a literally equal key wins, otherwise the first registered key of
   maximal positive quality: application/xml; charset=utf-8, application/*, */* all serve application/xml) *)
Renderer(map, t) == Designated(map, Lit(t), JsonT)
(* [ct: the Content-Type chosen (NOKEY = none), enc: who encoded the body] *)
OutcomeBy(t, hd, xml) ==
    IF t = NOKEY THEN [ct |-> NOKEY, enc |-> NOBODY]
    ELSE IF t = JsonT THEN [ct |-> t, enc |-> IF hd = NONE THEN JSONENC ELSE hd]
    ELSE IF hd # NONE THEN [ct |-> t, enc |-> hd]
    ELSE IF xml THEN [ct |-> t, enc |-> XMLENC]
    ELSE [ct |-> t, enc |-> NOBODY]
(* ExactLookup = the wrong design "the handler is looked up by the literal key only" *)
Outcome(offered, map, hdr, xml) ==
    LET t == Chosen(offered, hdr) IN
    OutcomeBy(t, IF t = NOKEY THEN NONE
                 ELSE IF ExactLookup THEN (IF HasKey(map, t) THEN Get(map, t) ELSE NONE)
                 ELSE Renderer(map, t), xml)
(* the encoders the property admits for the chosen type: where the literal-key shortcut applies, any handler under a
   key of maximal positive quality (ShortcutInsideRule); otherwise exactly the rule's handler *)
AdmittedEnc(map, t, xml) ==
    IF t = NOKEY THEN {NOBODY}
    ELSE IF ShortcutApplies(map, Lit(t), JsonT)
         THEN {OutcomeBy(t, hd, xml).enc : hd \in DesignatedSet(map, Lit(t), JsonT)}
         ELSE {OutcomeBy(t, RuleDesignated(map, Lit(t), JsonT), xml).enc}

ErrorOutcome(map, hdr, xml) == Outcome(Offered(map, xml), map, hdr, xml)

EInit == Init /\ elast = [o |-> 0, hdr |-> <<>>, xml |-> FALSE, ct |-> NOKEY, enc |-> NOBODY]
              /\ offmemo = <<[offered |-> <<>>, xml |-> FALSE]>>

RenderError(o, hdr, xml) ==
    LET m == offmemo[o]
        reuse == MemoiseOffered /\ m.offered # <<>> /\ m.xml = xml
        offered == IF reuse THEN m.offered ELSE Offered(objs[o].map, xml)
        out == Outcome(offered, objs[o].map, hdr, xml)
    IN  /\ elast' = [o |-> o, hdr |-> hdr, xml |-> xml, ct |-> out.ct, enc |-> out.enc]
        /\ offmemo' = [offmemo EXCEPT ![o] = [offered |-> offered, xml |-> xml]]
        /\ last' = Rec("error", o, NOKEY, 0, NOCT, NOKEY, xml, 0, FALSE)
        /\ UNCHANGED objs

EMutate(o) == Mutate(o) /\ UNCHANGED <<elast, offmemo>>
ENext == \E o \in DOMAIN objs : EMutate(o) \/ \E hdr \in Accepts, xml \in BOOLEAN : RenderError(o, hdr, xml)
ESpec == EInit /\ [][ENext]_evars

(* the representation of an error is decided by the mapping as it is when the error is rendered *)
OfferedFollowsMapping ==
    last.op = "error" => LET w == ErrorOutcome(objs[elast.o].map, elast.hdr, elast.xml)
                         IN  elast.ct = w.ct /\ elast.enc = w.enc
(* Content-Type and body agree: a handler-encoded body comes from the handler the chosen type designates now *)
TypeAndBodyAgree ==
    last.op = "error" => /\ (elast.enc > 0 => elast.enc = Renderer(objs[elast.o].map, elast.ct))
                         /\ elast.enc \in AdmittedEnc(objs[elast.o].map, elast.ct, elast.xml)
                         /\ (elast.ct = NOKEY => elast.enc = NOBODY)
                         /\ (elast.enc = XMLENC => elast.xml)
==============================================================================
