INIT XInit
NEXT XNext
CONSTANTS
  Datas <- MCDatas
  Scripts <- MCScripts
  CLs <- QCLs
  Sizes <- QSizes
  ShortReads = TRUE
  ChargeByRequested = FALSE
  BoundLineOps = TRUE
  TruncateChunks = TRUE
  CountTruncated = TRUE
  HonourDisconnect = TRUE
  TellFromZero = TRUE
  RejectNegativeCL = TRUE
  AccountBeforeYield = TRUE
  ExhaustToTheEnd = TRUE
  Depth = 0
  MaxEvents = 2
  MaxEvLen = 2
  MaxData = 3
INVARIANT TypeOK
INVARIANT PrefixOfBody
INVARIANT SizedReadBounded
INVARIANT NeverAskBeyondCL
INVARIANT IndicatorsAgree
INVARIANT DisconnectEndsStream
INVARIANT ExhaustEndsStream
