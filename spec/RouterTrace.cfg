INIT JInit
NEXT JNext
CONSTANTS
  TS <- JTS
  CT <- JCT
  BadNames <- JBad
  Templates = {}
  Paths = {}
  MaxAdds = 0
  Rollback = TRUE
  ResetOnAdd = TRUE
INVARIANT Sound
