---------------------------- MODULE QueryString ----------------------------
(* C08, parsing half: the functions of QueryStringOps as a two-step state machine.
     init --Parse(kb, csv)--> parsed                      a query string is read
     init --Render(cl)--> rendered --Parse--> reparsed    a mapping is rendered, then read back
   The laws of the property are invariants over the reached states. *)
EXTENDS QueryStringOps

CONSTANTS Alphabet, MaxLen,     \* query strings: all texts over Alphabet up to MaxLen ...
          Extra,                \* ... and these
          Mappings              \* parameter mappings offered to to_query_str

VARIABLES phase,    \* "init" | "parsed" | "rendered" | "reparsed"
          q,        \* the query string (given, or rendered from m)
          m,        \* the mapping that was rendered (<<>> when q was given)
          kb, csv,  \* keep_blank_qs_values, auto_parse_qs_csv of the parse
          cl,       \* comma_delimited_lists of the rendering
          res       \* the parse result

vars == <<phase, q, m, kb, csv, cl, res>>

NoResult == [entries |-> <<>>, zero |-> <<>>, blankcsv |-> FALSE]

Init == /\ phase = "init" /\ kb = FALSE /\ csv = FALSE /\ cl = FALSE /\ res = NoResult
        /\ \/ q \in SeqsUpTo(Alphabet, MaxLen) \cup Extra /\ m = <<>>
           \/ m \in Mappings /\ q = <<>>

DoParse(k, c) ==
    /\ phase \in {"init", "rendered"} /\ (phase = "init" => m = <<>>)
    /\ phase' = (IF phase = "init" THEN "parsed" ELSE "reparsed")
    /\ kb' = k /\ csv' = c /\ res' = Parse(q, k, c)
    /\ UNCHANGED <<q, m, cl>>

DoRender(c) ==
    /\ phase = "init" /\ m # <<>>
    /\ phase' = "rendered" /\ cl' = c /\ q' = Render(m, c, FALSE)
    /\ UNCHANGED <<m, kb, csv, res>>

Next == (\E k, c \in BOOLEAN : DoParse(k, c)) \/ (\E c \in BOOLEAN : DoRender(c))
Spec == Init /\ [][Next]_vars

(* ---- laws ---- *)
IsText(t) == \A i \in 1..Len(t) : t[i] >= 0 /\ t[i] <= 1114111 /\ ~(t[i] >= 55296 /\ t[i] <= 57343)

(* parsing is total and yields one well-formed mapping *)
ParseTotal ==
    phase \in {"parsed", "reparsed"} =>
        /\ \A i \in 1..Len(res.entries) :
              /\ res.entries[i].v # <<>> /\ IsText(res.entries[i].k)
              /\ \A j \in 1..Len(res.entries[i].v) : IsText(res.entries[i].v[j])
              /\ res.entries[i].shape \in {"scalar", "list"}
              /\ (res.entries[i].shape = "scalar" => Len(res.entries[i].v) = 1)
              /\ \A j \in 1..Len(res.entries) : res.entries[j].k = res.entries[i].k => j = i
        /\ (res.blankcsv => csv /\ ~kb)
        /\ ZeroNames(res) \cap Names(res) = {} /\ Cardinality(ZeroNames(res)) = Len(res.zero)
        /\ (res.zero # <<>> => res.blankcsv)

(* dropping blanks only filters: what is read without blanks is what is read with them, blanks removed *)
BlanksOnlyFilter ==
    phase = "parsed" =>
        LET with == Parse(q, TRUE, csv)
            wout == Parse(q, FALSE, csv)
        IN  /\ Names(wout) \subseteq Names(with)
            /\ ZeroNames(wout) \subseteq Names(with) /\ ZeroNames(with) = {}      \* zero values only by dropping blanks
            /\ \A n \in Names(with) : ValuesFor(wout, n) = SelectSeq(ValuesFor(with, n), NonEmpty)

(* without CSV splitting every kept field is exactly one value *)
CsvOffOneValuePerField ==
    (phase = "parsed" /\ ~csv) =>
        LET fs == SplitOn(q, AMP)
            n  == Cardinality({i \in 1..Len(fs) : Kept(FieldOf(fs[i]), kb)})
            RECURSIVE Sum(_)
            Sum(es) == IF es = <<>> THEN 0 ELSE Len(Head(es).v) + Sum(Tail(es))
        IN  Sum(res.entries) = n

(* reading is a homomorphism over '&': fields are independent (justifies long strings as joins of blocks) *)
AmpConcat ==
    phase = "parsed" =>
        \A i \in Positions(q, AMP) :
            LET a == Parse(SubSeq(q, 1, i - 1), kb, csv)
                b == Parse(SubSeq(q, i + 1, Len(q)), kb, csv)
            IN  /\ Names(res) = Names(a) \cup Names(b)
                /\ \A n \in Names(res) : ValuesFor(res, n) = ValuesFor(a, n) \o ValuesFor(b, n)

(* a rendered mapping parses back to itself (blanks kept; CSV parsing on when lists were comma-delimited) *)
NamesNonEmpty == \A i \in 1..Len(m) : m[i].k # <<>>     \* ("=v" is readable, "=" is not: nameless blanks are excluded)
(* an empty list has no comma-delimited rendering of its own: "a=" reads back as one blank value *)
NoEmptyCommaList == cl => \A i \in 1..Len(m) : m[i].v # <<>>
RoundTrip ==
    (phase = "reparsed" /\ kb /\ (cl => csv) /\ NamesNonEmpty /\ NoEmptyCommaList) => SameMapping(res, AsResult(m))
RoundTripNoBlanks ==       \* ... and without keep_blank whenever there is no blank value to lose
    (phase = "reparsed" /\ ~kb /\ (cl => csv) /\ NamesNonEmpty /\ NoEmptyCommaList /\ \A i \in 1..Len(m) : \A j \in 1..Len(m[i].v) : m[i].v[j] # <<>>)
        => SameMapping(res, AsResult(m))
(* the rendering itself is a legal query: unreserved characters, escapes, and the three separators *)
RenderAlphabet ==
    phase = "rendered" => StrictEscaped(q, ValueAllowed \cup {AMP, EQ, COMMA})
=============================================================================
