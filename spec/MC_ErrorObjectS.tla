---------------------------- MODULE MC_ErrorObjectS ----------------------------
(* Export instance of ErrorObject (leg A): the history variable h exists only here. *)
EXTENDS MC_ErrorObject
(* ---- export: h is the sequence of operations; every finished history (MaxRenders renderings) is printed ---- *)
VARIABLE h
Op(op, f, none, k, a, d) == [op |-> op, f |-> f, none |-> none, k |-> k, acc |-> a, doc |-> d]
HInit == MCOInit /\ h = <<>>
HNext == \/ \E f \in AttrNames, n \in BOOLEAN : Amend(f, n) /\ h' = Append(h, Op("amend", f, n, "", Absent, NoDoc))
         \/ \E k \in {"dict", "json", "xml"} : Peek(k) /\ h' = Append(h, Op("peek", "", FALSE, k, Absent, NoDoc))
         \/ \E a \in Accepts : Raise(a) /\ h' = Append(h, Op("raise", "", FALSE, "", a, NoDoc))
         \/ Catch /\ h' = Append(h, Op("catch", "", FALSE, "", Absent, NoDoc))
         \/ Reraise /\ h' = Append(h, Op("reraise", "", FALSE, "", Absent, NoDoc))
         \/ RenderObj /\ h' = Append(h, Op("render", "", FALSE, "", Absent, doc'))
(* a history worth replaying: the last rendering follows an amendment *)
Emit == (nrend >= 2 /\ where = "idle" /\ fresh /\ namend > 0) => PrintT(ToJson([ops |-> h]))
===============================================================================
