\* vacuity witness: the wrong design "wait while len(queue) > capacity" must violate Bounded
INIT XInit
NEXT XNext
CONSTANTS
  MaxQs = {1, 2}
  NMsg = 3
  DiscChoices = {TRUE}
  GeCmp = FALSE
  AwaitStop = TRUE
  NotifyPop = TRUE
  ReleaseOnEnd = TRUE
  Faults = TRUE
  MaxOps = 2
  MaxCancel = 0
  Depth = 0
INVARIANT Bounded
