INIT MInit
NEXT MNext
CONSTANTS
  Bounds <- BoundsQ
  ReqSet <- ReqsOne
  ReadAttrs <- UrlAttrs
  Depth = 0
  SharedUriSlot = TRUE
INVARIANT MemoSound
INVARIANT CacheSound
INVARIANT LookupSound
