INIT MInit
NEXT MNext
CONSTANTS
  Bounds <- BoundsQ
  ReqSet <- ReqsSmall
  ReadAttrs <- UrlAttrs
  Depth = 0
  SharedUriSlot = TRUE
INVARIANT MemoSound
INVARIANT CacheSound
INVARIANT LookupSound
