---------------------------- MODULE MediaCacheForm ----------------------------
(* C12, URL-encoded forms: what "any URL-encoded form mapping" is and what reading it back gives.
   The handler documents (as urllib.parse.urlencode does, with doseq=True): the media is a dict or a
   sequence of two-element (name, value) tuples; a value that is a sequence (list or tuple) gives
   one parameter per element, any other value one parameter with str(value) (bytes as they are).
   The request side reads the parameters back in wire order: a name seen once maps to its string,
   a name seen several times to the list of its strings (keep_blank: empty strings are kept).

     media  [form: "dict" | "pairs", items: Seq([n: name id, v: [k: "s" | "l" | "t", items: Seq(scalar id)]])]
            equal ids denote equal scalars / names; what their text is, is the harness' business
            (trusted str()); "s" has exactly one item; "dict" has pairwise distinct names
     wire   Seq([n, x])      the parameters in order
     back   Seq([n, xs])     the mapping read back, in order of first occurrence                   *)
EXTENDS Integers, Sequences, FiniteSets, TLC

CONSTANT Medias
VARIABLES media, wire, back, phase
vars == <<media, wire, back, phase>>

RECURSIVE Flatten(_)
Flatten(items) ==
    IF items = <<>> THEN <<>>
    ELSE LET it == Head(items) IN [i \in DOMAIN it.v.items |-> [n |-> it.n, x |-> it.v.items[i]]] \o Flatten(Tail(items))

(* the parser: first occurrence -> the string, later occurrences -> a growing list *)
RECURSIVE Parse(_, _)
Parse(w, acc) ==
    IF w = <<>> THEN acc
    ELSE LET p == Head(w)
             at == {i \in DOMAIN acc : acc[i].n = p.n}
         IN  Parse(Tail(w), IF at = {} THEN Append(acc, [n |-> p.n, xs |-> <<p.x>>])
                            ELSE [i \in DOMAIN acc |-> IF i \in at THEN [n |-> p.n, xs |-> Append(acc[i].xs, p.x)] ELSE acc[i]])

Init == media \in Medias /\ wire = <<>> /\ back = <<>> /\ phase = 0
Serialize   == phase = 0 /\ wire' = Flatten(media.items) /\ phase' = 1 /\ UNCHANGED <<media, back>>
Deserialize == phase = 1 /\ back' = Parse(wire, <<>>) /\ phase' = 2 /\ UNCHANGED <<media, wire>>
Next == Serialize \/ Deserialize
Spec == Init /\ [][Next]_vars

(* ---- the law, stated without the fold ---- *)
ValuesOf(n) == LET sel == SelectSeq(wire, LAMBDA p : p.n = n) IN [j \in DOMAIN sel |-> sel[j].x]
FormLaw == phase = 2 =>
    /\ \A i, j \in DOMAIN back : i # j => back[i].n # back[j].n                       \* one entry per name
    /\ {back[i].n : i \in DOMAIN back} = {wire[i].n : i \in DOMAIN wire}               \* exactly the names that have a value
    /\ \A i \in DOMAIN back : back[i].xs = ValuesOf(back[i].n)                         \* all their values, in order
    /\ \A it \in {media.items[i] : i \in DOMAIN media.items} :                         \* nothing of the media is lost
          \A j \in DOMAIN it.v.items : \E i \in DOMAIN back : back[i].n = it.n /\ \E k \in DOMAIN back[i].xs : back[i].xs[k] = it.v.items[j]
NoElementsNoName == phase = 2 => \A i \in DOMAIN back : back[i].xs # <<>>
===============================================================================
