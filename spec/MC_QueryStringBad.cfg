INIT Init
NEXT XNext
CONSTANTS
  ValuesOf <- DecodeThenSplit
  Alphabet <- NoStrings
  MaxLen = 0
  Extra <- NoStrings
  Mappings <- RtMappingsQ
  KnownLiterals <- NoStrings
INVARIANT RoundTrip
INVARIANT RoundTripNoBlanks
INVARIANT RenderAlphabet
