INIT Init
NEXT MCNext
CONSTANTS
  Stacks <- Stacks3
  Indeps <- Both
  Targets <- AllTargets
  MaxHooks = 1
  InitRegs <- C3Regs
  RegClasses <- None
  RegBehs <- None
  MaxRegs = 0
  RaiseClasses <- C3Raise
  RenderClasses <- C3Render
  Mro <- MCMro
  StatusOf <- MCStatus
  OwnVary <- MCOwnVary
  MaxReqs = 1
  WrongDesign = "none"
  SameObj = FALSE
  MaxFaults = 2
INVARIANT TypeOK
INVARIANT ReqTopDown
INVARIANT ResourceMwOnlyIfRouted
INVARIANT ResponderOnlyIfClean
INVARIANT ResponseBottomUp
INVARIANT ResponseOnce
INVARIANT SucceededIffNoRaise
INVARIANT MostSpecificWins
INVARIANT LatestRegistrationWins
INVARIANT HandlerFollowsRaise
INVARIANT EveryRaiseHandled
INVARIANT StaleBodyDiscarded
INVARIANT NeverEscapesByDefault
INVARIANT HandlerRaisedErrorIsRendered
INVARIANT DefaultRendering
