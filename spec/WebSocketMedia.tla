--------------------------- MODULE WebSocketMedia ---------------------------
(* C17, payload dimension: "text / binary / media payloads arrive unchanged, in order" over sessions
   in which the client REPEATS frames and the application MUTATES what it was handed.

   One application serves several connections (successive or concurrent).  The client side of a
   connection sends media frames (a value, encoded as TEXT = JSON or BINARY = MessagePack); the same
   frame may be sent any number of times, on one connection and on several.  The application side
   calls receive_media() / send_media() and, between calls, mutates the objects it holds (appends to a
   list, sets a key of a dict, at the top level or inside a nested container).

   Values have identity-free equality: a value is [b, ext, in] - a base value (id b: scalar / list /
   dict, short or long encoding) plus the marks the application appended at the top level (ext) and
   inside the nested container (in).  Objects the application holds have identity: `heap` is the
   sequence of all objects it ever obtained (index = identity), each with its CURRENT value.

   Demanded (property C17): every receive_media() hands over a value EQUAL to the decoding of the
   next frame the client sent on that connection (DeliveredEqualsSent), as a NEW object - mutable
   results are never shared between frames or connections (NoSharedResults) - so no earlier result
   changes under the application's feet (heap is only changed by Mutate); send_media(o) puts on the
   wire the encoding of o's value AT THE TIME OF THE CALL (SentIsEncodingAtCall).

   Wrong-design switches (vacuity):
     ShareDecoded   decoded results are memoised per frame content (per application): the second
                    delivery of an identical frame is the first result - DeliveredEqualsSent fails once
                    the application has mutated it
     MemoEncoded    encodings are memoised per object: send_media of an object mutated since its last
                    send puts the stale encoding on the wire - SentIsEncodingAtCall fails *)
EXTENDS Integers, Sequences, TLC

CONSTANTS Conns,         \* connection ids of one application
          Bases,         \* ids of base values: b % 3 = 1 scalar, 2 list, 0 dict; b > 3: encoding longer than 128 characters
          Kinds,         \* "text" (JSON media handler), "bin" (MessagePack media handler)
          Marks,         \* what a mutation appends / stores
          ShareDecoded,  \* wrong-design switch (FALSE)
          MemoEncoded    \* wrong-design switch (FALSE)

VARIABLES st,      \* [Conns -> {"new", "open", "closed"}]
          wire,    \* [Conns -> Seq(frame)]: every frame the client sent on the connection, in order
          pos,     \* [Conns -> Nat]: how many of them receive_media() has handed over
          heap,    \* Seq(value): the objects the application holds, by identity, with their current value
          dmemo,   \* ShareDecoded only: {[f: frame, o: object]}
          ememo,   \* MemoEncoded only: {[o: object, k: kind, v: value encoded]}
          last     \* the last action with its parameters and the specified observation

mvars == <<st, wire, pos, heap, dmemo, ememo, last>>

Shape(b)   == CASE b % 3 = 1 -> "scalar" [] b % 3 = 2 -> "list" [] OTHER -> "dict"
Long(b)    == b > 3
NoVal      == [b |-> 0, ext |-> <<>>, in |-> <<>>]
Val(b)     == [b |-> b, ext |-> <<>>, in |-> <<>>]
Mutable(v) == v.b > 0 /\ Shape(v.b) # "scalar"
Put(v, m, wh) == IF wh = "top" THEN [v EXCEPT !.ext = Append(@, m)] ELSE [v EXCEPT !.in = Append(@, m)]
Frame(k, v) == [k |-> k, v |-> v]
Places     == {"top", "deep"}

M0 == [a |-> "init", c |-> 0, o |-> 0, k |-> "", b |-> 0, m |-> 0, wh |-> "", v |-> NoVal, sent |-> NoVal,
       wv |-> NoVal, shared |-> FALSE]

MInit == /\ st = [c \in Conns |-> "new"] /\ wire = [c \in Conns |-> <<>>] /\ pos = [c \in Conns |-> 0]
         /\ heap = <<>> /\ dmemo = {} /\ ememo = {} /\ last = M0

(* the server hands the connection to the application, which accepts it *)
Open(c) == /\ st[c] = "new"
           /\ st' = [st EXCEPT ![c] = "open"]
           /\ last' = [M0 EXCEPT !.a = "open", !.c = c]
           /\ UNCHANGED <<wire, pos, heap, dmemo, ememo>>

(* the responder returns; frames not yet handed over are dropped with the connection *)
Close(c) == /\ st[c] = "open"
            /\ st' = [st EXCEPT ![c] = "closed"]
            /\ last' = [M0 EXCEPT !.a = "close", !.c = c]
            /\ UNCHANGED <<wire, pos, heap, dmemo, ememo>>

(* the client sends the encoding of base value b as a frame of kind k - again and again, if it likes *)
ClientSend(c, k, b) ==
    /\ st[c] = "open"
    /\ wire' = [wire EXCEPT ![c] = Append(@, Frame(k, Val(b)))]
    /\ last' = [M0 EXCEPT !.a = "csend", !.c = c, !.k = k, !.b = b]
    /\ UNCHANGED <<st, pos, heap, dmemo, ememo>>

(* receive_media() on connection c with a frame waiting *)
RecvEnabled(c) == st[c] = "open" /\ pos[c] < Len(wire[c])
Receive(c) ==
    /\ RecvEnabled(c)
    /\ LET f     == wire[c][pos[c] + 1]
           hit   == {e \in dmemo : e.f = f}
           reuse == ShareDecoded /\ hit # {}
           oid   == IF reuse THEN (CHOOSE e \in hit : TRUE).o ELSE Len(heap) + 1
           hp    == IF reuse THEN heap ELSE Append(heap, f.v)
       IN /\ heap' = hp
          /\ pos' = [pos EXCEPT ![c] = @ + 1]
          /\ dmemo' = IF ShareDecoded /\ ~reuse THEN dmemo \cup {[f |-> f, o |-> oid]} ELSE dmemo
          /\ last' = [M0 EXCEPT !.a = "recv", !.c = c, !.o = oid, !.k = f.k, !.v = hp[oid], !.sent = f.v,
                                !.shared = reuse /\ Mutable(f.v)]
    /\ UNCHANGED <<st, wire, ememo>>

(* the application mutates an object it holds (in particular the last one received) *)
MutEnabled(o, wh) == o \in 1..Len(heap) /\ Mutable(heap[o]) /\ wh \in Places
Mutate(o, m, wh) ==
    /\ MutEnabled(o, wh)
    /\ heap' = [heap EXCEPT ![o] = Put(@, m, wh)]
    /\ last' = [M0 EXCEPT !.a = "mutate", !.o = o, !.m = m, !.wh = wh, !.v = Put(heap[o], m, wh)]
    /\ UNCHANGED <<st, wire, pos, dmemo, ememo>>

(* the application builds an object of its own *)
Make(b) == /\ heap' = Append(heap, Val(b))
           /\ last' = [M0 EXCEPT !.a = "make", !.b = b, !.o = Len(heap) + 1, !.v = Val(b)]
           /\ UNCHANGED <<st, wire, pos, dmemo, ememo>>

(* send_media(o, kind) on connection c: v = the object's value at the call, wv = what goes out *)
SendEnabled(c, o) == st[c] = "open" /\ o \in 1..Len(heap)
Send(c, o, k) ==
    /\ SendEnabled(c, o)
    /\ LET hit   == {e \in ememo : e.o = o /\ e.k = k}
           reuse == MemoEncoded /\ hit # {}
           wv    == IF reuse THEN (CHOOSE e \in hit : TRUE).v ELSE heap[o]
       IN /\ ememo' = IF MemoEncoded /\ ~reuse THEN ememo \cup {[o |-> o, k |-> k, v |-> wv]} ELSE ememo
          /\ last' = [M0 EXCEPT !.a = "send", !.c = c, !.o = o, !.k = k, !.v = heap[o], !.wv = wv]
    /\ UNCHANGED <<st, wire, pos, heap, dmemo>>

MNext == \/ \E c \in Conns : Open(c) \/ Close(c) \/ Receive(c)
         \/ \E c \in Conns, k \in Kinds, b \in Bases : ClientSend(c, k, b)
         \/ \E o \in 1..Len(heap), m \in Marks, wh \in Places : Mutate(o, m, wh)
         \/ \E b \in Bases : Make(b)
         \/ \E c \in Conns, o \in 1..Len(heap), k \in Kinds : Send(c, o, k)

MSpec == MInit /\ [][MNext]_mvars

(* ---- the property ---------------------------------------------------------------------------- *)
(* evaluated at every receive: what was handed over equals the decoding of the frame the client sent
   at that position of that connection, whatever the application did to earlier results *)
DeliveredEqualsSent ==
    last.a = "recv" => /\ pos[last.c] >= 1
                       /\ last.v = wire[last.c][pos[last.c]].v
                       /\ last.v = last.sent
(* a mutable result is a new object, never one handed over before (on this or another connection) *)
NoSharedResults == last.a = "recv" => ~last.shared
(* what went out is the encoding of the value the object had when send_media was called *)
SentIsEncodingAtCall == last.a = "send" => last.wv = last.v
(* objects only change through the application's own mutations *)
HeldValuesStable == [][\A o \in 1..Len(heap) : heap'[o] # heap[o] => last'.a = "mutate" /\ last'.o = o]_mvars
=============================================================================
