INIT CknInit
NEXT CknNext
CONSTANTS
  NoLower = {}
  AppendGuard = TRUE
  FreshCookie = TRUE
  UseSecureDefault = TRUE
  SnapshotDefault = FALSE
  Depth = 1
  Bases = {"x-a"}
  Casings = {0}
  Vals = {"v1"}
  DefaultMedia = "application/json"
  Randomized = FALSE
  CkAlpha = {97}
  CkLen = 1
  CkTwoPass = FALSE
  EncLen = 2
  CknAlpha <- CknFullAlpha
  CknAlpha3 <- CknSmallAlpha
  CknLen = 1
  CknHttpCookies = TRUE
  CknEmitLen = 3
  CknEmitAlpha <- CknSmallAlpha
INVARIANT CookieNameRoundTrip
INVARIANT CookieNameVerbatim
