------------------------- MODULE MC_WebSocketMedia -------------------------
(* Bounded instances of WebSocketMedia.  X* actions keep the history empty (exhaustive instance, named
   for -coverage); A* actions log every step's observation record together with the heap after it
   (behaviour export for the replay leg). *)
EXTENDS WebSocketMedia, Json, FiniteSets
CONSTANTS MaxFrames,    \* client frames per behaviour (all connections together)
          MaxHeap,      \* objects the application obtains
          MaxMut,       \* marks per object (top + deep)
          MaxDistinct,  \* distinct client frames per behaviour (the rest are repetitions)
          MaxSends,     \* send_media calls logged per behaviour (simulation instance only)
          Depth
VARIABLES h, ns
mcvars == <<mvars, h, ns>>

RECURSIVE SumLen(_, _)
SumLen(f, S) == IF S = {} THEN 0 ELSE LET c == CHOOSE x \in S : TRUE IN Len(f[c]) + SumLen(f, S \ {c})

MCInit == MInit /\ h = <<>> /\ ns = 0
Keep == h' = h /\ ns' = ns
Log  == h' = Append(h, [ev |-> last', heap |-> heap']) /\ ns' = IF last'.a = "send" THEN ns + 1 ELSE ns

COpen   == \E c \in Conns : (IF c = 1 THEN TRUE ELSE st[c - 1] # "new") /\ Open(c)          \* symmetric connections: open in order
CClose  == \E c \in Conns : Close(c)
SentFrames == UNION {{wire[c][i] : i \in 1..Len(wire[c])} : c \in Conns}
CCSend  == SumLen(wire, Conns) < MaxFrames /\ \E c \in Conns, k \in Kinds, b \in Bases :
             /\ (Frame(k, Val(b)) \in SentFrames \/ Cardinality(SentFrames) < MaxDistinct)
             /\ ClientSend(c, k, b)
CRecv   == Len(heap) < MaxHeap /\ \E c \in Conns : Receive(c)
CMutate == \E o \in 1..Len(heap), m \in Marks, wh \in Places :
             Len(heap[o].ext) + Len(heap[o].in) < MaxMut /\ Mutate(o, m, wh)
CMake   == Len(heap) < MaxHeap /\ \E b \in Bases : Make(b)
CSend   == ns < MaxSends /\ \E c \in Conns, o \in 1..Len(heap), k \in Kinds : Send(c, o, k)

XOpen == COpen /\ Keep
XClose == CClose /\ Keep
XClientSend == CCSend /\ Keep
XReceive == CRecv /\ Keep
XMutate == CMutate /\ Keep
XMake == CMake /\ Keep
XSendMedia == CSend /\ Keep
XNext == XOpen \/ XClose \/ XClientSend \/ XReceive \/ XMutate \/ XMake \/ XSendMedia

AOpen == COpen /\ Log
AClose == CClose /\ Log
AClientSend == CCSend /\ Log
AReceive == CRecv /\ Log
AMutate == CMutate /\ Log
AMake == CMake /\ Log
ASendMedia == CSend /\ Log
ANext == AOpen \/ AClose \/ AClientSend \/ AReceive \/ AMutate \/ AMake \/ ASendMedia

MCStable == [][\A o \in 1..Len(heap) : heap'[o] # heap[o] => last'.a = "mutate" /\ last'.o = o]_mcvars
(* `last` is write-only (no action reads it): states are identified without it (VIEW) and the clauses that
   talk about the last step are checked on every transition instead *)
MCView == <<st, wire, pos, heap, dmemo, ememo, h, ns>>
DeliveredHolds == [][DeliveredEqualsSent']_mcvars
NoSharedHolds  == [][NoSharedResults']_mcvars
SentHolds      == [][SentIsEncodingAtCall']_mcvars
AllClosed == \A c \in Conns : st[c] = "closed"
Emit == (Len(h) = Depth \/ (AllClosed /\ h # <<>>)) => PrintT(ToJson([ev |-> h]))
=============================================================================
