INIT MCInit
NEXT XNext
CONSTANTS
  CharsetClass <- MCCharsetClass
  DelimWithCRLF = TRUE
  PartPool <- MCPartPool
  EnvPool <- MCEnvPool
  LimitsOf <- MCLimitsOf
  Sizes <- ExpSizes
  RDelims <- NoRDelims
  MaxParts = 2
  MaxOps = 1
  MaxRetry = 1
  ContentSel = {1, 9}
  ProfileSel = {1, 2}
  UseJson = FALSE
  BoundarySel = {1}
  PreSel = {1}
  EpiSel = {1}
  FinSel = {TRUE}
  LimModes = {"base", "count", "hdr", "buf"}
  EditPos <- NoPos
  EditKinds = {}
  EditVals = {}
  Depth = 0
INVARIANT ParseOfEncodeIsForm
INVARIANT QuotedRoundTrip
INVARIANT LimitsExactAtThreshold
INVARIANT ContentExact
INVARIANT SizeFailureSticks
INVARIANT CorruptionIsErrorOrWellDefined
PROPERTY MCBufferLimitExact
PROPERTY MCProgress
