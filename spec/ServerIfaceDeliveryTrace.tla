----------------------- MODULE ServerIfaceDeliveryTrace -----------------------
(* Trace judge for C06, response side (ServerIface: body sources delivered incrementally).  A trace is one streaming
   responder -- source kind, the data it holds, status, whether it announces a Content-Length -- and, for each of
   the six drivers (ServerIface!DeliveryDrivers) one after the other, what the recording source object saw and
   what the driver got back:

     [kind, data, status, announce, ev: [drv, op, n, got, status, ctype, has_clen, clen, body, hs, exc]]
       op = "pull"      the consumer asked for the next block (n = the size asked for, -1 for next()) and got `got`
       op = "end"       the source signalled the end (b'' / exhaustion)
       op = "response"  the finished response as the driver observed it (hs: digest of the complete header set)

   Total: every event is consumed; the first failing clause is recorded in `verdict`.
     H:source              the recording source broke its own contract (machinery failure): an empty or over-long
                           block from a file-like, data that is not the next piece of T.data, the end before all
                           data was delivered
     P:exception           an exception escaped / the driver failed
     P:status              the status differs from the responder's
     P:body-whole-source   the body is not the concatenation of everything the source delivers until the end
     P:content-type / P:content-length   header facts differ from ServerIface!StreamedResponse
     P:equal-response      the complete header set differs from the first driver's *)
EXTENDS ServerIface, Json, IOUtils

Traces == JsonDeserialize(IOEnv.TRACE_FILE)

VARIABLES tid, l, verdict, cur, ended, first
vars == <<tid, l, verdict, cur, ended, first>>

T  == Traces[tid]
Ev == T.ev[l]

Init == tid \in 1..Len(Traces) /\ l = 1 /\ verdict = "ok" /\ cur = <<>> /\ ended = FALSE /\ first = 0

Want == StreamedResponse(T, T.data, WholeSource(T.data, <<Len(T.data)>>))

JudgePull ==
    IF ended THEN "H:source"
    ELSE IF T.kind = "file" /\ (Ev.got = <<>> \/ (Ev.n >= 0 /\ Len(Ev.got) > Ev.n)) THEN "H:source"
    ELSE IF ~IsPrefix(cur \o Ev.got, T.data) THEN "H:source"
    ELSE "ok"
JudgeResponse ==
    IF Ev.exc # "" THEN "P:exception"
    ELSE IF Ev.status # Want.status THEN "P:status"
    ELSE IF Ev.body # Want.body THEN "P:body-whole-source"
    ELSE IF Ev.ctype # Want.ctype THEN "P:content-type"
    ELSE IF Ev.has_clen # Want.has_clen \/ Ev.clen # Want.clen THEN "P:content-length"
    ELSE IF first # 0 /\ Ev.hs # T.ev[first].hs THEN "P:equal-response"
    ELSE "ok"

Step ==
    /\ l >= 1 /\ l <= Len(T.ev) /\ verdict = "ok"
    /\ CASE Ev.op = "pull" ->
              /\ verdict' = JudgePull /\ cur' = cur \o Ev.got /\ UNCHANGED <<ended, first>>
         [] Ev.op = "end" ->
              /\ verdict' = (IF cur = T.data THEN "ok" ELSE "H:source") /\ ended' = TRUE /\ UNCHANGED <<cur, first>>
         [] OTHER ->
              /\ verdict' = JudgeResponse /\ cur' = <<>> /\ ended' = FALSE
              /\ first' = (IF first = 0 THEN l ELSE first)
    /\ l' = l + 1 /\ UNCHANGED tid

Done ==
    /\ l >= 1 /\ (l > Len(T.ev) \/ verdict # "ok")
    /\ PrintT(<<"VERDICT", tid, verdict, l - 1>>)
    /\ l' = -1 /\ UNCHANGED <<tid, verdict, cur, ended, first>>

Next == Step \/ Done
Spec == Init /\ [][Next]_vars
Sound == first <= Len(T.ev)
=============================================================================
