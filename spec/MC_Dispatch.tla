---------------------------- MODULE MC_Dispatch ----------------------------
(* Bounded instances of Dispatch.  Every state is one app configuration; the invariants quantify
   over the instance's whole request universe, so the reachable state graph is the decision table.
   X* actions keep the history empty (exhaustive check), A* actions log the assembly calls so that
   Emit can print, per configuration, the history to replay and the expected observation of every
   request (spec -> code leg). *)
EXTENDS Dispatch, Json
VARIABLE h

Var(t) == [k |-> "var", s |-> t]
Tok(k, t) == [k |-> k, s |-> t]

\* code points:  / 47   1 49   a 97   b 98   d 100   i 105   x 120   y 121
MCTemplates == { <<Lit(<<97>>)>>,                     \*  /a
                 <<Lit(<<97>>), Var(<<120>>)>>,       \*  /a/{x}
                 <<Var(<<121>>)>>,                    \*  /{y}
                 <<Lit(<<97>>), Lit(<<98>>)>>,        \*  /a/b
                 <<Var(<<121>>), Lit(<<98>>)>>,       \*  /{y}/b
                 <<Lit(<<>>)>> }                      \*  /
MCSinkPats  == { <<Tok("lit", <<47>>)>>,                                          \*  /
                 <<Tok("lit", <<47, 97>>)>>,                                      \*  /a        (also matches /ab)
                 <<Tok("lit", <<47, 97, 47>>), Tok("digits", <<105, 100>>)>>,     \*  /a/(?P<id>\d+)
                 \*  /(?P<x>[^/]+)/(b|1)       a named group, then an unnamed one
                 <<Tok("lit", <<47>>), Tok("seg", <<120>>), Tok("lit", <<47>>), Tok("ualt", <<98, 124, 49>>)>>,
                 \*  /a/(?P<id>\d+)(/REST)?$   (REST = dot star)  a trailing unnamed group that takes part for some paths only
                 <<Tok("lit", <<47, 97, 47>>), Tok("digits", <<105, 100>>), Tok("optrest", <<>>)>>,
                 \*  /(a|b)/(\d+)              unnamed groups only: no keyword arguments
                 <<Tok("lit", <<47>>), Tok("ualt", <<97, 124, 98>>), Tok("lit", <<47>>), Tok("udigits", <<>>)>>,
                 \*  /a(?:/(?P<id>\d+))?/(?P<x>[^/]+)   a named group inside an optional non-capturing group
                 <<Tok("lit", <<47, 97>>), Tok("optndig", <<47, 124, 105, 100>>), Tok("lit", <<47>>), Tok("seg", <<120>>)>>,
                 \*  /a(/(?P<id>\d+))?                 ... inside an optional capturing group, trailing
                 <<Tok("lit", <<47, 97>>), Tok("optcdig", <<47, 124, 105, 100>>)>>,
                 \*  re.compile('/a/(?P<id>\d+)', re.I)   the same pattern as the third one, with IGNORECASE: also /A/1
                 <<Tok("flags", <<105>>), Tok("lit", <<47, 97, 47>>), Tok("digits", <<105, 100>>)>>,
                 \*  re.compile('/(a|b)/(\d+)', re.I)      unnamed groups only, IGNORECASE
                 <<Tok("flags", <<105>>), Tok("lit", <<47>>), Tok("ualt", <<97, 124, 98>>), Tok("lit", <<47>>), Tok("udigits", <<>>)>> }
(* the re-registration instance: every 3-call history over these (A, B, A with an overlapping B in between) *)
RSinkPats   == { <<Tok("lit", <<47>>)>>, <<Tok("lit", <<47, 97>>)>>,
                 <<Tok("flags", <<105>>), Tok("lit", <<47, 97, 47>>), Tok("digits", <<105, 100>>)>> }
(* the reduced two-call export (quick): six of the ten sink prefixes *)
QSinkPats   == { <<Tok("lit", <<47>>)>>, <<Tok("lit", <<47, 97>>)>>,
                 <<Tok("lit", <<47>>), Tok("seg", <<120>>), Tok("lit", <<47>>), Tok("ualt", <<98, 124, 49>>)>>,
                 <<Tok("lit", <<47, 97, 47>>), Tok("digits", <<105, 100>>), Tok("optrest", <<>>)>>,
                 <<Tok("lit", <<47, 97>>), Tok("optndig", <<47, 124, 105, 100>>), Tok("lit", <<47>>), Tok("seg", <<120>>)>>,
                 <<Tok("flags", <<105>>), Tok("lit", <<47, 97, 47>>), Tok("digits", <<105, 100>>)>> }
RStaticPrefixes == { <<47, 97>> }
StaticSpellings == {[prefix |-> p, sl |-> b] : p \in StaticPrefixes, b \in BOOLEAN} \ {[prefix |-> <<47, 97, 47, 98>>, sl |-> TRUE]}
MCStaticPrefixes == { <<47, 97>>, <<47, 97, 47, 98>> }                            \*  /a   /a/b

(* resources: responders without suffix / with suffix "s" *)
MCResKinds == { [plain |-> {"GET"},                    sfx |-> {}],
                [plain |-> {"GET", "POST", "OPTIONS"}, sfx |-> {"POST"}],
                [plain |-> {"LOCK", "WEBSOCKET"},      sfx |-> {"GET", "LOCK"}],
                [plain |-> {},                         sfx |-> {"OPTIONS"}] }
SmallResKinds == { [plain |-> {"GET", "WEBSOCKET"},    sfx |-> {"POST", "OPTIONS"}],
                   [plain |-> {"POST", "LOCK"},        sfx |-> {}] }
(* every subset of a 6-method universe as the unsuffixed responders (Allow exactness) *)
MethUniverse == {"GET", "POST", "OPTIONS", "LOCK", "WEBSOCKET", "DELETE"}
AllResKinds  == { [plain |-> S, sfx |-> T] : S \in SUBSET MethUniverse, T \in {{}, {"GET", "OPTIONS"}} }

MCMethods == {"GET", "POST", "OPTIONS", "LOCK", "HEAD", "WEBSOCKET", "FOO"}
AllMethods == MethUniverse \cup {"HEAD", "FOO", "PROPFIND"}

Segs == { <<97>>, <<98>>, <<49>>, <<>>, <<97, 98>> }
PathOf(ss) == Concat([i \in 1..Len(ss) |-> <<47>> \o ss[i]])
MCPaths == {PathOf(ss) : ss \in UNION {[1..k -> Segs] : k \in 1..2}}
           \cup { PathOf(<<<<97>>, <<49>>, <<98>>>>),     \*  /a/1/b
                  PathOf(<<<<97>>, <<98>>, <<49>>>>),     \*  /a/b/1
                  PathOf(<<<<97>>, <<98>>, <<>>>>),       \*  /a/b/
                  PathOf(<<<<97>>, <<>>, <<98>>>>),       \*  /a//b
                  PathOf(<<<<>>, <<97>>, <<98>>>>),       \*  //a/b
                  \* the other case: match only thanks to IGNORECASE
                  PathOf(<<<<65>>>>), PathOf(<<<<65>>, <<49>>>>), PathOf(<<<<65>>, <<98>>>>) }     \*  /A  /A/1  /A/b
(* reduced pools for the quick exhaustive two-call export *)
QTemplates == { <<Lit(<<97>>), Var(<<120>>)>>, <<Lit(<<97>>), Lit(<<98>>)>>, <<Var(<<121>>)>> }    \*  /a/{x}  /a/b  /{y}
QMethods   == {"GET", "OPTIONS"}
QPaths     == { PathOf(<<<<97>>>>), PathOf(<<<<98>>>>), PathOf(<<<<97, 98>>>>), PathOf(<<<<>>>>),
                PathOf(<<<<97>>, <<98>>>>), PathOf(<<<<97>>, <<49>>>>), PathOf(<<<<97>>, <<>>>>), PathOf(<<<<49>>, <<98>>>>),
                PathOf(<<<<97, 98>>, <<98>>>>), PathOf(<<<<97>>, <<98>>, <<49>>>>), PathOf(<<<<97>>, <<49>>, <<98>>>>),
                PathOf(<<<<97>>, <<98>>, <<>>>>), PathOf(<<<<97>>, <<>>, <<98>>>>), PathOf(<<<<>>, <<97>>, <<98>>>>),
                PathOf(<<<<65>>, <<49>>>>), PathOf(<<<<65>>, <<98>>>>) }
RMethods == {"GET", "OPTIONS"}
RPaths   == { PathOf(<<<<97>>>>), PathOf(<<<<97>>, <<>>>>), PathOf(<<<<97>>, <<49>>>>), PathOf(<<<<97>>, <<98>>>>),
              PathOf(<<<<97>>, <<49>>, <<98>>>>), PathOf(<<<<97, 98>>>>), PathOf(<<<<98>>>>), PathOf(<<<<97>>, <<>>, <<98>>>>),
              PathOf(<<<<65>>, <<49>>>>), PathOf(<<<<65>>>>) }
OneTemplate == { <<Lit(<<97>>), Var(<<120>>)>> }     \*  /a/{x}
FewPaths == { PathOf(<<<<97>>>>), PathOf(<<<<97>>, <<98>>>>), PathOf(<<<<98>>>>) }

CONSTANTS Methods, Paths

-----------------------------------------------------------------------------
(* one invariant per clause of the property, each over the instance's whole request universe;
   route lookup, fallback scan and the declarative path facts are evaluated once per path *)
ForAllRequests(Clause(_, _, _)) ==
    \A p \in Paths : LET r == DMatch(routes, p)
                         f == Scan(Fallbacks, p)
                         c == PathFacts(p)
                     IN  \A m \in Methods : Clause(m, c, OutcomeOf(m, r, f))
InvRouteMasksFallbacks == ForAllRequests(RouteMasksFallbacks)
InvLifo                == ForAllRequests(Lifo)
InvAllowExact          == ForAllRequests(AllowExact)
InvSuffixIsolation     == ForAllRequests(SuffixIsolation)
InvKwargsAreFields     == ForAllRequests(KwargsAreFields)
InvMetaRefused         == ForAllRequests(MetaRefused)
(* all clauses in one pass over the request universe (instances whose matching is expensive) *)
AllClauses(m, c, o) == /\ RouteMasksFallbacks(m, c, o) /\ Lifo(m, c, o) /\ AllowExact(m, c, o)
                       /\ SuffixIsolation(m, c, o) /\ KwargsAreFields(m, c, o) /\ MetaRefused(m, c, o)
InvAllClauses          == ForAllRequests(AllClauses)
InvConflictFree        == ConflictFree(routes) /\ \A i \in 1..Len(sinks) : WellFormedSink(sinks[i].pat)

-----------------------------------------------------------------------------
(* the instance for text with regular-expression metacharacters and for multi-field sibling segments:
   static prefixes /v1.0 /a+b (plain text: /v1x0/f and /aab/f are NOT theirs), a sink whose literal text is /v1.0,
   literal v1.0 next to v{major}.{minor}, {a}-{b} next to {stem}.{ext} (none of the siblings a simple field), with
   branches that match a segment and then hold no resource for the rest of the path *)
Cx(t) == [k |-> "cx", s |-> t]
CxTemplates == {
  <<Lit(<<114, 101, 112, 111, 115>>), Lit(<<118, 49, 46, 48>>), Lit(<<110, 111, 116, 101, 115>>)>>,                         \*  /repos/v1.0/notes
  <<Lit(<<114, 101, 112, 111, 115>>), Cx(<<118, 123, 109, 97, 106, 111, 114, 125, 46, 123, 109, 105, 110, 111, 114, 125>>)>>, \*  /repos/v{major}.{minor}
  <<Lit(<<102, 105, 108, 101, 115>>), Cx(<<123, 97, 125, 45, 123, 98, 125>>), Lit(<<114, 97, 119>>)>>,                       \*  /files/{a}-{b}/raw
  <<Lit(<<102, 105, 108, 101, 115>>), Cx(<<123, 115, 116, 101, 109, 125, 46, 123, 101, 120, 116, 125>>)>>,                   \*  /files/{stem}.{ext}
  <<Lit(<<102, 105, 108, 101, 115>>), Cx(<<123, 97, 125, 45, 123, 98, 125>>)>> }                                             \*  /files/{a}-{b}
CxResKinds == { [plain |-> {"GET"}, sfx |-> {"POST"}] }
CxSinkPats == { <<Tok("lit", <<47>>)>>,                                  \*  /
                <<Tok("lit", <<47, 118, 49, 46, 48>>)>>,                 \*  /v1\.0      (literal text: the harness escapes it)
                <<Tok("lit", <<47, 114, 101, 112, 111, 115>>)>> }        \*  /repos
CxStaticPrefixes == { <<47, 118, 49, 46, 48>>,                           \*  /v1.0
                      <<47, 97, 43, 98>> }                               \*  /a+b
(* the small instance in which the dead-end witness must exist: the two /repos templates, the catch-all sink *)
CxRepoTemplates == {t \in CxTemplates : t[1] = Lit(<<114, 101, 112, 111, 115>>)}
CxRootSink == { <<Tok("lit", <<47>>)>> }
CxMethods == {"GET", "POST", "OPTIONS"}
CxPaths == {
  <<47, 114, 101, 112, 111, 115, 47, 118, 49, 46, 48>>,                                      \*  /repos/v1.0
  <<47, 114, 101, 112, 111, 115, 47, 118, 49, 46, 48, 47, 110, 111, 116, 101, 115>>,         \*  /repos/v1.0/notes
  <<47, 114, 101, 112, 111, 115, 47, 118, 49, 120, 48>>,                                     \*  /repos/v1x0
  <<47, 114, 101, 112, 111, 115, 47, 118, 50, 46, 49, 48, 46, 51>>,                          \*  /repos/v2.10.3
  <<47, 114, 101, 112, 111, 115, 47, 118, 49, 46>>,                                          \*  /repos/v1.
  <<47, 102, 105, 108, 101, 115, 47, 109, 121, 45, 110, 111, 116, 101, 115, 46, 116, 120, 116>>,                  \*  /files/my-notes.txt
  <<47, 102, 105, 108, 101, 115, 47, 109, 121, 45, 110, 111, 116, 101, 115, 46, 116, 120, 116, 47, 114, 97, 119>>, \*  /files/my-notes.txt/raw
  <<47, 102, 105, 108, 101, 115, 47, 109, 121, 45, 110, 111, 116, 101, 115>>,                \*  /files/my-notes
  <<47, 102, 105, 108, 101, 115, 47, 110, 111, 116, 101, 115, 46, 116, 120, 116>>,           \*  /files/notes.txt
  <<47, 102, 105, 108, 101, 115, 47, 45, 46>>,                                               \*  /files/-.
  <<47, 118, 49, 46, 48, 47, 102>>,                                                          \*  /v1.0/f
  <<47, 118, 49, 120, 48, 47, 102>>,                                                         \*  /v1x0/f
  <<47, 118, 49, 46, 48>>,                                                                   \*  /v1.0
  <<47, 118, 49, 120, 48>>,                                                                  \*  /v1x0
  <<47, 97, 43, 98, 47, 102>>,                                                               \*  /a+b/f
  <<47, 97, 97, 98, 47, 102>>,                                                               \*  /aab/f
  <<47, 114, 101, 112, 111, 115>> }                                                          \*  /repos

InvWellFormedTemplates == \A e \in routes : WellFormedTmpl(e.tmpl)

(* wrong readings, as invariants that MUST FAIL in this instance (they show that the instance contains the cases):
   1. a static prefix read as a pattern ("." = any character, "x+" = one or more x) would claim other paths *)
RECURSIVE RxFrom(_, _, _, _)
RxFrom(pre, i, p, j) ==                 \* pattern pre from 1-based i matches p from 1-based j (as a prefix)
    IF i > Len(pre) THEN TRUE
    ELSE IF i < Len(pre) /\ pre[i + 1] = 43                                   \*  c+
         THEN \E k \in 1..(Len(p) - j + 1) : /\ \A x \in j..(j + k - 1) : p[x] = pre[i]
                                             /\ RxFrom(pre, i + 2, p, j + k)
         ELSE j <= Len(p) /\ (pre[i] = 46 \/ pre[i] = p[j]) /\ RxFrom(pre, i + 1, p, j + 1)
StaticAsPattern(s, p) == RxFrom(s.prefix \o <<SLASH>>, 1, p, 1) \/ (s.fb /\ RxFrom(s.prefix, 1, p, 1) /\ Len(p) = Len(s.prefix))
InvStaticPrefixCouldBePattern ==
    \A i \in 1..Len(statics), p \in Paths : StaticAsPattern(statics[i], p) = StaticMatch(statics[i], p)
(* 2. a walk that gives up after the first sibling whose segment matches would answer differently: there is a path whose
      route runs through a multi-field segment although an EARLIER sibling (the literal, or an older multi-field one)
      matches the same path segment and holds no resource for the rest of the path *)
DeadEndBefore(p) ==
    LET segs == Segments(p)
        r    == DMatch(routes, p)
    IN  /\ r.found
        /\ \E k \in 1..Len(r.tmpl) :
             /\ r.tmpl[k].k = "cx"
             /\ \E e \in routes :
                  /\ Len(e.tmpl) >= k /\ SubSeq(e.tmpl, 1, k - 1) = SubSeq(r.tmpl, 1, k - 1) /\ e.tmpl[k] # r.tmpl[k]
                  /\ e.tmpl[k].k \in {"lit", "cx"} /\ SegHit(e.tmpl[k], segs[k]).ok
                  /\ (e.tmpl[k].k = "cx" => NodeOrd(routes, SubSeq(e.tmpl, 1, k)) < NodeOrd(routes, SubSeq(r.tmpl, 1, k)))
                  /\ \A e2 \in routes : IsPrefix(SubSeq(e.tmpl, 1, k), e2.tmpl) => ~SegsMatch(e2.tmpl, segs)
InvNoDeadEndBeforeMultiField == \A p \in Paths : ~DeadEndBefore(p)
(* 2b. ... and one where such a route must mask a sink or static route that matches too / where the method is not implemented *)
InvNoDeadEndMasking405 == \A p \in Paths : ~(/\ DeadEndBefore(p) /\ Scan(Fallbacks, p).kind # "NotFound"
                                               /\ Outcome("POST", p).kind = "NotAllowed")

Keep == UNCHANGED h
Log  == h' = Append(h, last')

XInit == Init /\ h = <<>>
XAddRoute         == (\E t \in Templates, k \in ResKinds, s \in {"", "s"} : AddRoute(t, k, s)) /\ Keep
XAddRouteRejected == (\E t \in Templates, k \in ResKinds, s \in {"", "s"} : AddRouteRejected(t, k, s)) /\ Keep
XAddSink          == (\E pat \in SinkPats : AddSink(pat)) /\ Keep
XAddStatic        == (\E sp \in StaticSpellings, fb \in BOOLEAN : AddStaticSpelled(sp.prefix, fb, sp.sl)) /\ Keep
XNext == XAddRoute \/ XAddRouteRejected \/ XAddSink \/ XAddStatic
XNextRoutes == XAddRoute \/ XAddRouteRejected

AInit == Init /\ h = <<>>
AAddRoute         == (\E t \in Templates, k \in ResKinds, s \in {"", "s"} : AddRoute(t, k, s)) /\ Log
AAddRouteRejected == (\E t \in Templates, k \in ResKinds, s \in {"", "s"} : AddRouteRejected(t, k, s)) /\ Log
AAddSink          == (\E pat \in SinkPats : AddSink(pat)) /\ Log
AAddStatic        == (\E sp \in StaticSpellings, fb \in BOOLEAN : AddStaticSpelled(sp.prefix, fb, sp.sl)) /\ Log
ANext == AAddRoute \/ AAddRouteRejected \/ AAddSink \/ AAddStatic
ANextRoutes == AAddRoute \/ AAddRouteRejected
ANextFallbacks == AAddSink \/ AAddStatic

(* behaviour export: one JSON object per configuration: how to build it + the whole decision table,
   one row <<method, path, decision, status, who, id, suffix, kwargs, hasAllow, allow>> per request *)
Row(m, p, o, v) == <<m, p, o.kind, v.status, v.who, v.id, v.sfx, v.kw, v.hasAllow, v.allow>>
Table == UNION { LET r == DMatch(routes, p)
                     f == Scan(Fallbacks, p)
                 IN  {LET o == OutcomeOf(m, r, f) IN Row(m, p, o, VisibleOf(m, p, o)) : m \in Methods} : p \in Paths }
Emit == PrintT(ToJson([h |-> h, sbs |-> sbs, rows |-> Table]))
EmitDeep == (Len(h) = MaxCalls) => Emit      \* simulation: only the final configuration of a behaviour (and its siblings)
==========================================================================
