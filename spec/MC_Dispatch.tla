---------------------------- MODULE MC_Dispatch ----------------------------
(* Bounded instances of Dispatch.  Every state is one app configuration; the invariants quantify
   over the instance's whole request universe, so the reachable state graph is the decision table.
   X* actions keep the history empty (exhaustive check), A* actions log the assembly calls so that
   Emit can print, per configuration, the history to replay and the expected observation of every
   request (spec -> code leg). *)
EXTENDS Dispatch, Json
VARIABLE h

Var(t) == [k |-> "var", s |-> t]
Tok(k, t) == [k |-> k, s |-> t]

\* code points:  / 47   1 49   a 97   b 98   d 100   i 105   x 120   y 121
MCTemplates == { <<Lit(<<97>>)>>,                     \*  /a
                 <<Lit(<<97>>), Var(<<120>>)>>,       \*  /a/{x}
                 <<Var(<<121>>)>>,                    \*  /{y}
                 <<Lit(<<97>>), Lit(<<98>>)>>,        \*  /a/b
                 <<Var(<<121>>), Lit(<<98>>)>>,       \*  /{y}/b
                 <<Lit(<<>>)>> }                      \*  /
MCSinkPats  == { <<Tok("lit", <<47>>)>>,                                          \*  /
                 <<Tok("lit", <<47, 97>>)>>,                                      \*  /a        (also matches /ab)
                 <<Tok("lit", <<47, 97, 47>>), Tok("digits", <<105, 100>>)>>,     \*  /a/(?P<id>\d+)
                 \*  /(?P<x>[^/]+)/(b|1)       a named group, then an unnamed one
                 <<Tok("lit", <<47>>), Tok("seg", <<120>>), Tok("lit", <<47>>), Tok("ualt", <<98, 124, 49>>)>>,
                 \*  /a/(?P<id>\d+)(/REST)?$   (REST = dot star)  a trailing unnamed group that takes part for some paths only
                 <<Tok("lit", <<47, 97, 47>>), Tok("digits", <<105, 100>>), Tok("optrest", <<>>)>>,
                 \*  /(a|b)/(\d+)              unnamed groups only: no keyword arguments
                 <<Tok("lit", <<47>>), Tok("ualt", <<97, 124, 98>>), Tok("lit", <<47>>), Tok("udigits", <<>>)>>,
                 \*  /a(?:/(?P<id>\d+))?/(?P<x>[^/]+)   a named group inside an optional non-capturing group
                 <<Tok("lit", <<47, 97>>), Tok("optndig", <<47, 124, 105, 100>>), Tok("lit", <<47>>), Tok("seg", <<120>>)>>,
                 \*  /a(/(?P<id>\d+))?                 ... inside an optional capturing group, trailing
                 <<Tok("lit", <<47, 97>>), Tok("optcdig", <<47, 124, 105, 100>>)>>,
                 \*  re.compile('/a/(?P<id>\d+)', re.I)   the same pattern as the third one, with IGNORECASE: also /A/1
                 <<Tok("flags", <<105>>), Tok("lit", <<47, 97, 47>>), Tok("digits", <<105, 100>>)>>,
                 \*  re.compile('/(a|b)/(\d+)', re.I)      unnamed groups only, IGNORECASE
                 <<Tok("flags", <<105>>), Tok("lit", <<47>>), Tok("ualt", <<97, 124, 98>>), Tok("lit", <<47>>), Tok("udigits", <<>>)>> }
(* the re-registration instance: every 3-call history over these (A, B, A with an overlapping B in between) *)
RSinkPats   == { <<Tok("lit", <<47>>)>>, <<Tok("lit", <<47, 97>>)>>,
                 <<Tok("flags", <<105>>), Tok("lit", <<47, 97, 47>>), Tok("digits", <<105, 100>>)>> }
(* the reduced two-call export (quick): six of the ten sink prefixes *)
QSinkPats   == { <<Tok("lit", <<47>>)>>, <<Tok("lit", <<47, 97>>)>>,
                 <<Tok("lit", <<47>>), Tok("seg", <<120>>), Tok("lit", <<47>>), Tok("ualt", <<98, 124, 49>>)>>,
                 <<Tok("lit", <<47, 97, 47>>), Tok("digits", <<105, 100>>), Tok("optrest", <<>>)>>,
                 <<Tok("lit", <<47, 97>>), Tok("optndig", <<47, 124, 105, 100>>), Tok("lit", <<47>>), Tok("seg", <<120>>)>>,
                 <<Tok("flags", <<105>>), Tok("lit", <<47, 97, 47>>), Tok("digits", <<105, 100>>)>> }
RStaticPrefixes == { <<47, 97>> }
StaticSpellings == {[prefix |-> p, sl |-> b] : p \in StaticPrefixes, b \in BOOLEAN} \ {[prefix |-> <<47, 97, 47, 98>>, sl |-> TRUE]}
MCStaticPrefixes == { <<47, 97>>, <<47, 97, 47, 98>> }                            \*  /a   /a/b

(* resources: responders without suffix / with suffix "s" *)
MCResKinds == { [plain |-> {"GET"},                    sfx |-> {}],
                [plain |-> {"GET", "POST", "OPTIONS"}, sfx |-> {"POST"}],
                [plain |-> {"LOCK", "WEBSOCKET"},      sfx |-> {"GET", "LOCK"}],
                [plain |-> {},                         sfx |-> {"OPTIONS"}] }
SmallResKinds == { [plain |-> {"GET", "WEBSOCKET"},    sfx |-> {"POST", "OPTIONS"}],
                   [plain |-> {"POST", "LOCK"},        sfx |-> {}] }
(* every subset of a 6-method universe as the unsuffixed responders (Allow exactness) *)
MethUniverse == {"GET", "POST", "OPTIONS", "LOCK", "WEBSOCKET", "DELETE"}
AllResKinds  == { [plain |-> S, sfx |-> T] : S \in SUBSET MethUniverse, T \in {{}, {"GET", "OPTIONS"}} }

MCMethods == {"GET", "POST", "OPTIONS", "LOCK", "HEAD", "WEBSOCKET", "FOO"}
AllMethods == MethUniverse \cup {"HEAD", "FOO", "PROPFIND"}

Segs == { <<97>>, <<98>>, <<49>>, <<>>, <<97, 98>> }
PathOf(ss) == Concat([i \in 1..Len(ss) |-> <<47>> \o ss[i]])
MCPaths == {PathOf(ss) : ss \in UNION {[1..k -> Segs] : k \in 1..2}}
           \cup { PathOf(<<<<97>>, <<49>>, <<98>>>>),     \*  /a/1/b
                  PathOf(<<<<97>>, <<98>>, <<49>>>>),     \*  /a/b/1
                  PathOf(<<<<97>>, <<98>>, <<>>>>),       \*  /a/b/
                  PathOf(<<<<97>>, <<>>, <<98>>>>),       \*  /a//b
                  PathOf(<<<<>>, <<97>>, <<98>>>>),       \*  //a/b
                  \* the other case: match only thanks to IGNORECASE
                  PathOf(<<<<65>>>>), PathOf(<<<<65>>, <<49>>>>), PathOf(<<<<65>>, <<98>>>>) }     \*  /A  /A/1  /A/b
(* reduced pools for the quick exhaustive two-call export *)
QTemplates == { <<Lit(<<97>>), Var(<<120>>)>>, <<Lit(<<97>>), Lit(<<98>>)>>, <<Var(<<121>>)>> }    \*  /a/{x}  /a/b  /{y}
QMethods   == {"GET", "OPTIONS"}
QPaths     == { PathOf(<<<<97>>>>), PathOf(<<<<98>>>>), PathOf(<<<<97, 98>>>>), PathOf(<<<<>>>>),
                PathOf(<<<<97>>, <<98>>>>), PathOf(<<<<97>>, <<49>>>>), PathOf(<<<<97>>, <<>>>>), PathOf(<<<<49>>, <<98>>>>),
                PathOf(<<<<97, 98>>, <<98>>>>), PathOf(<<<<97>>, <<98>>, <<49>>>>), PathOf(<<<<97>>, <<49>>, <<98>>>>),
                PathOf(<<<<97>>, <<98>>, <<>>>>), PathOf(<<<<97>>, <<>>, <<98>>>>), PathOf(<<<<>>, <<97>>, <<98>>>>),
                PathOf(<<<<65>>, <<49>>>>), PathOf(<<<<65>>, <<98>>>>) }
RMethods == {"GET", "OPTIONS"}
RPaths   == { PathOf(<<<<97>>>>), PathOf(<<<<97>>, <<>>>>), PathOf(<<<<97>>, <<49>>>>), PathOf(<<<<97>>, <<98>>>>),
              PathOf(<<<<97>>, <<49>>, <<98>>>>), PathOf(<<<<97, 98>>>>), PathOf(<<<<98>>>>), PathOf(<<<<97>>, <<>>, <<98>>>>),
              PathOf(<<<<65>>, <<49>>>>), PathOf(<<<<65>>>>) }
OneTemplate == { <<Lit(<<97>>), Var(<<120>>)>> }     \*  /a/{x}
FewPaths == { PathOf(<<<<97>>>>), PathOf(<<<<97>>, <<98>>>>), PathOf(<<<<98>>>>) }

CONSTANTS Methods, Paths

-----------------------------------------------------------------------------
(* one invariant per clause of the property, each over the instance's whole request universe;
   route lookup, fallback scan and the declarative path facts are evaluated once per path *)
ForAllRequests(Clause(_, _, _)) ==
    \A p \in Paths : LET r == DMatch(routes, p)
                         f == Scan(Fallbacks, p)
                         c == PathFacts(p)
                     IN  \A m \in Methods : Clause(m, c, OutcomeOf(m, r, f))
InvRouteMasksFallbacks == ForAllRequests(RouteMasksFallbacks)
InvLifo                == ForAllRequests(Lifo)
InvAllowExact          == ForAllRequests(AllowExact)
InvSuffixIsolation     == ForAllRequests(SuffixIsolation)
InvKwargsAreFields     == ForAllRequests(KwargsAreFields)
InvMetaRefused         == ForAllRequests(MetaRefused)
InvConflictFree        == ConflictFree(routes) /\ \A i \in 1..Len(sinks) : WellFormedSink(sinks[i].pat)

Keep == UNCHANGED h
Log  == h' = Append(h, last')

XInit == Init /\ h = <<>>
XAddRoute         == (\E t \in Templates, k \in ResKinds, s \in {"", "s"} : AddRoute(t, k, s)) /\ Keep
XAddRouteRejected == (\E t \in Templates, k \in ResKinds, s \in {"", "s"} : AddRouteRejected(t, k, s)) /\ Keep
XAddSink          == (\E pat \in SinkPats : AddSink(pat)) /\ Keep
XAddStatic        == (\E sp \in StaticSpellings, fb \in BOOLEAN : AddStaticSpelled(sp.prefix, fb, sp.sl)) /\ Keep
XNext == XAddRoute \/ XAddRouteRejected \/ XAddSink \/ XAddStatic
XNextRoutes == XAddRoute \/ XAddRouteRejected

AInit == Init /\ h = <<>>
AAddRoute         == (\E t \in Templates, k \in ResKinds, s \in {"", "s"} : AddRoute(t, k, s)) /\ Log
AAddRouteRejected == (\E t \in Templates, k \in ResKinds, s \in {"", "s"} : AddRouteRejected(t, k, s)) /\ Log
AAddSink          == (\E pat \in SinkPats : AddSink(pat)) /\ Log
AAddStatic        == (\E sp \in StaticSpellings, fb \in BOOLEAN : AddStaticSpelled(sp.prefix, fb, sp.sl)) /\ Log
ANext == AAddRoute \/ AAddRouteRejected \/ AAddSink \/ AAddStatic
ANextRoutes == AAddRoute \/ AAddRouteRejected
ANextFallbacks == AAddSink \/ AAddStatic

(* behaviour export: one JSON object per configuration: how to build it + the whole decision table,
   one row <<method, path, decision, status, who, id, suffix, kwargs, hasAllow, allow>> per request *)
Row(m, p, o, v) == <<m, p, o.kind, v.status, v.who, v.id, v.sfx, v.kw, v.hasAllow, v.allow>>
Table == UNION { LET r == DMatch(routes, p)
                     f == Scan(Fallbacks, p)
                 IN  {LET o == OutcomeOf(m, r, f) IN Row(m, p, o, VisibleOf(m, p, o)) : m \in Methods} : p \in Paths }
Emit == PrintT(ToJson([h |-> h, sbs |-> sbs, rows |-> Table]))
EmitDeep == (Len(h) = MaxCalls) => Emit      \* simulation: only the final configuration of a behaviour (and its siblings)
==========================================================================
