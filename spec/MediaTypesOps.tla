---------------------------- MODULE MediaTypesOps ----------------------------
(* C11a: media types, media ranges, the documented specificity score and the two
   functions built on it (quality, best match).  Constant-level operators only, so that
   Handlers.tla (C11b) and ErrorRender (C04) can reuse them without inheriting variables.

   Abstract syntax (what the Accept grammar of RFC 9110 12.5.1 denotes):
     parameter map  a sequence of [n |-> name, v |-> value] with pairwise distinct names
     media type     [t, s, pm]            t, s are strings, "*" is the wildcard
     media range    [t, s, pm, q]         q in millionths (0..QONE), QABSENT when no q parameter
                                          was given, QBAD when the q parameter is not a real in [0,1];
                                          t = NOSLASH denotes a list member without "type/subtype"   *)
EXTENDS Integers, Sequences, FiniteSets

Wild    == "*"
NOSLASH == "!"
QABSENT == -1
QBAD    == -2

MT(t, s, pm)    == [t |-> t, s |-> s, pm |-> pm]
(* A range AS WRITTEN also has a place for its weight: qp = the number of parameters written BEFORE
   the q parameter (0 = q first, Len(pm) = q last; Len(pm) when there is no q).  The denotation does
   not depend on it: every parameter other than q is a media-type parameter wherever it is written
   (text/html;q=0.5;level=1 is the range text/html;level=1 with weight 0.5), so no operator of this
   module reads qp.  MediaTypes!Seen states the design decision and its wrong alternative. *)
MRP(t, s, pm, q, qp) == [t |-> t, s |-> s, pm |-> pm, q |-> q, qp |-> qp]
MR(t, s, pm, q) == MRP(t, s, pm, q, Len(pm))
Pm(n, v)        == [n |-> n, v |-> v]

Names(pm)    == {pm[i].n : i \in DOMAIN pm}
ValOf(pm, n) == pm[CHOOSE i \in DOMAIN pm : pm[i].n = n].v

Malformed(r)     == r.t = NOSLASH \/ r.q = QBAD
AnyMalformed(h)  == \E i \in DOMAIN h : Malformed(h[i])
(* Weights are compared EXACTLY as written: the grammar of RFC 9110 stops at three digits, falcon
   documents that longer q values are accepted as they are, so 0.0004 is positive (not 0) and
   0.5004 outranks 0.5001.  One unit = 0.000001. *)
QONE             == 1000000
QOf(r)           == IF r.q = QABSENT THEN QONE ELSE r.q

(* ---- the five documented criteria, one operator each ---- *)
MainMatch(r, m) == IF r.t = Wild \/ m.t = Wild THEN 0 ELSE IF r.t = m.t THEN 1 ELSE -1
SubMatch(r, m)  == IF r.s = Wild \/ m.s = Wild THEN 0 ELSE IF r.s = m.s THEN 1 ELSE -1
(* parameter names are distinct within one map, so common names can be counted by position *)
CommonIdx(r, m) == {i \in DOMAIN r.pm : \E j \in DOMAIN m.pm : m.pm[j].n = r.pm[i].n}
NCommon(r, m)   == Cardinality(CommonIdx(r, m))
ParamClash(r, m) == \E i \in DOMAIN r.pm, j \in DOMAIN m.pm : r.pm[i].n = m.pm[j].n /\ r.pm[i].v # m.pm[j].v
ExactParams(r, m) == IF Len(r.pm) = Len(m.pm) /\ NCommon(r, m) = Len(r.pm) THEN 1 ELSE 0
Matches(r, m)   == MainMatch(r, m) # -1 /\ SubMatch(r, m) # -1 /\ ~ParamClash(r, m)

NotMatching == <<-1, -1, -1, -1, 0>>

(* SubBeforeExact = TRUE is the documented order (type, subtype, exact parameters, number of
   matching parameters, q).  FALSE is the wrong design "exact parameter match outranks the
   subtype" used as the vacuity switch of the model. *)
ScoreOrd(r, m, SubBeforeExact) ==
    IF ~Matches(r, m) THEN NotMatching
    ELSE IF SubBeforeExact
         THEN <<MainMatch(r, m), SubMatch(r, m), ExactParams(r, m), NCommon(r, m), QOf(r)>>
         ELSE <<MainMatch(r, m), ExactParams(r, m), SubMatch(r, m), NCommon(r, m), QOf(r)>>

LexGt(a, b) == \E i \in 1..5 : a[i] > b[i] /\ \A j \in 1..(i - 1) : a[j] = b[j]

(* max() over the score tuples, left to right as the code does it *)
RECURSIVE FoldMax(_, _, _, _, _)
FoldMax(h, m, i, best, sbe) ==
    IF i > Len(h) THEN best
    ELSE LET s == ScoreOrd(h[i], m, sbe) IN FoldMax(h, m, i + 1, IF LexGt(s, best) THEN s ELSE best, sbe)

QualityOrd(h, m, sbe) == FoldMax(h, m, 2, ScoreOrd(h[1], m, sbe), sbe)[5]

Score(r, m)   == ScoreOrd(r, m, TRUE)
Quality(h, m) == QualityOrd(h, m, TRUE)        \* h: non-empty sequence of well-formed ranges

(* first candidate of maximal quality, provided that quality is positive; 0 = no candidate.
   Positive = FALSE is the wrong design ">= 0" *)
RECURSIVE FoldBest(_, _, _, _, _)
FoldBest(h, cs, i, best, sbe) ==
    IF i > Len(cs) THEN best
    ELSE FoldBest(h, cs, i + 1, IF QualityOrd(h, cs[i], sbe) > QualityOrd(h, cs[best], sbe) THEN i ELSE best, sbe)

BestIdxOrd(h, cs, sbe, Positive) ==
    IF cs = <<>> THEN 0
    ELSE LET b == FoldBest(h, cs, 2, 1, sbe)
         IN  IF QualityOrd(h, cs[b], sbe) > 0 \/ (~Positive /\ QualityOrd(h, cs[b], sbe) >= 0) THEN b ELSE 0

BestIdx(h, cs) == BestIdxOrd(h, cs, TRUE, TRUE)

(* ---- outcomes of the public functions (uniform records) ---- *)
QualityOutcome(h, m) == IF AnyMalformed(h) THEN [err |-> TRUE, v |-> 0] ELSE [err |-> FALSE, v |-> Quality(h, m)]
(* best_match never looks at the header when there are no candidates *)
BestOutcome(h, cs)   == IF cs # <<>> /\ AnyMalformed(h) THEN [err |-> TRUE, v |-> 0] ELSE [err |-> FALSE, v |-> IF cs = <<>> THEN 0 ELSE BestIdx(h, cs)]
(* Request.client_accepts / client_prefers: a malformed Accept header accepts nothing *)
AcceptsOutcome(h, m) == IF AnyMalformed(h) THEN [err |-> FALSE, v |-> 0] ELSE [err |-> FALSE, v |-> IF Quality(h, m) # 0 THEN 1 ELSE 0]
PrefersOutcome(h, cs) == IF cs # <<>> /\ AnyMalformed(h) THEN [err |-> FALSE, v |-> 0] ELSE [err |-> FALSE, v |-> IF cs = <<>> THEN 0 ELSE BestIdx(h, cs)]

(* ---- the property, stated declaratively (no fold, no tuple) ---- *)
(* range i is at least as specific/preferred as range j for media type m *)
AtLeast(h, m, i, j) ==
    LET a == h[i]  b == h[j]
        ma == MainMatch(a, m)    mb == MainMatch(b, m)
        sa == SubMatch(a, m)     sb == SubMatch(b, m)
        ea == ExactParams(a, m)  eb == ExactParams(b, m)
        na == NCommon(a, m)      nb == NCommon(b, m)
    IN
    \/ ma > mb                                             \* 1. exact main type over wildcard
    \/ /\ ma = mb
       /\ \/ sa > sb                                       \* 2. exact subtype over wildcard
          \/ /\ sa = sb
             /\ \/ ea > eb                                 \* 3. exact parameter match
                \/ /\ ea = eb
                   /\ \/ na > nb                           \* 4. number of matching parameters
                      \/ /\ na = nb /\ QOf(a) >= QOf(b)    \* 5. q

Matching(h, m) == {i \in DOMAIN h : Matches(h[i], m)}

(* q is the documented quality of m under h *)
IsDocumentedQuality(h, m, q) ==
    LET M == Matching(h, m) IN
    IF M = {} THEN q = 0
    ELSE \E i \in M : q = QOf(h[i]) /\ \A j \in M : AtLeast(h, m, i, j)

(* the documented quality as a value (unique because AtLeast is a total preorder whose ties share q) *)
DocumentedQuality(h, m) == CHOOSE q \in {QOf(h[i]) : i \in DOMAIN h} \cup {0} : IsDocumentedQuality(h, m, q)

(* b (0 = none) is a documented best match: maximal quality, first such, and positive *)
IsDocumentedBest(h, cs, b) ==
    LET dq == [j \in DOMAIN cs |-> DocumentedQuality(h, cs[j])] IN
    IF b = 0 THEN \A j \in DOMAIN cs : dq[j] = 0
    ELSE /\ b \in DOMAIN cs /\ dq[b] > 0
         /\ \A j \in DOMAIN cs : dq[j] <= dq[b] /\ (j < b => dq[j] < dq[b])
=============================================================================
