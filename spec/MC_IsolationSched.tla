------------------------ MODULE MC_IsolationSched ------------------------
(* interleaving export: which request ran each await-to-await segment *)
EXTENDS MC_Isolation
VARIABLE sched
SInit == Init /\ sched = <<>>
SNext == \E r \in Reqs : Step(r) /\ sched' = Append(sched, r)
AllDone == \A r \in Reqs : pc[r] = Segments
Emit == AllDone => PrintT(ToJson([sched |-> sched]))
==========================================================================
