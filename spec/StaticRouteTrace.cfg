INIT Init
NEXT Next
CONSTANTS
  CheckDotDotPrefix = TRUE
  CheckAbsPrefix = TRUE
  CheckFinalDots = TRUE
  CheckFinalPrefix = TRUE
  PlusOne = TRUE
  UnsatGe = TRUE
  ImsLe = TRUE
  ImsLocalTime = FALSE
  ImsNotAfterNow = FALSE
  BigPositions = TRUE
INVARIANT Sound
