------------------------------- MODULE Uri -------------------------------
(* C10: URI encode / decode / host splitting (functions in UriOps) as the state
   machine of a pure-function library: an input text is chosen, then exactly one
   public function is applied to it; the laws of the property are invariants over
   <<input, function, output>>. *)
EXTENDS UriLong         \* (UriOps + what long inputs need)


CONSTANTS Alphabet,     \* code points inputs are built from
          MaxLen,       \* maximum input length
          Extra,        \* further inputs (longer, hand-picked)
          Fns           \* which public functions are applied in this instance

VARIABLES s,       \* the input text
          fn,      \* "init" or the public function that was applied
          plus,    \* decode's unquote_plus flag (FALSE for the other functions)
          out,     \* the output: text (code points); for parse_host the host
          port     \* parse_host: the numeric port, NoPort if absent; else NoPort

vars == <<s, fn, plus, out, port>>

Init == /\ s \in SeqsUpTo(Alphabet, MaxLen) \cup Extra
        /\ fn = "init" /\ plus = FALSE /\ out = <<>> /\ port = NoPort

Apply(f, p, o, pt) == /\ fn = "init" /\ f \in Fns
                      /\ fn' = f /\ plus' = p /\ out' = o /\ port' = pt /\ UNCHANGED s

DoDecode(p)     == Apply("decode", p, Decode(s, p), NoPort)
DoEncode        == Apply("encode", FALSE, Encode(s, UriAllowed), NoPort)
DoEncodeValue   == Apply("encode_value", FALSE, Encode(s, ValueAllowed), NoPort)
DoEncodeCE      == Apply("encode_check_escaped", FALSE, EncodeCE(s, UriAllowed), NoPort)
DoEncodeValueCE == Apply("encode_value_check_escaped", FALSE, EncodeCE(s, ValueAllowed), NoPort)
DoParseHost     == /\ AuthorityShape(s)
                   /\ LET r == ParseHost(s) IN Apply("parse_host", FALSE, r.host, r.port)

Next == \/ \E p \in BOOLEAN : DoDecode(p)
        \/ DoEncode \/ DoEncodeValue \/ DoEncodeCE \/ DoEncodeValueCE \/ DoParseHost

Spec == Init /\ [][Next]_vars

AllowedOf(f) == IF f \in {"encode", "encode_check_escaped"} THEN UriAllowed ELSE ValueAllowed

(* ---- the laws ---- *)
(* decoding is total, yields text, never grows beyond one code point per input code point, and the
   declarative reading coincides with the three-state scanner *)
DecodeTotal ==
    fn = "decode" =>
        /\ Len(out) <= Len(s)
        /\ \A i \in 1..Len(out) : out[i] >= 0 /\ out[i] <= 1114111 /\ ~(out[i] >= 55296 /\ out[i] <= 57343)
        /\ Scan(s, 1, 0, 0, plus) = DecodeUnits(s, plus)
        /\ \A b \in DOMAIN DecodeBytes(s, plus) : DecodeBytes(s, plus)[b] \in 0..255

(* without any '%' (and '+' when it is translated) decoding is the identity *)
DecodeIdentityOnPlain ==
    (fn = "decode" /\ PCT \notin {s[i] : i \in 1..Len(s)} /\ (~plus \/ PLUS \notin {s[i] : i \in 1..Len(s)})) => out = s

(* decode is a homomorphism over concatenation at every split that does not cut an escape *)
DecodeConcat ==
    fn = "decode" =>
        \A i \in 0..Len(s) : SafeSplit(s, i) =>
            DecodeBytes(s, plus) = DecodeBytes(SubSeq(s, 1, i), plus) \o DecodeBytes(SubSeq(s, i + 1, Len(s)), plus)

EncodeOutputAlphabet ==
    fn \in {"encode", "encode_value"} => StrictEscaped(out, AllowedOf(fn))

(* the plain encoders work code point by code point, hence are homomorphisms over every split *)
EncodeConcat ==
    fn \in {"encode", "encode_value"} =>
        \A i \in 0..Len(s) : out = Encode(SubSeq(s, 1, i), AllowedOf(fn)) \o Encode(SubSeq(s, i + 1, Len(s)), AllowedOf(fn))

(* decoding an encoded text gives the text back: with or without plus translation for values
   ('+' is escaped there), without it for whole URIs ('+' is a reserved character and kept) *)
DecodeEncodeId ==
    /\ fn = "encode_value" => Decode(out, TRUE) = s /\ Decode(out, FALSE) = s
    /\ fn = "encode" => Decode(out, FALSE) = s
    /\ fn \in {"encode", "encode_value"} => U8Read(Utf8Seq(s)) = s

CheckEscapedFixpoint ==
    fn \in {"encode_check_escaped", "encode_value_check_escaped"} =>
        /\ FullyEscaped(s, AllowedOf(fn)) => out = s                  \* already escaped: unchanged
        /\ FullyEscaped(out, AllowedOf(fn))                             \* the result is always fully escaped
        /\ EncodeCE(out, AllowedOf(fn)) = out                           \* hence idempotent
        /\ Decode(out, FALSE) = (IF FullyEscaped(s, AllowedOf(fn)) THEN Decode(s, FALSE) ELSE s)

(* ---- long inputs: the laws that let the reading of a long text be put together from short pieces ---- *)
(* decode, at every split that does not cut an escape: the text is the UTF-8 reading of the concatenated
   octets; the texts concatenate if the left octets are complete, and otherwise exactly when the right
   piece does not go on with the sequence the left one ends in - if it does, the character (or the one
   ill-formed subpart) straddling the split comes out ONCE, so the whole is strictly shorter than the two
   readings put side by side (each side would contribute replacement characters of its own) *)
DecodeChunkLaw ==
    fn = "decode" =>
        \A i \in 0..Len(s) : SafeSplit(s, i) =>
            LET L  == SubSeq(s, 1, i)
                R  == SubSeq(s, i + 1, Len(s))
                bl == DecodeBytes(L, plus)
                br == DecodeBytes(R, plus)
                side == Decode(L, plus) \o Decode(R, plus)
            IN  /\ out = U8Read(bl \o br)
                /\ (U8Complete(bl) <=> U8CompleteDecl(bl))
                /\ U8Complete(bl) => out = side
                /\ (~U8Complete(bl) /\ br # <<>>) =>
                      IF Continues(bl, br[1]) THEN Len(out) < Len(side) /\ out # side
                      ELSE out = side
                /\ (ChunkOK(L, plus) /\ i < Len(s)) => DecodeLong(<<L, R>>, <<1, 2>>, plus) = out

(* "already fully escaped" is a conjunction over pieces that do not cut an escape; hence the check-escaped
   encoders are decided piece-wise as well *)
CheckEscapedConcat ==
    fn \in {"encode_check_escaped", "encode_value_check_escaped"} =>
        \A i \in 0..Len(s) : SafeSplit(s, i) =>
            LET L == SubSeq(s, 1, i)
                R == SubSeq(s, i + 1, Len(s))
                A == AllowedOf(fn)
                both == FullyEscaped(L, A) /\ FullyEscaped(R, A)
            IN  /\ (FullyEscaped(s, A) <=> both)
                /\ out = (IF both THEN s ELSE EncodeLong(<<L, R>>, <<1, 2>>, A))

(* the encoding of every piece is a chunk (whole escapes, whole characters), so by DecodeChunkLaw and
   EncodeConcat decoding a long encoded text gives the pieces back one by one *)
EncodedPiecesAreChunks ==
    fn \in {"encode", "encode_value"} =>
        \A i \in 0..Len(s) :
            LET L == SubSeq(s, 1, i)
                R == SubSeq(s, i + 1, Len(s))
                A == AllowedOf(fn)
            IN  /\ ChunkOK(Encode(L, A), FALSE) /\ ChunkOK(Encode(L, A), fn = "encode_value")
                /\ Decode(Encode(L, A), FALSE) = L /\ Decode(Encode(R, A), FALSE) = R
                /\ DecodeLong(<<Encode(L, A), Encode(R, A)>>, <<1, 2>>, FALSE) = s

(* composing host and port and splitting again gives them back *)
HostSplitLaw ==
    fn = "parse_host" =>
        LET bracket == s # <<>> /\ s[1] = LBR
            h == IF bracket THEN <<LBR>> \o out \o <<RBR>> ELSE out
        IN  /\ port = NoPort => (s = h \/ s = EmptyPort(h))
            /\ port # NoPort => \E k \in 1..Len(s) : /\ s[k] = COLON /\ SubSeq(s, 1, k - 1) = h
                                                      /\ AllDigits(SubSeq(s, k + 1, Len(s)))
                                                      /\ NatOf(SubSeq(s, k + 1, Len(s))) = port
            /\ port >= NoPort

(* the host of a valid authority does not depend on whether (or which) port is spelled, and for an
   IP literal it is the text between the brackets *)
HostIndependentOfPort ==
    (fn = "parse_host" /\ ValidHostForm(s)) =>
        LET b == BareAuthority(s) IN
        /\ ParseHost(b).host = out /\ ParseHost(b).port = NoPort
        /\ ValidHostForm(EmptyPort(b))                                    \* "host:" - an empty port: same host, no number
        /\ ParseHost(EmptyPort(b)).host = out /\ ParseHost(EmptyPort(b)).port = NoPort
        /\ \A p \in {<<48>>, <<56, 48>>, <<54, 53, 53, 51, 53>>} :
              /\ ValidHostForm(Authority(b, p))
              /\ ParseHost(Authority(b, p)).host = out /\ ParseHost(Authority(b, p)).port = NatOf(p)
        /\ b = (IF s # <<>> /\ s[1] = LBR THEN <<LBR>> \o out \o <<RBR>> ELSE out)
==========================================================================
