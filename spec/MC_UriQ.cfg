INIT Init
NEXT XNext
CONSTANTS
  Alphabet <- UriAlphabet
  MaxLen = 3
  Fns <- UriFns
  Extra <- NoInputs
  KnownLiterals <- KnownLits
INVARIANT DecodeTotal
INVARIANT DecodeIdentityOnPlain
INVARIANT DecodeConcat
INVARIANT EncodeOutputAlphabet
INVARIANT EncodeConcat
INVARIANT DecodeEncodeId
INVARIANT CheckEscapedFixpoint
INVARIANT Emit
