-------------------------- MODULE CursorTrace --------------------------
(* Trace judge for C14.  Reads a JSON list of traces recorded from the real readers
   ([data, cs, maxlen, ev: [op, n, d, c, res, err, lines, tell, eof, pulled]]), makes every
   trace an initial state and replays it against CursorOps.  Total: it consumes every
   event and records the first failing clause in `verdict` instead of deadlocking.
     P:err      a delimiter error was (not) raised where the cursor says it must (not)
     P:res      returned bytes differ from the cursor's
     P:lines    readlines() split differs
     P:tell     position indicator differs from the cursor
     P:eof      end-of-stream reported although data remains
     P:overread more bytes were pulled from the source than the declared maximum *)
EXTENDS CursorOps, TLC, Json, IOUtils

Traces == JsonDeserialize(IOEnv.TRACE_FILE)

VARIABLES tid, l, ends, bases, pos, verdict
vars == <<tid, l, ends, bases, pos, verdict>>

T    == Traces[tid]
Ev   == T.ev[l]
End  == IF ends = <<>> THEN Len(T.data) ELSE ends[Len(ends)]
Base == IF bases = <<>> THEN 0 ELSE bases[Len(bases)]
D    == SubSeq(T.data, 1, End)

Init == /\ tid \in 1..Len(Traces) /\ l = 1 /\ ends = <<>> /\ bases = <<>> /\ pos = 0 /\ verdict = "ok"

Expected ==
    CASE Ev.op = "read"       -> ORead(D, pos, Ev.n)
      [] Ev.op = "iter"       -> ORead(D, pos, -1)
      [] Ev.op = "pipe"       -> ORead(D, pos, -1)
      [] Ev.op = "peek"       -> OPeek(D, pos, Ev.n, T.cs)
      [] Ev.op = "read_until" -> OReadUntil(D, pos, Ev.d, Ev.n, Ev.c)
      [] Ev.op = "pipe_until" -> OPipeUntil(D, pos, Ev.d, Ev.c)
      [] Ev.op = "readline"   -> OReadLine(D, pos, Ev.n)
      [] Ev.op = "readlines"  -> LET r == OReadLines(D, pos, Ev.n) IN [res |-> Concat(r.lines), pos |-> r.pos, err |-> FALSE]
      [] Ev.op = "exhaust"    -> [res |-> <<>>, pos |-> End, err |-> FALSE]
      [] OTHER                -> [res |-> <<>>, pos |-> pos, err |-> FALSE]   \* delimit / endsub

(* the reader whose tell() was logged: the new sub-reader on delimit, the parent on endsub *)
TellBase == CASE Ev.op = "delimit" -> pos
              [] Ev.op = "endsub"  -> (IF Len(bases) > 1 THEN bases[Len(bases) - 1] ELSE 0)
              [] OTHER -> Base

Judge(x) ==
    IF Ev.err # x.err THEN "P:err"
    ELSE IF ~x.err /\ Ev.res # x.res THEN "P:res"
    ELSE IF Ev.op = "readlines" /\ Ev.lines # OReadLines(D, pos, Ev.n).lines THEN "P:lines"
    ELSE IF Ev.tell # -1 /\ Ev.tell # x.pos - TellBase THEN "P:tell"
    ELSE IF Ev.eof = 1 /\ x.pos # End THEN "P:eof"
    ELSE IF Ev.eof = 0 /\ (Ev.op \in {"exhaust", "pipe", "iter"} \/ (Ev.op = "read" /\ Ev.n < 0)) THEN "P:eof"
    ELSE IF Ev.pulled > T.maxlen THEN "P:overread"
    ELSE "ok"

Step ==
    /\ l >= 1 /\ l <= Len(T.ev) /\ verdict = "ok"
    /\ LET x == Expected IN
         /\ verdict' = (IF Ev.op = "endsub" /\ (ends = <<>> \/ pos # End) THEN "H:endsub" ELSE Judge(x))
         /\ pos' = x.pos
         /\ ends'  = (CASE Ev.op = "delimit" -> Append(ends, SubEnd(D, pos, Ev.d))
                        [] Ev.op = "endsub" /\ ends # <<>> -> SubSeq(ends, 1, Len(ends) - 1)
                        [] OTHER -> ends)
         /\ bases' = (CASE Ev.op = "delimit" -> Append(bases, pos)
                        [] Ev.op = "endsub" /\ bases # <<>> -> SubSeq(bases, 1, Len(bases) - 1)
                        [] OTHER -> bases)
    /\ l' = l + 1 /\ UNCHANGED tid

Done ==
    /\ l >= 1 /\ (l > Len(T.ev) \/ verdict # "ok")
    /\ PrintT(<<"VERDICT", tid, verdict, l - 1>>)
    /\ l' = -1 /\ UNCHANGED <<tid, ends, bases, pos, verdict>>

Next == Step \/ Done
Spec == Init /\ [][Next]_vars
Sound == pos <= End
=========================================================================
