INIT WInit
NEXT HNext
CONSTANTS
  Datas <- MCDatas
  Scripts <- MCScripts
  CLs <- QCLs
  Sizes <- QSizes
  ShortReads = TRUE
  ChargeByRequested = FALSE
  BoundLineOps = TRUE
  TruncateChunks = TRUE
  CountTruncated = TRUE
  HonourDisconnect = TRUE
  TellFromZero = TRUE
  RejectNegativeCL = TRUE
  AccountBeforeYield = TRUE
  ExhaustToTheEnd = TRUE
  Depth = 2
  MaxEvents = 1
  MaxEvLen = 0
  MaxData = 3
INVARIANT Emit
