INIT MCInit
NEXT XNext
CONSTANTS
  CharsetClass <- MCCharsetClass
  DelimWithCRLF = TRUE
  PartPool <- MCPartPool
  EnvPool <- MCEnvPool
  LimitsOf <- MCLimitsOf
  Sizes <- NoSizes
  RDelims <- NoRDelims
  MaxParts = 2
  MaxOps = 1
  MaxRetry = 1
  ContentSel = {6}
  ProfileSel = {2}
  UseJson = FALSE
  BoundarySel = {1}
  PreSel = {1}
  EpiSel = {1}
  FinSel = {TRUE}
  LimModes = {"base"}
  EditPos <- AllPos
  EditKinds = {"del", "ins", "sub"}
  EditVals = {45, 13, 10, 233}
  Depth = 0
INVARIANT ContentExact
INVARIANT SizeFailureSticks
INVARIANT CorruptionIsErrorOrWellDefined
PROPERTY MCBufferLimitExact
PROPERTY MCProgress
