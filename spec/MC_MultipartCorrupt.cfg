INIT MCInit
NEXT XNext
CONSTANTS
  DelimWithCRLF = TRUE
  PartPool <- MCPartPool
  EnvPool <- MCEnvPool
  LimitsOf <- MCLimitsOf
  Sizes <- NoSizes
  RDelims <- NoRDelims
  MaxParts = 2
  MaxOps = 1
  ContentSel = {4, 6}
  ProfileSel = {1}
  UseJson = FALSE
  BoundarySel = {1}
  PreSel = {1}
  EpiSel = {1}
  FinSel = {TRUE}
  LimModes = {"base"}
  EditPos <- AllPos
  EditKinds = {"del", "ins", "sub"}
  EditVals = {45, 13, 10, 88}
  Depth = 0
INVARIANT ContentExact
INVARIANT CorruptionIsErrorOrWellDefined
PROPERTY MCBufferLimitExact
PROPERTY MCProgress
