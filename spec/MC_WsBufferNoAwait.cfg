\* vacuity witness: close() that does not wait for the cancelled pump must violate NothingLeftRunning
INIT XInit
NEXT XNext
CONSTANTS
  MaxQs = {1}
  NMsg = 1
  DiscChoices = {FALSE}
  GeCmp = TRUE
  AwaitStop = FALSE
  NotifyPop = TRUE
  ReleaseOnEnd = TRUE
  Faults = TRUE
  MaxOps = 2
  MaxCancel = 0
  Depth = 0
INVARIANT NothingLeftRunning
