\* reachability witness (must be VIOLATED): the callable returns from a sender-only responder at the exactly full queue
INIT XInit
NEXT XNext
CONSTANTS
  MaxQs = {2}
  NMsg = 2
  DiscChoices = {TRUE}
  GeCmp = TRUE
  AwaitStop = TRUE
  NotifyPop = TRUE
  ReleaseOnEnd = TRUE
  Faults = FALSE
  StopAfterSend = TRUE
  CleanupOnDisc = TRUE
  MaxSendFail = 1
  Family = "none"
  MaxOps = 2
  MaxCancel = 0
  Depth = 0
INVARIANT ReturnedFromFullQueue
