---------------------------- MODULE MC_ResponseEmit ----------------------------
(* Bounded instances of ResponseEmit: the case table is enumerated in the initial states (one
   initial state per case, every case runs the emission machine to its end); Emit exports every
   finished behaviour as one JSON object. *)
EXTENDS ResponseEmit, Json

CONSTANTS Ifaces, Codes, Methods, TextLens, DataLens, MediaLens, SseScripts, PresetCLs, Tier

(* cfg files cannot hold negative numbers: length sets are definitions, -1 = not set *)
L_5   == {-1, 5}
L_05  == {-1, 0, 5}
L_04  == {-1, 0, 4}
L_7   == {-1, 7}
(* SSE emitter scripts: <<-1>> = no emitter; otherwise one entry per item, 1 = event, 0 = None (ping).
   Pings first, in the middle, last and several in a row. *)
NoSse == <<-1>>
S_no  == {NoSse}
S_q   == {NoSse, <<1, 1>>, <<0, 1, 0>>, <<1, 0, 0, 1>>}
S_all == {NoSse, <<1, 0, 0, 1>>} \cup UNION {[1..n -> {0, 1}] : n \in 0..3}
CL_3  == {-1, 3}
CL_no == {-1}
L_no  == {-1}

Registered == {100, 101, 200, 201, 204, 304, 404, 500}      \* codes with a registry line / http.HTTPStatus member
NewForms == {"strcode", "bytes", "bytescode"}        \* "bytes": the registry line, or the application's own for an unknown code
FormsOf(code) == (IF code \in Registered THEN {"int", "line", "enum", "xline"} ELSE {"int", "xline"}) \cup NewForms

(* stream options <<kind, block lengths>> *)
(* 0 = an empty block (not for file-likes: there it is the end), -1 = None (ASGI only, see MCInit) *)
(* the kind of object: iterator / iterable that is not its own iterator / file-like with short blocks (several
   non-empty short blocks before the end) / file-like honouring the size (data of exactly one block, of a block and
   a bit, segments that straddle a block boundary, nothing at all) / without close() *)
NewKinds     == {"iterable", "filefull"}
QuickStreams == {<<"none", <<>>>>, <<"iter", <<5, 6>>>>, <<"iter", <<0, 5>>>>, <<"iter", <<5, -1, 6>>>>,
                 <<"file", <<5>>>>, <<"file", <<>>>>, <<"file", <<-1, 5, -1>>>>, <<"plain", <<5>>>>, <<"plain", <<-1, 5>>>>,
                 <<"iterable", <<5, 6>>>>, <<"file", <<5, 6, 7>>>>, <<"filefull", <<5000, 5000>>>>, <<"filefull", <<8192>>>>}
FullStreams  == {<<"none", <<>>>>}
                \cup ({"iter", "iterable", "file", "plain"} \X {<<>>, <<5>>, <<5, 6>>, <<6, 5, 7>>, <<-1, 5>>, <<5, -1, 6>>, <<5, -1>>})
                \cup ({"iter", "iterable", "plain"} \X {<<0, 5>>, <<5, 0>>})
                \cup ({"filefull"} \X {<<>>, <<5>>, <<8192>>, <<8197>>, <<5000, 5000>>, <<16384, 5>>, <<3000, 6000, 9000>>})
TinyStreams  == {<<"none", <<>>>>, <<"iter", <<5>>>>, <<"iterable", <<5>>>>, <<"file", <<5, 6>>>>, <<"filefull", <<5000, 5000>>>>}
SwitchOn     == TRUE             \* for `Op <- SwitchOn` in the wrong-design configurations
Streams == CASE Tier = "quick" -> QuickStreams [] Tier = "tiny" -> TinyStreams [] OTHER -> FullStreams

Case(iface, code, form, method, text, data, media, st, sse, cl, ct, fk, fa) ==
    [iface |-> iface, code |-> code, form |-> form, method |-> method, text |-> text, data |-> data,
     media |-> media, stream |-> st[1], chunks |-> st[2], sse |-> (IF sse = NoSse THEN -1 ELSE Len(sse)), sk |-> (IF sse = NoSse THEN <<>> ELSE sse), cl |-> cl, ct |-> ct, fk |-> fk, fa |-> fa, err |-> -1]

(* sends a fault-free emission makes (the response start is send 0) *)
NSends(b) ==
    1 + (IF IsAsgi(b)
         THEN (IF Bodiless(b) THEN 1
               ELSE CASE Chosen(b) = "sse" -> b.sse + 1 [] Chosen(b) = "stream" -> Len(Blocks(b)) + 1 [] OTHER -> 1)
         ELSE (IF Bodiless(b) THEN 0
               ELSE CASE Chosen(b) = "stream" -> Len(Blocks(b)) [] Chosen(b) = "none" -> 0 [] OTHER -> 1))
(* faults do not interact with how the status was written or with preset headers: fault points are
   explored for the plain-header, int-status cases only *)
FaultBase(b) == b.form = "int" /\ b.cl = -1 /\ ~b.ct
(* a render-phase fault does interact with preset headers and with every body source: it is
   scheduled for every int-status case (quick tier: two status codes), with the second rendering
   succeeding (fa = 1) and raising too (fa = 2) *)
RenderBase(b) == b.form = "int" /\ (Tier = "quick" => b.code \in {200, 204})
(* the fault points of a case: none; every read of a stream / emitter that is really iterated
   (the read that reports exhaustion included); every send *)
FaultsOf(b) ==
    {<<"none", 0>>}
    \cup (IF ~Bodiless(b) /\ Streamed(b)
          THEN {<<"stream", j>> : j \in 0..(IF Chosen(b) = "sse" THEN b.sse ELSE Len(Blocks(b)))} ELSE {})
    \cup {<<"send", j>> : j \in (IF IsAsgi(b) THEN 0 ELSE 1)..(NSends(b) - 1)}
    \cup (IF ~Bodiless(b) /\ Chosen(b) = "sse" THEN {<<"disc", j>> : j \in 0..b.sse} ELSE {})     \* client disconnects

MCInit ==
    \E iface \in Ifaces, code \in Codes, method \in Methods :
    \E form \in FormsOf(code), text \in TextLens, data \in DataLens, media \in MediaLens, st \in Streams :
    \E sse \in (IF iface = "asgi" THEN SseScripts ELSE {NoSse}), cl \in PresetCLs, ct \in BOOLEAN :
       LET b == Case(iface, code, form, method, text, data, media, st, sse, cl, ct, "none", 0)
       IN  /\ (\E i \in DOMAIN st[2] : st[2][i] = -1) => iface = "asgi"      \* on WSGI every block is bytes
           \* thinner cross product where a dimension cannot matter much: streams with None / empty items
           \* only where a stream can be reached (no text, no data); the whole set of emitter scripts only
           \* without a stream, one script with pings in a row together with every stream
           /\ (\E i \in DOMAIN st[2] : st[2][i] <= 0) => (text = -1 /\ data = -1)
           \* the string / bytes spellings of the status with plain headers and without data
           /\ form \in NewForms => (cl = -1 /\ ~ct /\ data = -1)
           /\ (sse # NoSse /\ st[1] # "none") => sse = <<1, 0, 0, 1>>
           /\ (sse \notin {NoSse, <<1, 1>>, <<1, 0, 0, 1>>}) => data = -1
           /\ (Tier = "quick" /\ sse # NoSse) => st[1] = "none"          \* quick tier: thinner cross product
           /\ (Tier = "quick" /\ iface = "wsgifw") => st[1] \in {"file", "filefull", "iterable"}
           \* the new object kinds do not interact with how the status was written or with preset headers
           /\ (st[1] \in NewKinds \/ st = <<"file", <<5, 6, 7>>>>) => (form = "int" /\ cl = -1 /\ ~ct /\ (Tier = "quick" => data = -1))
           /\ \E f \in (IF FaultBase(b) THEN FaultsOf(b) ELSE {<<"none", 0>>})
                        \cup (IF RenderBase(b) THEN {<<"render", 1>>, <<"render", 2>>} ELSE {}) : Start([b EXCEPT !.fk = f[1], !.fa = f[2]])

(* the disjuncts of ResponseEmit!Next are operator names, so TLC's coverage is per emission step *)
MCNext == Next

(* behaviour export: the finished emission of every case with the values the property fixes *)
EvTuple(e) == <<e.k, e.n, e.more, e.src, e.idx>>
Emit == (pc = "done") =>
    PrintT(ToJson([c |-> c0, eff |-> c, ev |-> [i \in DOMAIN ev |-> EvTuple(ev[i])],
                   cl |-> IF Starts(ev) > 0 THEN StartOf(ev).cl ELSE -2,
                   ct |-> IF Starts(ev) > 0 THEN StartOf(ev).ct ELSE "",
                   sl |-> IF Starts(ev) > 0 THEN StartOf(ev).sl ELSE TRUE,
                   begun |-> begun, closes |-> closes, raised |-> raised, sendFailed |-> sendFailed,
                   chosen |-> Chosen(c), bodiless |-> Bodiless(c), typeless |-> Typeless(c),
                   lenreq |-> LengthRequired(c), precreq |-> ~RenderFaulted(c), full |-> ExpectedPieces(c),
                   hasclose |-> HasClose(c0), pieces |-> ObsPieces(c, ev)]))
=================================================================================
