INIT Init
NEXT Next
CONSTANTS
  CheckDotDotPrefix = TRUE
  CheckAbsPrefix = TRUE
  CheckFinalDots = TRUE
  CheckFinalPrefix = TRUE
  PlusOne = TRUE
  UnsatGe = TRUE
  ImsLe = TRUE
  ImsLocalTime = FALSE
  ImsNotAfterNow = FALSE
  BigPositions = TRUE
  Tokens <- TravTokens
  MaxTokens = 5
  StartPaths <- EmptyOnly
  Fbs <- AllFbs
  Ranges <- NoRangeOnly
  Zones <- UtcOnly
  ImsFor <- NoImsOnly
  Clocks <- PastOnly
  MStates <- AbsentOnly
  MaxReq = 1
  MemoResolved = FALSE
INVARIANT Containment
INVARIANT ServedIsInside
INVARIANT NothingElseIs404
INVARIANT MachineIsFunction
INVARIANT DesignMeetsProperty
INVARIANT FullExact
INVARIANT SliceExact
INVARIANT ContentRangeConsistent
INVARIANT ZeroSizeIgnoresRange
INVARIANT UnsatCarriesSize
INVARIANT NotModifiedNoBody
INVARIANT DecisionIndependentOfZone
INVARIANT DecisionIndependentOfClock
INVARIANT ResponseFollowsFileSystem
