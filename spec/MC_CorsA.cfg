INIT MCInit
NEXT MCNext
CONSTANTS
  Templates = {}
  ResKinds = {}
  SinkPats = {}
  StaticPrefixes = {}
  MaxCalls = 0
  NewestFirst = TRUE
  RoutesFirst = TRUE
  OtherForAll = FALSE
  EmptyMeansAll = FALSE
  StatusSucceeds = FALSE
  AliasCallerSet = FALSE
  MemoDecision = FALSE
  StarWithCreds = FALSE
INVARIANT Emit
