INIT MCInit
NEXT MCNext
CONSTANTS
  Templates = {}
  ResKinds = {}
  SinkPats = {}
  StaticPrefixes = {}
  MaxCalls = 0
  NewestFirst = TRUE
  RoutesFirst = TRUE
  OtherForAll = FALSE
  StarWithCreds = FALSE
INVARIANT Emit
