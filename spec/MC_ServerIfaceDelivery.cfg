INIT Init
NEXT Next
CONSTANTS
  Datas <- MCDatas
  BlockSize = 4
  MaxChunks = 4
  Statuses = {200, 201}
  Announces = {FALSE, TRUE}
  Interleave = FALSE
  ShortReadEndsBody = FALSE
  EmptyChunkEndsBody = FALSE
  AsgiReadsOnce = FALSE
INVARIANT TypeOK
INVARIANT DeliveredIsPrefix
INVARIANT BodyIsWholeSource
INVARIANT ResponseEqualAcrossStacks
INVARIANT Emit
