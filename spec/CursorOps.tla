-------------------------- MODULE CursorOps --------------------------
(* The flat-buffer reference semantics of every buffered-reader operation (C14).
   Each operator maps (D, p, arguments) to a record [res, pos, err]:
     D    the whole byte string the reader may ever deliver (already cut at the
          declared maximum length / at the enclosing delimiter for a sub-reader),
     p    the cursor position before the call,
     res  the bytes the call returns, pos the cursor after it,
     err  TRUE iff the call must raise the delimiter error.
   Nothing here mentions source chunks or the buffer size except Peek's documented
   cap: their absence is the property. *)
EXTENDS Bytes

LF == <<10>>

ORead(D, p, n) ==                      \* n < 0: read everything
    LET e == IF n < 0 THEN Len(D) ELSE Min(Len(D), p + n)
    IN  [res |-> Slice(D, p, e), pos |-> e, err |-> FALSE]

OPeek(D, p, n, cs) ==                  \* at most one chunk size is ever peeked
    LET k == IF n < 0 \/ n > cs THEN cs ELSE n
    IN  [res |-> Slice(D, p, Min(Len(D), p + k)), pos |-> p, err |-> FALSE]

OReadUntil(D, p, d, n, consume) ==
    LET stop == FindFrom(D, d, p)
        e    == IF n < 0 THEN stop ELSE Min(stop, p + n)
        ok   == IsAt(D, d, e)
    IN  [res |-> Slice(D, p, e),
         pos |-> IF consume /\ ok THEN e + Len(d) ELSE e,
         err |-> consume /\ ~ok]

OPipeUntil(D, p, d, consume) == OReadUntil(D, p, d, -1, consume)

OReadLine(D, p, n) ==                  \* up to and including the next LF, at most n bytes
    LET sz == IF n < 0 THEN Len(D) - p ELSE Min(n, Len(D) - p)
        a  == OReadUntil(D, p, LF, sz, FALSE)
    IN  IF Len(a.res) < sz
          THEN LET b == ORead(D, a.pos, 1) IN [res |-> a.res \o b.res, pos |-> b.pos, err |-> FALSE]
          ELSE a

(* readlines(hint): lines until end of data, or until at least `hint` bytes were
   collected (hint < 0: no limit).  Returns [lines, pos]. *)
RECURSIVE OLines(_, _, _, _)
OLines(D, p, hint, got) ==
    LET a == OReadLine(D, p, -1)
    IN  IF a.res = <<>> THEN [lines |-> <<>>, pos |-> a.pos]
        ELSE IF hint >= 0 /\ got + Len(a.res) >= hint THEN [lines |-> <<a.res>>, pos |-> a.pos]
        ELSE LET r == OLines(D, a.pos, hint, got + Len(a.res))
             IN  [lines |-> <<a.res>> \o r.lines, pos |-> r.pos]
OReadLines(D, p, hint) == OLines(D, p, hint, 0)

(* delimit(d): the sub-reader sees D cut at the next occurrence of d *)
SubEnd(D, p, d) == FindFrom(D, d, p)
=======================================================================
