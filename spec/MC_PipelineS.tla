---------------------------- MODULE MC_PipelineS ----------------------------
(* Behaviour export (leg A): sessions of one application object.  The history variable h holds the
   finished requests of the session (it exists only here: the exhaustive instances of MC_Pipeline do
   not carry it).  One JSON object per finished session prefix: the assembly, the full registration
   history, and per request how many custom registrations existed, what every call site did, the
   specified call sequence and the specified response. *)
EXTENDS MC_Pipeline
VARIABLE h
Snap == [nregs |-> Len(reg) - Len(Defaults), calls |-> calls, status |-> status, body |-> body, hdrs |-> hdrs,
         vary |-> vary, escaped |-> escaped, renderfail |-> (pend.back \in {"rendered", "fallback"}),
         fallback |-> (pend.back = "fallback")]
SInit == Init /\ h = <<>>
SNext == \/ /\ XAddHandler \/ XStart \/ XReqCall \/ XRsrcCall \/ XBeforeCall \/ XResponder \/ XAfterCall \/ XRespCall
             \/ XRenderOk \/ XRenderFail \/ XRenderBad \/ XReqSkip \/ XReqDone \/ XRoute \/ XRsrcSkip \/ XRsrcDone
             \/ XBeforeDone \/ XNotFound \/ XAfterDone \/ XRespDone \/ XHandle
            /\ UNCHANGED h
         \/ /\ NextRequest /\ h' = Append(h, Snap)
Emit == phase = "end" =>
    PrintT(ToJson([shape |-> [c \in 1..N |-> shape[c]], indep |-> indep, target |-> target, nb |-> nb, na |-> na,
                   reg |-> reg, reqs |-> Append(h, Snap)]))
(* only complete sessions (the last permitted request has finished) *)
EmitLast == (phase = "end" /\ nreq = MaxReqs) =>
    PrintT(ToJson([shape |-> [c \in 1..N |-> shape[c]], indep |-> indep, target |-> target, nb |-> nb, na |-> na,
                   reg |-> reg, reqs |-> Append(h, Snap)]))
=============================================================================
