---------------------------- MODULE MC_PipelineS ----------------------------
(* Behaviour export (leg A): sessions of one application object.  The history variable h holds the
   finished requests of the session (it exists only here: the exhaustive instances of MC_Pipeline do
   not carry it).  One JSON object per finished session prefix: the assembly, the full registration
   history, and per request how many custom registrations existed, what every call site did, the
   specified call sequence and the specified response. *)
EXTENDS MC_Pipeline
VARIABLE h
Snap == [nregs |-> Len(reg) - Len(Defaults), calls |-> calls, status |-> status, body |-> body, hdrs |-> hdrs,
         vary |-> vary, escaped |-> escaped, renderfail |-> (pend.back \in {"rendered", "fallback"}),
         fallback |-> (pend.back = "fallback")]
SInit == Init /\ h = <<>>
SNext == \/ /\ XAddHandler \/ XAddSame \/ XStart \/ XReqCall \/ XRsrcCall \/ XBeforeCall \/ XResponder \/ XAfterCall \/ XRespCall
             \/ XRenderOk \/ XRenderFail \/ XRenderBad \/ XReqSkip \/ XReqDone \/ XRoute \/ XRsrcSkip \/ XRsrcDone
             \/ XBeforeDone \/ XNotFound \/ XAfterDone \/ XRespDone \/ XHandle
            /\ UNCHANGED h
         \/ /\ NextRequest /\ h' = Append(h, Snap)
Emit == phase = "end" =>
    PrintT(ToJson([shape |-> [c \in 1..N |-> shape[c]], indep |-> indep, target |-> target, nb |-> nb, na |-> na,
                   reg |-> reg, reqs |-> Append(h, Snap)]))
(* only complete sessions (the last permitted request has finished) *)
EmitLast == (phase = "end" /\ nreq = MaxReqs) =>
    PrintT(ToJson([shape |-> [c \in 1..N |-> shape[c]], indep |-> indep, target |-> target, nb |-> nb, na |-> na,
                   reg |-> reg, reqs |-> Append(h, Snap)]))
(* registration-history sessions: a request that raises after EVERY registration step (and one before the first),
   finished when no further registration is possible *)
EveryRequestRaised == \A j \in 1..Len(h) : \E k \in 1..Len(h[j].calls) : h[j].calls[k].act = "raise"
RegsStepByOne == \A j \in 1..Len(h) : h[j].nregs = j - 1
(* state constraint of the registration-history exports: exactly one registration between two requests, and a
   finished request has raised (prunes the histories EmitG would not print anyway) *)
GPrune == /\ RegsStepByOne /\ EveryRequestRaised
          /\ Len(reg) - Len(Defaults) <= nreq - 1
          /\ (phase \notin {"setup"}) => Len(reg) - Len(Defaults) = nreq - 1
          /\ (phase = "end") => faults = 1
EmitG == (phase = "end" /\ Len(reg) = Len(Defaults) + MaxRegs /\ nreq = MaxRegs + 1 /\ EveryRequestRaised /\ RegsStepByOne
          /\ faults = 1) =>
    PrintT(ToJson([shape |-> [c \in 1..N |-> shape[c]], indep |-> indep, target |-> target, nb |-> nb, na |-> na,
                   reg |-> reg, reqs |-> Append(h, Snap)]))
=============================================================================
