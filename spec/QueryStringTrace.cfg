INIT TInit
NEXT TNext
CONSTANTS
  KnownLiterals <- NoLits
INVARIANT Sound
