------------------------------ MODULE Cors ------------------------------
(* C20: the built-in CORS policy as a decision table on top of Dispatch!Outcome.

   The app's dispatch tables (variables of Dispatch) are fixed per instance / per trace.  This module
   adds how the CORS middleware got into the app (cors_enable=True, or an explicit CORSMiddleware(...)),
   its configuration, one optional other middleware, and one action per request:

       Exchange(rq, beh):  Dispatch!Outcome(rq.m, rq.p)  ->  what the exchange looks like when the
                           response middleware runs (succeeded?, headers set so far)  ->  Process  ->
                           the Access-Control-* / Allow headers of the final response.

   Header values: "-" = header absent; Allow / Access-Control-Allow-Methods are sets of method names;
   Access-Control-Expose-Headers is the list of names (<<>> = absent).
   A *grant* is an Access-Control-Allow-Origin header in the final response. *)
EXTENDS Dispatch

CONSTANTS StarWithCreds,     \* design switch: FALSE = the design (credentials => echo the origin, never "*")
          EmptyMeansAll,     \* design switch: FALSE = the design (an EMPTY allow_origins collection allows no origin at all)
          StatusSucceeds     \* design switch: FALSE = the design (a raised HTTPStatus is a raised exception: not succeeded)

VARIABLES wiring,    \* "none" | "enable" (App(cors_enable=True)) | "explicit" (App(middleware=[CORSMiddleware(..)]))
          cfg,       \* [ao: [star, set], ac: [star, set], eh: Seq(header name)]
          other,     \* [kind: "none" | "respfail" | "complete", pos: "before" | "after"]: one more middleware
          guard,     \* how often the duplicate-middleware guard fired
          ans        \* the last exchange: [rq, beh, x, out]  (kind = "none" before the first one)

cvars == <<vars, wiring, cfg, other, guard, ans>>

ABSENT == "-"
NoSet == [has |-> FALSE, v |-> {}]
Some(S) == [has |-> TRUE, v |-> S]
NoHeaders == [acao |-> ABSENT, acac |-> ABSENT, aceh |-> <<>>, acam |-> NoSet, acah |-> ABSENT, acma |-> ABSENT,
              allow |-> NoSet]

DefaultCfg == [ao |-> [star |-> TRUE, set |-> {}], ac |-> [star |-> FALSE, set |-> {}], eh |-> <<>>]
NoOther == [kind |-> "none", pos |-> "before"]

-----------------------------------------------------------------------------
(* what generated user code (resource responder / sink) does, selected per request:
     plain        nothing
     allow        advertises  Allow: GET, POST
     acao         pre-sets    Access-Control-Allow-Origin: https://preset.example
     acac         pre-sets    Access-Control-Allow-Credentials: true   (no origin)
     allowacao    allow + acao
     presetall    pre-sets every Access-Control-* header, but no Allow
     fail         raises an HTTP error (HTTPError) before touching the response
   and, answering by RAISING (req_succeeded is False whenever an exception left the responder / sink -
   HTTPStatus included, whatever its status code; so none of these can have a preflight approved):
     st2allow     raises HTTPStatus(200, headers={Allow: GET, POST})
     st3allow     sets Allow: GET, POST, raises HTTPMovedPermanently
     st4allow     sets Allow: GET, POST, raises HTTPStatus(403)
     st5          raises HTTPStatus(503)                       (no Allow)
     st5allow     raises HTTPStatus(503, headers={Allow: GET, POST})
     errallow     sets Allow: GET, POST, raises an HTTPError (403)
     exc          raises a plain exception for which the app has a registered handler (answers 409)
     excallow     sets Allow: GET, POST, then the same *)
StatusBehaviours == {"st2allow", "st3allow", "st4allow", "st5", "st5allow"}
RaisingBehaviours == StatusBehaviours \cup {"fail", "errallow", "exc", "excallow"}
Behaviours == {"plain", "allow", "acao", "acac", "allowacao", "presetall"} \cup RaisingBehaviours
Raises(beh) == beh \in RaisingBehaviours
CountsAsSucceeded(beh) == ~Raises(beh) \/ (StatusSucceeds /\ beh \in StatusBehaviours)
PRESET_ORIGIN == "https://preset.example"
Preset(beh) ==
    CASE beh \in {"allow", "st2allow", "st3allow", "st4allow", "st5allow", "errallow", "excallow"}
                           -> [NoHeaders EXCEPT !.allow = Some({"GET", "POST"})]
      [] beh = "acao"      -> [NoHeaders EXCEPT !.acao = PRESET_ORIGIN]
      [] beh = "acac"      -> [NoHeaders EXCEPT !.acac = "true"]
      [] beh = "allowacao" -> [NoHeaders EXCEPT !.allow = Some({"GET", "POST"}), !.acao = PRESET_ORIGIN]
      [] beh = "presetall" -> [acao |-> PRESET_ORIGIN, acac |-> "true", aceh |-> <<"X-Pre">>, acam |-> Some({"PUT"}),
                               acah |-> "X-Pre-H", acma |-> "5", allow |-> NoSet]
      [] OTHER             -> NoHeaders

(* the exchange as the response middleware finds it: did the request succeed, which headers are there *)
Xch(ok, hdr) == [succeeded |-> ok, hdr |-> hdr]
ExchangeFor(o, m, p, beh) ==             \* o = Dispatch!Outcome(m, p)
    LET v == VisibleOf(m, p, o)
    IN  CASE o.kind \in {"Responder", "Sink"} -> Xch(CountsAsSucceeded(beh), Preset(beh))
          [] o.kind = "AutoOptions"           -> Xch(TRUE, [NoHeaders EXCEPT !.allow = Some(o.allow)])
          [] o.kind = "NotAllowed"            -> Xch(FALSE, [NoHeaders EXCEPT !.allow = Some(o.allow)])
          [] o.kind = "Static"                -> (IF v.hasAllow THEN Xch(TRUE, [NoHeaders EXCEPT !.allow = Some(v.allow)])
                                                  ELSE Xch(v.status = 200, NoHeaders))
          [] OTHER                            -> Xch(FALSE, NoHeaders)         \* 404, 400

ExchangeOf(m, p, beh) == ExchangeFor(Outcome(m, p), m, p, beh)

(* one other middleware:  "complete": its process_request completes the response, nothing is routed;
   "respfail": its process_response raises an HTTP error - seen by the CORS middleware only if the other
   one is listed AFTER it (response middleware runs in reverse order) *)
SeenFor(o, m, p, beh) ==
    LET base == IF other.kind = "complete" /\ o.kind # "BadRequest"     \* (a pseudo-method is refused before any middleware runs)
                THEN Xch(TRUE, NoHeaders) ELSE ExchangeFor(o, m, p, beh)
    IN  IF other.kind = "respfail" /\ other.pos = "after" THEN [base EXCEPT !.succeeded = FALSE] ELSE base
Seen(m, p, beh) == SeenFor(Outcome(m, p), m, p, beh)

-----------------------------------------------------------------------------
(* the policy *)
(* what the configuration says (used by the clauses): the wildcard, or membership - an empty collection has no members *)
ConfigAllows(c, o) == o # ABSENT /\ (c.ao.star \/ o \in c.ao.set)
(* what the policy does *)
Allowed(c, o) == ConfigAllows(c, o) \/ (EmptyMeansAll /\ o # ABSENT /\ ~c.ao.star /\ c.ao.set = {})
CredOk(c, o)  == c.ac.star \/ o \in c.ac.set
IsPreflight(rq, x) == x.succeeded /\ rq.m = "OPTIONS" /\ rq.acrm # ABSENT

Process(c, rq, x) ==
    IF ~Allowed(c, rq.origin) THEN x.hdr
    ELSE LET h0 == x.hdr
             h1 == IF h0.acao # ABSENT THEN h0               \* an origin decision made by the responder is kept
                   ELSE IF CredOk(c, rq.origin)
                        THEN [h0 EXCEPT !.acao = (IF StarWithCreds /\ c.ao.star THEN "*" ELSE rq.origin), !.acac = "true"]
                        ELSE [h0 EXCEPT !.acao = (IF c.ao.star THEN "*" ELSE rq.origin)]
             h2 == IF c.eh # <<>> THEN [h1 EXCEPT !.aceh = c.eh] ELSE h1
         IN  IF ~IsPreflight(rq, x) THEN h2
             ELSE IF h2.allow.has
                  THEN [h2 EXCEPT !.allow = NoSet, !.acam = h2.allow,
                                  !.acah = (IF rq.acrh = ABSENT THEN "*" ELSE rq.acrh), !.acma = "86400"]
                  (* LeftoverCredentials: the code withdraws everything but Access-Control-Allow-Credentials;
                     without an origin header that grants nothing *)
                  ELSE [h2 EXCEPT !.acao = ABSENT, !.aceh = <<>>, !.acam = NoSet, !.acah = ABSENT, !.acma = ABSENT]

FinalOf(rq, x) == IF wiring = "none" THEN x.hdr ELSE Process(cfg, rq, x)
Final(rq, beh) == FinalOf(rq, Seen(rq.m, rq.p, beh))

-----------------------------------------------------------------------------
Rq(origin, m, p, acrm, acrh) == [origin |-> origin, m |-> m, p |-> p, acrm |-> acrm, acrh |-> acrh]
NoAns == [kind |-> "none", rq |-> Rq(ABSENT, "", <<>>, ABSENT, ABSENT), beh |-> "plain",
          x |-> Xch(FALSE, NoHeaders), out |-> NoHeaders]

CInit(rs, ss, ts, b) ==
    /\ routes = rs /\ sinks = ss /\ statics = ts /\ sbs = b /\ n = Cardinality(rs) + Len(ss) + Len(ts)
    /\ last = Call("init", TRUE, 0, <<>>, "", {}, {}, <<>>, <<>>, FALSE)
    /\ wiring = "none" /\ cfg = DefaultCfg /\ other = NoOther /\ guard = 0 /\ ans = NoAns

(* App(cors_enable=True): a CORSMiddleware() with the default configuration is appended *)
MakeEnable ==
    /\ wiring = "none" /\ ans.kind = "none"
    /\ wiring' = "enable" /\ cfg' = DefaultCfg
    /\ UNCHANGED <<vars, other, guard, ans>>

(* App(middleware=[CORSMiddleware(allow_origins=.., allow_credentials=.., expose_headers=..)]) *)
MakeExplicit(c) ==
    /\ wiring = "none" /\ ans.kind = "none"
    /\ wiring' = "explicit" /\ cfg' = c
    /\ UNCHANGED <<vars, other, guard, ans>>

(* add_middleware(CORSMiddleware()) on an app built with cors_enable=True raises and changes nothing *)
AddCorsAgainRejected ==
    /\ wiring = "enable" /\ ans.kind = "none" /\ guard = 0
    /\ guard' = 1
    /\ UNCHANGED <<vars, wiring, cfg, other, ans>>

AddOther(kind, pos) ==
    /\ wiring # "none" /\ other.kind = "none" /\ ans.kind = "none"
    /\ other' = [kind |-> kind, pos |-> pos]
    /\ UNCHANGED <<vars, wiring, cfg, guard, ans>>

(* one request; the behaviour of user code is a dimension only where user code runs *)
Exchange(rq, beh) ==
    /\ wiring # "none" /\ ans.kind = "none"
    /\ LET o == Outcome(rq.m, rq.p)
           x == SeenFor(o, rq.m, rq.p, beh)
       IN  /\ (beh # "plain" => (o.kind \in {"Responder", "Sink"} /\ other.kind # "complete"))
           /\ ans' = [kind |-> "exchange", rq |-> rq, beh |-> beh, x |-> x, out |-> FinalOf(rq, x)]
    /\ UNCHANGED <<vars, wiring, cfg, other, guard>>

-----------------------------------------------------------------------------
(* the property, clause by clause, over the last exchange *)
A_rq == ans.rq
A_in == ans.x.hdr
A_out == ans.out
Answered == ans.kind = "exchange"
OriginOk == ConfigAllows(cfg, A_rq.origin)
MwAddedCreds == A_out.acac = "true" /\ A_in.acac = ABSENT
MwAddedPreflight == \/ (A_out.acam.has /\ A_out.acam # A_in.acam)
                    \/ (A_out.acah # ABSENT /\ A_out.acah # A_in.acah)
                    \/ (A_out.acma # ABSENT /\ A_out.acma # A_in.acma)
Pre == IsPreflight(A_rq, ans.x) /\ OriginOk
DeniedPreflight == Pre /\ ~A_in.allow.has        \* (whether a credentials header survives it is left open: D-clause)

(* cross-origin headers are added only for an Origin the configuration allows; no Origin: untouched *)
OnlyAllowedOrigins == (Answered /\ ~OriginOk) => A_out = A_in
NoOriginUntouched  == (Answered /\ A_rq.origin = ABSENT) => A_out = A_in
(* a granted origin is the request's origin or, without credentials and with a wildcard configuration, "*" *)
GrantIsEchoOrStar == (Answered /\ A_out.acao # A_in.acao /\ A_out.acao # ABSENT) =>
                         /\ OriginOk
                         /\ A_out.acao = A_rq.origin \/ (A_out.acao = "*" /\ cfg.ao.star)
(* credentials granted by the middleware: only to origins configured for them, and the origin is echoed *)
CredentialsOnlyIfConfigured == (Answered /\ MwAddedCreds) => (OriginOk /\ CredOk(cfg, A_rq.origin))
NoWildcardWithCredentials   == (Answered /\ MwAddedCreds) => A_out.acao \in {A_rq.origin, ABSENT}
(* a preflight is approved only for a successful OPTIONS exchange that advertises an Allow set *)
PreflightOnlyOnSuccessWithAllow ==
    (Answered /\ MwAddedPreflight) => /\ Pre /\ A_in.allow.has
                                      /\ A_out.acam = A_in.allow /\ A_out.acma = "86400"
                                      /\ A_out.acah = (IF A_rq.acrh = ABSENT THEN "*" ELSE A_rq.acrh)
                                      /\ A_out.acao # ABSENT
AllowRemovedOnPreflight == (Answered /\ Pre) => ~A_out.allow.has
DeniedPreflightWithdrawsGrants ==
    (Answered /\ Pre /\ ~A_in.allow.has) => /\ A_out.acao = ABSENT /\ ~A_out.acam.has /\ A_out.acah = ABSENT
                                            /\ A_out.acma = ABSENT /\ A_out.aceh = <<>>
(* user code that answered by raising - HTTPStatus of any status code included - did not succeed: nothing is approved,
   Allow stays *)
NoApprovalAfterRaise == (Answered /\ Raises(ans.beh)) =>
                            /\ ~ans.x.succeeded /\ ~MwAddedPreflight /\ A_out.allow = A_in.allow
(* outside an approved / denied preflight the Allow header is never touched *)
AllowOtherwiseKept == (Answered /\ ~Pre) => A_out.allow = A_in.allow
=========================================================================
