------------------------------ MODULE Cors ------------------------------
(* C20: the built-in CORS policy as a decision table on top of Dispatch!Outcome.

   The app's dispatch tables (variables of Dispatch) are fixed per instance / per trace.  This module
   adds how the CORS middleware got into the app (cors_enable=True, or an explicit CORSMiddleware(...)),
   its configuration, one optional other middleware, and one action per request:

       Exchange(rq, beh):  Dispatch!Outcome(rq.m, rq.p)  ->  what the exchange looks like when the
                           response middleware runs (succeeded?, headers set so far)  ->  Process  ->
                           the Access-Control-* / Allow headers of the final response.

   Header values: "-" = header absent; Allow / Access-Control-Allow-Methods are sets of method names;
   Access-Control-Expose-Headers is the list of names (<<>> = absent).
   A *grant* is an Access-Control-Allow-Origin header in the final response. *)
EXTENDS Dispatch

CONSTANTS StarWithCreds,     \* design switch: FALSE = the design (credentials => echo the origin, never "*")
          EmptyMeansAll,     \* design switch: FALSE = the design (an EMPTY allow_origins collection allows no origin at all)
          StatusSucceeds,    \* design switch: FALSE = the design (a raised HTTPStatus is a raised exception: not succeeded)
          AliasCallerSet,    \* design switch: FALSE = the design (the policy is a snapshot taken at construction; TRUE = the
                             \*   middleware keeps the caller's mutable container and reads it at every request)
          MemoDecision       \* design switch: FALSE = the design (every request is decided afresh; TRUE = the middleware
                             \*   memoises the origin decision of the first request that carried an Origin)

VARIABLES wiring,    \* "none" | "enable" (App(cors_enable=True)) | "explicit" (App(middleware=[CORSMiddleware(..)]))
          cfg,       \* [ao: [star, set], ac: [star, set], eh: Seq(header name)]
          other,     \* [kind: "none" | "respfail" | "complete", pos: "before" | "after"]: one more middleware
          guard,     \* how often the duplicate-middleware guard fired
          ans,       \* the last exchange: [rq, beh, x, out]  (kind = "none" before the first one)
          caller,    \* the objects the caller handed to CORSMiddleware(..) AS THEY ARE NOW: [ao, ac: [form, star, items],
                     \*   eh: [form, items]] - the caller may keep and mutate them after construction (CallerMutates)
          served,    \* number of requests this (long-lived) middleware object has processed
          memo       \* what a per-middleware memo would carry from one request to the next (never read by the design)

cvars == <<vars, wiring, cfg, other, guard, ans, caller, served, memo>>

ABSENT == "-"
NoSet == [has |-> FALSE, v |-> {}]
Some(S) == [has |-> TRUE, v |-> S]
NoHeaders == [acao |-> ABSENT, acac |-> ABSENT, aceh |-> <<>>, acam |-> NoSet, acah |-> ABSENT, acma |-> ABSENT,
              allow |-> NoSet]

DefaultCfg == [ao |-> [star |-> TRUE, set |-> {}], ac |-> [star |-> FALSE, set |-> {}], eh |-> <<>>]
NoOther == [kind |-> "none", pos |-> "before"]

(* Configuration as an object.  Each of allow_origins / allow_credentials is the string '*' (form "star"), None
   ("none", allow_credentials / expose_headers only), one string ("str") or an iterable of strings in one of the
   container forms; "set", "list" and "keys" (the live key view of a dict) can be mutated by the caller afterwards. *)
STAR_ITEM == "*"
ContainerForms == {"set", "frozenset", "list", "tuple", "gen", "keys"}
MutableForms   == {"set", "list", "keys"}
ArgForms       == {"star", "none", "str"} \cup ContainerForms
Arg(form, star, items) == [form |-> form, star |-> star, items |-> items]          \* items: a set of strings
EhArg(form, items)     == [form |-> form, items |-> items]                         \* items: a sequence of names
NoCaller == [ao |-> Arg("star", TRUE, {}), ac |-> Arg("none", FALSE, {}), eh |-> EhArg("none", <<>>)]
(* '*' is the wildcard only as the string literal; inside an iterable it is refused at construction *)
WellFormedArg(a) == a.star \/ STAR_ITEM \notin a.items
WellFormedArgs(args) == WellFormedArg(args.ao) /\ WellFormedArg(args.ac)
(* the policy = what the arguments said at the moment of construction *)
Snap(a) == [star |-> a.star, set |-> a.items]
SnapCfg(args) == [ao |-> Snap(args.ao), ac |-> Snap(args.ac), eh |-> args.eh.items]
(* the arguments of a configuration handed over in immutable form *)
ImmutableArgs(c) == [ao |-> Arg(IF c.ao.star THEN "star" ELSE "frozenset", c.ao.star, c.ao.set),
                     ac |-> Arg(IF c.ac.star THEN "star" ELSE "frozenset", c.ac.star, c.ac.set),
                     eh |-> EhArg("tuple", c.eh)]
NoMemo == [set |-> FALSE, allowed |-> FALSE, cred |-> FALSE]

-----------------------------------------------------------------------------
(* what generated user code (resource responder / sink) does, selected per request:
     plain        nothing
     allow        advertises  Allow: GET, POST
     acao         pre-sets    Access-Control-Allow-Origin: https://preset.example
     acac         pre-sets    Access-Control-Allow-Credentials: true   (no origin)
     allowacao    allow + acao
     presetall    pre-sets every Access-Control-* header, but no Allow
     fail         raises an HTTP error (HTTPError) before touching the response
   and, answering by RAISING (req_succeeded is False whenever an exception left the responder / sink -
   HTTPStatus included, whatever its status code; so none of these can have a preflight approved):
     st2allow     raises HTTPStatus(200, headers={Allow: GET, POST})
     st3allow     sets Allow: GET, POST, raises HTTPMovedPermanently
     st4allow     sets Allow: GET, POST, raises HTTPStatus(403)
     st5          raises HTTPStatus(503)                       (no Allow)
     st5allow     raises HTTPStatus(503, headers={Allow: GET, POST})
     errallow     sets Allow: GET, POST, raises an HTTPError (403)
     exc          raises a plain exception for which the app has a registered handler (answers 409)
     excallow     sets Allow: GET, POST, then the same *)
StatusBehaviours == {"st2allow", "st3allow", "st4allow", "st5", "st5allow"}
RaisingBehaviours == StatusBehaviours \cup {"fail", "errallow", "exc", "excallow"}
Behaviours == {"plain", "allow", "acao", "acac", "allowacao", "presetall"} \cup RaisingBehaviours
Raises(beh) == beh \in RaisingBehaviours
CountsAsSucceeded(beh) == ~Raises(beh) \/ (StatusSucceeds /\ beh \in StatusBehaviours)
PRESET_ORIGIN == "https://preset.example"
Preset(beh) ==
    CASE beh \in {"allow", "st2allow", "st3allow", "st4allow", "st5allow", "errallow", "excallow"}
                           -> [NoHeaders EXCEPT !.allow = Some({"GET", "POST"})]
      [] beh = "acao"      -> [NoHeaders EXCEPT !.acao = PRESET_ORIGIN]
      [] beh = "acac"      -> [NoHeaders EXCEPT !.acac = "true"]
      [] beh = "allowacao" -> [NoHeaders EXCEPT !.allow = Some({"GET", "POST"}), !.acao = PRESET_ORIGIN]
      [] beh = "presetall" -> [acao |-> PRESET_ORIGIN, acac |-> "true", aceh |-> <<"X-Pre">>, acam |-> Some({"PUT"}),
                               acah |-> "X-Pre-H", acma |-> "5", allow |-> NoSet]
      [] OTHER             -> NoHeaders

(* the exchange as the response middleware finds it: did the request succeed, which headers are there *)
Xch(ok, hdr) == [succeeded |-> ok, hdr |-> hdr]
ExchangeFor(o, m, p, beh) ==             \* o = Dispatch!Outcome(m, p)
    LET v == VisibleOf(m, p, o)
    IN  CASE o.kind \in {"Responder", "Sink"} -> Xch(CountsAsSucceeded(beh), Preset(beh))
          [] o.kind = "AutoOptions"           -> Xch(TRUE, [NoHeaders EXCEPT !.allow = Some(o.allow)])
          [] o.kind = "NotAllowed"            -> Xch(FALSE, [NoHeaders EXCEPT !.allow = Some(o.allow)])
          [] o.kind = "Static"                -> (IF v.hasAllow THEN Xch(TRUE, [NoHeaders EXCEPT !.allow = Some(v.allow)])
                                                  ELSE Xch(v.status = 200, NoHeaders))
          [] OTHER                            -> Xch(FALSE, NoHeaders)         \* 404, 400

ExchangeOf(m, p, beh) == ExchangeFor(Outcome(m, p), m, p, beh)

(* one other middleware:  "complete": its process_request completes the response, nothing is routed;
   "respfail": its process_response raises an HTTP error - seen by the CORS middleware only if the other
   one is listed AFTER it (response middleware runs in reverse order) *)
SeenFor(o, m, p, beh) ==
    LET base == IF other.kind = "complete" /\ o.kind # "BadRequest"     \* (a pseudo-method is refused before any middleware runs)
                THEN Xch(TRUE, NoHeaders) ELSE ExchangeFor(o, m, p, beh)
    IN  IF other.kind = "respfail" /\ other.pos = "after" THEN [base EXCEPT !.succeeded = FALSE] ELSE base
Seen(m, p, beh) == SeenFor(Outcome(m, p), m, p, beh)

-----------------------------------------------------------------------------
(* the policy *)
(* what the configuration says (used by the clauses): the wildcard, or membership - an empty collection has no members *)
ConfigAllows(c, o) == o # ABSENT /\ (c.ao.star \/ o \in c.ao.set)
(* what the policy does *)
Allowed(c, o) == ConfigAllows(c, o) \/ (EmptyMeansAll /\ o # ABSENT /\ ~c.ao.star /\ c.ao.set = {})
CredOk(c, o)  == c.ac.star \/ o \in c.ac.set
IsPreflight(rq, x) == x.succeeded /\ rq.m = "OPTIONS" /\ rq.acrm # ABSENT

(* the policy, given the two decisions about the origin (allowed?  credentials?) *)
ProcessWith(c, rq, x, allowed, cred) ==
    IF ~allowed THEN x.hdr
    ELSE LET h0 == x.hdr
             h1 == IF h0.acao # ABSENT THEN h0               \* an origin decision made by the responder is kept
                   ELSE IF cred
                        THEN [h0 EXCEPT !.acao = (IF StarWithCreds /\ c.ao.star THEN "*" ELSE rq.origin), !.acac = "true"]
                        ELSE [h0 EXCEPT !.acao = (IF c.ao.star THEN "*" ELSE rq.origin)]
             h2 == IF c.eh # <<>> THEN [h1 EXCEPT !.aceh = c.eh] ELSE h1
         IN  IF ~IsPreflight(rq, x) THEN h2
             ELSE IF h2.allow.has
                  THEN [h2 EXCEPT !.allow = NoSet, !.acam = h2.allow,
                                  !.acah = (IF rq.acrh = ABSENT THEN "*" ELSE rq.acrh), !.acma = "86400"]
                  (* LeftoverCredentials: the code withdraws everything but Access-Control-Allow-Credentials;
                     without an origin header that grants nothing *)
                  ELSE [h2 EXCEPT !.acao = ABSENT, !.aceh = <<>>, !.acam = NoSet, !.acah = ABSENT, !.acma = ABSENT]

(* THE LAW: the final headers are a function of (the configuration at construction, this request and its exchange) *)
Process(c, rq, x) == ProcessWith(c, rq, x, Allowed(c, rq.origin), CredOk(c, rq.origin))

(* what the middleware consults: the snapshot `cfg` - or, in the wrong design AliasCallerSet, the caller's own mutable
   container as it is now ('*' that the caller added later is just an item of it) *)
AliasOf(snap, a) == IF a.form \in MutableForms THEN [star |-> FALSE, set |-> a.items] ELSE snap
EffCfg == IF AliasCallerSet
          THEN [ao |-> AliasOf(cfg.ao, caller.ao), ac |-> AliasOf(cfg.ac, caller.ac),
                eh |-> IF caller.eh.form \in MutableForms THEN caller.eh.items ELSE cfg.eh]
          ELSE cfg
Decide(rq, x) == IF MemoDecision /\ memo.set /\ rq.origin # ABSENT
                 THEN ProcessWith(EffCfg, rq, x, memo.allowed, memo.cred)
                 ELSE Process(EffCfg, rq, x)
MemoAfter(rq) == IF MemoDecision /\ ~memo.set /\ rq.origin # ABSENT
                 THEN [set |-> TRUE, allowed |-> Allowed(EffCfg, rq.origin), cred |-> CredOk(EffCfg, rq.origin)]
                 ELSE memo

FinalOf(rq, x) == IF wiring = "none" THEN x.hdr ELSE Decide(rq, x)
Final(rq, beh) == FinalOf(rq, Seen(rq.m, rq.p, beh))

-----------------------------------------------------------------------------
Rq(origin, m, p, acrm, acrh) == [origin |-> origin, m |-> m, p |-> p, acrm |-> acrm, acrh |-> acrh]
NoAns == [kind |-> "none", rq |-> Rq(ABSENT, "", <<>>, ABSENT, ABSENT), beh |-> "plain",
          x |-> Xch(FALSE, NoHeaders), out |-> NoHeaders]

CInit(rs, ss, ts, b) ==
    /\ routes = rs /\ sinks = ss /\ statics = ts /\ sbs = b /\ n = Cardinality(rs) + Len(ss) + Len(ts)
    /\ last = Call("init", TRUE, 0, <<>>, "", {}, {}, <<>>, <<>>, FALSE)
    /\ wiring = "none" /\ cfg = DefaultCfg /\ other = NoOther /\ guard = 0 /\ ans = NoAns
    /\ caller = NoCaller /\ served = 0 /\ memo = NoMemo

(* App(cors_enable=True): a CORSMiddleware() with the default configuration is appended *)
MakeEnable ==
    /\ wiring = "none" /\ ans.kind = "none"
    /\ wiring' = "enable" /\ cfg' = DefaultCfg
    /\ UNCHANGED <<vars, other, guard, ans, caller, served, memo>>

(* App(middleware=[CORSMiddleware(allow_origins=.., allow_credentials=.., expose_headers=..)]): the arguments are
   validated and the policy is fixed HERE; the caller keeps its objects *)
Configure(args) ==
    /\ wiring = "none" /\ ans.kind = "none" /\ WellFormedArgs(args)
    /\ wiring' = "explicit" /\ cfg' = SnapCfg(args) /\ caller' = args
    /\ UNCHANGED <<vars, other, guard, ans, served, memo>>
(* '*' inside an iterable: the constructor raises ValueError, there is no middleware *)
ConfigureRejected(args) ==
    /\ wiring = "none" /\ ans.kind = "none" /\ ~WellFormedArgs(args)
    /\ wiring' = "rejected" /\ caller' = args
    /\ UNCHANGED <<vars, cfg, other, guard, ans, served, memo>>
(* the same with a configuration handed over in immutable form (nothing the caller could do to it later) *)
MakeExplicit(c) ==
    /\ wiring = "none" /\ ans.kind = "none"
    /\ wiring' = "explicit" /\ cfg' = c /\ caller' = ImmutableArgs(c)
    /\ UNCHANGED <<vars, other, guard, ans, served, memo>>

(* after construction the caller mutates the very object it passed (possible for the mutable forms only):
   adds an origin, removes one, adds '*'; appends / removes an exposed header name.  The policy does not move. *)
CallerMutatesOrigins(opt, how, item) ==
    /\ wiring = "explicit" /\ opt \in {"ao", "ac"} /\ caller[opt].form \in MutableForms
    /\ caller' = [caller EXCEPT ![opt].items = IF how = "add" THEN @ \cup {item} ELSE @ \ {item}]
    /\ caller' # caller
    /\ UNCHANGED <<vars, wiring, cfg, other, guard, ans, served, memo>>
CallerMutatesExpose(how, item) ==
    /\ wiring = "explicit" /\ caller.eh.form \in MutableForms
    /\ caller' = [caller EXCEPT !.eh.items = IF how = "add" THEN Append(@, item) ELSE SelectSeq(@, LAMBDA y : y # item)]
    /\ caller' # caller
    /\ UNCHANGED <<vars, wiring, cfg, other, guard, ans, served, memo>>
CallerMutates(opt, how, item) == IF opt = "eh" THEN CallerMutatesExpose(how, item) ELSE CallerMutatesOrigins(opt, how, item)

(* add_middleware(CORSMiddleware()) on an app built with cors_enable=True raises and changes nothing *)
AddCorsAgainRejected ==
    /\ wiring = "enable" /\ ans.kind = "none" /\ guard = 0
    /\ guard' = 1
    /\ UNCHANGED <<vars, wiring, cfg, other, ans, caller, served, memo>>

AddOther(kind, pos) ==
    /\ wiring \in {"enable", "explicit"} /\ other.kind = "none" /\ ans.kind = "none"
    /\ other' = [kind |-> kind, pos |-> pos]
    /\ UNCHANGED <<vars, wiring, cfg, guard, ans, caller, served, memo>>

(* one request; the behaviour of user code is a dimension only where user code runs *)
Serve(rq, beh) ==
    /\ wiring \in {"enable", "explicit"}
    /\ LET o == Outcome(rq.m, rq.p)
           x == SeenFor(o, rq.m, rq.p, beh)
       IN  /\ (beh # "plain" => (o.kind \in {"Responder", "Sink"} /\ other.kind # "complete"))
           /\ ans' = [kind |-> "exchange", rq |-> rq, beh |-> beh, x |-> x, out |-> FinalOf(rq, x)]
    /\ served' = served + 1 /\ memo' = MemoAfter(rq)
    /\ UNCHANGED <<vars, wiring, cfg, other, guard, caller>>
(* the first request of an app / any later one: the middleware object lives as long as the app *)
Exchange(rq, beh)    == ans.kind = "none" /\ Serve(rq, beh)
NextRequest(rq, beh) == ans.kind = "exchange" /\ Serve(rq, beh)

-----------------------------------------------------------------------------
(* the property, clause by clause, over the last exchange *)
A_rq == ans.rq
A_in == ans.x.hdr
A_out == ans.out
Answered == ans.kind = "exchange"
OriginOk == ConfigAllows(cfg, A_rq.origin)
MwAddedCreds == A_out.acac = "true" /\ A_in.acac = ABSENT
MwAddedPreflight == \/ (A_out.acam.has /\ A_out.acam # A_in.acam)
                    \/ (A_out.acah # ABSENT /\ A_out.acah # A_in.acah)
                    \/ (A_out.acma # ABSENT /\ A_out.acma # A_in.acma)
Pre == IsPreflight(A_rq, ans.x) /\ OriginOk
DeniedPreflight == Pre /\ ~A_in.allow.has        \* (whether a credentials header survives it is left open: D-clause)

(* cross-origin headers are added only for an Origin the configuration allows; no Origin: untouched *)
OnlyAllowedOrigins == (Answered /\ ~OriginOk) => A_out = A_in
NoOriginUntouched  == (Answered /\ A_rq.origin = ABSENT) => A_out = A_in
(* a granted origin is the request's origin or, without credentials and with a wildcard configuration, "*" *)
GrantIsEchoOrStar == (Answered /\ A_out.acao # A_in.acao /\ A_out.acao # ABSENT) =>
                         /\ OriginOk
                         /\ A_out.acao = A_rq.origin \/ (A_out.acao = "*" /\ cfg.ao.star)
(* credentials granted by the middleware: only to origins configured for them, and the origin is echoed *)
CredentialsOnlyIfConfigured == (Answered /\ MwAddedCreds) => (OriginOk /\ CredOk(cfg, A_rq.origin))
NoWildcardWithCredentials   == (Answered /\ MwAddedCreds) => A_out.acao \in {A_rq.origin, ABSENT}
(* a preflight is approved only for a successful OPTIONS exchange that advertises an Allow set *)
PreflightOnlyOnSuccessWithAllow ==
    (Answered /\ MwAddedPreflight) => /\ Pre /\ A_in.allow.has
                                      /\ A_out.acam = A_in.allow /\ A_out.acma = "86400"
                                      /\ A_out.acah = (IF A_rq.acrh = ABSENT THEN "*" ELSE A_rq.acrh)
                                      /\ A_out.acao # ABSENT
AllowRemovedOnPreflight == (Answered /\ Pre) => ~A_out.allow.has
DeniedPreflightWithdrawsGrants ==
    (Answered /\ Pre /\ ~A_in.allow.has) => /\ A_out.acao = ABSENT /\ ~A_out.acam.has /\ A_out.acah = ABSENT
                                            /\ A_out.acma = ABSENT /\ A_out.aceh = <<>>
(* user code that answered by raising - HTTPStatus of any status code included - did not succeed: nothing is approved,
   Allow stays *)
NoApprovalAfterRaise == (Answered /\ Raises(ans.beh)) =>
                            /\ ~ans.x.succeeded /\ ~MwAddedPreflight /\ A_out.allow = A_in.allow
(* configuration as state / several requests on one app: whatever the caller did to its objects after construction and
   whatever was served before, the final headers are those the configuration AT CONSTRUCTION gives for THIS request *)
GrantFunctionOfConfigAndRequest == Answered => A_out = Process(cfg, A_rq, ans.x)
PolicyFixedAtConstruction == [][wiring = "explicit" => (cfg' = cfg /\ wiring' = wiring)]_cvars
(* outside an approved / denied preflight the Allow header is never touched *)
AllowOtherwiseKept == (Answered /\ ~Pre) => A_out.allow = A_in.allow
=========================================================================
