INIT GInit
NEXT GNext
CONSTANTS
  Bounds <- BoundsQ
  ReqSet <- ReqsSmall
  ReadAttrs <- UrlAttrs
  Depth = 0
  SharedUriSlot = FALSE
INVARIANT RangeWellFormed
INVARIANT LengthWellFormed
INVARIANT TagsWellFormed
INVARIANT ForwardedWellFormed
INVARIANT RouteEndsAtPeer
INVARIANT HostWellFormed
INVARIANT UriComposition
INVARIANT NotProxied
INVARIANT EmitG
