INIT XInit
NEXT XNext
VIEW XView
CONSTANTS
  TS <- MCTS
  CT <- MCCT
  BadNames <- MCBad
  Templates <- MCTemplates
  Paths <- MCPaths
  MaxAdds = 2
  MaxDepth = 3
  MaxPathLen = 3
  Depth = 0
  Rollback = TRUE
  ResetOnAdd = TRUE
INVARIANT FindIsIdealDFS
INVARIANT XWalkIsBestMatch
INVARIANT XNoLeak
INVARIANT RejectIsNoOp
INVARIANT TreeIsRef
INVARIANT XSplitSound
INVARIANT EmitTable
