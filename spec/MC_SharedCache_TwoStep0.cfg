SPECIFICATION MCSpec
CONSTANTS
  NT = 2
  Threads <- MCThreads
  Keys <- MCKeys
  Cap = 2
  WarmSet <- MCWarm
  AtomicLookup = FALSE
  TornStore = FALSE
  SharedResult = FALSE
  MaxPre = 0
INVARIANT NoRequestFails
INVARIANT SerialResponse
INVARIANT CacheBounded
INVARIANT CacheIsFunctionOfKey
CHECK_DEADLOCK FALSE
