-------------------------- MODULE MC_SharedCache --------------------------
EXTENDS SharedCache
CONSTANT NT
MCThreads == 1..NT
MCKeys == 1..3
Unbounded == -1
(* cache contents before the concurrent requests: empty, one below capacity, full *)
MCWarm == {<<>>, <<3>>, <<1>>, <<3, 1>>, <<1, 3>>, <<2, 3>>}
ACheck   == \E t \in Threads : Check(t)
AGet     == \E t \in Threads : Get(t)
ACompute == \E t \in Threads : Compute(t)
AStore   == \E t \in Threads : Store(t)
AStore2  == \E t \in Threads : Store2(t)
AUse     == \E t \in Threads : Use(t)
MCNext == ACheck \/ AGet \/ ACompute \/ AStore \/ AStore2 \/ AUse
MCSpec == Init /\ [][MCNext]_vars
===========================================================================
