INIT JInit
NEXT JNext
CONSTANTS
  MaxSil = 6
  MaxQs = {0}
  NMsg = 99
  DiscChoices = {TRUE}
  GeCmp = TRUE
  AwaitStop = TRUE
  NotifyPop = TRUE
  ReleaseOnEnd = TRUE
  Faults = TRUE
  StopAfterSend = TRUE
  CleanupOnDisc = TRUE
  MaxSendFail = 1000
  MaxOps = 1000
  MaxCancel = 1000
INVARIANT Sound
