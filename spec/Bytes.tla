---------------------------- MODULE Bytes ----------------------------
(* Helpers over byte strings, represented as Seq(0..255).  Positions are 0-based
   and intervals half-open, as in the Python code the specifications are bound to. *)
EXTENDS Integers, Sequences, FiniteSets

Min(a, b) == IF a < b THEN a ELSE b
Max(a, b) == IF a > b THEN a ELSE b

Slice(s, a, b) == SubSeq(s, a + 1, b)              \* s[a:b]
Take(s, n)     == SubSeq(s, 1, Min(n, Len(s)))     \* s[:n]
Drop(s, n)     == SubSeq(s, n + 1, Len(s))         \* s[n:]

IsAt(s, d, i) == i + Len(d) <= Len(s) /\ Slice(s, i, i + Len(d)) = d

(* position of the first occurrence of d in s at or after `from`; Len(s) if absent *)
FindFrom(s, d, from) ==
    LET C == {i \in from..Len(s) : IsAt(s, d, i)}
    IN  IF C = {} THEN Len(s) ELSE CHOOSE i \in C : \A j \in C : i <= j

Occurs(s, d) == \E i \in 0..Len(s) : IsAt(s, d, i)

IsPrefix(s, t) == Len(s) <= Len(t) /\ SubSeq(t, 1, Len(s)) = s

SeqsUpTo(S, n) == UNION {[1..k -> S] : k \in 0..n}

RECURSIVE Concat(_)
Concat(ss) == IF ss = <<>> THEN <<>> ELSE Head(ss) \o Concat(Tail(ss))
=======================================================================
