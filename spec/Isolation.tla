---------------------------- MODULE Isolation ----------------------------
(* C19 (tasks): N requests processed concurrently by one ASGI app instance, each a
   sequence of await-to-await segments over private per-request state and process-wide
   memo caches (parsed media ranges, resolved media handlers, compiled routes...).
   A memo cache is a partial function from a key to the value computed from that key;
   concurrent requests may fill it in any order.  Each response must equal the serial
   response, i.e. depend on that request's own inputs only.

   Wrong-design switches (vacuity witnesses): CoarseKey - the cache is keyed by a lossy
   projection of the key; SharedScratch - a per-request value is kept in an app-level slot
   across an await. *)
EXTENDS Integers, Sequences, FiniteSets, TLC

CONSTANTS Reqs,          \* request ids
          Keys,          \* possible cache keys (e.g. Accept header values)
          KeyOf,         \* [Reqs -> Keys]
          Segments,      \* number of await-to-await segments per request (>= 3)
          CoarseKey, SharedScratch

VARIABLES pc,        \* [Reqs -> 0..Segments]   next segment to run; Segments = finished
          priv,      \* [Reqs -> value]         per-request state (what the responder computed so far)
          cache,     \* memo cache: function from (projected) key to value
          scratch,   \* app-level slot (only used by the wrong design)
          resp       \* [Reqs -> value]         final responses

vars == <<pc, priv, cache, scratch, resp>>

None == -1
F(k) == k * 10 + 7                       \* the pure function being memoised
Proj(k) == IF CoarseKey THEN k % 2 ELSE k

Init == /\ pc = [r \in Reqs |-> 0] /\ priv = [r \in Reqs |-> None]
        /\ cache = [p \in {} |-> 0] /\ scratch = None /\ resp = [r \in Reqs |-> None]

(* segment 0: receive the request, stash the key (wrong design: in an app-level slot) *)
Receive(r) ==
    /\ pc[r] = 0
    /\ scratch' = IF SharedScratch THEN KeyOf[r] ELSE scratch
    /\ priv' = [priv EXCEPT ![r] = KeyOf[r]]
    /\ pc' = [pc EXCEPT ![r] = 1]
    /\ UNCHANGED <<cache, resp>>

(* segment 1: consult / fill the memo cache *)
Memo(r) ==
    /\ pc[r] = 1
    /\ LET k == IF SharedScratch THEN scratch ELSE priv[r]
           p == Proj(k)
       IN IF p \in DOMAIN cache
            THEN priv' = [priv EXCEPT ![r] = cache[p]] /\ UNCHANGED cache
            ELSE cache' = cache @@ (p :> F(k)) /\ priv' = [priv EXCEPT ![r] = F(k)]
    /\ pc' = [pc EXCEPT ![r] = 2]
    /\ UNCHANGED <<scratch, resp>>

(* segments 2 .. Segments-2: plain awaits (body chunks, middleware) touching private state only *)
Await(r) ==
    /\ pc[r] >= 2 /\ pc[r] < Segments - 1
    /\ pc' = [pc EXCEPT ![r] = @ + 1]
    /\ UNCHANGED <<priv, cache, scratch, resp>>

(* last segment: send the response *)
Send(r) ==
    /\ pc[r] = Segments - 1
    /\ resp' = [resp EXCEPT ![r] = priv[r]]
    /\ pc' = [pc EXCEPT ![r] = Segments]
    /\ UNCHANGED <<priv, cache, scratch>>

Step(r) == Receive(r) \/ Memo(r) \/ Await(r) \/ Send(r)
Next == \E r \in Reqs : Step(r)
Spec == Init /\ [][Next]_vars /\ \A r \in Reqs : WF_vars(Step(r))

SerialResponse == \A r \in Reqs : pc[r] = Segments => resp[r] = F(KeyOf[r])
CacheIsFunctionOfKey == \A p \in DOMAIN cache : \E k \in Keys : Proj(k) = p /\ cache[p] = F(k)
AllFinish == <>(\A r \in Reqs : pc[r] = Segments)
==========================================================================
