-------------------------- MODULE PipelineTrace --------------------------
(* Trace judge for C03 / C04.  Reads a JSON list of traces recorded from real falcon applications
   (engine/pipeline_harness.py), makes every trace an initial state and replays it with the actions
   of Pipeline.  A trace is a session of one application object: [shape, indep, target, nb, na,
   reg: all custom registrations in order, reqs: <<[nregs: registrations made before this request,
   ev: calls, final: response]>>]; between requests the judge takes NextRequest and the AddHandler
   steps the session made.  Within a request: the logged event supplies what the called code did (return / complete / raise cls),
   the specification supplies which call must come next, with which arguments, which handler is
   chosen and what the response finally is.  Steps the application cannot see (skipped components,
   the framework's own not-found responder and default handlers, successful rendering) are taken
   silently; they are deterministic.  Total: every event is consumed or a clause is named.
     P3:order      the call made is not the call the stack discipline requires next
     P3:missing    the discipline requires a further call, the implementation made none
     P3:extra      a call was made after the request was finished
     P3:succeeded  req_succeeded passed to process_response differs from "nothing raised so far"
     P4:handler    a different error handler than the most specific / latest registered one ran (or none)
     P4:instance   the handler was not given the exception that was raised
     P4:escaped    an exception left (did not leave) the application although the model says otherwise
     P4:status     final status differs
     P4:stale      a body set before an exception was raised was sent
     P4:body       final body is not the one the last handler / call site defined
     P4:ownheaders the rendered error's own headers are missing
     P4:vary       Vary lacks Accept after an error was rendered, or lacks the error's own / an earlier token
     D:resource D:renderfallback D:headers D:vary   model detail the property does not demand
                   (renderfallback: what is sent when rendering the error handler's response fails too)
     H:*           the harness logged something the model has no action for (machinery) *)
EXTENDS Pipeline, Json, IOUtils

Traces    == JsonDeserialize(IOEnv.TRACE_FILE)
ClassFile == JsonDeserialize(IOEnv.CLASSES_FILE)
TMro      == ClassFile.mro
TStatus   == ClassFile.status
TOwnVary  == ClassFile.vary
Empty     == {}

VARIABLES tid, r, l, st, verdict, dnote
tvars == <<tid, r, l, st, verdict, dnote>>

T  == Traces[tid]
Rq == T.reqs[r]
Ev == Rq.ev[l]
HaveEv == l <= Len(Rq.ev)
SetOf(s) == {s[j] : j \in 1..Len(s)}

TInit == /\ tid \in 1..Len(Traces) /\ r = 1 /\ l = 1 /\ st = "run" /\ verdict = "ok" /\ dnote = "ok"
         /\ shape = [c \in 1..Len(Traces[tid].shape) |-> SetOf(Traces[tid].shape[c])]
         /\ indep = Traces[tid].indep /\ target = Traces[tid].target
         /\ nb = Traces[tid].nb /\ na = Traces[tid].na
         /\ reg = Defaults /\ nreq = 1
         /\ phase = "setup" /\ i = 1 /\ complete = FALSE /\ succeeded = FALSE /\ hasres = FALSE
         /\ dep = <<>> /\ left = <<>> /\ pend = NoPend
         /\ calls = <<>> /\ faults = 0
         /\ status = 200 /\ body = NoBody /\ hdrs = {} /\ vary = {} /\ escaped = FALSE

(* the registrations the session made before the current request, then the request starts *)
Setup ==
    /\ phase = "setup"
    /\ LET k == Len(reg) - Len(Defaults) IN
         IF k >= Rq.nregs THEN Start
         ELSE IF T.reg[k + 1].obj = Len(reg) + 1 THEN AddHandler(T.reg[k + 1].cls, T.reg[k + 1].beh)
         ELSE AddSame(T.reg[k + 1].cls, T.reg[k + 1].obj)
    /\ UNCHANGED tvars

(* the application-visible call the model stands at, if any *)
MSite == CASE phase = "req" /\ i <= N /\ "req" \in shape[i] /\ ~complete   -> <<"req", i>>
           [] phase = "rsrc" /\ i <= N /\ "rsrc" \in shape[i] /\ ~complete -> <<"rsrc", i>>
           [] phase = "before" /\ i <= nb                                  -> <<"before", i>>
           [] phase = "responder" /\ target # "unrouted"                   -> <<RespSite, 0>>
           [] phase = "after" /\ i <= na                                   -> <<"after", i>>
           [] phase = "resp" /\ left # <<>>                                -> <<"resp", Head(left)>>
           [] phase = "handle" /\ Handler(pend.cls) > Len(Defaults)        -> <<"handler", reg[Handler(pend.cls)].obj>>
           [] OTHER                                                        -> <<"", 0>>

RenderEvent == phase = "render" /\ HaveEv /\ Ev.site = "render"

Silent ==
    /\ MSite[1] = "" /\ ~RenderEvent /\ phase \notin {"end", "setup"}
    /\ \/ ReqSkip \/ ReqDone \/ Route \/ RsrcSkip \/ RsrcDone \/ BeforeDone \/ NotFound \/ AfterDone \/ RespDone
       \/ (phase = "handle" /\ HandleCall)
       \/ RenderCall("ret", "")
    /\ UNCHANGED tvars

Fail(v) == /\ verdict' = v /\ st' = "fin" /\ UNCHANGED <<vars, tid, r, l, dnote>>

ActsAt(site) == IF site \in {"req", "rsrc"} THEN {"ret", "complete", "raise"} ELSE {"ret", "raise"}
ExpRes == IF MSite[1] \in {"rsrc", "before", "after", "responder"} THEN TRUE
          ELSE IF MSite[1] = "resp" THEN hasres ELSE FALSE

Consume ==
    /\ MSite[1] # ""
    /\ IF ~HaveEv THEN Fail("P3:missing")
       ELSE IF <<Ev.site, Ev.c>> # MSite
              THEN Fail(IF MSite[1] = "handler" \/ Ev.site = "handler" THEN "P4:handler" ELSE "P3:order")
       ELSE IF MSite[1] = "resp" /\ Ev.ok # succeeded THEN Fail("P3:succeeded")
       ELSE IF MSite[1] = "handler" /\ Ev.x # ObsIdx(pend.idx) THEN Fail("P4:instance")
       ELSE IF MSite[1] = "handler" /\ Ev.act # HandlerAct(reg[Handler(pend.cls)].beh) THEN Fail("H:handler-act")
       ELSE IF MSite[1] # "handler" /\ Ev.act \notin ActsAt(MSite[1]) THEN Fail("H:act")
       ELSE IF MSite[1] # "handler" /\ Ev.act = "raise" /\ Ev.cls \notin DOMAIN TMro THEN Fail("H:cls")
       ELSE /\ \/ ReqCall(Ev.act, Ev.cls) \/ RsrcCall(Ev.act, Ev.cls) \/ BeforeCall(Ev.act, Ev.cls)
               \/ ResponderCall(Ev.act, Ev.cls) \/ AfterCall(Ev.act, Ev.cls) \/ RespCall(Ev.act, Ev.cls)
               \/ (phase = "handle" /\ HandleCall)
            /\ l' = l + 1
            /\ dnote' = (IF dnote = "ok" /\ MSite[1] # "handler" /\ Ev.res # ExpRes THEN "D:resource" ELSE dnote)
            /\ UNCHANGED <<tid, r, st, verdict>>

RenderFails ==
    /\ RenderEvent
    /\ IF body.k \notin {"mark", "hbad"} THEN Fail("P4:body")   \* the implementation rendered a body the model says is gone
       ELSE IF Ev.cls \notin DOMAIN TMro THEN Fail("H:cls")
       ELSE (RenderCall("raise", Ev.cls) \/ RenderBad(Ev.cls)) /\ l' = l + 1 /\ UNCHANGED <<tid, r, st, verdict, dnote>>

RenderMissing ==        \* the model holds an unserialisable body, the implementation rendered without failing
    /\ phase = "render" /\ body.k = "hbad" /\ ~RenderEvent /\ Fail("P4:body")

F == Rq.final
Tok(x) == IF x = 0 THEN 0 ELSE IF x > 0 THEN ObsIdx(x) ELSE -ObsIdx(-x)
ObsVary == {Tok(x) : x \in vary}
ObsHdrs == {ObsIdx(x) : x \in hdrs} \ {0}
ObsBody == IF body.k \in {"mark", "err", "stext", "hset", "hbad"} THEN [k |-> body.k, id |-> ObsIdx(body.id)] ELSE body
Fallback == pend.back = "fallback"
FinalP ==
    IF F.escaped # escaped THEN "P4:escaped"
    ELSE IF escaped THEN "ok"
    ELSE IF F.status # status THEN "P4:status"
    ELSE IF ~Fallback /\ F.body # ObsBody THEN (IF F.body.k = "mark" THEN "P4:stale" ELSE "P4:body")
    ELSE IF ~Fallback /\ body.k \in {"err", "stext"} /\ ObsIdx(body.id) # 0 /\ ObsIdx(body.id) \notin SetOf(F.hdrs)
           THEN "P4:ownheaders"
    ELSE IF ~(ObsVary \subseteq SetOf(F.vary)) THEN "P4:vary"
    ELSE "ok"
FinalD ==
    IF escaped \/ F.escaped THEN "ok"
    ELSE IF Fallback /\ F.body # ObsBody THEN "D:renderfallback"
    ELSE IF SetOf(F.hdrs) # ObsHdrs THEN "D:headers"
    ELSE IF SetOf(F.vary) # ObsVary THEN "D:vary"
    ELSE "ok"

Finish ==
    /\ phase = "end" /\ st = "run"
    /\ IF HaveEv THEN Fail("P3:extra")
       ELSE IF FinalP # "ok" THEN Fail(FinalP)
       ELSE /\ dnote' = (IF dnote = "ok" THEN FinalD ELSE dnote)
            /\ IF r < Len(T.reqs)
                 THEN NextRequest /\ r' = r + 1 /\ l' = 1 /\ UNCHANGED <<tid, st, verdict>>
                 ELSE st' = "fin" /\ UNCHANGED <<vars, tid, r, l, verdict>>

Done ==
    /\ st = "fin"
    /\ PrintT(<<"VERDICT", tid, (IF verdict = "ok" THEN dnote ELSE verdict), (r - 1) * 1000 + l - 1>>)
    /\ st' = "done" /\ UNCHANGED <<vars, tid, r, l, verdict, dnote>>

TNext == \/ (st = "run" /\ (Setup \/ Silent \/ Consume \/ RenderFails \/ RenderMissing \/ Finish))
         \/ Done
TSpec == TInit /\ [][TNext]_<<vars, tvars>>
Sound == st = "run" => verdict = "ok"
=========================================================================
