INIT MCInit
NEXT PNext
CONSTANTS
  Stacks = {"wsgi", "asgi"}
  Framings <- MCFramings
  CTypes <- PCTypes
  HandlerOf <- MCHandlerOf
  BodyKinds <- PBodyKinds
  CacheError = TRUE
  CacheDefault = FALSE
  HandlerDecidesEmpty = TRUE
  KeepFirstError = TRUE
  Contexts <- MCContexts
  Depth = 5
INVARIANT Emit
