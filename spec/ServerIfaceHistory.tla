------------------------- MODULE ServerIfaceHistory -------------------------
(* C06, histories: one application object serves a sequence of requests.

   With every request (and its response) the API hands the application mutable containers
   (ServerIface!Containers).  A request either brings content of its own for them (it has a query
   string, cookies, ...) or it does not.  While serving request k the application writes a mark k
   into some of its containers.  The design: every request gets containers of its own, so at its
   arrival request n sees no mark of any earlier request -- its view is a function of request n alone.

   SharedFallback is the wrong-design switch: requests that bring nothing of their own are handed one
   object shared by all such requests (a class-level default), so marks survive into later requests. *)
EXTENDS Integers, Sequences, FiniteSets, TLC, Json

CONSTANTS MaxRequests,     \* length of a history
          SharedFallback   \* wrong design: one shared object for all requests without content of their own

Containers == {"params", "context", "cookies", "headers", "extras", "resp_context"}
(* which containers the application writes into while serving one request *)
WriterSets == << {}, {"params"}, {"context", "resp_context"}, {"params", "cookies", "headers"}, {"extras"}, Containers >>

VARIABLES n,        \* requests arrived so far; the current request writes the mark n
          phase,    \* "idle" | "arrived" | "written"
          own,      \* does the current request bring content of its own
          held,     \* container -> marks visible in the current request's container
          shared,   \* container -> marks in the shared object (only reachable under SharedFallback)
          h         \* the history: [own, writes, seen] per request; seen = marks visible at arrival
vars == <<n, phase, own, held, shared, h>>

Empty == [c \in Containers |-> {}]
Init == n = 0 /\ phase = "idle" /\ own = TRUE /\ held = Empty /\ shared = Empty /\ h = <<>>

UsesShared(o) == SharedFallback /\ ~o
Arrive(o) ==
    /\ phase = "idle" /\ n < MaxRequests
    /\ n' = n + 1 /\ own' = o /\ phase' = "arrived"
    /\ held' = (IF UsesShared(o) THEN shared ELSE Empty)          \* fresh containers, by design
    /\ h' = Append(h, [own |-> o, writes |-> {}, seen |-> held'])
    /\ UNCHANGED shared
Write(W) ==
    /\ phase = "arrived"
    /\ held' = [c \in Containers |-> IF c \in W THEN held[c] \cup {n} ELSE held[c]]
    /\ shared' = (IF UsesShared(own) THEN held' ELSE shared)
    /\ h' = [h EXCEPT ![n].writes = W]
    /\ phase' = "written" /\ UNCHANGED <<n, own>>
Finish == phase = "written" /\ phase' = "idle" /\ UNCHANGED <<n, own, held, shared, h>>

XArrive == \E o \in BOOLEAN : Arrive(o)
XWrite  == \E i \in 1..Len(WriterSets) : Write(WriterSets[i])
XFinish == Finish
Next == XArrive \/ XWrite \/ XFinish
Spec == Init /\ [][Next]_vars

(* what a request finds in its containers never stems from an earlier request *)
ViewIndependentOfHistory == \A c \in Containers : held[c] \subseteq {n}
SeenNothingForeign == \A i \in 1..Len(h) : \A c \in Containers : h[i].seen[c] = {}

(* export: complete histories *)
Emit == (n = MaxRequests /\ phase = "idle") => PrintT(ToJson([steps |-> h]))
=============================================================================
