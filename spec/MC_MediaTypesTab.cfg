INIT Init
NEXT XNext
CONSTANTS
  Ranges <- RangesT
  MTypes <- MTypesT
  AllM <- AllMT
  MaxRanges = 2
  MaxCands = 0
  SubBeforeExact = TRUE
  Positive = TRUE
  QSplits = FALSE
INVARIANT EmitTable
