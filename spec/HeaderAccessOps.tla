------------------------- MODULE HeaderAccessOps -------------------------
(* C09: typed request-header accessors, read at TOKEN level.

   A header value is a sequence of tokens; a token is a short string and the wire text of
   the value is the concatenation of its tokens (Cat).  Every grammar below says, for a
   token sequence, whether it is a syntactically valid value of the header (RFC 9110
   Range / Content-Length / entity-tag lists, RFC 7239 Forwarded, RFC 3986 authority for
   Host) and, if so, which value the accessor has to report:

       Val(..)   the header is valid: the accessor must return exactly this value
       AnyOut       the header is not (provably) valid at token level: any lenient value or
                 a 400-class HTTP error is acceptable; any other exception is not
       Doc400    the framework documents a 400 for this (multi-range); a detail clause

   Soundness rule of the token reading: `Val` is only claimed when every token sits in a
   position where it cannot fuse with a neighbour into something else, so two token
   sequences with the same text never get two different `Val`s (`AnyOut` is always sound).

   Values are uniform records [k, s, i, l] (string / integer tuple / string list) so that
   behaviours serialise uniformly and TLC never compares values of different kinds. *)
EXTENDS Integers, Sequences, FiniteSets, TLC

NIL == "~nil~"                       \* None / absent

Out(k, s, i, l) == [k |-> k, s |-> s, i |-> i, l |-> l]
ValS(s) == Out("value", s, <<>>, <<>>)
ValI(i) == Out("value", "#i", i, <<>>)
ValL(l) == Out("value", "#l", <<>>, l)
None    == ValS(NIL)
AnyOut     == Out("any", NIL, <<>>, <<>>)
Doc400  == Out("doc400", NIL, <<>>, <<>>)
Val400(s) == Out("value400", s, <<>>, <<>>)     \* this value, or a 400 the framework documents (obs-date without obs_date=True)
IsVal(o) == o.k = "value"

(* ---------------------------------------------------------------- sequences of tokens *)
RECURSIVE Cat(_)
Cat(ts) == IF ts = <<>> THEN "" ELSE Head(ts) \o Cat(Tail(ts))

Has(ts, t) == \E i \in 1..Len(ts) : ts[i] = t
All(ts, S) == \A i \in 1..Len(ts) : ts[i] \in S
Idx(ts, t) == LET S == {i \in 1..Len(ts) : ts[i] = t}
              IN  IF S = {} THEN 0 ELSE CHOOSE i \in S : \A j \in S : i <= j
Before(ts, k) == SubSeq(ts, 1, k - 1)
After(ts, k)  == SubSeq(ts, k + 1, Len(ts))

RECURSIVE Split(_, _)
Split(ts, sep) == LET k == Idx(ts, sep)
                  IN  IF k = 0 THEN <<ts>> ELSE <<Before(ts, k)>> \o Split(After(ts, k), sep)

SP == " "
RECURSIVE LStrip(_)
LStrip(ts) == IF ts # <<>> /\ Head(ts) = SP THEN LStrip(Tail(ts)) ELSE ts
RECURSIVE RStrip(_)
RStrip(ts) == IF ts # <<>> /\ ts[Len(ts)] = SP THEN RStrip(SubSeq(ts, 1, Len(ts) - 1)) ELSE ts
Trim(ts) == RStrip(LStrip(ts))                       \* OWS around a list element

(* the non-empty, OWS-trimmed elements of an RFC 9110 section 5.6.1 comma list *)
RECURSIVE NonEmpty(_)
NonEmpty(ss) == IF ss = <<>> THEN <<>>
                ELSE IF Head(ss) = <<>> THEN NonEmpty(Tail(ss)) ELSE <<Head(ss)>> \o NonEmpty(Tail(ss))
ListElems(ts) == LET parts == Split(ts, ",") IN NonEmpty([j \in 1..Len(parts) |-> Trim(parts[j])])
(* OWS is only legal next to a comma: the value itself neither starts nor ends with it *)
NoEdgeSpace(ts) == ts # <<>> /\ ts[1] # SP /\ ts[Len(ts)] # SP

(* ------------------------------------------------------------------------- numbers *)
Digits   == {"0", "1", "2", "3", "4", "5", "6", "7", "8", "9"}
DigitVal == ("0" :> 0) @@ ("1" :> 1) @@ ("2" :> 2) @@ ("3" :> 3) @@ ("4" :> 4) @@
            ("5" :> 5) @@ ("6" :> 6) @@ ("7" :> 7) @@ ("8" :> 8) @@ ("9" :> 9)
IsNum(ts) == ts # <<>> /\ All(ts, Digits) /\ Len(ts) <= 9       \* TLC integers are 32 bit
RECURSIVE NumVal(_)
NumVal(ts) == IF ts = <<>> THEN 0 ELSE NumVal(SubSeq(ts, 1, Len(ts) - 1)) * 10 + DigitVal[ts[Len(ts)]]

(* numerals beyond TLC's integers (first-pos / last-pos / suffix-length = 1*DIGIT has no upper bound, RFC 9110 14.1.1
   asks recipients to anticipate large numerals): ONE big token, possibly after leading "0" tokens.  Order by table. *)
BigRank == ("9223372036854775807" :> 1) @@ ("9223372036854775808" :> 2) @@          \* 2^63 - 1, 2^63
           ("18446744073709551615" :> 3) @@ ("18446744073709551616" :> 4) @@        \* 2^64 - 1, 2^64
           ("9999999999999999999999999" :> 5)                                       \* 25 digits
BigToks == DOMAIN BigRank
RECURSIVE StripZeros(_)
StripZeros(ts) == IF Len(ts) > 1 /\ Head(ts) = "0" THEN StripZeros(Tail(ts)) ELSE ts
IsBig(ts)  == ts # <<>> /\ LET z == StripZeros(ts) IN Len(z) = 1 /\ z[1] \in BigToks
BigTxt(ts) == StripZeros(ts)[1]                                   \* canonical decimal spelling
BigPair(a, b) == ValS("#big:(" \o a \o ", " \o b \o ")")          \* the harness' spelling of a pair with a member >= 2^31

(* ---------------------------------------------------------------------------- Range *)
(* Range = range-unit "=" range-set ; range-unit = token ; range-set = 1#range-spec ;
   range-spec = int-range / suffix-range / other-range                  (RFC 9110 14.1) *)
RangeUnitToks == {"bytes", "items", "x", "-"} \cup Digits \cup BigToks   \* all made of tchar
RangeTokens   == RangeUnitToks \cup {"=", ",", SP}

RangeSplit(ts) == LET k == Idx(ts, "=") IN [ok |-> k > 0, unit |-> Before(ts, k), set |-> After(ts, k)]

ByteRangeSpec(rs) ==                     \* one range-spec of the bytes unit, no comma inside
    LET k == Idx(rs, "-")
        a == Before(rs, k)
        b == After(rs, k)
    IN  IF k = 0 THEN AnyOut
        ELSE IF IsNum(a) /\ IsNum(b) THEN (IF NumVal(b) >= NumVal(a) THEN ValI(<<NumVal(a), NumVal(b)>>) ELSE AnyOut)
        ELSE IF IsNum(a) /\ b = <<>> THEN ValI(<<NumVal(a), -1>>)
        ELSE IF a = <<>> /\ IsNum(b) THEN (IF NumVal(b) > 0 THEN ValI(<<0 - NumVal(b), -1>>) ELSE AnyOut)
        ELSE IF IsBig(a) /\ b = <<>> THEN BigPair(BigTxt(a), "-1")
        ELSE IF a = <<>> /\ IsBig(b) THEN BigPair("-" \o BigTxt(b), "-1")
        ELSE IF IsNum(a) /\ IsBig(b) THEN BigPair(ToString(NumVal(a)), BigTxt(b))
        ELSE IF IsBig(a) /\ IsBig(b)
             THEN (IF BigRank[BigTxt(a)] <= BigRank[BigTxt(b)] THEN BigPair(BigTxt(a), BigTxt(b)) ELSE AnyOut)
        ELSE AnyOut

RangeOutcome(ts) ==
    LET p == RangeSplit(ts)
    IN  IF ~p.ok THEN AnyOut
        ELSE IF Has(p.set, ",") THEN Doc400                       \* "only continuous ranges are supported"
        ELSE IF p.unit # <<"bytes">> THEN AnyOut                      \* other-range: meaning is unit specific
        ELSE ByteRangeSpec(p.set)

RangeUnitOutcome(ts) ==
    LET p == RangeSplit(ts)
    IN  IF p.ok /\ p.unit # <<>> /\ All(p.unit, RangeUnitToks)
           /\ ~Has(p.set, SP) /\ (\E j \in 1..Len(p.set) : p.set[j] # ",")
        THEN ValS(Cat(p.unit)) ELSE AnyOut

(* -------------------------------------------------------------------- Content-Length *)
(* Content-Length = 1*DIGIT, ASCII digits only.  Characters that merely look like digits (the latin-1
   superscripts, spelled \u{hex}) and digit runs beyond what an integer conversion accepts (spelled
   \r{char*count}, expanded by the harness) are not in Digits / exceed the 9-digit cap: value-or-400. *)
CLenOdd    == {"\\u{b2}", "\\u{b3}", "\\u{b9}", "\\r{9*4300}", "\\r{9*4301}", "\\r{1*5000}"}
CLenTokens == Digits \cup {"-", "+", SP, ",", "x", "_"} \cup CLenOdd
CLenOutcome(ts) == IF IsNum(ts) THEN ValI(<<NumVal(ts)>>) ELSE AnyOut

(* ------------------------------------------------------------------ entity-tag lists *)
(* If-Match = "*" / #entity-tag ; entity-tag = [ "W/" ] DQUOTE *etagc DQUOTE   (RFC 9110 8.8.3, 13.1) *)
(* etagc = %x21 / %x23-7E / obs-text: a tag may carry bytes >= 0x80.  TLC strings stay ASCII, so such a
   byte is spelled \u{hex} in the token (the harness puts the real latin-1 byte on the wire and spells
   observed values the same way). *)
QTagVal == ("\"a\"" :> "a") @@ ("\"b,c\"" :> "b,c") @@ ("\"\"" :> "") @@ ("\"W/x\"" :> "W/x") @@
           ("\"caf\\u{e9}-1\"" :> "caf\\u{e9}-1") @@ ("\"\\u{fc}\\u{80}\"" :> "\\u{fc}\\u{80}")
QTags   == DOMAIN QTagVal
ETagTokens == QTags \cup {"W/", "w/", "*", ",", SP, "x", "\""}
Tag(weak, q) == (IF weak THEN "W/" ELSE "") \o "\"" \o QTagVal[q] \o "\""     \* canonical spelling of one tag
ETagElemOk(e) == (Len(e) = 1 /\ e[1] \in QTags) \/ (Len(e) = 2 /\ e[1] = "W/" /\ e[2] \in QTags)
ETagElem(e)   == IF Len(e) = 1 THEN Tag(FALSE, e[1]) ELSE Tag(TRUE, e[2])
ETagsOutcome(ts) ==
    IF ts = <<"*">> THEN ValL(<<"*">>)
    ELSE LET es == ListElems(ts)
         IN  IF NoEdgeSpace(ts) /\ es # <<>> /\ (\A j \in 1..Len(es) : ETagElemOk(es[j]))
             THEN ValL([j \in 1..Len(es) |-> ETagElem(es[j])]) ELSE AnyOut

(* ------------------------------------------------------------------------- Forwarded *)
(* Forwarded = 1#forwarded-element ; forwarded-element = [pair] *( ";" [pair] ) ;
   pair = token "=" ( token / quoted-string ) ; names case-insensitive, at most once
   per element ; node = nodename [ ":" ( port / obfport ) ]               (RFC 7239 4, 6)
   A pair is ONE token here; the table gives its parameter, its unquoted value and, for
   `for`, the node name without port and without the IPv6 brackets. *)
P(n, v, node) == [n |-> n, v |-> v, node |-> node]
FwdPair ==
    ("for=192.0.2.43"               :> P("for", "192.0.2.43", "192.0.2.43")) @@
    ("For=\"[2001:db8::1]:4711\""   :> P("for", "[2001:db8::1]:4711", "2001:db8::1")) @@
    ("for=\"[2001:db8::17]\""       :> P("for", "[2001:db8::17]", "2001:db8::17")) @@
    ("for=\"192.0.2.60:8080\""      :> P("for", "192.0.2.60:8080", "192.0.2.60")) @@
    ("for=\"198.51.100.17:_p0\""    :> P("for", "198.51.100.17:_p0", "198.51.100.17")) @@   \* obfuscated port
    ("for=\"_gazonk\""              :> P("for", "_gazonk", "_gazonk")) @@
    ("for=unknown"                  :> P("for", "unknown", "unknown")) @@
    ("for=127.0.0.1"                :> P("for", "127.0.0.1", "127.0.0.1")) @@
    ("by=203.0.113.43"              :> P("by", "203.0.113.43", NIL)) @@
    ("BY=\"_a\\_b\""                :> P("by", "_a_b", NIL)) @@                              \* quoted-pair
    ("host=example.org"             :> P("host", "example.org", NIL)) @@
    ("Host=\"h.example.org:8443\""  :> P("host", "h.example.org:8443", NIL)) @@
    ("proto=https"                  :> P("proto", "https", NIL)) @@
    ("proto=http"                   :> P("proto", "http", NIL)) @@
    ("PROTO=HTTPS"                  :> P("proto", "https", NIL)) @@      \* RFC 3986 3.1: schemes are case-insensitive, canonical form lower case
    ("ext=1"                        :> P("ext", "1", NIL))
FwdPairs  == DOMAIN FwdPair
FwdTokens == FwdPairs \cup {";", ",", SP, "@", "=", "for", "for=\"open"}

FwdElemOk(e) ==                       \* e: one comma-list element, OWS already trimmed
    LET slots == Split(e, ";")
        pairs == NonEmpty(slots)
    IN  /\ \A j \in 1..Len(slots) : slots[j] = <<>> \/ (Len(slots[j]) = 1 /\ slots[j][1] \in FwdPairs)
        /\ \A j, k \in 1..Len(pairs) : j # k => FwdPair[pairs[j][1]].n # FwdPair[pairs[k][1]].n
Param(e, name, field) ==               \* value of parameter `name` in element e, NIL if absent
    LET S == {j \in 1..Len(e) : e[j] \in FwdPairs /\ FwdPair[e[j]].n = name}
    IN  IF S = {} THEN NIL ELSE FwdPair[e[CHOOSE j \in S : TRUE]][field]
FwdElem(e) == [src |-> Param(e, "for", "v"), dest |-> Param(e, "by", "v"), host |-> Param(e, "host", "v"),
               scheme |-> Param(e, "proto", "v"), node |-> Param(e, "for", "node")]
HasPair(e) == \E j \in 1..Len(e) : e[j] \in FwdPairs
RECURSIVE WithPairs(_)
WithPairs(es) == IF es = <<>> THEN <<>>
                 ELSE IF HasPair(Head(es)) THEN <<Head(es)>> \o WithPairs(Tail(es)) ELSE WithPairs(Tail(es))
(* [ok, es]: validity and the elements that carry at least one pair, in order *)
FwdParse(ts) ==
    LET es == ListElems(ts)
        ok == NoEdgeSpace(ts) /\ (\A j \in 1..Len(es) : FwdElemOk(es[j])) /\ WithPairs(es) # <<>>
        ws == WithPairs(es)
    IN  [ok |-> ok, es |-> IF ok THEN [j \in 1..Len(ws) |-> FwdElem(ws[j])] ELSE <<>>]
RECURSIVE Flat4(_)
Flat4(es) == IF es = <<>> THEN <<>>
             ELSE <<Head(es).src, Head(es).dest, Head(es).host, Head(es).scheme>> \o Flat4(Tail(es))
ForwardedOutcome(ts) == LET p == FwdParse(ts) IN IF p.ok THEN ValL(Flat4(p.es)) ELSE AnyOut

(* -------------------------------------------------- X-Forwarded-For / X-Real-IP (de facto) *)
AddrTokens == {"192.0.2.1", "2001:db8::2", "unknown", "127.0.0.1"}
XffTokens  == AddrTokens \cup {",", SP, "x y"}
XffParse(ts) ==
    LET parts == Split(ts, ",")
        es    == [j \in 1..Len(parts) |-> Trim(parts[j])]
    IN  [ok |-> \A j \in 1..Len(es) : Len(es[j]) = 1 /\ es[j][1] \in AddrTokens,
         l  |-> [j \in 1..Len(es) |-> IF es[j] = <<>> THEN NIL ELSE es[j][1]]]

(* ------------------------------------------------------------------------------ Host *)
(* Host = uri-host [ ":" port ] ; uri-host = IP-literal / IPv4address / reg-name ; port = *DIGIT
   (RFC 9110 7.2, RFC 3986 3.2.2-3).  The reported host is the name or address itself: an
   IP-literal is reported without its brackets (as urllib.parse does). *)
V6Inner   == ("[::1]" :> "::1") @@ ("[2001:db8::1]" :> "2001:db8::1")
V6Toks    == DOMAIN V6Inner
(* leftmost label of a name token, and whether the token contains a dot *)
NameLabel == ("localhost" :> <<"localhost", FALSE>>) @@ ("example.com" :> <<"example", TRUE>>) @@
             ("api." :> <<"api", TRUE>>) @@ ("abc" :> <<"abc", FALSE>>) @@ ("_p" :> <<"_p", FALSE>>)
NameToks  == DOMAIN NameLabel
RegToks   == NameToks \cup {"192.0.2.7"} \cup Digits          \* unreserved characters only
HostTokens == RegToks \cup V6Toks \cup {":", "[", "]", SP, "@"}

RECURSIVE LeftLabel(_)
LeftLabel(ts) ==                      \* ts: name tokens only; <<label, has-dot>>
    IF ts = <<>> THEN <<"", FALSE>>
    ELSE IF NameLabel[Head(ts)][2] THEN <<NameLabel[Head(ts)][1], TRUE>>
    ELSE LET r == LeftLabel(Tail(ts)) IN <<Head(ts) \o r[1], r[2]>>

(* [ok, host, hasport, port, names]: port = -1 when absent or empty *)
HostParse(ts) ==
    LET bad == [ok |-> FALSE, host |-> NIL, port |-> -1, names |-> FALSE, hp |-> <<>>]
        k   == Idx(ts, ":")
        hp  == IF ts # <<>> /\ ts[1] \in V6Toks THEN <<ts[1]>> ELSE IF k = 0 THEN ts ELSE Before(ts, k)
        rest == SubSeq(ts, Len(hp) + 1, Len(ts))                \* "" or ":" port
        pd  == IF rest = <<>> THEN <<>> ELSE Tail(rest)
    IN  IF ts = <<>> \/ hp = <<>> THEN bad
        ELSE IF ~(rest = <<>> \/ (rest[1] = ":" /\ (pd = <<>> \/ IsNum(pd)))) THEN bad
        ELSE IF hp[1] \in V6Toks
             THEN [ok |-> TRUE, host |-> V6Inner[hp[1]], port |-> IF pd = <<>> THEN -1 ELSE NumVal(pd),
                   names |-> FALSE, hp |-> hp]
        ELSE IF All(hp, RegToks)
             THEN [ok |-> TRUE, host |-> Cat(hp), port |-> IF pd = <<>> THEN -1 ELSE NumVal(pd),
                   names |-> All(hp, NameToks), hp |-> hp]
        ELSE bad

(* ---------------------------------------------------------------------------- Accept *)
(* Accept = #( media-range [ weight ] ) (RFC 9110 12.5.1).  One list element is ONE token; the table gives
   type, subtype, whether the range carries media-type parameters (quoted ones included) and the weight in
   thousandths.  The most specific matching range decides.  Whether a range WITH parameters covers a
   parameterless media type is read both ways (strictly: no; leniently: yes, below the parameterless exact
   range); a value is only specified where both readings and all ranges of the deciding level agree. *)
R(t, st, p, q) == [t |-> t, st |-> st, p |-> p, q |-> q]
AccRange ==
    ("application/json"                      :> R("application", "json", FALSE, 1000)) @@
    ("application/json;q=0.5"                :> R("application", "json", FALSE, 500)) @@
    ("application/xml;q=0"                   :> R("application", "xml", FALSE, 0)) @@
    ("application/xml;v=\"1\";q=0.9"         :> R("application", "xml", TRUE, 900)) @@
    ("text/plain;charset=\"utf-8\";q=0"      :> R("text", "plain", TRUE, 0)) @@
    ("text/plain;charset=\"utf-8\""          :> R("text", "plain", TRUE, 1000)) @@
    ("text/plain;q=0.7"                      :> R("text", "plain", FALSE, 700)) @@
    ("text/*;q=0.3"                          :> R("text", "*", FALSE, 300)) @@
    ("*/*;q=0.1"                             :> R("*", "*", FALSE, 100)) @@
    ("*/*;q=0"                               :> R("*", "*", FALSE, 0))
AccRanges    == DOMAIN AccRange
AcceptTokens == AccRanges \cup {",", SP, "x", ";q=2"}
AccParse(ts) ==
    LET parts == Split(ts, ",")
        es    == [j \in 1..Len(parts) |-> Trim(parts[j])]
        ok    == NoEdgeSpace(ts) /\ (\A j \in 1..Len(es) : Len(es[j]) = 1 /\ es[j][1] \in AccRanges)
    IN  [ok |-> ok, rs |-> IF ok THEN [j \in 1..Len(es) |-> AccRange[es[j][1]]] ELSE <<>>]
(* specificity of range r for the parameterless media type T = <<type, subtype>>; -1: no match *)
AccLevel(r, T) == IF r.t = T[1] /\ r.st = T[2] THEN (IF r.p THEN 2 ELSE 3)
                  ELSE IF r.t = T[1] /\ r.st = "*" THEN 1
                  ELSE IF r.t = "*" /\ r.st = "*" THEN 0 ELSE -1
(* weight decided by the levels in Lv: the single weight of the highest non-empty level, 0 if none, -1 if ambiguous *)
AccQ(rs, T, Lv) ==
    LET At(lv) == {rs[j].q : j \in {k \in 1..Len(rs) : AccLevel(rs[k], T) = lv}}
        top    == {lv \in Lv : At(lv) # {}}
    IN  IF top = {} THEN 0
        ELSE LET m == CHOOSE lv \in top : \A o \in top : o <= lv
             IN  IF Cardinality(At(m)) = 1 THEN CHOOSE q \in At(m) : TRUE ELSE -1
Quality(rs, T) == LET strict == AccQ(rs, T, {3, 1, 0})
                      lenient == AccQ(rs, T, {3, 2, 1, 0})
                  IN  IF strict = lenient THEN strict ELSE -1
TJson == <<"application", "json">>
TXml  == <<"application", "xml">>
TText == <<"text", "plain">>
TName(T) == T[1] \o "/" \o T[2]
PrefersPool == <<TText, TJson, TXml>>          \* the harness asks client_prefers() for these, in this order

(* ------------------------------------------------------------------------- HTTP-date *)
(* HTTP-date = IMF-fixdate / obs-date ; obs-date = rfc850-date / asctime-date        (RFC 9110 5.6.7)
   read SLOT by slot; a value is a fixed-length token sequence, one token per slot ("" = nothing there):
     IMF-fixdate   << day-name,   ",", SP, day, SP,  month, SP,  4DIGIT, SP, time, SP, "GMT", tail >>      13 slots
     rfc850-date   << day-name-l, ",", SP, day, "-", month, "-", 2DIGIT, SP, time, SP, "GMT", tail >>      13 slots
     asctime-date  << day-name, SP, month, SP, ( 2DIGIT / SP 1DIGIT ), SP, time, SP, 4DIGIT, tail >>       10 slots
   Each slot has a table of valid and near-valid spellings.  A value is a valid HTTP-date iff every slot holds
   a valid spelling of its kind, the separators and the zone are exactly the grammar's, the tail is empty, the
   day exists in that month of that year and the day name is the one of that date (RFC 5322 3.3 for IMF-fixdate;
   a date whose day name contradicts it denotes no instant).  Then the instant is specified (spelled ISO 8601,
   UTC, as the harness spells an aware datetime); everything else is value-or-400. *)
DN(i, long) == [i |-> i, long |-> long]                  \* i: 0 = Monday .. 6 = Sunday
DayName == ("Mon" :> DN(0, FALSE)) @@ ("Tue" :> DN(1, FALSE)) @@ ("Wed" :> DN(2, FALSE)) @@ ("Thu" :> DN(3, FALSE)) @@
           ("Fri" :> DN(4, FALSE)) @@ ("Sat" :> DN(5, FALSE)) @@ ("Sun" :> DN(6, FALSE)) @@
           ("Monday" :> DN(0, TRUE)) @@ ("Tuesday" :> DN(1, TRUE)) @@ ("Wednesday" :> DN(2, TRUE)) @@
           ("Thursday" :> DN(3, TRUE)) @@ ("Friday" :> DN(4, TRUE)) @@ ("Saturday" :> DN(5, TRUE)) @@ ("Sunday" :> DN(6, TRUE))
DayNameOdd == {"Don", "Thx", "sun", "SUN", "thu", "TUESDAY", "Sun.", "Sonntag", ""}     \* not English / wrong case / missing
MonthNum == ("Jan" :> 1) @@ ("Feb" :> 2) @@ ("Mar" :> 3) @@ ("Apr" :> 4) @@ ("May" :> 5) @@ ("Jun" :> 6) @@
            ("Jul" :> 7) @@ ("Aug" :> 8) @@ ("Sep" :> 9) @@ ("Oct" :> 10) @@ ("Nov" :> 11) @@ ("Dec" :> 12)
MonthOdd == {"Avr", "Mai", "Okt", "Xxx", "apr", "APR", "nov", "DEC", "November", "11", ""}
DT(v, form) == [v |-> v, form |-> form]                  \* form: "2d" two digits, "1d" one digit, "sp1d" SP digit
DayTok == ("01" :> DT(1, "2d")) @@ ("06" :> DT(6, "2d")) @@ ("15" :> DT(15, "2d")) @@ ("28" :> DT(28, "2d")) @@
          ("29" :> DT(29, "2d")) @@ ("30" :> DT(30, "2d")) @@ ("31" :> DT(31, "2d")) @@ ("00" :> DT(0, "2d")) @@
          ("32" :> DT(32, "2d")) @@ ("99" :> DT(99, "2d")) @@ ("6" :> DT(6, "1d")) @@ (" 6" :> DT(6, "sp1d")) @@
          (" 0" :> DT(0, "sp1d")) @@ ("006" :> DT(6, "3d"))
DayOdd == {"", "6th", "-6"}
YT(v, form) == [v |-> v, form |-> form]                  \* two-digit years: only those every reading of the
YearTok == ("1994" :> YT(1994, "y4")) @@ ("1996" :> YT(1996, "y4")) @@ ("2024" :> YT(2024, "y4")) @@     \* 50-year rule agrees on
           ("2000" :> YT(2000, "y4")) @@ ("1900" :> YT(1900, "y4")) @@ ("2023" :> YT(2023, "y4")) @@
           ("94" :> YT(1994, "y2")) @@ ("96" :> YT(1996, "y2")) @@ ("24" :> YT(2024, "y2")) @@ ("00" :> YT(2000, "y2"))
YearOdd == {"19945", "994", "", "-994", "1994.", "MCMXCIV"}
TimeTok == ("08:49:37" :> TRUE) @@ ("00:00:00" :> TRUE) @@ ("23:59:59" :> TRUE) @@ ("12:00:00" :> TRUE) @@
           ("24:00:00" :> FALSE) @@ ("23:60:00" :> FALSE) @@ ("08:99:00" :> FALSE) @@
           ("23:59:60" :> FALSE) @@        \* a leap second fits the grammar but is an instant only when one was inserted
           ("08:49:61" :> FALSE) @@ ("08:49:99" :> FALSE) @@ ("8:49:37" :> FALSE) @@ ("08:49" :> FALSE) @@
           ("08:49:37.5" :> FALSE) @@ ("08.49.37" :> FALSE) @@ ("" :> FALSE)
ZoneToks == {"GMT", "UTC", "+0000", "gmt", "Z", "EST", "GMT+1", ""}
SepToks  == {SP, "  ", "", "-", ",", "\\u{9}"}
TailToks == {"", SP, "x", " GMT", ";", " 1994"}
DateTokens == DOMAIN DayName \cup DayNameOdd \cup DOMAIN MonthNum \cup MonthOdd \cup DOMAIN DayTok \cup DayOdd
              \cup DOMAIN YearTok \cup YearOdd \cup DOMAIN TimeTok \cup ZoneToks \cup SepToks \cup TailToks

IsLeap(y)    == (y % 4 = 0 /\ y % 100 # 0) \/ y % 400 = 0
DaysIn(m, y) == IF m = 2 THEN (IF IsLeap(y) THEN 29 ELSE 28) ELSE IF m \in {4, 6, 9, 11} THEN 30 ELSE 31
CumDays      == <<0, 31, 59, 90, 120, 151, 181, 212, 243, 273, 304, 334>>
Ordinal(y, m, d) == 365 * (y - 1) + ((y - 1) \div 4) - ((y - 1) \div 100) + ((y - 1) \div 400)
                    + CumDays[m] + (IF m > 2 /\ IsLeap(y) THEN 1 ELSE 0) + d          \* proleptic Gregorian, 0001-01-01 = 1
Weekday(y, m, d) == (Ordinal(y, m, d) + 6) % 7                                       \* 0001-01-01 was a Monday
ASSUME /\ Weekday(1994, 11, 6) = 6 /\ Weekday(1970, 1, 1) = 3 /\ Weekday(2000, 2, 29) = 1      \* anchors (RFC 9110's own example;
       /\ Weekday(2024, 12, 31) = 1 /\ Weekday(1900, 3, 1) = 3 /\ ~IsLeap(1900) /\ IsLeap(2000)  \* the Unix epoch; leap rules)

D2(n) == IF n < 10 THEN "0" \o ToString(n) ELSE ToString(n)
DateCoreOk(dn, long, dt, forms, mt, yt, yform, tt) ==
    /\ dn \in DOMAIN DayName /\ DayName[dn].long = long
    /\ mt \in DOMAIN MonthNum
    /\ yt \in DOMAIN YearTok /\ YearTok[yt].form = yform
    /\ dt \in DOMAIN DayTok /\ DayTok[dt].form \in forms
    /\ DayTok[dt].v >= 1 /\ DayTok[dt].v <= DaysIn(MonthNum[mt], YearTok[yt].v)
    /\ tt \in DOMAIN TimeTok /\ TimeTok[tt]
    /\ DayName[dn].i = Weekday(YearTok[yt].v, MonthNum[mt], DayTok[dt].v)
Iso(yt, mt, dt, tt) == ToString(YearTok[yt].v) \o "-" \o D2(MonthNum[mt]) \o "-" \o D2(DayTok[dt].v) \o "T" \o tt \o "+00:00"
SlotsAre(ts, idx, toks) == \A j \in 1..Len(idx) : ts[idx[j]] = toks[j]
NoDate == [fmt |-> "none", iso |-> NIL]
DateParse(ts) ==
    IF Len(ts) = 13 /\ SlotsAre(ts, <<2, 3, 5, 7, 9, 11, 12, 13>>, <<",", SP, SP, SP, SP, SP, "GMT", "">>)
       /\ DateCoreOk(ts[1], FALSE, ts[4], {"2d"}, ts[6], ts[8], "y4", ts[10])
    THEN [fmt |-> "imf", iso |-> Iso(ts[8], ts[6], ts[4], ts[10])]
    ELSE IF Len(ts) = 13 /\ SlotsAre(ts, <<2, 3, 5, 7, 9, 11, 12, 13>>, <<",", SP, "-", "-", SP, SP, "GMT", "">>)
            /\ DateCoreOk(ts[1], TRUE, ts[4], {"2d"}, ts[6], ts[8], "y2", ts[10])
    THEN [fmt |-> "rfc850", iso |-> Iso(ts[8], ts[6], ts[4], ts[10])]
    ELSE IF Len(ts) = 10 /\ SlotsAre(ts, <<2, 4, 6, 8, 10>>, <<SP, SP, SP, SP, "">>)
            /\ DateCoreOk(ts[1], FALSE, ts[5], {"2d", "sp1d"}, ts[3], ts[9], "y4", ts[7])
    THEN [fmt |-> "asctime", iso |-> Iso(ts[9], ts[3], ts[5], ts[7])]
    ELSE NoDate
(* obs: the caller asked for the obsolete formats too (get_header_as_datetime(.., obs_date=True)).  Without it the
   framework documents RFC 1123 dates only: an obs-date is then "this instant, or 400" - never another instant. *)
DateOutcome(ts, obs) == LET p == DateParse(ts)
                        IN  IF p.fmt = "none" THEN AnyOut
                            ELSE IF p.fmt = "imf" \/ obs THEN ValS(p.iso) ELSE Val400(p.iso)
DateStrict(ts) == DateOutcome(ts, FALSE)
DateObs(ts)    == DateOutcome(ts, TRUE)

(* ---------------------------------------------------------------------- the request *)
(* req = [scheme, server |-> <<name, port>>, peer, root, path, query,
          h |-> [header name |-> [p |-> present, o |-> opaque, t |-> tokens]]]
   An opaque value (o) is one the harness could not express in tokens: everything derived
   from it is `AnyOut`. *)
HNames == {"range", "content-length", "if-match", "if-none-match", "forwarded", "x-forwarded-for",
           "x-real-ip", "x-forwarded-proto", "x-forwarded-host", "host", "accept",
           "date", "if-modified-since", "if-unmodified-since"}
Absent == [p |-> FALSE, o |-> FALSE, t |-> <<>>]
Hdr(ts) == [p |-> TRUE, o |-> FALSE, t |-> ts]

Typed(req, name, F(_)) ==             \* accessor over one header: None when the header is absent
    LET h == req.h[name] IN IF ~h.p THEN None ELSE IF h.o THEN AnyOut ELSE F(h.t)

(* http and ws (a WebSocket handshake, ASGI only) default to 80, https and wss to 443 (RFC 9110 4.2, RFC 6455 3) *)
AllSchemes == {"http", "https", "ws", "wss"}
DefaultPort(req) == IF req.scheme \in {"https", "wss"} THEN 443 ELSE 80
Itoa(n) == ToString(n)

HostInfo(req) == HostParse(req.h["host"].t)
HostOk(req)   == req.h["host"].p /\ ~req.h["host"].o /\ HostInfo(req).ok

HostOutcome(req) ==
    IF ~req.h["host"].p THEN ValS(req.server[1])
    ELSE IF HostOk(req) THEN ValS(HostInfo(req).host) ELSE AnyOut
PortOutcome(req) ==
    IF ~req.h["host"].p THEN ValI(<<req.server[2]>>)
    ELSE IF HostOk(req) THEN ValI(<<IF HostInfo(req).port = -1 THEN DefaultPort(req) ELSE HostInfo(req).port>>)
    ELSE AnyOut
NetlocOutcome(req) ==
    IF ~req.h["host"].p
    THEN ValS(IF req.server[2] = DefaultPort(req) THEN req.server[1] ELSE req.server[1] \o ":" \o Itoa(req.server[2]))
    ELSE IF HostOk(req) THEN ValS(Cat(req.h["host"].t)) ELSE AnyOut
SubdomainOutcome(req) ==              \* leftmost label of a registered name with >= 2 labels; undefined for addresses
    IF ~req.h["host"].p THEN AnyOut
    ELSE IF HostOk(req) /\ HostInfo(req).names
         THEN LET r == LeftLabel(HostInfo(req).hp) IN IF r[2] THEN ValS(r[1]) ELSE None
    ELSE AnyOut

Fwd(req)      == FwdParse(req.h["forwarded"].t)
FwdUsable(req) == ~req.h["forwarded"].o /\ Fwd(req).ok

Schemes == {"http", "https"}
XfpVal  == ("https" :> "https") @@ ("http" :> "http") @@ ("HTTPS" :> "https")
XfhToks == {"proxy.example:8443", "front.example"}

ForwardedSchemeOutcome(req) ==
    IF req.h["forwarded"].p
    THEN (IF FwdUsable(req) THEN ValS(IF Fwd(req).es[1].scheme # NIL THEN Fwd(req).es[1].scheme ELSE req.scheme) ELSE AnyOut)
    ELSE LET x == req.h["x-forwarded-proto"]
         IN  IF ~x.p THEN ValS(req.scheme)
             ELSE IF ~x.o /\ Len(x.t) = 1 /\ x.t[1] \in DOMAIN XfpVal THEN ValS(XfpVal[x.t[1]]) ELSE AnyOut
ForwardedHostOutcome(req) ==
    IF req.h["forwarded"].p
    THEN (IF FwdUsable(req) THEN (IF Fwd(req).es[1].host # NIL THEN ValS(Fwd(req).es[1].host) ELSE NetlocOutcome(req)) ELSE AnyOut)
    ELSE LET x == req.h["x-forwarded-host"]
         IN  IF ~x.p THEN NetlocOutcome(req)
             ELSE IF ~x.o /\ Len(x.t) = 1 /\ x.t[1] \in XfhToks THEN ValS(x.t[1]) ELSE AnyOut

RECURSIVE Nodes(_)
Nodes(es) == IF es = <<>> THEN <<>>
             ELSE IF Head(es).node # NIL THEN <<Head(es).node>> \o Nodes(Tail(es)) ELSE Nodes(Tail(es))
WithPeer(l, peer) == IF l # <<>> /\ l[Len(l)] = peer THEN l ELSE Append(l, peer)
(* precedence Forwarded > X-Forwarded-For > X-Real-IP > peer; the peer closes the route *)
AccessRouteOutcome(req) ==
    IF req.h["forwarded"].p
    THEN (IF FwdUsable(req) THEN ValL(WithPeer(Nodes(Fwd(req).es), req.peer)) ELSE AnyOut)
    ELSE IF req.h["x-forwarded-for"].p
    THEN LET x == req.h["x-forwarded-for"] IN
         (IF ~x.o /\ XffParse(x.t).ok THEN ValL(WithPeer(XffParse(x.t).l, req.peer)) ELSE AnyOut)
    ELSE IF req.h["x-real-ip"].p
    THEN LET x == req.h["x-real-ip"] IN
         (IF ~x.o /\ Len(x.t) = 1 /\ x.t[1] \in AddrTokens THEN ValL(WithPeer(<<x.t[1]>>, req.peer)) ELSE AnyOut)
    ELSE ValL(<<req.peer>>)

RelativeUri(req) == req.root \o req.path \o (IF req.query = "" THEN "" ELSE "?" \o req.query)
Compose(schemeO, hostO, tail) ==
    IF IsVal(schemeO) /\ IsVal(hostO) THEN ValS(schemeO.s \o "://" \o hostO.s \o tail) ELSE AnyOut

AcceptsOutcome(req, T) ==                \* client_accepts(T): a missing Accept header means */*
    LET h == req.h["accept"] IN
    IF ~h.p THEN ValS("true")
    ELSE IF h.o \/ ~AccParse(h.t).ok THEN AnyOut
    ELSE LET q == Quality(AccParse(h.t).rs, T) IN IF q = -1 THEN AnyOut ELSE ValS(IF q > 0 THEN "true" ELSE "false")
PrefersOutcome(req) ==                   \* client_prefers(PrefersPool): the unique type of highest weight, None if all 0
    LET h == req.h["accept"] IN
    IF ~h.p \/ h.o \/ ~AccParse(h.t).ok THEN AnyOut
    ELSE LET rs == AccParse(h.t).rs
             qs == [j \in 1..Len(PrefersPool) |-> Quality(rs, PrefersPool[j])]
             mx == CHOOSE q \in {qs[j] : j \in 1..Len(qs)} : \A j \in 1..Len(qs) : qs[j] <= q
             best == {j \in 1..Len(qs) : qs[j] = mx}
         IN  IF \E j \in 1..Len(qs) : qs[j] = -1 THEN AnyOut
             ELSE IF mx = 0 THEN None
             ELSE IF Cardinality(best) = 1 THEN ValS(TName(PrefersPool[CHOOSE j \in best : TRUE])) ELSE AnyOut

Attrs == {"client_accepts_json", "client_accepts_xml", "accepts_text_plain", "prefers", "range", "range_unit", "content_length", "if_match", "if_none_match", "forwarded", "access_route",
          "remote_addr", "host", "port", "netloc", "subdomain", "scheme", "forwarded_scheme", "forwarded_host",
          "relative_uri", "prefix", "uri", "forwarded_prefix", "forwarded_uri",
          "date", "if_modified_since", "if_unmodified_since", "date_hdr", "date_obs", "ims_obs", "ius_obs"}
DateAttrs == <<"date", "if_modified_since", "if_unmodified_since", "date_hdr", "date_obs", "ims_obs", "ius_obs">>

(* what a fresh computation of accessor a on request req has to give *)
Fresh(req, a) ==
    CASE a = "range"            -> Typed(req, "range", RangeOutcome)
      [] a = "range_unit"       -> Typed(req, "range", RangeUnitOutcome)
      [] a = "content_length"   -> Typed(req, "content-length", CLenOutcome)
      [] a = "if_match"         -> Typed(req, "if-match", ETagsOutcome)
      [] a = "if_none_match"    -> Typed(req, "if-none-match", ETagsOutcome)
      [] a = "forwarded"        -> Typed(req, "forwarded", ForwardedOutcome)
      [] a = "access_route"     -> AccessRouteOutcome(req)
      [] a = "remote_addr"      -> ValS(req.peer)
      [] a = "host"             -> HostOutcome(req)
      [] a = "port"             -> PortOutcome(req)
      [] a = "netloc"           -> NetlocOutcome(req)
      [] a = "subdomain"        -> SubdomainOutcome(req)
      [] a = "scheme"           -> ValS(req.scheme)
      [] a = "forwarded_scheme" -> ForwardedSchemeOutcome(req)
      [] a = "forwarded_host"   -> ForwardedHostOutcome(req)
      [] a = "relative_uri"     -> ValS(RelativeUri(req))
      [] a = "prefix"           -> Compose(ValS(req.scheme), NetlocOutcome(req), req.root)
      [] a = "uri"              -> Compose(ValS(req.scheme), NetlocOutcome(req), RelativeUri(req))
      [] a = "forwarded_prefix" -> Compose(ForwardedSchemeOutcome(req), ForwardedHostOutcome(req), req.root)
      [] a = "forwarded_uri"    -> Compose(ForwardedSchemeOutcome(req), ForwardedHostOutcome(req), RelativeUri(req))
      [] a = "client_accepts_json" -> AcceptsOutcome(req, TJson)
      [] a = "client_accepts_xml"  -> AcceptsOutcome(req, TXml)
      [] a = "accepts_text_plain"  -> AcceptsOutcome(req, TText)
      [] a = "prefers"          -> PrefersOutcome(req)
      [] a = "date"             -> Typed(req, "date", DateStrict)
      [] a = "date_hdr"         -> Typed(req, "date", DateStrict)                      \* get_header_as_datetime("Date")
      [] a = "date_obs"         -> Typed(req, "date", DateObs)                         \* .. obs_date=True
      [] a = "if_modified_since"   -> Typed(req, "if-modified-since", DateStrict)
      [] a = "ims_obs"             -> Typed(req, "if-modified-since", DateObs)
      [] a = "if_unmodified_since" -> Typed(req, "if-unmodified-since", DateStrict)
      [] a = "ius_obs"             -> Typed(req, "if-unmodified-since", DateObs)
      [] OTHER                  -> AnyOut

(* raw lookup, any casing of the name: the wire text, None if absent (opaque: not decided here) *)
Lookup(req, name) == LET h == req.h[name] IN IF ~h.p THEN None ELSE IF h.o THEN AnyOut ELSE ValS(Cat(h.t))

(* ------------------------------------------------------------- judging an observation *)
(* obs = [k \in {"value", "err400", "exc"}, s, i, l] *)
Accepts(spec, obs) ==
    IF obs.k = "exc" THEN "P:total"
    ELSE IF spec.k = "value" THEN (IF obs.k = "value" /\ obs.s = spec.s /\ obs.i = spec.i /\ obs.l = spec.l
                                   THEN "ok" ELSE "P:value")
    ELSE IF spec.k = "value400" THEN (IF obs.k = "err400" THEN "D:obs400"
                                      ELSE IF obs.k = "value" /\ obs.s = spec.s /\ obs.i = <<>> /\ obs.l = <<>> THEN "ok" ELSE "P:value")
    ELSE IF spec.k = "doc400" THEN (IF obs.k = "err400" THEN "ok" ELSE "D:doc400")
    ELSE "ok"
==========================================================================
