---------------------------- MODULE MC_WsBuffer ----------------------------
(* Bounded instances of WsBuffer.
   X*  exhaustive design check: every disjunct of Next is a named action (coverage); no history.
   Q*  run-to-quiescence behaviours for leg A1: an external stimulus is only applied when no
       internal step is enabled; the history records the stimuli and the result of every call.
       The reader task may be pending in a receive while the writer task is given its next call.
   R*  fine-grained behaviours for leg A2 (simulation): the history is the projection of every
       step to a stimulus token (D arrival, F server failure, r reader call, s/c writer call,
       C cancel, S one loop pass; x a close() whose close event the server refuses, e the end of the responder).
   Z*  scenario families for leg A3 (run to quiescence, histories as in Q): a scripted application over every
       capacity and every number of pending client events -
         "failclose"   receive^a ; close() refused by the server ; receive^b ; close() ; end of the callable
         "sender"      send^a ; end of the callable   (the responder never receives) *)
EXTENDS WsBuffer, Json
VARIABLES h, fin
mcvars == <<vars, h, fin>>
Keep == UNCHANGED <<h, fin>>

XInit == Init /\ h = <<>> /\ fin = FALSE
XSrvArrive     == SrvArrive /\ Keep
XSrvFail       == SrvFail /\ Keep
XPumpLoop      == PumpLoop /\ Keep
XPumpGot       == PumpGot /\ Keep
XPumpCheck     == PumpCheck /\ Keep
XPumpWake      == PumpWake /\ Keep
XPumpCancelled == PumpCancelled /\ Keep
XAppRecv       == AppRecv /\ Keep
XRecvLoop      == RecvLoop /\ Keep
XRecvWake      == RecvWake /\ Keep
XRecvRawRet    == RecvRawRet /\ Keep
XCancelRecv    == CancelRecv /\ Keep
XAppSend       == AppSend /\ Keep
XSendRet       == SendRet /\ Keep
XAppClose      == AppClose /\ Keep
XAppCloseF     == AppCloseF /\ Keep
XCloseSent     == CloseSent /\ Keep
XCloseSendFail == CloseSendFail /\ Keep
XCloseFinish   == CloseFinish /\ Keep
XRespEnd       == RespEnd /\ Keep
XAppReturn     == AppReturn /\ Keep
XNext == XSrvArrive \/ XSrvFail \/ XPumpLoop \/ XPumpGot \/ XPumpCheck \/ XPumpWake \/ XPumpCancelled \/ XAppRecv
         \/ XRecvLoop \/ XRecvWake \/ XRecvRawRet \/ XCancelRecv \/ XAppSend \/ XSendRet \/ XAppClose \/ XCloseSent
         \/ XCloseFinish \/ XAppCloseF \/ XCloseSendFail \/ XRespEnd \/ XAppReturn
XSpec == XInit /\ [][XNext]_mcvars
XFairSpec == XSpec /\ WF_mcvars(XPumpLoop \/ XPumpGot \/ XPumpCheck \/ XPumpWake \/ XPumpCancelled)
                   /\ WF_mcvars(XRecvLoop \/ XRecvWake \/ XRecvRawRet)
                   /\ WF_mcvars(XSendRet \/ XCloseSent \/ XCloseSendFail \/ XCloseFinish \/ XAppReturn)
                   /\ WF_mcvars(XSrvArrive)
XSenderLearnsPromptly == [][(wpc = "idle" /\ wpc' = "sending") => ~disc]_mcvars
(* the scenario the two-task model exists for must be reachable: a receive pending on an empty
   buffer is released because the pump was cancelled by close() / ended by a server failure *)
ReleasedByClose == ~(rpc = "recvWait" /\ popW = "pending" /\ ppc = "cancelled")
ReleasedByFault == ~(rpc = "recvWait" /\ popW = "pending" /\ ppc = "failed")
(* ... and the two situations of the later extension: a receive delivers the event the pump held in hand while
   a close() failed on the wire; the callable returns after the pump was parked at an exactly full queue
   holding the disconnect, with a responder that never received *)
DeliveredAfterFailedClose == ~(nsf > 0 /\ Len(taken) = mq + 1 /\ wlast = Res("close", SENDFAIL) /\ rdone = mq + 1 /\ mq > 0)
ReturnedFromFullQueue == ~(apc = "returned" /\ rdone = 0 /\ Len(queue) = mq /\ mq > 0 /\ ppc = "cancelled" /\ disc)

(* ---- leg A1: run-to-quiescence behaviours ---- *)
Ent(e, op, r, p) == [e |-> e, op |-> op, r |-> r, pulls |-> p]
LogRet(hh) == IF RReturned THEN Append(hh, Ent("R", "recv", rlast', NIL))
              ELSE IF WReturned THEN Append(hh, Ent("R", wlast'.op, wlast'.r, NIL))
              ELSE hh
QStim(A, e, op) == Quiet /\ ~fin /\ A /\ h' = LogRet(Append(h, Ent(e, op, NIL, pulls))) /\ UNCHANGED fin
QArrive == QStim(SrvArrive, "D", "")
QFail   == QStim(SrvFail, "F", "")
QRecv   == QStim(AppRecv, "A", "recv")
QSend   == QStim(AppSend, "A", "send")
QClose  == QStim(AppClose, "A", "close")
QCloseF == QStim(AppCloseF, "A", "closeF")
QEnd    == QStim(RespEnd, "E", "")
QCancel == QStim(CancelRecv, "C", "")
QInternal == ~fin /\ Internal /\ h' = LogRet(h) /\ UNCHANGED fin
QFin == Quiet /\ ~fin /\ fin' = TRUE /\ UNCHANGED <<vars, h>>
QNext == QArrive \/ QFail \/ QRecv \/ QSend \/ QClose \/ QCloseF \/ QEnd \/ QCancel \/ QInternal \/ QFin
QEmit == fin => PrintT(ToJson([mq |-> mq, all |-> all, h |-> h, pulls |-> pulls,
                               pumpAlive |-> (ppc \in Live), outstanding |-> (pull # "none"),
                               waiting |-> Waiting, returned |-> (apc = "returned"), fam |-> ""]))

(* ---- leg A3: scenario families (run to quiescence) ---- *)
CONSTANT Family           \* "failclose" | "sender"
ZFailed == nsf > 0
ZFailClose == Family = "failclose" /\ (QRecv \/ (~ZFailed /\ QCloseF) \/ (ZFailed /\ QClose) \/ (wpc = "closed" /\ QEnd))
ZSender    == Family = "sender" /\ (QSend \/ (wdone > 0 /\ QEnd))
ZFin       == QFin /\ apc = "returned"
ZArrive    == QArrive /\ (Family = "failclose" => (rdone = 0 /\ wdone = 0 /\ wpc = "idle"))   \* the client events are pending
                                                                                     \* before the first call
ZNext == ZArrive \/ QInternal \/ ZFin \/ ZFailClose \/ ZSender
ZInit == XInit /\ Len(all) <= mq + 2        \* 0..capacity+1 messages, then a disconnect or not
ZEmit == fin => PrintT(ToJson([mq |-> mq, all |-> all, h |-> h, pulls |-> pulls,
                               pumpAlive |-> (ppc \in Live), outstanding |-> (pull # "none"),
                               waiting |-> Waiting, returned |-> (apc = "returned"), fam |-> Family]))

(* ---- leg A2: fine-grained behaviours, projected to stimulus tokens ---- *)
CONSTANT Depth
Tok(A, t) == A /\ h' = Append(h, t) /\ UNCHANGED fin
RArrive == Tok(SrvArrive, "D")
RFail   == Tok(SrvFail, "F")
RRecv   == Tok(AppRecv, "r")
RSend   == Tok(AppSend, "s")
RClose  == Tok(AppClose, "c")
RCloseF == Tok(AppCloseF, "x")
REnd    == Tok(RespEnd, "e")
RCancel == Tok(CancelRecv, "C")
RStep   == Tok(Internal, "S")
RPass   == Tok(UNCHANGED vars, "S")
RNext == RArrive \/ RFail \/ RRecv \/ RSend \/ RClose \/ RCloseF \/ REnd \/ RCancel \/ RStep \/ RPass
REmit == (Len(h) = Depth) => PrintT(ToJson([mq |-> mq, all |-> all, h |-> h]))
============================================================================
