---------------------------- MODULE MC_WsBuffer ----------------------------
(* Bounded instances of WsBuffer.
   X*  exhaustive design check: every disjunct of Next is a named action (coverage); no history.
   Q*  run-to-quiescence behaviours for leg A1: an external stimulus is only applied when no
       internal step is enabled; the history records the stimuli and the result of every call.
       The reader task may be pending in a receive while the writer task is given its next call.
   R*  fine-grained behaviours for leg A2 (simulation): the history is the projection of every
       step to a stimulus token (D arrival, F server failure, r reader call, s/c writer call,
       C cancel, S one loop pass). *)
EXTENDS WsBuffer, Json
VARIABLES h, fin
mcvars == <<vars, h, fin>>
Keep == UNCHANGED <<h, fin>>

XInit == Init /\ h = <<>> /\ fin = FALSE
XSrvArrive     == SrvArrive /\ Keep
XSrvFail       == SrvFail /\ Keep
XPumpLoop      == PumpLoop /\ Keep
XPumpGot       == PumpGot /\ Keep
XPumpCheck     == PumpCheck /\ Keep
XPumpWake      == PumpWake /\ Keep
XPumpCancelled == PumpCancelled /\ Keep
XAppRecv       == AppRecv /\ Keep
XRecvLoop      == RecvLoop /\ Keep
XRecvWake      == RecvWake /\ Keep
XRecvRawRet    == RecvRawRet /\ Keep
XCancelRecv    == CancelRecv /\ Keep
XAppSend       == AppSend /\ Keep
XSendRet       == SendRet /\ Keep
XAppClose      == AppClose /\ Keep
XCloseSent     == CloseSent /\ Keep
XCloseFinish   == CloseFinish /\ Keep
XNext == XSrvArrive \/ XSrvFail \/ XPumpLoop \/ XPumpGot \/ XPumpCheck \/ XPumpWake \/ XPumpCancelled \/ XAppRecv
         \/ XRecvLoop \/ XRecvWake \/ XRecvRawRet \/ XCancelRecv \/ XAppSend \/ XSendRet \/ XAppClose \/ XCloseSent
         \/ XCloseFinish
XSpec == XInit /\ [][XNext]_mcvars
XFairSpec == XSpec /\ WF_mcvars(XPumpLoop \/ XPumpGot \/ XPumpCheck \/ XPumpWake \/ XPumpCancelled)
                   /\ WF_mcvars(XRecvLoop \/ XRecvWake \/ XRecvRawRet)
                   /\ WF_mcvars(XSendRet \/ XCloseSent \/ XCloseFinish)
                   /\ WF_mcvars(XSrvArrive)
XSenderLearnsPromptly == [][(wpc = "idle" /\ wpc' = "sending") => ~disc]_mcvars
(* the scenario the two-task model exists for must be reachable: a receive pending on an empty
   buffer is released because the pump was cancelled by close() / ended by a server failure *)
ReleasedByClose == ~(rpc = "recvWait" /\ popW = "pending" /\ ppc = "cancelled")
ReleasedByFault == ~(rpc = "recvWait" /\ popW = "pending" /\ ppc = "failed")

(* ---- leg A1: run-to-quiescence behaviours ---- *)
Ent(e, op, r, p) == [e |-> e, op |-> op, r |-> r, pulls |-> p]
LogRet(hh) == IF RReturned THEN Append(hh, Ent("R", "recv", rlast', NIL))
              ELSE IF WReturned THEN Append(hh, Ent("R", wlast'.op, wlast'.r, NIL))
              ELSE hh
QStim(A, e, op) == Quiet /\ ~fin /\ A /\ h' = LogRet(Append(h, Ent(e, op, NIL, pulls))) /\ UNCHANGED fin
QArrive == QStim(SrvArrive, "D", "")
QFail   == QStim(SrvFail, "F", "")
QRecv   == QStim(AppRecv, "A", "recv")
QSend   == QStim(AppSend, "A", "send")
QClose  == QStim(AppClose, "A", "close")
QCancel == QStim(CancelRecv, "C", "")
QInternal == ~fin /\ Internal /\ h' = LogRet(h) /\ UNCHANGED fin
QFin == Quiet /\ ~fin /\ fin' = TRUE /\ UNCHANGED <<vars, h>>
QNext == QArrive \/ QFail \/ QRecv \/ QSend \/ QClose \/ QCancel \/ QInternal \/ QFin
QEmit == fin => PrintT(ToJson([mq |-> mq, all |-> all, h |-> h, pulls |-> pulls,
                               pumpAlive |-> (ppc \in Live), outstanding |-> (pull # "none"),
                               waiting |-> Waiting]))

(* ---- leg A2: fine-grained behaviours, projected to stimulus tokens ---- *)
CONSTANT Depth
Tok(A, t) == A /\ h' = Append(h, t) /\ UNCHANGED fin
RArrive == Tok(SrvArrive, "D")
RFail   == Tok(SrvFail, "F")
RRecv   == Tok(AppRecv, "r")
RSend   == Tok(AppSend, "s")
RClose  == Tok(AppClose, "c")
RCancel == Tok(CancelRecv, "C")
RStep   == Tok(Internal, "S")
RPass   == Tok(UNCHANGED vars, "S")
RNext == RArrive \/ RFail \/ RRecv \/ RSend \/ RClose \/ RCancel \/ RStep \/ RPass
REmit == (Len(h) = Depth) => PrintT(ToJson([mq |-> mq, all |-> all, h |-> h]))
============================================================================
