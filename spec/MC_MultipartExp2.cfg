INIT MCInit
NEXT MCNext
CONSTANTS
  CharsetClass <- MCCharsetClass
  DelimWithCRLF = TRUE
  PartPool <- MCPartPool
  EnvPool <- MCEnvPool
  LimitsOf <- MCLimitsOf
  Sizes <- ExpSizes
  RDelims <- ExpRDelims
  MaxParts = 2
  MaxOps = 1
  MaxRetry = 1
  ContentSel = {4, 6, 7}
  ProfileSel = {1, 2}
  UseJson = TRUE
  BoundarySel = {6}
  PreSel = {1, 3}
  EpiSel = {1, 3}
  FinSel = {TRUE}
  LimModes = {"base"}
  EditPos <- NoPos
  EditKinds = {}
  EditVals = {}
  Depth = 8
INVARIANT ParseOfEncodeIsForm
INVARIANT QuotedRoundTrip
INVARIANT LimitsExactAtThreshold
INVARIANT Emit
