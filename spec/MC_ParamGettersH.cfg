INIT XInit
NEXT XNext
CONSTANTS
  Kinds <- HKinds
  NV = 3
  MaxOcc = 2
  MaxCalls = 2
  Conv <- MCConv
  Bounds <- MCBounds
INVARIANT GetterNeverMisreports
INVARIANT ListsReportAll
INVARIANT AbsentProtocol
INVARIANT ZeroValuesProtocol
INVARIANT HasParamExact
INVARIANT PresentProtocol
INVARIANT StoreOnlyOnSuccess
INVARIANT LastOccurrenceOnly
INVARIANT HistoryFree
PROPERTY MCReadOnly
PROPERTY MCStoreUntouched
