-------------------------- MODULE MultipartTrace --------------------------
(* Trace judge for C13 (code -> spec).  Reads a JSON list of traces recorded from the real
   parsers:
     [form, env, lim, body, valid, ev]
       form   the abstract form the harness composed (parts as in Multipart)
       env    [b, pre, epi, fin]      lim  [count, hdr, buf]
       body   the bytes that were served
       valid  TRUE: the harness claims body = Encode(form, env) (checked here, clause H:encode);
              FALSE: body is a damaged encoding; the expected outcome is whatever the reference
              iteration makes of these bytes
       ev     one event per public call of the server side, at its return:
              [op, n, d, c, out, why, res, name, fname, ctype, code]
   Every trace is an initial state; its events are replayed with the actions of Multipart
   (NextPart, ReadSome, ReadAll, ReadUntil, Exhaust, GetData, GetText, GetMedia), whose `last`
   record is what the specification says the call returns.  Total: every event is consumed and
   the first failing clause is recorded in `verdict`.
     P:exception    something else than the multipart parse error escaped / P:hang no return
     P:parts        a part was yielded where the form ends, or the reverse
     P:error        the parse error was raised for a well-formed step, or not raised for a malformed one
     P:limit-count / P:limit-headers / P:limit-buffer   a limit was not enforced exactly at its threshold
     P:name / P:filename / P:ctype / P:content          an accessor reported something else than was encoded
     P:status       the HTTP status is not 400 after a parse error / not 200 otherwise
     S:roundtrip    (specification self-check) the reference iteration over Encode(form) is not the form
     H:encode / H:order  harness errors
     D:why          (detail, never alarms) which description the parse error carried *)
EXTENDS Multipart, Json, IOUtils

Traces == JsonDeserialize(IOEnv.TRACE_FILE)

VARIABLES tid, l, verdict, dnote,
          everr      \* some call so far had to raise the parse error (the application re-raises the first one)
jvars == <<vars, tid, l, verdict, dnote, everr>>

T  == Traces[tid]
Ev == T.ev[l]

NoLimits(f, e) == {}
(* charset labels found in the body, classified by the trusted decoder (CPython codecs.lookup) *)
JCharsetClass(lab) ==
    LET I == {i \in 1..Len(Traces[tid].charsets) : Traces[tid].charsets[i].l = lab}
    IN  IF I = {} THEN "other" ELSE Traces[tid].charsets[CHOOSE i \in I : TRUE].c

JInit ==
    /\ tid \in 1..Len(Traces) /\ l = 1 /\ verdict = "ok" /\ dnote = 0 /\ everr = FALSE
    /\ form = Traces[tid].form /\ env = Traces[tid].env /\ lim = Traces[tid].lim /\ body = Traces[tid].body
    /\ edited = ~Traces[tid].valid
    /\ st = "iter" /\ pos = 0 /\ pro = TRUE /\ yielded = 0 /\ cur = <<>>
    /\ pstart = 0 /\ pend = 0 /\ cache = NONE /\ toolarge = FALSE /\ nops = 0
    /\ last = Plain("init", 0, <<>>, FALSE, "", "", <<>>)

Keep == UNCHANGED vars

(* ---- verdict of one event, x = what the specification returns (last'), e = what was logged ---- *)
Escaped(e) == IF e.out = "exc" THEN "P:exception" ELSE IF e.out = "hang" THEN "P:hang" ELSE "ok"

ErrClause(why) == CASE why = "count" -> "P:limit-count"
                    [] why = "headers" /\ ~edited -> "P:limit-headers"
                    [] OTHER -> "P:error"

JudgeNext(x, e, y) ==      \* y: number of parts yielded including this one
    IF Escaped(e) # "ok" THEN Escaped(e)
    ELSE IF x.out = "error" /\ e.out # "error" THEN ErrClause(x.why)
    ELSE IF x.out # "error" /\ e.out = "error" THEN ErrClause(e.why)
    ELSE IF x.out # e.out THEN "P:parts"
    ELSE IF x.out = "part" /\ x.name # UNKNOWN /\ e.name # x.name THEN "P:name"
    ELSE IF x.out = "part" /\ x.fname # UNKNOWN /\ ~IsLax(x.fname) /\ e.fname # x.fname THEN "P:filename"
    ELSE IF x.out = "part" /\ IsLax(x.fname) /\ e.fname # Tail(x.fname) /\ e.fname # PERR THEN "P:filename"
    ELSE IF x.out = "part" /\ x.ctype # UNKNOWN /\ e.ctype # x.ctype THEN "P:ctype"
    ELSE "ok"

(* specification self-check on undamaged bodies: the reference iteration gives the form back *)
RoundTrip(x, y, hdr, a, b) ==
    edited \/ (CASE x.out = "part" -> /\ y <= Len(form)
                                       /\ hdr = EncHeaders(form[y])
                                       /\ Slice(body, a, b) = form[y].content
                                       /\ x.name = form[y].name /\ x.fname = FNameOf(form[y])
                 [] x.out = "end"  -> y = Len(form)
                 [] OTHER          -> x.why \in {"count", "headers"})

JudgeData(x, e) ==
    IF Escaped(e) # "ok" THEN Escaped(e)
    ELSE IF x.out = "error" /\ e.out # "error" THEN (IF x.why = "size" THEN "P:limit-buffer" ELSE "P:content")
    ELSE IF x.out # "error" /\ e.out = "error" THEN (IF e.why = "size" THEN "P:limit-buffer" ELSE "P:content")
    ELSE IF x.out # e.out THEN "P:content"
    ELSE IF x.out = "ok" /\ x.res # e.res THEN "P:content"
    ELSE "ok"
WhyNote(x, e) == IF dnote = 0 /\ x.out = "error" /\ e.out = "error" /\ x.why # e.why THEN l ELSE dnote

JudgeRead(x, e) ==
    IF Escaped(e) # "ok" THEN Escaped(e)
    ELSE IF x.out # e.out THEN "P:content"
    ELSE IF x.out = "ok" /\ x.res # e.res THEN "P:content"
    ELSE "ok"


Applicable(e) ==
    CASE e.op = "next"       -> st \in {"iter", "part"}
      [] e.op = "read"       -> CanStream
      [] e.op = "read_until" -> CanStream /\ Len(e.d) >= 1
      [] e.op = "exhaust"    -> CanStream
      [] e.op = "get_data"   -> CanConsume
      [] e.op = "get_text"   -> CanConsume
      [] e.op = "get_media"  -> CanStream /\ CTypeOf(cur) = T_JSON /\ pos = pstart /\ cache = NONE
      [] e.op = "status"     -> TRUE
      [] OTHER               -> FALSE

Step ==
    /\ l >= 1 /\ l <= Len(T.ev) /\ verdict = "ok"
    /\ LET e == Ev IN
         IF l = 1 /\ ~edited /\ ~(Encodable(form, env) /\ body = Encode(form, env))
           THEN (verdict' = "H:encode" /\ dnote' = dnote /\ Keep)
         ELSE IF Escaped(e) # "ok" THEN (verdict' = Escaped(e) /\ dnote' = dnote /\ Keep)
         ELSE IF ~Applicable(e) THEN (verdict' = "H:order" /\ dnote' = dnote /\ Keep)
         ELSE (
           \/ /\ e.op = "next" /\ NextPart
              /\ verdict' = (IF ~RoundTrip(last', yielded', cur', pstart', pend') THEN "S:roundtrip"
                             ELSE JudgeNext(last', e, yielded'))
              /\ dnote' = WhyNote(last', e)
           \/ /\ e.op = "read" /\ (IF e.n < 0 THEN ReadAll ELSE ReadSome(e.n))
              /\ verdict' = JudgeRead(last', e) /\ dnote' = dnote
           \/ /\ e.op = "read_until" /\ ReadUntil(e.d, e.n, e.c)
              /\ verdict' = JudgeRead(last', e) /\ dnote' = dnote
           \/ /\ e.op = "exhaust" /\ Exhaust
              /\ verdict' = Escaped(e) /\ dnote' = dnote
           \/ /\ e.op = "get_data" /\ GetData
              /\ verdict' = JudgeData(last', e) /\ dnote' = WhyNote(last', e)
           \/ /\ e.op = "get_text" /\ GetText
              /\ verdict' = JudgeData(last', e) /\ dnote' = WhyNote(last', e)
           \/ /\ e.op = "get_text" /\ GetTextOpen          \* outcome open: None, text or the parse error
              /\ verdict' = (IF e.out \in {"ok", "none", "error"} THEN "ok" ELSE "P:exception") /\ dnote' = dnote
           \/ /\ e.op = "get_media" /\ GetMedia
              /\ verdict' = JudgeRead(last', e) /\ dnote' = dnote
           \/ /\ e.op = "status" /\ Keep
              /\ verdict' = (IF e.code = (IF everr THEN 400 ELSE 200) THEN "ok" ELSE "P:status") /\ dnote' = dnote )
    /\ everr' = (everr \/ last'.out = "error" \/ (last'.out = "open" /\ Ev.op = "get_text" /\ Ev.out = "error"))
    /\ l' = l + 1 /\ UNCHANGED tid

Done ==
    /\ l >= 1 /\ (l > Len(T.ev) \/ verdict # "ok")
    /\ PrintT(<<"VERDICT", tid, IF verdict = "ok" /\ dnote > 0 THEN "D:why" ELSE verdict,
                IF verdict = "ok" /\ dnote > 0 THEN dnote ELSE l - 1>>)
    /\ l' = -1 /\ UNCHANGED <<vars, tid, verdict, dnote, everr>>

JNext == Step \/ Done
JSpec == JInit /\ [][JNext]_jvars
Sound == pos <= Len(body)
=============================================================================
