\* leg A1 (thorough): all run-to-quiescence behaviours, capacities 0..4, <= 3 messages +- disconnect, <= 4 calls, 1 cancellation
INIT XInit
NEXT QNext
CONSTANTS
  MaxQs = {0, 1, 2, 3, 4}
  NMsg = 3
  DiscChoices = {TRUE, FALSE}
  GeCmp = TRUE
  AwaitStop = TRUE
  NotifyPop = TRUE
  ReleaseOnEnd = TRUE
  Faults = TRUE
  StopAfterSend = TRUE
  CleanupOnDisc = TRUE
  MaxSendFail = 1
  Family = "none"
  MaxOps = 4
  MaxCancel = 1
  Depth = 0
INVARIANT QEmit
