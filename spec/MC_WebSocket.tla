--------------------------- MODULE MC_WebSocket ---------------------------
(* Bounded instances of WebSocket.  Every disjunct of the next-state relation is a named action
   (coverage).  X* actions keep the history empty (exhaustive instance); A* actions log the
   observation record of every step (behaviour export for the replay leg).  Parameters that cannot
   influence an action are pinned to their defaults so that equal steps are generated once. *)
EXTENDS WebSocket, Json
CONSTANTS MaxSteps, MaxClient, Depth
VARIABLES n,      \* responder steps taken
          na,     \* client events arrived
          h,      \* history of observation records
          pad     \* simulation only: multiplicity of a successor (TLC picks successors uniformly)
mcvars == <<vars, n, na, h, pad>>

MCCloseArgs == {0, 4001, 999}
SimCloseArgs == {0, 1000, 3400, 4001, 999, 1005}
MCDisc == {0, 1001}

Weight(x) == IF x.fin THEN 1
             ELSE IF x.a = "start" THEN 12
             ELSE IF x.a = "op" /\ x.op \in RecvOps THEN 8
             ELSE IF x.a = "arrive" THEN 6
             ELSE IF x.a = "op" /\ x.op = "accept" /\ x.r = "ok" THEN 6
             ELSE 2
Keep == h' = h /\ pad' = 0
Log  == h' = Append(h, last') /\ pad' \in 1..Weight(last')

MCInit == Init /\ n = 0 /\ na = 0 /\ h = <<>> /\ pad = 0

CStart == \E first \in FirstKinds, mw \in MwKinds, route \in RouteKinds, ec \in ErrCodes, f \in FaultSet :
            /\ (first # "connect" => mw = "none" /\ route = "ok")
            /\ (~(mw \in {"accept", "resacc"} /\ f # "none") => ec = 1011)
            /\ (first # "connect" => ec = 1011)
            /\ Start(first, mw, route, ec, f)
            /\ UNCHANGED <<n, na>>
COp(S) == /\ n < MaxSteps /\ pc = "resp" /\ blk = "none"
          /\ \E d \in S :
               LET o0 == OpResult(d.op, d.sp, d.hd, d.code, d.rs, d.k, d.v, "none") IN
               \E f \in (IF w.flt = "clear" /\ (o0.evs # <<>> \/ o0.r \notin {"ok", "blocked"}) THEN FaultSet ELSE {"none"}) :
               \E prop \in (IF o0.r \in {"ok", "blocked"} /\ f = "none" THEN {FALSE} ELSE BOOLEAN) :
               \E ec \in (IF prop THEN ErrCodes ELSE {1011}) :
                 /\ Op(d.op, d.sp, d.hd, d.code, d.rs, d.k, d.v, prop, "default", ec, f)
                 /\ n' = n + 1 /\ na' = na
CRaise == pc = "resp" /\ blk = "none" /\ \E x \in {"http", "status", "boom"}, hk \in HandlerKinds, ec \in ErrCodes, f \in FaultSet :
            /\ (x # "boom" => hk = "default")
            /\ (~(x = "boom" /\ hk = "default") => ec = 1011)
            /\ Raise(x, hk, ec, f)
            /\ UNCHANGED <<n, na>>
CReturn == pc = "resp" /\ blk = "none" /\ \E ec \in ErrCodes, f \in FaultSet :
            /\ (f = "none" => ec = 1011)
            /\ Return(ec, f)
            /\ UNCHANGED <<n, na>>
CArrive == pc = "resp" /\ ~gone /\ na < MaxClient /\ \E m \in ClientEvents, prop \in BOOLEAN, ec \in ErrCodes :
            /\ na < MaxClient
            /\ (~prop => ec = 1011)
            /\ Arrive(m.k, m.v, prop, "default", ec)
            /\ na' = na + 1 /\ n' = n

Sel(o) == {d \in OpSet : d.op \in o}
XStart   == CStart /\ Keep
XAccept  == COp(Sel({"accept"})) /\ Keep
XClose   == COp(Sel({"close"})) /\ Keep
XSend    == COp(Sel(SendOps)) /\ Keep
XReceive == COp(Sel(RecvOps)) /\ Keep
XRaise   == CRaise /\ Keep
XReturn  == CReturn /\ Keep
XArrive  == CArrive /\ Keep
XNext == XStart \/ XAccept \/ XClose \/ XSend \/ XReceive \/ XRaise \/ XReturn \/ XArrive

AStart   == CStart /\ Log
AAccept  == COp(Sel({"accept"})) /\ Log
AClose   == COp(Sel({"close"})) /\ Log
ASend    == COp(Sel(SendOps)) /\ Log
AReceive == COp(Sel(RecvOps)) /\ Log
ARaise   == CRaise /\ Log
AReturn  == CReturn /\ Log
AArrive  == CArrive /\ Log
ANext == AStart \/ AAccept \/ AClose \/ ASend \/ AReceive \/ ARaise \/ AReturn \/ AArrive

(* per-action coverage without TLC's -coverage (whose report is prohibitively slow on this module):
   every fired action announces itself; the harness requires all eight names *)
Fired(name) == PrintT(<<"FIRED", name>>)
VStart   == XStart /\ Fired("XStart")
VAccept  == XAccept /\ Fired("XAccept")
VClose   == XClose /\ Fired("XClose")
VSend    == XSend /\ Fired("XSend")
VReceive == XReceive /\ Fired("XReceive")
VRaise   == XRaise /\ Fired("XRaise")
VReturn  == XReturn /\ Fired("XReturn")
VArrive  == XArrive /\ Fired("XArrive")
CovNext == VStart \/ VAccept \/ VClose \/ VSend \/ VReceive \/ VRaise \/ VReturn \/ VArrive

MCOneAtATime == [][Len(got') <= Len(got) + 1]_mcvars
(* `last` is write-only (no action reads it), so states are identified without it (VIEW) and the
   clauses that talk about the last step are checked on every transition instead *)
MCView == <<ver, maxq, pc, w, gone, gcode, blk, mon, got, n, na, last.esc, h>>
TableHolds    == [][WrongStateErrorsAreDocumented']_mcvars
InOrderHolds  == [][PayloadsInOrderUnchanged']_mcvars

(* wrong-design switch for the vacuity check: a framework that forgets the final close *)
ForgetFinalClose == pc = "resp" /\ blk = "none" /\ pc' = "done" /\ last' = [L0 EXCEPT !.a = "return", !.fin = TRUE]
                    /\ UNCHANGED <<ver, maxq, w, gone, gcode, blk, mon, got, n, na, h, pad>>
WrongNext == XNext \/ ForgetFinalClose
WrongTrue == TRUE      \* MC_WebSocketWrong2.cfg: FailedCloseStartsPumpInHandshake <- WrongTrue

(* behaviour export: one JSON object per finished (or depth-bounded) behaviour *)
Emit == (pc = "done" \/ Len(h) = Depth) => PrintT(ToJson([ver |-> ver, maxq |-> maxq, ev |-> h]))
============================================================================
