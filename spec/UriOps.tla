----------------------------- MODULE UriOps -----------------------------
(* C10: percent-decoding / RFC 3986 encoding / host[:port] splitting as functions
   over text.  Text is a sequence of Unicode code points (scalar values; lone
   surrogates are outside the model), octets are Seq(0..255).

   Decode produces a sequence of UNITS: a literal code point c is the unit c,
   a raw octet b coming from a well-formed %XX is the unit -(b+1).  Units are
   flattened to octets (literal code points by their UTF-8 form) and the octets
   are read as UTF-8 with replacement.  The UTF-8 reading is specified here
   (U8Read, Unicode "maximal subpart" practice) so that the module is closed;
   the harness applies CPython's codec to the octets as well and insists that
   both readings agree.

   This module holds the functions only (reused by QueryString and by the trace
   judges); Uri.tla wraps them in the state machine that carries the laws. *)
EXTENDS Bytes, TLC

PCT  == 37
PLUS == 43
SP   == 32
FFFD == 65533

IsDigit(c) == c >= 48 /\ c <= 57
IsUpHex(c) == c >= 65 /\ c <= 70
IsLoHex(c) == c >= 97 /\ c <= 102
IsHex(c)   == IsDigit(c) \/ IsUpHex(c) \/ IsLoHex(c)
HexVal(c)  == IF IsDigit(c) THEN c - 48 ELSE IF IsUpHex(c) THEN c - 55 ELSE c - 87
HexUp(n)   == IF n < 10 THEN 48 + n ELSE 55 + n          \* upper-case hex digit of a nibble

(* RFC 3986 section 2.3 / 2.2 *)
Unreserved == (65..90) \cup (97..122) \cup (48..57) \cup {45, 46, 95, 126}       \* ALPHA DIGIT - . _ ~
Reserved   == {58, 47, 63, 35, 91, 93, 64,                                       \* gen-delims : / ? # [ ] @
               33, 36, 38, 39, 40, 41, 42, 43, 44, 59, 61}                       \* sub-delims ! $ & ' ( ) * + , ; =
UriAllowed   == Unreserved \cup Reserved     \* whole-URI encoders
ValueAllowed == Unreserved                   \* value encoders

(* ---------------------------------------------------------------- UTF-8 *)
Utf8(c) ==
    IF c < 128 THEN <<c>>
    ELSE IF c < 2048 THEN <<192 + (c \div 64), 128 + (c % 64)>>
    ELSE IF c < 65536 THEN <<224 + (c \div 4096), 128 + ((c \div 64) % 64), 128 + (c % 64)>>
    ELSE <<240 + (c \div 262144), 128 + ((c \div 4096) % 64), 128 + ((c \div 64) % 64), 128 + (c % 64)>>

RECURSIVE Utf8Seq(_)
Utf8Seq(s) == IF s = <<>> THEN <<>> ELSE Utf8(Head(s)) \o Utf8Seq(Tail(s))

InR(b, i, lo, hi) == i <= Len(b) /\ b[i] >= lo /\ b[i] <= hi
Cont(b, i) == InR(b, i, 128, 191)
C6(x) == x - 128

(* octets -> code points, every maximal ill-formed subpart replaced by one U+FFFD *)
RECURSIVE U8From(_, _)
U8From(b, i) ==
    IF i > Len(b) THEN <<>>
    ELSE LET x == b[i] IN
      IF x < 128 THEN <<x>> \o U8From(b, i + 1)
      ELSE IF x >= 194 /\ x <= 223 THEN
          IF Cont(b, i + 1) THEN <<(x - 192) * 64 + C6(b[i + 1])>> \o U8From(b, i + 2)
          ELSE <<FFFD>> \o U8From(b, i + 1)
      ELSE IF x >= 224 /\ x <= 239 THEN
          LET lo == IF x = 224 THEN 160 ELSE 128
              hi == IF x = 237 THEN 159 ELSE 191
          IN  IF ~InR(b, i + 1, lo, hi) THEN <<FFFD>> \o U8From(b, i + 1)
              ELSE IF ~Cont(b, i + 2) THEN <<FFFD>> \o U8From(b, i + 2)
              ELSE <<(x - 224) * 4096 + C6(b[i + 1]) * 64 + C6(b[i + 2])>> \o U8From(b, i + 3)
      ELSE IF x >= 240 /\ x <= 244 THEN
          LET lo == IF x = 240 THEN 144 ELSE 128
              hi == IF x = 244 THEN 143 ELSE 191
          IN  IF ~InR(b, i + 1, lo, hi) THEN <<FFFD>> \o U8From(b, i + 1)
              ELSE IF ~Cont(b, i + 2) THEN <<FFFD>> \o U8From(b, i + 2)
              ELSE IF ~Cont(b, i + 3) THEN <<FFFD>> \o U8From(b, i + 3)
              ELSE <<(x - 240) * 262144 + C6(b[i + 1]) * 4096 + C6(b[i + 2]) * 64 + C6(b[i + 3])>>
                   \o U8From(b, i + 4)
      ELSE <<FFFD>> \o U8From(b, i + 1)

U8Read(b) == U8From(b, 1)

(* --------------------------------------------------------------- decode *)
Lit(c, plus) == IF plus /\ c = PLUS THEN SP ELSE c
Raw(b)       == -(b + 1)

(* reference reading: a '%' followed by two hex digits is one octet, everything else is literal *)
EscAt(s, i) == s[i] = PCT /\ i + 2 <= Len(s) /\ IsHex(s[i + 1]) /\ IsHex(s[i + 2])

RECURSIVE UnitsFrom(_, _, _)
UnitsFrom(s, i, plus) ==
    IF i > Len(s) THEN <<>>
    ELSE IF EscAt(s, i) THEN <<Raw(16 * HexVal(s[i + 1]) + HexVal(s[i + 2]))>> \o UnitsFrom(s, i + 3, plus)
    ELSE <<Lit(s[i], plus)>> \o UnitsFrom(s, i + 1, plus)

DecodeUnits(s, plus) == UnitsFrom(s, 1, plus)

(* the same function as the three-state scanner of the design:
   st = 0 normal, 1 after '%', 2 after '%' and one hex digit h *)
RECURSIVE Scan(_, _, _, _, _)
Scan(s, i, st, h, plus) ==
    IF i > Len(s) THEN (IF st = 0 THEN <<>> ELSE IF st = 1 THEN <<PCT>> ELSE <<PCT, Lit(h, plus)>>)
    ELSE LET c == s[i] IN
      IF st = 0 THEN (IF c = PCT THEN Scan(s, i + 1, 1, 0, plus) ELSE <<Lit(c, plus)>> \o Scan(s, i + 1, 0, 0, plus))
      ELSE IF st = 1 THEN (IF IsHex(c) THEN Scan(s, i + 1, 2, c, plus) ELSE <<PCT>> \o Scan(s, i, 0, 0, plus))
      ELSE (IF IsHex(c) THEN <<Raw(16 * HexVal(h) + HexVal(c))>> \o Scan(s, i + 1, 0, 0, plus)
            ELSE <<PCT, Lit(h, plus)>> \o Scan(s, i, 0, 0, plus))

RECURSIVE Flatten(_)
Flatten(u) == IF u = <<>> THEN <<>>
              ELSE (IF Head(u) >= 0 THEN Utf8(Head(u)) ELSE <<-Head(u) - 1>>) \o Flatten(Tail(u))

DecodeBytes(s, plus) == Flatten(DecodeUnits(s, plus))
Decode(s, plus)      == U8Read(DecodeBytes(s, plus))

(* a split after position i (0..Len) does not cut an escape *)
SafeSplit(s, i) == ~(i >= 1 /\ s[i] = PCT) /\ ~(i >= 2 /\ s[i - 1] = PCT /\ IsHex(s[i]))
Closed(s) == SafeSplit(s, Len(s))           \* s can be followed by anything without changing its reading

(* --------------------------------------------------------------- encode *)
EscByte(b) == <<PCT, HexUp(b \div 16), HexUp(b % 16)>>

RECURSIVE EncBytes(_, _)
EncBytes(b, allowed) ==
    IF b = <<>> THEN <<>>
    ELSE (IF Head(b) \in allowed THEN <<Head(b)>> ELSE EscByte(Head(b))) \o EncBytes(Tail(b), allowed)

Encode(s, allowed) == EncBytes(Utf8Seq(s), allowed)

AllIn(s, S) == \A i \in 1..Len(s) : s[i] \in S

(* "already fully escaped": only allowed characters and well-formed escapes *)
FullyEscaped(s, allowed) ==
    /\ AllIn(s, allowed \cup {PCT})
    /\ \A i \in 1..Len(s) : s[i] = PCT => EscAt(s, i)

EncodeCE(s, allowed) == IF FullyEscaped(s, allowed) THEN s ELSE Encode(s, allowed)

(* output grammar of the plain encoders: allowed characters and UPPER-case escapes *)
StrictEscaped(t, allowed) ==
    /\ AllIn(t, allowed \cup {PCT})
    /\ \A i \in 1..Len(t) : t[i] = PCT =>
          /\ i + 2 <= Len(t)
          /\ (IsDigit(t[i + 1]) \/ IsUpHex(t[i + 1]))
          /\ (IsDigit(t[i + 2]) \/ IsUpHex(t[i + 2]))

(* ------------------------------------------------------------ parse_host *)
COLON == 58
LBR   == 91
RBR   == 93
CONSTANT KnownLiterals      \* insides of "[...]" known to be valid IP literals (beyond what ValidV6 recognises)

Positions(s, c) == {i \in 1..Len(s) : s[i] = c}
MaxOf(S) == CHOOSE x \in S : \A y \in S : y <= x
MinOf(S) == CHOOSE x \in S : \A y \in S : x <= y

AllDigits(p) == p # <<>> /\ \A i \in 1..Len(p) : IsDigit(p[i])
RECURSIVE NatOf(_)
NatOf(p) == IF p = <<>> THEN 0 ELSE NatOf(SubSeq(p, 1, Len(p) - 1)) * 10 + (p[Len(p)] - 48)

(* authority = host [ ":" port ];  host = reg-name / IPv4 (no ':' '[' ']')  |  "[" IP-literal "]" *)
NoPort == -1
Authority(h, p) == IF p = <<>> THEN h ELSE h \o <<COLON>> \o p      \* p: digit string, <<>> = no port

(* the reference split of an authority s.  colon: the port separator is spelled; portstr: the port digits,
   <<>> when there is no port OR the port is empty ("host:" is a valid authority, RFC 3986 section 3.2.3:
   port = *DIGIT; it carries no port number) *)
HostSplit(s) ==
    IF s # <<>> /\ s[1] = LBR THEN
        LET C == {i \in 1..Len(s) - 1 : s[i] = RBR /\ s[i + 1] = COLON}
        IN  IF C # {} THEN [host |-> SubSeq(s, 2, MaxOf(C) - 1), portstr |-> SubSeq(s, MaxOf(C) + 2, Len(s)), colon |-> TRUE]
            ELSE [host |-> SubSeq(s, 2, Len(s) - 1), portstr |-> <<>>, colon |-> FALSE]
    ELSE
        LET C == Positions(s, COLON)
        IN  IF Cardinality(C) = 1
            THEN [host |-> SubSeq(s, 1, MinOf(C) - 1), portstr |-> SubSeq(s, MinOf(C) + 1, Len(s)), colon |-> TRUE]
            ELSE [host |-> s, portstr |-> <<>>, colon |-> FALSE]

RegName(h)   == \A i \in 1..Len(h) : h[i] \notin {COLON, LBR, RBR}
IpLiteral(h) == /\ Len(h) >= 3 /\ h[1] = LBR /\ h[Len(h)] = RBR
                /\ \A i \in 2..Len(h) - 1 : h[i] \notin {LBR, RBR}
(* shape of a valid authority (the inside of an IP literal is not validated: splitting does not depend on it) *)
AuthorityShape(s) ==
    LET r == HostSplit(s)
        bracket == s # <<>> /\ s[1] = LBR
    IN  /\ (r.portstr = <<>> \/ (AllDigits(r.portstr) /\ Len(r.portstr) <= 6))
        /\ LET tail == IF r.colon THEN <<COLON>> \o r.portstr ELSE <<>>
            IN  IF bracket THEN IpLiteral(<<LBR>> \o r.host \o <<RBR>>) /\ <<LBR>> \o r.host \o <<RBR>> \o tail = s
                ELSE RegName(r.host) /\ r.host \o tail = s

(* IPv6address with one "::" and no embedded IPv4 (the forms short enough to be enumerated) *)
ValidV6(x) ==
    LET DC == {i \in 1..Len(x) - 1 : x[i] = COLON /\ x[i + 1] = COLON}
        Side(y) == /\ \A i \in 1..Len(y) : IsHex(y[i]) \/ y[i] = COLON
                   /\ (y # <<>> => y[1] # COLON /\ y[Len(y)] # COLON)
                   /\ \A i \in 1..Len(y) - 4 : \E j \in i..i + 4 : y[j] = COLON       \* groups of <= 4 digits
        Groups(y) == IF y = <<>> THEN 0 ELSE Cardinality(Positions(y, COLON)) + 1
    IN  /\ Cardinality(DC) = 1
        /\ LET i0 == MinOf(DC)
                le == SubSeq(x, 1, i0 - 1)
                ri == SubSeq(x, i0 + 2, Len(x))
            IN  Side(le) /\ Side(ri) /\ Groups(le) + Groups(ri) <= 7

(* IPvFuture = "v" 1*HEXDIG "." 1*( unreserved / sub-delims / ":" )   (RFC 3986 section 3.2.2) *)
SubDelims == {33, 36, 38, 39, 40, 41, 42, 43, 44, 59, 61}
ValidVFuture(x) ==
    LET Dots == Positions(x, 46)
    IN  /\ Len(x) >= 4 /\ x[1] \in {118, 86} /\ Dots # {}
        /\ LET d == MinOf(Dots)
            IN  /\ d >= 3 /\ d < Len(x)
                /\ \A i \in 2..d - 1 : IsHex(x[i])
                /\ \A i \in d + 1..Len(x) : x[i] \in Unreserved \cup SubDelims \cup {COLON}

(* forms for which the property promises the split: reg-names / IPv4, and IP literals known to be valid *)
ValidHostForm(s) ==
    /\ AuthorityShape(s)
    /\ (s # <<>> /\ s[1] = LBR) => (\/ ValidV6(HostSplit(s).host) \/ ValidVFuture(HostSplit(s).host)
                                     \/ HostSplit(s).host \in KnownLiterals)

(* the authority s without its port, and with another one *)
BareAuthority(s) == LET r == HostSplit(s)
                    IN  IF s # <<>> /\ s[1] = LBR THEN <<LBR>> \o r.host \o <<RBR>> ELSE r.host
HasPort(s) == HostSplit(s).portstr # <<>>
HasColon(s) == HostSplit(s).colon
EmptyPort(b) == b \o <<COLON>>              \* the authority b with an empty port spelled

ParseHost(s) == LET r == HostSplit(s)
                IN  [host |-> r.host, port |-> IF r.portstr = <<>> THEN NoPort ELSE NatOf(r.portstr)]
==========================================================================
