INIT MCInit
NEXT XNext
CONSTANTS
  Conns = {1}
  Bases = {2}
  Kinds = {"text"}
  Marks = {7}
  ShareDecoded = FALSE
  MemoEncoded = FALSE
  MaxFrames = 2
  MaxHeap = 2
  MaxMut = 1
  MaxDistinct = 3
  MaxSends = 1
  Depth = 0
VIEW MCView
PROPERTY DeliveredHolds
PROPERTY NoSharedHolds
PROPERTY SentHolds
PROPERTY MCStable
