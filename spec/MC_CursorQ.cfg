INIT XInit
NEXT XNext
CONSTANTS
  Alphabet = {65, 66, 10}
  MaxLen = 3
  Sizes <- QSizes
  Delims <- MCDelims
  ChunkSizes = {1, 2}
  MaxDepth = 2
  Depth = 3
INVARIANT NoSkipNoDup
INVARIANT NeverBeyondMax
INVARIANT NestedEnds
INVARIANT SizedBounded
INVARIANT PeekCapped
INVARIANT ErrLeavesData
PROPERTY MCMonotone
