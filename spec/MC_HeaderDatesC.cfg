INIT Init
NEXT Next
CONSTANTS
  Bases <- BasesQ
  MaxMut = 1
INVARIANT BasesValid
INVARIANT ValidIsClean
INVARIANT DayExists
INVARIANT ObsConsistent
INVARIANT IsoShape
