-------------------------- MODULE MC_QueryString --------------------------
(* Bounded instances of QueryString: all query strings over C08's alphabet, and a family of
   mappings for the to_query_str round trip.  Emit exports one JSON case per step. *)
EXTENDS QueryString, Json

(* '&' '=' ',' '+' '%' '4' '1' 'C' '3' 'a' 'G' NUL U+00E9 *)
QsAlphabet == {38, 61, 44, 43, 37, 52, 49, 67, 51, 97, 71, 0, 233}
(* length 5 over the 8 structural symbols '&' '=' ',' '+' '%' '4' '1' 'a' (thorough tier) *)
QsAlphabet5 == {38, 61, 44, 43, 37, 52, 49, 97}
NoStrings  == {}
NoMappings == {}

(* hand-picked longer strings: the ones of DESIGN section 6 (F5) and shapes the bound cannot reach *)
QsExtra == { <<97, 61, 44>>,                                  \* a=,
             <<97, 61, 49, 38, 97, 61, 44>>,                  \* a=1&a=,
             <<97, 61, 44, 38, 97, 61, 49>>,                  \* a=,&a=1
             <<97, 61, 49, 44, 44, 51, 38, 97, 61, 38, 97, 61, 52>>,      \* a=1,,3&a=&a=4
             <<37, 54, 49, 61, 49, 38, 97, 61, 37, 50, 67, 44, 37, 50, 99>>,  \* %61=1&a=%2C,%2c
             <<37, 67, 51, 37, 65, 57, 61, 37, 70, 70, 38, 37, 70, 69, 61, 49, 38, 37, 70, 70, 61, 50>>  \* %C3%A9=%FF&%FE=1&%FF=2
           }

(* one name/value that splits into >= 8 '%' tokens (the decoder's other code path), 7 well-formed escapes
   "%31%30%30%30%30%30%30" = "1000000" followed or preceded by a malformed one *)
P7 == <<37, 51, 49, 37, 51, 48, 37, 51, 48, 37, 51, 48, 37, 51, 48, 37, 51, 48, 37, 51, 48>>
Malformed == { <<37, 49>>,                 \* %1      one hex digit at the end
               <<37, 49, 37, 51, 49>>,     \* %1%31   one hex digit before another escape
               <<37, 43, 57>>,             \* %+9
               <<37, 45, 57>>,             \* %-9
               <<37, 32, 57>>,             \* "% 9"
               <<37, 122, 122>>,           \* %zz
               <<37, 97, 37, 50, 48>>,     \* %a%20
               <<37>>,                     \* %
               <<37, 37, 51, 57>>,         \* %%39
               <<37, 57, 43>>,             \* %9+
               <<37, 48, 120, 57>> }       \* %0x9
QsLong == {<<110, 61>> \o P7 \o t : t \in Malformed}                       \* n=<7 escapes><malformed>
          \cup {<<110, 61>> \o t \o P7 : t \in Malformed}                 \* n=<malformed><7 escapes>
          \cup {P7 \o t \o <<61, 49>> : t \in Malformed}                  \* the same as a NAME
          \cup {<<110, 61, 52, 44>> \o P7 \o t : t \in Malformed}         \* n=4,<...>  (one CSV element)
          \cup {<<110, 61, 49, 38, 110, 61>> \o P7 \o t : t \in Malformed} \* n=1&n=<...>  (last occurrence)
QsExtraAll == QsExtra \cup QsLong

(* mappings: names 'a', 'é=' and the empty name; values '', '1', 'a,b', '&=', '%41+ ' *)
RtNames  == {<<97>>, <<233, 61>>, <<>>}
RtValues == {<<>>, <<49>>, <<97, 44, 98>>, <<38, 61>>, <<37, 52, 49, 43, 32>>}
EntriesOf(n) == {[k |-> n, v |-> <<x>>, shape |-> "scalar"] : x \in RtValues}
                \cup {[k |-> n, v |-> vs, shape |-> "list"] : vs \in SeqsUpTo(RtValues, 2)}
(* values as to_query_str documents them: "a str or something that can be converted into a str" - the texts
   str() gives for floats, ints and bools (the harness passes the objects; the text is their rendering):
   1e+16  1e+100  -1e-07  inf  nan  -3  18446744073709551616  1.5  true *)
TypedTexts == { <<49, 101, 43, 49, 54>>,
                <<49, 101, 43, 49, 48, 48>>,
                <<45, 49, 101, 45, 48, 55>>,
                <<105, 110, 102>>,
                <<110, 97, 110>>,
                <<45, 51>>,
                <<49, 56, 52, 52, 54, 55, 52, 52, 48, 55, 51, 55, 48, 57, 53, 53, 49, 54, 49, 54>>,
                <<49, 46, 53>>,
                <<116, 114, 117, 101>> }
TypedEntries == {[k |-> <<120>>, v |-> <<x>>, shape |-> "scalar"] : x \in TypedTexts}
                \cup {[k |-> <<120>>, v |-> vs, shape |-> "list"] : vs \in SeqsUpTo(TypedTexts, 2)}
TypedMappings == {<<e>> : e \in TypedEntries}
                 \cup {<<e, [k |-> <<97>>, v |-> <<<<49>>>>, shape |-> "scalar"]>> : e \in TypedEntries}
RtMappings == {<<e>> : e \in UNION {EntriesOf(n) : n \in RtNames}}
              \cup {<<e1, e2>> : e1 \in EntriesOf(<<97>>), e2 \in EntriesOf(<<233, 61>>)}
              \cup {<<e1, e2>> : e1 \in EntriesOf(<<233, 61>>), e2 \in EntriesOf(<<97>>)}
              \cup TypedMappings
RtMappingsQ == {<<e>> : e \in UNION {EntriesOf(n) : n \in RtNames}} \cup TypedMappings

XParse   == (\E k, c \in BOOLEAN : DoParse(k, c)) /\ phase = "init"
XReparse == (\E k, c \in BOOLEAN : DoParse(k, c)) /\ phase = "rendered"
XRender  == (\E c \in BOOLEAN : DoRender(c)) /\ phase = "init"
XNext == XParse \/ XReparse \/ XRender

Emit == phase # "init" =>
    PrintT(ToJson([phase |-> phase, q |-> q, m |-> m, kb |-> kb, csv |-> csv, cl |-> cl,
                   entries |-> res.entries, zero |-> res.zero, blankcsv |-> res.blankcsv]))

(* wrong-design switch for the vacuity run (MC_QueryStringBad.cfg: ValuesOf <- DecodeThenSplit): splitting
   at commas AFTER decoding turns an escaped comma into a separator and must be caught by RoundTrip *)
DecodeThenSplit(f, keep, c) ==
    IF c /\ COMMA \in {DecodeQ(f.v)[i] : i \in 1..Len(DecodeQ(f.v))}
    THEN LET parts == SplitOn(DecodeQ(f.v), COMMA) IN IF keep THEN parts ELSE SelectSeq(parts, NonEmpty)
    ELSE <<DecodeQ(f.v)>>
===========================================================================
