---------------------------- MODULE MediaCache ----------------------------
(* C12: request media is parsed at most once; value and error are cached; an empty body yields
   what the handler documents; an undecodable body yields a 400-class malformed-media error;
   a valid body deserialises to the document that was serialised.

   One request.  `ctype` is the Content-Type it carries, HandlerOf[ctype] the kind of handler the
   mapping resolves it to ("json", "form", or "none" = unsupported; how that resolution works is
   C11's Handlers.tla).  `body` is what the client sent:
        "empty"      no bytes: Empty(body) == (Len(body) = 0), nothing else is empty
        "blank"      one or more bytes, all of them JSON whitespace (" ", "\n", "\r\n", "\t \n"): NOT empty,
                     and not a document either, hence undecodable (BlankIsNotEmpty)             (json only)
        "padded"     a valid serialisation with whitespace before / after it: still the document (json only)
        "valid"      Serialize(doc) for the document the response side was given
        "truncated"  a proper prefix of a serialisation that is not itself decodable   (json only)
        "badenc"     bytes that are not UTF-8 / not ASCII for forms
        "hookfail"   a decodable body on which the handler itself fails with an exception that is NOT a
                     media error (a user's handler class, or the documented JSONHandler(loads=partial(
                     json.loads, object_hook=hook)) whose hook raises): AnyHandlerErrorIsCached - the
                     SAME exception object is re-raised by later accesses, nothing is parsed again and
                     a caller's default is not returned (the body was not empty)         (json only)
   The document is any JSON value, in particular the falsy ones (null, false, 0, "", [], {}):
   a cached value is recognised by the cache being SET, never by the value being truthy or
   non-null (CachedIsNotTruthiness).  `framing` says how the body length reaches the application:
   "length" (a Content-Length header) or "chunked" (no Content-Length, the body simply ends:
   Transfer-Encoding: chunked on the wire, ASGI more_body events); what is parsed never depends
   on it (FramingIsIrrelevant) - the body is what the stream delivers, not what a header says.
   Which handler a content type resolves to depends on its type/subtype only; its parameters
   (charset=..., version=..., profile=...) change nothing in what is parsed - falcon's JSON handler
   is documented as UTF-8 - on either stack and through either handler entry point (deserialize /
   deserialize_async / the ASGI fast path): ContentTypeParametersAreIrrelevant, so they do not occur in
   Deserialize.
   How the request DECLARES its body length is part of `framing`, too: "length" always means an explicit
   Content-Length header (Content-Length: 0 for an empty body); "absent" is a request without any
   Content-Length / Transfer-Encoding header whose ASGI body events / wsgi.input are empty; "blank" is a
   Content-Length header with a blank value (what wsgiref puts into CONTENT_LENGTH when the client sent
   none).  A request that declares no body has none (Init), and that is all a declaration says: WHAT an
   empty body means is decided by the handler alone (HandlerDecidesEmpty, switch of the same name): JSON
   documents the media-not-found error (or the caller's default), the form handler the empty mapping -
   default or not, first access or later, get_media() or the property.
   "The same error" is the same error AS OBSERVED BY AN APPLICATION: the projection [type, title, desc,
   cause] of the error the first parse produced is part of the cache, and every later access - in the
   responder, inside an except block (handling an unrelated exception or the media error itself), in a
   middleware probing req.media before the responder, in an error handler after the error propagated -
   observes exactly that projection (LaterAccessesObserveFirstError, switch KeepFirstError).  For the
   malformed-media error the description carries the parser's message, taken from the exception's cause:
   an error "of the same kind" built anew, or re-raised with its cause cut off, is NOT the same error.
   The access context `cx` never occurs in what an access answers (ContextIsIrrelevant).
   One action per public access: get_media() / get_media(default_when_empty=X) / the media property.
   Implementation-shaped rules are named: StreamIsConsumedByParse, ErrorsAreCached (switch
   CacheError), DefaultIsNotCached (switch CacheDefault), UnsupportedIsNotCached.               *)
EXTENDS Integers, Sequences, TLC

CONSTANTS Stacks,        \* {"wsgi", "asgi"}: the same model for both (the harness drives both)
          Framings,      \* [Stacks -> SUBSET {"length", "chunked"}]: framings a stack can express
          CTypes,        \* content types
          HandlerOf,     \* [CTypes -> {"json", "form", "none"}]
          BodyKinds,
          CacheError,    \* TRUE = design; FALSE = wrong design "a failed parse is not remembered"
          CacheDefault,  \* FALSE = design; TRUE = wrong design "the caller's default is remembered as the media"
          HandlerDecidesEmpty,  \* TRUE = design; FALSE = wrong design "a request that declares no body is answered in front of
                                \* the handler: media-not-found / the caller's default, whatever the handler documents"
          KeepFirstError,       \* TRUE = design; FALSE = wrong design "later accesses raise an error of the same kind built anew
                                \* (or with its cause cut off): the parser's message is gone from what the application sees"
          Contexts       \* where an access happens: "plain" | "except" | "exceptself" | "mw" | "errh"

VARIABLES stack, framing, ctype, body,
          cache,      \* [k: "unset" | "val" | "err", ek: error kind, v: value tag]
          consumed,   \* the body stream has been read to its end
          parses,     \* number of deserialisation attempts so far
          last,       \* the last access and what it gave
          firstp      \* projection of the first (cacheable) error an access observed; NoProj before that

vars == <<stack, framing, ctype, body, cache, consumed, parses, last, firstp>>

Handler == HandlerOf[ctype]

(* what a handler documents for a body, as [k, ek, v]:  v = "doc" the document that was serialised,
   "empty" the handler's empty value (form: an empty mapping), "dflt" the caller's default *)
(* the error as an application observes it: exception type, title, description, kind of __cause__ *)
NoProj == [type |-> "none", title |-> "none", desc |-> "none", cause |-> "none"]
ProjOf(ek) ==
    CASE ek = "notfound"    -> [type |-> "MediaNotFoundError", title |-> "invalid-media", desc |-> "empty-body", cause |-> "none"]
      [] ek = "malformed"   -> [type |-> "MediaMalformedError", title |-> "invalid-media", desc |-> "could-not-parse+parser-message", cause |-> "parser"]
      [] ek = "custom"      -> [type |-> "handlers-own", title |-> "none", desc |-> "handlers-own", cause |-> "none"]
      [] ek = "unsupported" -> [type |-> "HTTPUnsupportedMediaType", title |-> "unsupported", desc |-> "unsupported", cause |-> "none"]
      [] OTHER              -> NoProj
(* wrong design: an error of the same kind without the first one's cause *)
Rebuilt(p) == IF p.cause = "none" THEN p ELSE [p EXCEPT !.desc = "could-not-parse", !.cause = "none"]

Val(v)  == [k |-> "val", ek |-> "none", v |-> v, p |-> NoProj]
Err(ek) == [k |-> "err", ek |-> ek, v |-> "none", p |-> ProjOf(ek)]
Unset   == [k |-> "unset", ek |-> "none", v |-> "none", p |-> NoProj]

Empty(b) == b = "empty"          \* i.e. Len(body) = 0; a body of whitespace has Len > 0

Deserialize(hk, b) ==
    IF hk = "json" THEN (CASE Empty(b)    -> Err("notfound")        \* MediaNotFoundError
                           [] b \in {"valid", "padded"} -> Val("doc")   \* the round-trip law
                           [] b = "hookfail" -> Err("custom")       \* whatever the handler raised
                           [] OTHER       -> Err("malformed"))      \* MediaMalformedError
    ELSE                (CASE Empty(b)    -> Val("empty")           \* "an empty body will be parsed as an empty dict"
                           [] b = "valid" -> Val("doc")
                           [] OTHER       -> Err("malformed"))

StatusOf(ek) == CASE ek = "notfound" -> 400 [] ek = "malformed" -> 400 [] ek = "unsupported" -> 415
                [] ek = "custom" -> 500 [] OTHER -> 0          \* a non-HTTP exception reaches the client as a 500

(* out: "val" | "dflt" | "err";  same: the very object/error of the first answer;  touched: this
   access read from the body stream *)
Rec(op, d, cx, out, ek, v, same, touched, p) ==
    [op |-> op, d |-> d, cx |-> cx, out |-> out, ek |-> ek, v |-> v, status |-> StatusOf(ek), same |-> same, touched |-> touched, p |-> p]
InitRec == Rec("init", FALSE, "plain", "none", "none", "none", FALSE, FALSE, NoProj)

(* the request says in its headers that there is no body (a chunked request says nothing) *)
NoBodyDeclared == framing \in {"absent", "blank"} \/ (framing = "length" /\ Empty(body))

TypeOK == /\ cache.k \in {"unset", "val", "err"} /\ parses \in 0..100 /\ consumed \in BOOLEAN

Init == /\ stack \in Stacks /\ framing \in Framings[stack] /\ ctype \in CTypes /\ body \in BodyKinds
        /\ (HandlerOf[ctype] = "form" => body # "truncated")
        /\ (body \in {"hookfail", "blank", "padded"} => HandlerOf[ctype] = "json")
        /\ (framing \in {"absent", "blank"} => Empty(body))        \* a request that declares no body has none
        /\ cache = Unset /\ consumed = FALSE /\ parses = 0
        /\ last = InitRec /\ firstp = NoProj

(* op: "get" (the method) or "media" (the property, never with a default);  d: a default was given;
   cx: where the access happens - it occurs in the record only (ContextIsIrrelevant) *)
Answer(rec) ==
    /\ last' = rec
    /\ firstp' = IF firstp = NoProj /\ rec.out = "err" /\ rec.ek # "unsupported" THEN rec.p ELSE firstp

Access(op, d, cx) ==
    IF cache.k = "val"
    THEN /\ Answer(Rec(op, d, cx, "val", "none", cache.v, TRUE, FALSE, NoProj))
         /\ UNCHANGED <<stack, framing, ctype, body, cache, consumed, parses>>
    ELSE IF cache.k = "err"
    THEN /\ Answer(IF d /\ cache.ek = "notfound" THEN Rec(op, d, cx, "dflt", "none", "dflt", FALSE, FALSE, NoProj)
                   ELSE Rec(op, d, cx, "err", cache.ek, "none", TRUE, FALSE,
                            IF KeepFirstError THEN cache.p ELSE Rebuilt(cache.p)))    \* LaterAccessesObserveFirstError
         /\ UNCHANGED <<stack, framing, ctype, body, cache, consumed, parses>>
    ELSE IF Handler = "none"
    THEN (* UnsupportedIsNotCached: the 415 is raised before anything is read or remembered *)
         /\ Answer(Rec(op, d, cx, "err", "unsupported", "none", FALSE, FALSE, ProjOf("unsupported")))
         /\ UNCHANGED <<stack, framing, ctype, body, cache, consumed, parses>>
    ELSE LET seen == IF consumed THEN "empty" ELSE body          \* StreamIsConsumedByParse
             r == IF ~HandlerDecidesEmpty /\ NoBodyDeclared THEN Err("notfound")     \* wrong design
                  ELSE Deserialize(Handler, seen)                                     \* HandlerDecidesEmpty
             dflt == d /\ r.k = "err" /\ r.ek = "notfound"
         IN  /\ parses' = parses + 1 /\ consumed' = TRUE
             /\ cache' = IF r.k = "val" THEN r
                         ELSE IF dflt /\ CacheDefault THEN Val("dflt")            \* wrong design
                         ELSE IF CacheError THEN r ELSE Unset                     \* ErrorsAreCached
             /\ Answer(IF r.k = "val" THEN Rec(op, d, cx, "val", "none", r.v, TRUE, ~consumed, NoProj)
                       ELSE IF dflt THEN Rec(op, d, cx, "dflt", "none", "dflt", FALSE, ~consumed, NoProj)   \* DefaultIsNotCached
                       ELSE Rec(op, d, cx, "err", r.ek, "none", TRUE, ~consumed, r.p))
             /\ UNCHANGED <<stack, framing, ctype, body>>

GetMedia        == \E cx \in Contexts : Access("get", FALSE, cx)
GetMediaDefault == \E cx \in Contexts : Access("get", TRUE, cx)
MediaProperty   == \E cx \in Contexts : Access("media", FALSE, cx)

Next == GetMedia \/ GetMediaDefault \/ MediaProperty
Spec == Init /\ [][Next]_vars

(* ---- properties ---- *)
Called == last.op # "init"
AtMostOneParse == parses <= 1
(* once something is cached nothing is parsed, read or replaced again *)
NeverReparsed == [][cache.k # "unset" => (cache' = cache /\ parses' = parses /\ consumed' = consumed /\ ~last'.touched)]_vars
(* every answer is the cached one: same object, or the same error *)
SameObjectOrSameError ==
    Called => /\ (last.out = "val" => cache = Val(last.v) /\ last.same)
              /\ (last.out = "err" /\ last.ek # "unsupported" => cache = Err(last.ek))
              /\ (last.out = "dflt" => cache = Err("notfound"))
DefaultOnlyForEmpty == (Called /\ last.out = "dflt") => (last.d /\ Empty(body) /\ Handler = "json")
DefaultNotCached    == cache.k = "val" => cache.v # "dflt"
EmptyIsDocumented   == (Called /\ body = "empty" /\ Handler = "json" /\ ~last.d) => (last.out = "err" /\ last.ek = "notfound")
EmptyFormIsEmptyMapping == (Called /\ body = "empty" /\ Handler = "form") => (last.out = "val" /\ last.v = "empty")
MalformedIs400Class == (Called /\ body \in {"truncated", "badenc", "blank"} /\ Handler # "none") =>
                           (last.out = "err" /\ last.ek = "malformed" /\ last.status = 400)
CustomErrorIsKept   == (Called /\ body = "hookfail") => (last.out = "err" /\ last.ek = "custom" /\ last.same /\ parses = 1)
BlankIsNotEmpty     == (Called /\ body = "blank") => (last.out = "err" /\ last.ek = "malformed")     \* also when a default was given
RoundTrip           == (Called /\ body \in {"valid", "padded"} /\ Handler # "none") => (last.out = "val" /\ last.v = "doc")
(* every access that raises the (cacheable) error shows the application the error of the first parse *)
LaterAccessesObserveFirstError ==
    (Called /\ last.out = "err" /\ last.ek # "unsupported") => (last.p = firstp /\ last.p = cache.p /\ last.p = ProjOf(last.ek))
MalformedCarriesParserMessage ==
    (Called /\ last.out = "err" /\ last.ek = "malformed") => (last.p.cause = "parser" /\ last.p.desc = "could-not-parse+parser-message")
(* whatever the request declares about its length, first access or later, default or not *)
HandlerDecidesEmptyLaw ==
    (Called /\ Empty(body) /\ Handler # "none") =>
        LET r == Deserialize(Handler, "empty") IN
        IF r.k = "val" THEN last.out = "val" /\ last.v = r.v
        ELSE IF last.d THEN last.out = "dflt" ELSE (last.out = "err" /\ last.ek = r.ek)
UnsupportedIs415    == (Called /\ Handler = "none") => (last.out = "err" /\ last.status = 415 /\ parses = 0 /\ ~consumed)
===========================================================================
