---------------------------- MODULE MediaCache ----------------------------
(* C12: request media is parsed at most once; value and error are cached; an empty body yields
   what the handler documents; an undecodable body yields a 400-class malformed-media error;
   a valid body deserialises to the document that was serialised.

   One request.  `ctype` is the Content-Type it carries, HandlerOf[ctype] the kind of handler the
   mapping resolves it to ("json", "form", or "none" = unsupported; how that resolution works is
   C11's Handlers.tla).  `body` is what the client sent:
        "empty"      no bytes: Empty(body) == (Len(body) = 0), nothing else is empty
        "blank"      one or more bytes, all of them JSON whitespace (" ", "\n", "\r\n", "\t \n"): NOT empty,
                     and not a document either, hence undecodable (BlankIsNotEmpty)             (json only)
        "padded"     a valid serialisation with whitespace before / after it: still the document (json only)
        "valid"      Serialize(doc) for the document the response side was given
        "truncated"  a proper prefix of a serialisation that is not itself decodable   (json only)
        "badenc"     bytes that are not UTF-8 / not ASCII for forms
        "hookfail"   a decodable body on which the handler itself fails with an exception that is NOT a
                     media error (a user's handler class, or the documented JSONHandler(loads=partial(
                     json.loads, object_hook=hook)) whose hook raises): AnyHandlerErrorIsCached - the
                     SAME exception object is re-raised by later accesses, nothing is parsed again and
                     a caller's default is not returned (the body was not empty)         (json only)
   The document is any JSON value, in particular the falsy ones (null, false, 0, "", [], {}):
   a cached value is recognised by the cache being SET, never by the value being truthy or
   non-null (CachedIsNotTruthiness).  `framing` says how the body length reaches the application:
   "length" (a Content-Length header) or "chunked" (no Content-Length, the body simply ends:
   Transfer-Encoding: chunked on the wire, ASGI more_body events); what is parsed never depends
   on it (FramingIsIrrelevant) - the body is what the stream delivers, not what a header says.
   Which handler a content type resolves to depends on its type/subtype only; its parameters
   (charset=..., version=..., profile=...) change nothing in what is parsed - falcon's JSON handler
   is documented as UTF-8 - on either stack and through either handler entry point (deserialize /
   deserialize_async / the ASGI fast path): ContentTypeParametersAreIrrelevant, so they do not occur in
   Deserialize.
   One action per public access: get_media() / get_media(default_when_empty=X) / the media property.
   Implementation-shaped rules are named: StreamIsConsumedByParse, ErrorsAreCached (switch
   CacheError), DefaultIsNotCached (switch CacheDefault), UnsupportedIsNotCached.               *)
EXTENDS Integers, Sequences, TLC

CONSTANTS Stacks,        \* {"wsgi", "asgi"}: the same model for both (the harness drives both)
          Framings,      \* [Stacks -> SUBSET {"length", "chunked"}]: framings a stack can express
          CTypes,        \* content types
          HandlerOf,     \* [CTypes -> {"json", "form", "none"}]
          BodyKinds,
          CacheError,    \* TRUE = design; FALSE = wrong design "a failed parse is not remembered"
          CacheDefault   \* FALSE = design; TRUE = wrong design "the caller's default is remembered as the media"

VARIABLES stack, framing, ctype, body,
          cache,      \* [k: "unset" | "val" | "err", ek: error kind, v: value tag]
          consumed,   \* the body stream has been read to its end
          parses,     \* number of deserialisation attempts so far
          last        \* the last access and what it gave

vars == <<stack, framing, ctype, body, cache, consumed, parses, last>>

Handler == HandlerOf[ctype]

(* what a handler documents for a body, as [k, ek, v]:  v = "doc" the document that was serialised,
   "empty" the handler's empty value (form: an empty mapping), "dflt" the caller's default *)
Val(v)  == [k |-> "val", ek |-> "none", v |-> v]
Err(ek) == [k |-> "err", ek |-> ek, v |-> "none"]
Unset   == [k |-> "unset", ek |-> "none", v |-> "none"]

Empty(b) == b = "empty"          \* i.e. Len(body) = 0; a body of whitespace has Len > 0

Deserialize(hk, b) ==
    IF hk = "json" THEN (CASE Empty(b)    -> Err("notfound")        \* MediaNotFoundError
                           [] b \in {"valid", "padded"} -> Val("doc")   \* the round-trip law
                           [] b = "hookfail" -> Err("custom")       \* whatever the handler raised
                           [] OTHER       -> Err("malformed"))      \* MediaMalformedError
    ELSE                (CASE Empty(b)    -> Val("empty")           \* "an empty body will be parsed as an empty dict"
                           [] b = "valid" -> Val("doc")
                           [] OTHER       -> Err("malformed"))

StatusOf(ek) == CASE ek = "notfound" -> 400 [] ek = "malformed" -> 400 [] ek = "unsupported" -> 415
                [] ek = "custom" -> 500 [] OTHER -> 0          \* a non-HTTP exception reaches the client as a 500

(* out: "val" | "dflt" | "err";  same: the very object/error of the first answer;  touched: this
   access read from the body stream *)
Rec(op, d, out, ek, v, same, touched) ==
    [op |-> op, d |-> d, out |-> out, ek |-> ek, v |-> v, status |-> StatusOf(ek), same |-> same, touched |-> touched]

TypeOK == /\ cache.k \in {"unset", "val", "err"} /\ parses \in 0..100 /\ consumed \in BOOLEAN

Init == /\ stack \in Stacks /\ framing \in Framings[stack] /\ ctype \in CTypes /\ body \in BodyKinds
        /\ (HandlerOf[ctype] = "form" => body # "truncated")
        /\ (body \in {"hookfail", "blank", "padded"} => HandlerOf[ctype] = "json")
        /\ cache = Unset /\ consumed = FALSE /\ parses = 0
        /\ last = Rec("init", FALSE, "none", "none", "none", FALSE, FALSE)

(* op: "get" (the method) or "media" (the property, never with a default);  d: a default was given *)
Access(op, d) ==
    IF cache.k = "val"
    THEN /\ last' = Rec(op, d, "val", "none", cache.v, TRUE, FALSE)
         /\ UNCHANGED <<stack, framing, ctype, body, cache, consumed, parses>>
    ELSE IF cache.k = "err"
    THEN /\ last' = IF d /\ cache.ek = "notfound" THEN Rec(op, d, "dflt", "none", "dflt", FALSE, FALSE)
                    ELSE Rec(op, d, "err", cache.ek, "none", TRUE, FALSE)
         /\ UNCHANGED <<stack, framing, ctype, body, cache, consumed, parses>>
    ELSE IF Handler = "none"
    THEN (* UnsupportedIsNotCached: the 415 is raised before anything is read or remembered *)
         /\ last' = Rec(op, d, "err", "unsupported", "none", FALSE, FALSE)
         /\ UNCHANGED <<stack, framing, ctype, body, cache, consumed, parses>>
    ELSE LET seen == IF consumed THEN "empty" ELSE body          \* StreamIsConsumedByParse
             r == Deserialize(Handler, seen)
             dflt == d /\ r.k = "err" /\ r.ek = "notfound"
         IN  /\ parses' = parses + 1 /\ consumed' = TRUE
             /\ cache' = IF r.k = "val" THEN r
                         ELSE IF dflt /\ CacheDefault THEN Val("dflt")            \* wrong design
                         ELSE IF CacheError THEN r ELSE Unset                     \* ErrorsAreCached
             /\ last' = IF r.k = "val" THEN Rec(op, d, "val", "none", r.v, TRUE, ~consumed)
                        ELSE IF dflt THEN Rec(op, d, "dflt", "none", "dflt", FALSE, ~consumed)   \* DefaultIsNotCached
                        ELSE Rec(op, d, "err", r.ek, "none", TRUE, ~consumed)
             /\ UNCHANGED <<stack, framing, ctype, body>>

GetMedia        == Access("get", FALSE)
GetMediaDefault == Access("get", TRUE)
MediaProperty   == Access("media", FALSE)

Next == GetMedia \/ GetMediaDefault \/ MediaProperty
Spec == Init /\ [][Next]_vars

(* ---- properties ---- *)
Called == last.op # "init"
AtMostOneParse == parses <= 1
(* once something is cached nothing is parsed, read or replaced again *)
NeverReparsed == [][cache.k # "unset" => (cache' = cache /\ parses' = parses /\ consumed' = consumed /\ ~last'.touched)]_vars
(* every answer is the cached one: same object, or the same error *)
SameObjectOrSameError ==
    Called => /\ (last.out = "val" => cache = Val(last.v) /\ last.same)
              /\ (last.out = "err" /\ last.ek # "unsupported" => cache = Err(last.ek))
              /\ (last.out = "dflt" => cache = Err("notfound"))
DefaultOnlyForEmpty == (Called /\ last.out = "dflt") => (last.d /\ Empty(body) /\ Handler = "json")
DefaultNotCached    == cache.k = "val" => cache.v # "dflt"
EmptyIsDocumented   == (Called /\ body = "empty" /\ Handler = "json" /\ ~last.d) => (last.out = "err" /\ last.ek = "notfound")
EmptyFormIsEmptyMapping == (Called /\ body = "empty" /\ Handler = "form") => (last.out = "val" /\ last.v = "empty")
MalformedIs400Class == (Called /\ body \in {"truncated", "badenc", "blank"} /\ Handler # "none") =>
                           (last.out = "err" /\ last.ek = "malformed" /\ last.status = 400)
CustomErrorIsKept   == (Called /\ body = "hookfail") => (last.out = "err" /\ last.ek = "custom" /\ last.same /\ parses = 1)
BlankIsNotEmpty     == (Called /\ body = "blank") => (last.out = "err" /\ last.ek = "malformed")     \* also when a default was given
RoundTrip           == (Called /\ body \in {"valid", "padded"} /\ Handler # "none") => (last.out = "val" /\ last.v = "doc")
UnsupportedIs415    == (Called /\ Handler = "none") => (last.out = "err" /\ last.status = 415 /\ parses = 0 /\ ~consumed)
===========================================================================
