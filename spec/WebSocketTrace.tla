--------------------------- MODULE WebSocketTrace ---------------------------
(* Trace judge for C17.  Reads a JSON list of sessions recorded from the real falcon.asgi.App
   ([ver, maxq, ev: one record per stimulus with the parameters given and r / rv / evs / esc / fin
   as OBSERVED]), makes every session an initial state and replays it with the actions of
   WebSocket.tla: each logged stimulus selects the action, the action computes `last'` (what the
   specification promises) and the judge compares it with what was observed.  Total: it never
   deadlocks on a logged event; the first failing clause is kept in `verdict`.
     P:result            a call returned / raised something else than specified (wrong-state errors)
     P:payload-received  receive_* handed over another payload than the next one of the client
     P:close-missing     a close that the property demands was not sent
     P:event-missing / P:extra-event / P:event-type   the stream handed to the server differs
     P:close-code  P:close-reason  P:payload-sent  P:accept-args   an event differs in that field
     D:result D:code D:escaped D:finished   model detail the property does not demand
     P:fault-where-no-send   an armed server fault fired although the specification makes no send there
     H:*                 harness / trace malformed (machinery) *)
EXTENDS WebSocket, Json, IOUtils

Traces == JsonDeserialize(IOEnv.TRACE_FILE)

VARIABLES tid, l, verdict
tvars == <<vars, tid, l, verdict>>

T  == Traces[tid]
Ev == T.ev[l]

TInit == /\ tid \in 1..Len(Traces) /\ l = 1 /\ verdict = "ok"
         /\ ver = Traces[tid].ver /\ maxq = Traces[tid].maxq
         /\ pc = "start" /\ w = W0 /\ gone = FALSE /\ gcode = 0 /\ blk = "none" /\ mon = "connecting"
         /\ got = <<>> /\ last = L0

EvClause(e, o) ==
    IF e.t # o.t THEN "P:event-type"
    ELSE IF e.ok # o.ok THEN "H:fault"
    ELSE IF e.t = "close" /\ e.code # -1 /\ e.code # o.code THEN "P:close-code"
    ELSE IF e.t = "close" /\ e.code # -1 /\ e.rs # o.rs THEN "P:close-reason"
    ELSE IF e.t = "send" /\ (e.k # o.k \/ e.v # o.v) THEN "P:payload-sent"
    ELSE IF e.t = "accept" /\ (e.sp # o.sp \/ e.hd # o.hd) THEN "P:accept-args"
    ELSE "ok"

RECURSIVE EvsClause(_, _)
EvsClause(es, os) ==
    IF es = <<>> THEN (IF os = <<>> THEN "ok" ELSE "P:extra-event")
    ELSE IF os = <<>> THEN (IF Head(es).t = "close" /\ Head(es).ok THEN "P:close-missing" ELSE "P:event-missing")
    ELSE LET c == EvClause(Head(es), Head(os)) IN IF c # "ok" THEN c ELSE EvsClause(Tail(es), Tail(os))

Cmp(e, o) ==
    IF e.r # o.r THEN e.cl \o ":result"
    ELSE IF e.r = "ok" /\ e.op \in RecvOps /\ e.rv # o.rv THEN "P:payload-received"
    ELSE IF EvsClause(e.evs, o.evs) # "ok" THEN EvsClause(e.evs, o.evs)
    ELSE IF e.r = "wsd" /\ e.rv # o.rv THEN "D:code"
    ELSE IF e.esc # o.esc THEN "D:escaped"
    ELSE IF e.fin # o.fin THEN "D:finished"
    ELSE "ok"

Stay == UNCHANGED vars
Raises(r) == r \notin {"ok", "blocked"}

Judge ==
    CASE Ev.a = "start" ->
            IF StartGuard(Ev.first, Ev.mw, Ev.route, Ev.ec, Ev.f)
            THEN Start(Ev.first, Ev.mw, Ev.route, Ev.ec, Ev.f) /\ verdict' = Cmp(last', Ev)
            ELSE Stay /\ verdict' = (IF pc = "start" THEN "P:fault-where-no-send" ELSE "H:start")
      [] Ev.a = "op" ->
            LET p == Ev.prop /\ Raises(OpResult(Ev.op, Ev.sp, Ev.hd, Ev.code, Ev.rs, Ev.k, Ev.v, Ev.f).r) IN
            IF ~(pc = "resp" /\ blk = "none") THEN Stay /\ verdict' = "H:op-not-enabled"
            ELSE IF OpGuard(Ev.op, Ev.sp, Ev.hd, Ev.code, Ev.rs, Ev.k, Ev.v, p, Ev.hk, Ev.ec, Ev.f)
                 THEN Op(Ev.op, Ev.sp, Ev.hd, Ev.code, Ev.rs, Ev.k, Ev.v, p, Ev.hk, Ev.ec, Ev.f) /\ verdict' = Cmp(last', Ev)
                 ELSE Stay /\ verdict' = "P:fault-where-no-send"  \* the code made a send the specification does not make here
      [] Ev.a = "raise" ->
            IF ~(pc = "resp" /\ blk = "none") THEN Stay /\ verdict' = "H:raise-not-enabled"
            ELSE IF RaiseGuard(Ev.x, Ev.hk, Ev.ec, Ev.f) THEN Raise(Ev.x, Ev.hk, Ev.ec, Ev.f) /\ verdict' = Cmp(last', Ev)
            ELSE Stay /\ verdict' = "P:fault-where-no-send"
      [] Ev.a = "return" ->
            IF ~(pc = "resp" /\ blk = "none") THEN Stay /\ verdict' = "H:return-not-enabled"
            ELSE IF ReturnGuard(Ev.ec, Ev.f) THEN Return(Ev.ec, Ev.f) /\ verdict' = Cmp(last', Ev)
            ELSE Stay /\ verdict' = "P:fault-where-no-send"
      [] Ev.a = "arrive" ->
            LET m == [k |-> Ev.k, v |-> Ev.v]
                p == blk # "none" /\ Ev.prop /\ Raises(Deliver([w EXCEPT !.pend = <<m>>], blk, m).r) IN
            IF ArriveGuard(Ev.k, Ev.v, p, Ev.hk, Ev.ec) /\ (blk = "none" \/ blk = Ev.op)
            THEN Arrive(Ev.k, Ev.v, p, Ev.hk, Ev.ec) /\ verdict' = Cmp(last', Ev)
            ELSE Stay /\ verdict' = "H:arrive-not-enabled"
      [] OTHER -> Stay /\ verdict' = "H:unknown-action"

Step == /\ l >= 1 /\ l <= Len(T.ev) /\ verdict = "ok"
        /\ Judge
        /\ l' = l + 1 /\ UNCHANGED tid

(* at the end of the session the legality clauses of the specification are evaluated on the replayed state *)
Final == IF mon \notin {"connecting", "open", "closed"} THEN "P:" \o mon
         ELSE IF ~CloseAlwaysSent THEN "P:close-always-sent"
         ELSE "ok"

Done == /\ l >= 1 /\ (l > Len(T.ev) \/ verdict # "ok")
        /\ PrintT(<<"VERDICT", tid, IF verdict = "ok" THEN Final ELSE verdict, l - 1>>)
        /\ l' = -1 /\ UNCHANGED <<vars, tid, verdict>>

TNext == Step \/ Done
TSpec == TInit /\ [][TNext]_tvars
Sound == StateAgrees
==============================================================================
