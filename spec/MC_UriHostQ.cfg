INIT Init
NEXT XNext
CONSTANTS
  Alphabet <- HostAlphabet
  MaxLen = 5
  Fns <- HostFns
  Extra <- Authorities
  KnownLiterals <- KnownLits
INVARIANT HostSplitLaw
INVARIANT HostIndependentOfPort
INVARIANT Emit
