INIT CTInit
NEXT CTNext
CONSTANTS
  Templates = {}
  ResKinds = {}
  SinkPats = {}
  StaticPrefixes = {}
  MaxCalls = 100000
  NewestFirst = TRUE
  RoutesFirst = TRUE
  StarWithCreds = FALSE
INVARIANT Sound
