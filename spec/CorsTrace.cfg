INIT CTInit
NEXT CTNext
CONSTANTS
  Templates = {}
  ResKinds = {}
  SinkPats = {}
  StaticPrefixes = {}
  MaxCalls = 100000
  NewestFirst = TRUE
  RoutesFirst = TRUE
  EmptyMeansAll = FALSE
  StatusSucceeds = FALSE
  AliasCallerSet = FALSE
  MemoDecision = FALSE
  StarWithCreds = FALSE
INVARIANT Sound
