INIT CTInit
NEXT CTNext
CONSTANTS
  Templates = {}
  ResKinds = {}
  SinkPats = {}
  StaticPrefixes = {}
  MaxCalls = 100000
  NewestFirst = TRUE
  RoutesFirst = TRUE
  EmptyMeansAll = FALSE
  StatusSucceeds = FALSE
  StarWithCreds = FALSE
INVARIANT Sound
