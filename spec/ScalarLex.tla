------------------------------ MODULE ScalarLex ------------------------------
(* C08, typed getters: the LEXICAL side of the reference conversions - which spellings of a value each
   scalar getter accepts, and the value (as a normal form) it must then report.  Strings are sequences
   of code points.  Source of every rule: the docstrings of falcon/request.py (the documentation) and,
   where they defer to a Python constructor ("can be converted to an int/float", "any format recognized
   by strptime()"), the grammar of that constructor.

   LexConv(kind, s) = [cls, nf]
     cls  "exact"    a spelling the documentation names / the canonical form: the value nf MUST be reported
          "lenient"  accepted by the Python constructor the documentation defers to, but not a canonical
                     spelling (sign "+", "_" between digits, surrounding blanks, digits of other scripts,
                     exponent/nan/inf, braces/urn:/hyphenless uuid, one-digit month/day): the unchanged
                     code reports nf; the statement does not pin this down, so a 400-class error is
                     accepted too (D-note), a DIFFERENT value or any other outcome is not
          "open"     the constructor's decision is not modelled (int(h, 16) on a 32-character non-hex rest
                     of a uuid, free-form strptime alternatives, out-of-range magnitudes): value or 400
          "reject"   no reading of the documentation accepts it: the 400-class error MUST be raised
     nf   the value as a sequence of integers: bool <<0|1|2>> (2: blank, blank_as_true decides), int <<n>>,
          float <<thousandths>> or <<NAN|INF|NINF|FOTHER>>, uuid its 32 lower-case hex digits,
          date <<y, m, d>>, datetime <<y, m, d, H, M, S, utc offset in seconds>>

   get_param_as_bool is the one getter whose documentation IS a closed vocabulary:
       TRUE_STRINGS  = ('true', 'True', 't', 'yes', 'y', '1', 'on')
       FALSE_STRINGS = ('false', 'False', 'f', 'no', 'n', '0', 'off')      (+ blank -> blank_as_true)
   so it has no "lenient" class at all: every other spelling is "reject".

   The second half is the systematic NEAR-MISS generator (case variants, one character dropped / inserted /
   replaced, surrounding blanks, digits of other scripts) that builds the value pools of the bounded instance. *)
EXTENDS Integers, Sequences, FiniteSets

C(cls, nf) == [cls |-> cls, nf |-> nf]
Reject == C("reject", <<>>)
Open   == C("open", <<>>)

(* ---- characters ------------------------------------------------------------------------------- *)
(* what int()/float() strip and str.strip() removes (Py_UNICODE_ISSPACE) *)
WS == {9, 10, 11, 12, 13, 28, 29, 30, 31, 32, 133, 160, 5760, 8232, 8233, 8239, 8287, 12288} \cup (8192..8202)
(* decimal digits: ASCII, ARABIC-INDIC, FULLWIDTH (the scripts of the instance; other Nd scripts are out of scope) *)
DigitVal(c) == IF c \in 48..57 THEN c - 48 ELSE IF c \in 1632..1641 THEN c - 1632
               ELSE IF c \in 65296..65305 THEN c - 65296 ELSE -1
IsDigit(c) == DigitVal(c) >= 0
IsAscDigit(c) == c \in 48..57
IsHex(c) == c \in 48..57 \/ c \in 97..102 \/ c \in 65..70
Lower(c) == IF c \in 65..90 THEN c + 32 ELSE c
Upper(c) == IF c \in 97..122 THEN c - 32 ELSE c
LowerS(s) == [i \in 1..Len(s) |-> Lower(s[i])]
UpperS(s) == [i \in 1..Len(s) |-> Upper(s[i])]
(* the strings this module speaks about; anything else is judged by the harness table (trusted decoders) *)
InScope(s) == \A i \in 1..Len(s) : s[i] \in 0..127 \/ s[i] \in WS \/ IsDigit(s[i])

AllIn(s, P(_)) == \A i \in 1..Len(s) : P(s[i])
AllWS(s) == \A i \in 1..Len(s) : s[i] \in WS
FirstNonWS(s) == IF AllWS(s) THEN Len(s) + 1 ELSE CHOOSE i \in 1..Len(s) : s[i] \notin WS /\ \A j \in 1..(i - 1) : s[j] \in WS
LastNonWS(s)  == IF AllWS(s) THEN 0 ELSE CHOOSE i \in 1..Len(s) : s[i] \notin WS /\ \A j \in (i + 1)..Len(s) : s[j] \in WS
Strip(s) == SubSeq(s, FirstNonWS(s), LastNonWS(s))
(* position of the first character of s that is in S, 0 if none *)
FirstIn(s, S) == IF \E i \in 1..Len(s) : s[i] \in S THEN CHOOSE i \in 1..Len(s) : s[i] \in S /\ \A j \in 1..(i - 1) : s[j] \notin S ELSE 0
RemoveCh(s, ch) == SelectSeq(s, LAMBDA c : c # ch)
RECURSIVE Remove(_, _)          \* str.replace(w, ''): every non-overlapping occurrence, left to right
Remove(s, w) == IF Len(s) < Len(w) THEN s
                ELSE IF SubSeq(s, 1, Len(w)) = w THEN Remove(SubSeq(s, Len(w) + 1, Len(s)), w)
                ELSE <<s[1]>> \o Remove(Tail(s), w)
StripSet(s, S) == LET a == IF \A i \in 1..Len(s) : s[i] \in S THEN Len(s) + 1 ELSE CHOOSE i \in 1..Len(s) : s[i] \notin S /\ \A j \in 1..(i - 1) : s[j] \in S
                      b == IF \A i \in 1..Len(s) : s[i] \in S THEN 0 ELSE CHOOSE i \in 1..Len(s) : s[i] \notin S /\ \A j \in (i + 1)..Len(s) : s[j] \in S
                  IN  SubSeq(s, a, b)

(* ---- numbers ----------------------------------------------------------------------------------- *)
(* digits with single underscores BETWEEN digits (PEP 515), digits of any script *)
DigitsU(t) == /\ Len(t) > 0
              /\ \A i \in 1..Len(t) : \/ IsDigit(t[i])
                                      \/ t[i] = 95 /\ i > 1 /\ i < Len(t) /\ IsDigit(t[i - 1]) /\ IsDigit(t[i + 1])
PlainDigits(t) == Len(t) > 0 /\ AllIn(t, IsAscDigit)
DigitsOf(t) == SelectSeq(t, IsDigit)
RECURSIVE Val(_)
Val(ds) == IF ds = <<>> THEN 0 ELSE Val(SubSeq(ds, 1, Len(ds) - 1)) * 10 + DigitVal(ds[Len(ds)])
SigLen(ds) == IF \A i \in 1..Len(ds) : DigitVal(ds[i]) = 0 THEN 0
              ELSE Len(ds) + 1 - (CHOOSE i \in 1..Len(ds) : DigitVal(ds[i]) # 0 /\ \A j \in 1..(i - 1) : DigitVal(ds[j]) = 0)
RECURSIVE Pow10(_)
Pow10(k) == IF k = 0 THEN 1 ELSE 10 * Pow10(k - 1)
BIG == 1400000001       \* an integer of magnitude >= 10^9 (not represented)
NAN == 1400000002
INF == 1400000003
NINF == 1400000004
FOTHER == 1400000005     \* a finite float that is no whole number of thousandths below 10^5

(* get_param_as_int: "can be converted to an int" = int(str): blanks stripped, optional sign, DigitsU *)
IntConv(s) ==
    LET t == Strip(s)
        signed == Len(t) > 0 /\ t[1] \in {43, 45}
        neg == signed /\ t[1] = 45
        body == IF signed THEN Tail(t) ELSE t
    IN  IF ~DigitsU(body) THEN Reject
        ELSE LET ds == DigitsOf(body)
                 n == IF SigLen(ds) > 9 THEN BIG ELSE (IF neg THEN -1 ELSE 1) * Val(ds)
                 canon == t = s /\ PlainDigits(body) /\ (~signed \/ neg)
             IN  C(IF canon THEN "exact" ELSE "lenient", <<n>>)

(* get_param_as_float: "can be converted to a float" = float(str) *)
NanWord == <<110, 97, 110>>
InfWords == {<<105, 110, 102>>, <<105, 110, 102, 105, 110, 105, 116, 121>>}
FloatConv(s) ==
    LET t == Strip(s)
        signed == Len(t) > 0 /\ t[1] \in {43, 45}
        neg == signed /\ t[1] = 45
        body == IF signed THEN Tail(t) ELSE t
        low == LowerS(body)
        e == FirstIn(body, {101, 69})
        mant == IF e = 0 THEN body ELSE SubSeq(body, 1, e - 1)
        ex == IF e = 0 THEN <<>> ELSE SubSeq(body, e + 1, Len(body))
        exsigned == Len(ex) > 0 /\ ex[1] \in {43, 45}
        exbody == IF exsigned THEN Tail(ex) ELSE ex
        dot == FirstIn(mant, {46})
        ip == IF dot = 0 THEN mant ELSE SubSeq(mant, 1, dot - 1)
        fp == IF dot = 0 THEN <<>> ELSE SubSeq(mant, dot + 1, Len(mant))
        wellformed == /\ (e = 0 \/ DigitsU(exbody))
                      /\ IF dot = 0 THEN DigitsU(ip)
                         ELSE (ip = <<>> \/ DigitsU(ip)) /\ (fp = <<>> \/ DigitsU(fp)) /\ (ip # <<>> \/ fp # <<>>)
    IN  IF low = NanWord THEN C("lenient", <<NAN>>)
        ELSE IF low \in InfWords THEN C("lenient", <<IF neg THEN NINF ELSE INF>>)
        ELSE IF ~wellformed THEN Reject
        ELSE LET ds == DigitsOf(ip) \o DigitsOf(fp)
                 fl == Len(DigitsOf(fp))
                 exds == DigitsOf(exbody)
             IN  IF SigLen(ds) > 8 \/ Len(ds) > 12 \/ SigLen(exds) > 1 THEN Open
                 ELSE LET N == Val(ds)
                          k == (IF e = 0 THEN 0 ELSE (IF exsigned /\ ex[1] = 45 THEN -1 ELSE 1) * Val(exds)) - fl + 3
                          th == IF N = 0 THEN 0
                                ELSE IF k >= 0 THEN (IF k > 8 THEN FOTHER ELSE N * Pow10(k))
                                ELSE IF -k > 9 THEN FOTHER
                                ELSE IF N % Pow10(-k) = 0 THEN N \div Pow10(-k) ELSE FOTHER
                          v == IF th >= 100000000 THEN FOTHER ELSE IF neg THEN -th ELSE th
                          canon == /\ t = s /\ (~signed \/ neg) /\ e = 0 /\ PlainDigits(ip)
                                   /\ (dot = 0 \/ PlainDigits(fp))
                      IN  C(IF canon THEN "exact" ELSE "lenient", <<v>>)

(* ---- get_param_as_bool: the documented vocabulary, nothing else -------------------------------- *)
TrueWords == {
    <<116, 114, 117, 101>>,   \* true
    <<84, 114, 117, 101>>,   \* True
    <<116>>,   \* t
    <<121, 101, 115>>,   \* yes
    <<121>>,   \* y
    <<49>>,   \* 1
    <<111, 110>>    \* on
    }
FalseWords == {
    <<102, 97, 108, 115, 101>>,   \* false
    <<70, 97, 108, 115, 101>>,   \* False
    <<102>>,   \* f
    <<110, 111>>,   \* no
    <<110>>,   \* n
    <<48>>,   \* 0
    <<111, 102, 102>>    \* off
    }
BoolWords == TrueWords \cup FalseWords
BoolConv(s) == IF s \in TrueWords THEN C("exact", <<1>>)
               ELSE IF s \in FalseWords THEN C("exact", <<0>>)
               ELSE IF s = <<>> THEN C("exact", <<2>>)
               ELSE Reject

(* ---- get_param_as_uuid --------------------------------------------------------------------------
   documented: "the standard UUID string representation per RFC 4122", lower, upper or mixed case
   (8-4-4-4-12 hex digits).  The code calls uuid.UUID(s), which first removes "urn:" and "uuid:", strips
   "{" "}", removes every "-", wants 32 characters left and hands them to int(h, 16). *)
UrnWord == <<117, 114, 110, 58>>
UuidWord == <<117, 117, 105, 100, 58>>
UuidConv(s) ==
    LET canon == Len(s) = 36 /\ \A i \in 1..36 : IF i \in {9, 14, 19, 24} THEN s[i] = 45 ELSE IsHex(s[i])
        h == RemoveCh(StripSet(Remove(Remove(s, UrnWord), UuidWord), {123, 125}), 45)
    IN  IF Len(h) # 32 THEN Reject
        ELSE IF AllIn(h, IsHex) THEN C(IF canon THEN "exact" ELSE "lenient", LowerS(h))
        ELSE IF \A i \in 1..32 : IsHex(h[i]) \/ IsDigit(h[i]) \/ h[i] \in WS \cup {43, 95, 120, 88} THEN Open
        ELSE Reject

(* ---- get_param_as_date / get_param_as_datetime ---------------------------------------------------
   documented: format_string, "any format recognized by strptime()", defaults '%Y-%m-%d' and
   '%Y-%m-%dT%H:%M:%S%z'.  strptime: %Y four digits (any script); %m 1[0-2] | 0[1-9] | [1-9];
   %d 3[01] | [12]digit | 0[1-9] | [1-9] | blank[1-9]; the whole string must be consumed (so no surrounding
   blanks); the calendar date must exist; year >= 1. *)
Leap(y) == (y % 4 = 0 /\ y % 100 # 0) \/ y % 400 = 0
DaysIn(y, m) == IF m \in {4, 6, 9, 11} THEN 30 ELSE IF m = 2 THEN (IF Leap(y) THEN 29 ELSE 28) ELSE 31
MonthVal(t) == IF Len(t) = 2 /\ t[1] = 49 /\ t[2] \in 48..50 THEN 10 + t[2] - 48
               ELSE IF Len(t) = 2 /\ t[1] = 48 /\ t[2] \in 49..57 THEN t[2] - 48
               ELSE IF Len(t) = 1 /\ t[1] \in 49..57 THEN t[1] - 48 ELSE 0
DayVal(t) == IF Len(t) = 2 /\ t[1] = 51 /\ t[2] \in 48..49 THEN 30 + t[2] - 48
             ELSE IF Len(t) = 2 /\ t[1] \in 49..50 /\ IsDigit(t[2]) THEN (t[1] - 48) * 10 + DigitVal(t[2])
             ELSE IF Len(t) = 2 /\ t[1] \in {48, 32} /\ t[2] \in 49..57 THEN t[2] - 48
             ELSE IF Len(t) = 1 /\ t[1] \in 49..57 THEN t[1] - 48 ELSE 0
DateConv(s) ==
    LET P == {i \in 1..Len(s) : s[i] = 45}
    IN  IF Cardinality(P) # 2 THEN Reject
        ELSE LET i1 == CHOOSE i \in P : \A j \in P : i <= j
                 i2 == CHOOSE i \in P : \A j \in P : i >= j
                 ys == SubSeq(s, 1, i1 - 1)
                 y == Val(ys)
                 m == MonthVal(SubSeq(s, i1 + 1, i2 - 1))
                 d == DayVal(SubSeq(s, i2 + 1, Len(s)))
             IN  IF Len(ys) # 4 \/ ~AllIn(ys, IsDigit) \/ m = 0 \/ d = 0 \/ y < 1 THEN Reject
                 ELSE IF d > DaysIn(y, m) THEN Reject
                 ELSE C(IF Len(s) = 10 /\ i2 = 8 /\ AllIn(RemoveCh(s, 45), IsAscDigit) THEN "exact" ELSE "lenient", <<y, m, d>>)

(* datetime: the canonical shape  dddd-dd-ddTdd:dd:dd(Z | +dddd | -dddd)  is decided completely (value, or
   reject when a field is out of range); surrounding blanks and characters no directive can consume are
   rejected; the remaining strptime alternatives (one-digit fields, "+hh:mm", seconds in the offset,
   case of "T"/"Z") are not modelled: "open" *)
Two(s, i) == (s[i] - 48) * 10 + (s[i + 1] - 48)
DtAlphabet == (48..57) \cup {45, 43, 58, 46, 84, 116, 90, 122, 32}
DatetimeConv(s) ==
    LET n == Len(s)
        shape == /\ n \in {20, 24}
                 /\ \A i \in 1..19 : IF i \in {5, 8} THEN s[i] = 45 ELSE IF i = 11 THEN s[i] = 84
                                     ELSE IF i \in {14, 17} THEN s[i] = 58 ELSE IsAscDigit(s[i])
                 /\ IF n = 20 THEN s[20] = 90 ELSE s[20] \in {43, 45} /\ \A i \in 21..24 : IsAscDigit(s[i])
    IN  IF shape THEN
            LET dc == DateConv(SubSeq(s, 1, 10))
                H == Two(s, 12)  M == Two(s, 15)  S == Two(s, 18)
                oh == IF n = 20 THEN 0 ELSE Two(s, 21)
                om == IF n = 20 THEN 0 ELSE Two(s, 23)
                off == (IF n = 24 /\ s[20] = 45 THEN -1 ELSE 1) * (oh * 3600 + om * 60)
            IN  IF dc.cls = "reject" \/ H > 23 \/ M > 59 \/ S > 59 \/ oh > 23 \/ om > 59 THEN Reject
                ELSE C("exact", dc.nf \o <<H, M, S, off>>)
        ELSE IF n = 0 \/ s[1] \in WS \/ s[n] \in WS THEN Reject
        ELSE IF \E i \in 1..n : s[i] \notin DtAlphabet /\ ~IsDigit(s[i]) THEN Reject
        ELSE Open

LexKinds == {"bool", "int", "float", "uuid", "date", "datetime"}
LexConv(kind, s) == CASE kind = "bool" -> BoolConv(s) [] kind = "int" -> IntConv(s) [] kind = "float" -> FloatConv(s)
                      [] kind = "uuid" -> UuidConv(s) [] kind = "date" -> DateConv(s) [] kind = "datetime" -> DatetimeConv(s)

(* ==== the near-miss generator ===================================================================== *)
Flip(c) == IF c \in 97..122 THEN c - 32 ELSE IF c \in 65..90 THEN c + 32 ELSE c
(* every mixture of upper and lower case of a short word; for a long one: all upper, all lower, one letter flipped *)
CaseVariants(w) ==
    IF Len(w) <= 8 THEN {[i \in 1..Len(w) |-> IF i \in F THEN Flip(w[i]) ELSE w[i]] : F \in SUBSET (1..Len(w))}
    ELSE {UpperS(w), LowerS(w)} \cup {[i \in 1..Len(w) |-> IF i = k THEN Flip(w[i]) ELSE w[i]] : k \in 1..Len(w)}
PadBlanks == {32, 9, 10, 160, 12288}
Padded(w) == {<<b>> \o w : b \in PadBlanks} \cup {w \o <<b>> : b \in PadBlanks} \cup {<<32>> \o w \o <<32>>}
DropOne(w) == {SubSeq(w, 1, i - 1) \o SubSeq(w, i + 1, Len(w)) : i \in 1..Len(w)}
InsertOne(w, A) == {SubSeq(w, 1, i) \o <<a>> \o SubSeq(w, i + 1, Len(w)) : i \in 0..Len(w), a \in A}
ReplaceOne(w, A) == {[i \in 1..Len(w) |-> IF i = k THEN a ELSE w[i]] : k \in 1..Len(w), a \in A}
(* digits written in another script: all of them, or one of them *)
Scripts == {1632, 65296}
ScriptVariants(w) ==
    {[i \in 1..Len(w) |-> IF IsAscDigit(w[i]) THEN b + w[i] - 48 ELSE w[i]] : b \in Scripts}
    \cup {[i \in 1..Len(w) |-> IF i = k /\ IsAscDigit(w[i]) THEN b + w[i] - 48 ELSE w[i]] : k \in 1..Len(w), b \in Scripts}
NearMisses(W, A) == UNION {CaseVariants(w) \cup Padded(w) \cup DropOne(w) \cup InsertOne(w, A) \cup ReplaceOne(w, A)
                           \cup ScriptVariants(w) : w \in W}

(* ---- the value pools of the bounded instance: documented spellings, their near misses, hand-picked extras -- *)
BoolPool == BoolWords \cup {<<>>} \cup NearMisses(BoolWords, {101, 49, 115})
IntSeeds == {
    <<49>>,   \* 1
    <<49, 48>>,   \* 10
    <<45, 51>>,   \* -3
    <<48, 48, 55>>    \* 007
    }
IntExtras == {
    <<43, 49>>,   \* +1
    <<49, 95, 48>>,   \* 1_0
    <<49, 95, 95, 48>>,   \* 1__0
    <<95, 49>>,   \* _1
    <<49, 95>>,   \* 1_
    <<32, 49, 32>>,   \*  1 
    <<48, 120, 49>>,   \* 0x1
    <<48, 88, 49>>,   \* 0X1
    <<49, 46, 48>>,   \* 1.0
    <<49, 101, 53>>,   \* 1e5
    <<49, 32, 48>>,   \* 1 0
    <<45>>,   \* -
    <<43>>,   \* +
    <<43, 45, 49>>,   \* +-1
    <<45, 32, 49>>,   \* - 1
    <<>>,   \* 
    <<65297, 65298>>,   \* \uff11\uff12
    <<1633, 1634>>,   \* \u0661\u0662
    <<49, 65298>>,   \* 1\uff12
    <<45, 1633>>,   \* -\u0661
    <<48, 98, 49>>,   \* 0b1
    <<48, 111, 55>>,   \* 0o7
    <<49, 44, 48>>,   \* 1,0
    <<1633, 95, 1634>>,   \* \u0661_\u0662
    <<57, 57, 57, 57, 57, 57, 57, 57, 57>>,   \* 999999999
    <<49, 48, 48, 48, 48, 48, 48, 48, 48, 48>>,   \* 1000000000
    <<45, 48>>    \* -0
    }
IntPool == IntSeeds \cup IntExtras \cup NearMisses(IntSeeds, {43, 45, 95, 46, 120, 101, 48})
FloatSeeds == {
    <<49, 46, 53>>,   \* 1.5
    <<45, 51>>,   \* -3
    <<48, 46, 50, 53>>,   \* 0.25
    <<49, 48>>    \* 10
    }
FloatWordsX == {
    <<110, 97, 110>>,   \* nan
    <<105, 110, 102>>,   \* inf
    <<105, 110, 102, 105, 110, 105, 116, 121>>    \* infinity
    }
FloatExtras == {
    <<45, 105, 110, 102>>,   \* -inf
    <<43, 105, 110, 102>>,   \* +inf
    <<45, 110, 97, 110>>,   \* -nan
    <<43, 110, 97, 110>>,   \* +nan
    <<45, 105, 110, 102, 105, 110, 105, 116, 121>>,   \* -infinity
    <<105, 110, 102, 105, 110, 105, 116>>,   \* infinit
    <<105, 110>>,   \* in
    <<110, 97>>,   \* na
    <<110, 97, 110, 101>>,   \* nane
    <<105, 110, 102, 115>>,   \* infs
    <<32, 110, 97, 110>>,   \*  nan
    <<105, 110, 102, 32>>,   \* inf 
    <<49, 95, 48, 46, 48>>,   \* 1_0.0
    <<49, 101, 53>>,   \* 1e5
    <<49, 101, 49>>,   \* 1e1
    <<49, 69, 49>>,   \* 1E1
    <<49, 101, 43, 49>>,   \* 1e+1
    <<49, 101, 45, 49>>,   \* 1e-1
    <<49, 101>>,   \* 1e
    <<101, 49>>,   \* e1
    <<49, 101, 49, 46, 48>>,   \* 1e1.0
    <<46, 53>>,   \* .5
    <<53, 46>>,   \* 5.
    <<46>>,   \* .
    <<45, 46, 53>>,   \* -.5
    <<49, 46, 53, 46>>,   \* 1.5.
    <<49, 44, 53>>,   \* 1,5
    <<49, 46, 53, 102>>,   \* 1.5f
    <<49, 100, 53>>,   \* 1d5
    <<48, 120, 49, 112, 51>>,   \* 0x1p3
    <<49, 95, 46, 48>>,   \* 1_.0
    <<49, 46, 95, 48>>,   \* 1._0
    <<49, 46, 48, 95, 49>>,   \* 1.0_1
    <<49, 101, 49, 95, 48>>,   \* 1e1_0
    <<49, 101, 95, 49>>,   \* 1e_1
    <<32, 49, 46, 53, 32>>,   \*  1.5 
    <<65297, 46, 65301>>,   \* \uff11.\uff15
    <<1633, 46, 1637>>,   \* \u0661.\u0665
    <<43, 49, 46, 53>>,   \* +1.5
    <<49, 46, 48, 48, 48, 53>>,   \* 1.0005
    <<>>,   \* 
    <<45>>,   \* -
    <<49, 101, 45, 53>>,   \* 1e-5
    <<48, 46, 48>>,   \* 0.0
    <<45, 48, 46, 48>>,   \* -0.0
    <<49, 101, 57>>,   \* 1e9
    <<49, 101, 49, 48>>    \* 1e10
    }
FloatPool == FloatSeeds \cup FloatWordsX \cup FloatExtras \cup NearMisses(FloatSeeds, {43, 45, 95, 46, 101, 48})
                \cup UNION {CaseVariants(w) : w \in FloatWordsX}
UuidSeed == <<48, 97, 53, 98, 56, 102, 51, 99, 45, 57, 97, 49, 101, 45, 52, 99, 55, 100, 45, 56, 98, 50, 102, 45, 49, 102, 50, 101, 51, 100, 52, 99, 53, 98, 54, 97>>
UuidExtras == {
    <<123, 48, 97, 53, 98, 56, 102, 51, 99, 45, 57, 97, 49, 101, 45, 52, 99, 55, 100, 45, 56, 98, 50, 102, 45, 49, 102, 50, 101, 51, 100, 52, 99, 53, 98, 54, 97, 125>>,   \* {0a5b8f3c-9a1e-4c7d-8b2f-1f2e3d4c5b6a}
    <<117, 114, 110, 58, 117, 117, 105, 100, 58, 48, 97, 53, 98, 56, 102, 51, 99, 45, 57, 97, 49, 101, 45, 52, 99, 55, 100, 45, 56, 98, 50, 102, 45, 49, 102, 50, 101, 51, 100, 52, 99, 53, 98, 54, 97>>,   \* urn:uuid:0a5b8f3c-9a1e-4c7d-8b2f-1f2e3d4c5b6a
    <<48, 97, 53, 98, 56, 102, 51, 99, 57, 97, 49, 101, 52, 99, 55, 100, 56, 98, 50, 102, 49, 102, 50, 101, 51, 100, 52, 99, 53, 98, 54, 97>>,   \* 0a5b8f3c9a1e4c7d8b2f1f2e3d4c5b6a
    <<48, 65, 53, 66, 56, 70, 51, 67, 45, 57, 65, 49, 69, 45, 52, 67, 55, 68, 45, 56, 66, 50, 70, 45, 49, 70, 50, 69, 51, 68, 52, 67, 53, 66, 54, 65>>,   \* 0A5B8F3C-9A1E-4C7D-8B2F-1F2E3D4C5B6A
    <<123, 48, 97, 53, 98, 56, 102, 51, 99, 57, 97, 49, 101, 52, 99, 55, 100, 56, 98, 50, 102, 49, 102, 50, 101, 51, 100, 52, 99, 53, 98, 54, 97>>,   \* {0a5b8f3c9a1e4c7d8b2f1f2e3d4c5b6a
    <<117, 117, 105, 100, 58, 48, 97, 53, 98, 56, 102, 51, 99, 57, 97, 49, 101, 52, 99, 55, 100, 56, 98, 50, 102, 49, 102, 50, 101, 51, 100, 52, 99, 53, 98, 54, 97>>,   \* uuid:0a5b8f3c9a1e4c7d8b2f1f2e3d4c5b6a
    <<85, 82, 78, 58, 85, 85, 73, 68, 58, 48, 97, 53, 98, 56, 102, 51, 99, 45, 57, 97, 49, 101, 45, 52, 99, 55, 100, 45, 56, 98, 50, 102, 45, 49, 102, 50, 101, 51, 100, 52, 99, 53, 98, 54, 97>>,   \* URN:UUID:0a5b8f3c-9a1e-4c7d-8b2f-1f2e3d4c5b6a
    <<48, 97, 53, 98, 56, 102, 51, 99, 45, 57, 97, 49, 101, 52, 99, 55, 100, 45, 56, 98, 50, 102, 45, 49, 102, 50, 101, 51, 100, 52, 99, 53, 98, 54, 97>>,   \* 0a5b8f3c-9a1e4c7d-8b2f-1f2e3d4c5b6a
    <<48, 45, 97, 45, 53, 45, 98, 45, 56, 102, 51, 99, 57, 97, 49, 101, 52, 99, 55, 100, 56, 98, 50, 102, 49, 102, 50, 101, 51, 100, 52, 99, 53, 98, 54, 97>>,   \* 0-a-5-b-8f3c9a1e4c7d8b2f1f2e3d4c5b6a
    <<48, 120, 53, 98, 56, 102, 51, 99, 57, 97, 49, 101, 52, 99, 55, 100, 56, 98, 50, 102, 49, 102, 50, 101, 51, 100, 52, 99, 53, 98, 54, 97>>,   \* 0x5b8f3c9a1e4c7d8b2f1f2e3d4c5b6a
    <<43, 97, 53, 98, 56, 102, 51, 99, 57, 97, 49, 101, 52, 99, 55, 100, 56, 98, 50, 102, 49, 102, 50, 101, 51, 100, 52, 99, 53, 98, 54, 97>>,   \* +a5b8f3c9a1e4c7d8b2f1f2e3d4c5b6a
    <<48, 97, 53, 98, 95, 102, 51, 99, 57, 97, 49, 101, 52, 99, 55, 100, 56, 98, 50, 102, 49, 102, 50, 101, 51, 100, 52, 99, 53, 98, 54, 97>>,   \* 0a5b_f3c9a1e4c7d8b2f1f2e3d4c5b6a
    <<32, 97, 53, 98, 56, 102, 51, 99, 57, 97, 49, 101, 52, 99, 55, 100, 56, 98, 50, 102, 49, 102, 50, 101, 51, 100, 52, 99, 53, 98, 54, 97>>,   \*  a5b8f3c9a1e4c7d8b2f1f2e3d4c5b6a
    <<48, 97, 53, 98, 56, 102, 51, 99, 45, 57, 97, 49, 101, 45, 52, 99, 55, 100, 45, 56, 98, 50, 102, 45, 49, 102, 50, 101, 51, 100, 52, 99, 53, 98, 54>>,   \* 0a5b8f3c-9a1e-4c7d-8b2f-1f2e3d4c5b6
    <<48, 97, 53, 98, 56, 102, 51, 99, 45, 57, 97, 49, 101, 45, 52, 99, 55, 100, 45, 56, 98, 50, 102, 45, 49, 102, 50, 101, 51, 100, 52, 99, 53, 98, 54, 97, 103>>,   \* 0a5b8f3c-9a1e-4c7d-8b2f-1f2e3d4c5b6ag
    <<103, 48, 97, 53, 98, 56, 102, 51, 99, 45, 57, 97, 49, 101, 45, 52, 99, 55, 100, 45, 56, 98, 50, 102, 45, 49, 102, 50, 101, 51, 100, 52, 99, 53, 98, 54>>,   \* g0a5b8f3c-9a1e-4c7d-8b2f-1f2e3d4c5b6
    <<>>,   \* 
    <<48, 97, 53, 98, 56, 102, 51, 99>>,   \* 0a5b8f3c
    <<48, 48, 48, 48, 48, 48, 48, 48, 45, 48, 48, 48, 48, 45, 48, 48, 48, 48, 45, 48, 48, 48, 48, 45, 48, 48, 48, 48, 48, 48, 48, 48, 48, 48, 48, 48>>    \* 00000000-0000-0000-0000-000000000000
    }
UuidPool == {UuidSeed} \cup UuidExtras \cup NearMisses({UuidSeed}, {45, 48, 103, 95, 123})
DateSeeds == {
    <<50, 48, 50, 52, 45, 48, 50, 45, 50, 57>>,   \* 2024-02-29
    <<49, 57, 57, 57, 45, 49, 50, 45, 51, 49>>    \* 1999-12-31
    }
DateExtras == {
    <<50, 48, 50, 52, 45, 50, 45, 57>>,   \* 2024-2-9
    <<50, 48, 50, 52, 45, 48, 50, 45, 32, 57>>,   \* 2024-02- 9
    <<50, 48, 50, 52, 45, 48, 50, 45, 51, 48>>,   \* 2024-02-30
    <<50, 48, 50, 51, 45, 48, 50, 45, 50, 57>>,   \* 2023-02-29
    <<49, 57, 48, 48, 45, 48, 50, 45, 50, 57>>,   \* 1900-02-29
    <<50, 48, 48, 48, 45, 48, 50, 45, 50, 57>>,   \* 2000-02-29
    <<48, 48, 48, 48, 45, 48, 49, 45, 48, 49>>,   \* 0000-01-01
    <<48, 48, 48, 49, 45, 48, 49, 45, 48, 49>>,   \* 0001-01-01
    <<50, 48, 50, 52, 45, 49, 51, 45, 48, 49>>,   \* 2024-13-01
    <<50, 48, 50, 52, 45, 48, 48, 45, 49, 48>>,   \* 2024-00-10
    <<50, 48, 50, 52, 45, 48, 52, 45, 51, 49>>,   \* 2024-04-31
    <<50, 48, 50, 52, 45, 48, 52, 45, 48, 48>>,   \* 2024-04-00
    <<50, 52, 45, 48, 50, 45, 50, 57>>,   \* 24-02-29
    <<50, 48, 50, 52, 47, 48, 50, 47, 50, 57>>,   \* 2024/02/29
    <<50, 48, 50, 52, 48, 50, 50, 57>>,   \* 20240229
    <<50, 48, 50, 52, 45, 48, 50, 45, 50, 57, 84, 48, 48, 58, 48, 48, 58, 48, 48, 90>>,   \* 2024-02-29T00:00:00Z
    <<>>,   \* 
    <<50, 48, 50, 52, 45, 48, 50>>,   \* 2024-02
    <<65298, 65296, 65298, 65300, 45, 48, 50, 45, 50, 57>>,   \* \uff12\uff10\uff12\uff14-02-29
    <<50, 48, 50, 52, 45, 65296, 65298, 45, 50, 57>>,   \* 2024-\uff10\uff12-29
    <<50, 48, 50, 52, 45, 48, 50, 45, 50, 65305>>,   \* 2024-02-2\uff19
    <<50, 48, 50, 52, 45, 48, 50, 45, 65298, 57>>,   \* 2024-02-\uff129
    <<48, 50, 45, 50, 57, 45, 50, 48, 50, 52>>,   \* 02-29-2024
    <<50, 48, 50, 52, 45, 48, 50, 45, 50, 57, 45>>    \* 2024-02-29-
    }
DatePool == DateSeeds \cup DateExtras \cup NearMisses(DateSeeds, {48, 45, 32, 84})
DatetimeSeeds == {
    <<50, 48, 50, 52, 45, 48, 50, 45, 50, 57, 84, 49, 50, 58, 51, 48, 58, 52, 53, 43, 48, 49, 48, 48>>,   \* 2024-02-29T12:30:45+0100
    <<50, 48, 50, 52, 45, 48, 50, 45, 50, 57, 84, 49, 50, 58, 51, 48, 58, 52, 53, 90>>    \* 2024-02-29T12:30:45Z
    }
DatetimeExtras == {
    <<50, 48, 50, 52, 45, 48, 50, 45, 50, 57, 116, 49, 50, 58, 51, 48, 58, 52, 53, 90>>,   \* 2024-02-29t12:30:45Z
    <<50, 48, 50, 52, 45, 48, 50, 45, 50, 57, 32, 49, 50, 58, 51, 48, 58, 52, 53, 90>>,   \* 2024-02-29 12:30:45Z
    <<50, 48, 50, 52, 45, 48, 50, 45, 50, 57, 84, 49, 50, 58, 51, 48, 58, 52, 53>>,   \* 2024-02-29T12:30:45
    <<50, 48, 50, 52, 45, 48, 50, 45, 50, 57, 84, 49, 50, 58, 51, 48, 58, 52, 53, 43, 48, 49, 58, 48, 48>>,   \* 2024-02-29T12:30:45+01:00
    <<50, 48, 50, 52, 45, 48, 50, 45, 50, 57, 84, 50, 52, 58, 48, 48, 58, 48, 48, 90>>,   \* 2024-02-29T24:00:00Z
    <<50, 48, 50, 52, 45, 48, 50, 45, 50, 57, 84, 49, 50, 58, 54, 48, 58, 48, 48, 90>>,   \* 2024-02-29T12:60:00Z
    <<50, 48, 50, 52, 45, 48, 50, 45, 50, 57, 84, 49, 50, 58, 51, 48, 58, 54, 48, 90>>,   \* 2024-02-29T12:30:60Z
    <<50, 48, 50, 52, 45, 48, 50, 45, 50, 57, 84, 49, 50, 58, 51, 48, 58, 52, 53, 43, 50, 52, 48, 48>>,   \* 2024-02-29T12:30:45+2400
    <<50, 48, 50, 52, 45, 48, 50, 45, 50, 57, 84, 49, 50, 58, 51, 48, 58, 52, 53, 45, 50, 51, 53, 57>>,   \* 2024-02-29T12:30:45-2359
    <<50, 48, 50, 52, 45, 48, 50, 45, 50, 57, 84, 49, 50, 58, 51, 48, 58, 52, 53, 43, 48, 48, 54, 48>>,   \* 2024-02-29T12:30:45+0060
    <<50, 48, 50, 52, 45, 48, 50, 45, 50, 57, 84, 49, 50, 58, 51, 48, 58, 52, 53, 122>>,   \* 2024-02-29T12:30:45z
    <<50, 48, 50, 52, 45, 48, 50, 45, 50, 57>>,   \* 2024-02-29
    <<50, 48, 50, 51, 45, 48, 50, 45, 50, 57, 84, 49, 50, 58, 51, 48, 58, 52, 53, 90>>,   \* 2023-02-29T12:30:45Z
    <<50, 48, 50, 52, 45, 48, 50, 45, 50, 57, 84, 49, 50, 58, 51, 48, 58, 52, 53, 45, 48, 48, 48, 48>>,   \* 2024-02-29T12:30:45-0000
    <<50, 48, 50, 52, 45, 48, 50, 45, 50, 57, 84, 49, 58, 51, 58, 52, 90>>,   \* 2024-02-29T1:3:4Z
    <<>>,   \* 
    <<50, 48, 50, 52, 45, 48, 50, 45, 50, 57, 84, 49, 50, 58, 51, 48, 58, 52, 53, 32, 90>>,   \* 2024-02-29T12:30:45 Z
    <<50, 48, 50, 52, 45, 48, 50, 45, 50, 57, 84, 49, 50, 58, 51, 48, 58, 52, 53, 85, 84, 67>>,   \* 2024-02-29T12:30:45UTC
    <<50, 48, 50, 52, 45, 48, 50, 45, 50, 57, 84, 49, 50, 58, 51, 48, 58, 52, 53, 43, 48, 49>>    \* 2024-02-29T12:30:45+01
    }
DatetimePool == DatetimeSeeds \cup DatetimeExtras \cup NearMisses(DatetimeSeeds, {48, 45, 32, 58})
PoolOf(kind) == CASE kind = "bool" -> BoolPool [] kind = "int" -> IntPool [] kind = "float" -> FloatPool
                  [] kind = "uuid" -> UuidPool [] kind = "date" -> DatePool [] kind = "datetime" -> DatetimePool
=============================================================================
