---------------------------- MODULE MediaTypes ----------------------------
(* C11a as a state machine: a negotiation case is built up range by range, then candidate by
   candidate (one state per case, DESIGN 2.2 "decision-table modules"); the invariants compare
   what the operational definitions (fold over score tuples = what falcon.mediatypes does)
   compute with the documented rule stated declaratively in MediaTypesOps. *)
EXTENDS MediaTypesOps, TLC

CONSTANTS Ranges,          \* media ranges offered to AddRange (well-formed and malformed)
          MTypes,          \* candidate media types
          MaxRanges, MaxCands,
          SubBeforeExact,  \* TRUE = documented order; FALSE = wrong design (vacuity switch)
          Positive,        \* TRUE = a best match needs quality > 0; FALSE = wrong design ">= 0"
          QSplits          \* FALSE = every parameter other than q belongs to the range wherever it is written;
                           \* TRUE = wrong design "q ends the media-type parameters, what follows is dropped"

VARIABLES hdr,     \* the Accept-like header: sequence of media ranges
          cands    \* the candidate list handed to best_match / client_prefers

vars == <<hdr, cands>>

Init == hdr = <<>> /\ cands = <<>>

AddRange(r) == /\ cands = <<>> /\ Len(hdr) < MaxRanges
               /\ hdr' = Append(hdr, r) /\ UNCHANGED cands
AddCand(m)  == /\ hdr # <<>> /\ Len(cands) < MaxCands
               /\ cands' = Append(cands, m) /\ UNCHANGED hdr

Next == (\E r \in Ranges : AddRange(r)) \/ (\E m \in MTypes : AddCand(m))
Spec == Init /\ [][Next]_vars

WellFormed == hdr # <<>> /\ ~AnyMalformed(hdr)

(* what the modelled implementation makes of a range as written (qp = number of parameters before q) *)
Seen(r)  == IF QSplits /\ r.q # QABSENT THEN [r EXCEPT !.pm = SubSeq(r.pm, 1, r.qp)] ELSE r
SeenHdr  == [i \in DOMAIN hdr |-> Seen(hdr[i])]
QLast(r) == [r EXCEPT !.qp = Len(r.pm)]
(* what the modelled implementation computes *)
Q(m)  == QualityOrd(SeenHdr, m, SubBeforeExact)
Best  == BestIdxOrd(SeenHdr, cands, SubBeforeExact, Positive)

(* ---- properties ---- *)
SpecificityOrder == WellFormed => \A i \in DOMAIN cands : IsDocumentedQuality(hdr, cands[i], Q(cands[i]))
BestIsFirstMax   == WellFormed => IsDocumentedBest(hdr, cands, Best)
QZeroNeverChosen == LET b == Best IN (WellFormed /\ b # 0) =>
                        LET M == Matching(hdr, cands[b]) IN
                        /\ M # {}
                        /\ \E i \in M : QOf(hdr[i]) > 0 /\ \A j \in M : AtLeast(hdr, cands[b], i, j)
MalformedOnlyValueError ==
    /\ \A i \in DOMAIN cands : QualityOutcome(hdr, cands[i]).err = AnyMalformed(hdr)
    /\ BestOutcome(hdr, cands).err = (cands # <<>> /\ AnyMalformed(hdr))
    /\ ~PrefersOutcome(hdr, cands).err
    /\ \A i \in DOMAIN cands : ~AcceptsOutcome(hdr, cands[i]).err /\ (AnyMalformed(hdr) => AcceptsOutcome(hdr, cands[i]).v = 0)
(* the place of q among the parameters is irrelevant: the same header with every q written last has the
   same qualities and the same best match *)
QPositionIrrelevant ==
    LET h2 == [i \in DOMAIN hdr |-> QLast(hdr[i])] IN
    WellFormed => /\ \A i \in DOMAIN cands : Q(cands[i]) = QualityOrd(h2, cands[i], SubBeforeExact)
                  /\ Best = BestIdxOrd(h2, cands, SubBeforeExact, Positive)
AcceptsIffPositive == WellFormed => \A i \in DOMAIN cands : (AcceptsOutcome(hdr, cands[i]).v = 1) = (Quality(hdr, cands[i]) > 0)
==========================================================================
