INIT MCInit
NEXT MCNext
CONSTANTS
  CharsetClass <- MCCharsetClass
  DelimWithCRLF = TRUE
  PartPool <- MCPartPool
  EnvPool <- MCEnvPool
  LimitsOf <- MCLimitsOf
  Sizes <- NoSizes
  RDelims <- NoRDelims
  MaxParts = 1
  MaxOps = 0
  MaxRetry = 1
  ContentSel = {6}
  ProfileSel = {2}
  UseJson = FALSE
  BoundarySel = {1}
  PreSel = {1}
  EpiSel = {1}
  FinSel = {TRUE}
  LimModes = {"base"}
  EditPos <- AllPos
  EditKinds = {"del", "ins", "sub"}
  EditVals = {45, 10, 88, 233}
  Depth = 8
INVARIANT Emit
INVARIANT ContentExact
INVARIANT SizeFailureSticks
INVARIANT CorruptionIsErrorOrWellDefined
PROPERTY MCBufferLimitExact
PROPERTY MCProgress
