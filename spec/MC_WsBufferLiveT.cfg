\* liveness under weak fairness of the pump task, the application task and the server
SPECIFICATION XFairSpec
CONSTANTS
  MaxQs = {0, 1, 2}
  NMsg = 3
  DiscChoices = {TRUE, FALSE}
  GeCmp = TRUE
  AwaitStop = TRUE
  NotifyPop = TRUE
  ReleaseOnEnd = TRUE
  Faults = TRUE
  StopAfterSend = TRUE
  CleanupOnDisc = TRUE
  MaxSendFail = 1
  Family = "none"
  MaxOps = 4
  MaxCancel = 1
  Depth = 0
PROPERTY RecvProgress
PROPERTY SenderLearnsEventually
PROPERTY CloseCompletes
PROPERTY PendingReleased
PROPERTY AppCallableReturns
