INIT MCInit
NEXT ANext
CONSTANTS
  Payloads = {1, 2}
  MaxReqs = 4
  Memoised = FALSE
  Depth = 5
INVARIANT Emit
