INIT Init
NEXT XNext
CONSTANTS
  Ranges <- RangesT
  MTypes <- MTypesT
  AllM <- AllMT
  MaxRanges = 2
  MaxCands = 1
  SubBeforeExact = TRUE
  Positive = TRUE
  QSplits = FALSE
INVARIANT SpecificityOrder
INVARIANT BestIsFirstMax
INVARIANT QZeroNeverChosen
INVARIANT MalformedOnlyValueError
INVARIANT AcceptsIffPositive
INVARIANT QPositionIrrelevant
