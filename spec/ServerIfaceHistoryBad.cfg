INIT Init
NEXT Next
CONSTANTS
  MaxRequests = 2
  SharedFallback = TRUE
INVARIANT ViewIndependentOfHistory
