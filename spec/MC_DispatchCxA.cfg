INIT AInit
NEXT ANext
CONSTANTS
  Templates <- CxTemplates
  ResKinds <- CxResKinds
  SinkPats <- CxSinkPats
  StaticPrefixes <- CxStaticPrefixes
  Methods <- CxMethods
  Paths <- CxPaths
  MaxCalls = 2
  NewestFirst = TRUE
  RoutesFirst = TRUE
INVARIANT InvAllClauses
INVARIANT InvConflictFree
INVARIANT InvWellFormedTemplates
INVARIANT Emit
