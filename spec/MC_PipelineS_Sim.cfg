INIT SInit
NEXT SNext
CONSTANTS
  Stacks <- Stacks3
  Indeps <- Both
  Targets <- AllTargets
  MaxHooks = 2
  InitRegs <- C3Regs
  RegClasses <- None
  RegBehs <- None
  MaxRegs = 0
  RaiseClasses <- C3RaiseSim
  RenderClasses <- C3Render
  Mro <- MCMro
  StatusOf <- MCStatus
  OwnVary <- MCOwnVary
  MaxReqs = 1
  WrongDesign = "none"
  SameObj = FALSE
  MaxFaults = 4
INVARIANT Emit
