INIT Init
NEXT XNext
CONSTANTS
  U8Complete <- AnySplit
  Alphabet <- UriAlphabet
  MaxLen = 0
  Fns <- UriFns
  Extra <- TokInputs2
  KnownLiterals <- KnownLits
INVARIANT DecodeTotal
INVARIANT DecodeIdentityOnPlain
INVARIANT DecodeConcat
INVARIANT DecodeChunkLaw
INVARIANT EncodeOutputAlphabet
INVARIANT EncodeConcat
INVARIANT DecodeEncodeId
INVARIANT EncodedPiecesAreChunks
INVARIANT CheckEscapedFixpoint
INVARIANT CheckEscapedConcat
