INIT MCInit
NEXT MCNext
CONSTANTS
  CharsetClass <- MCCharsetClass
  DelimWithCRLF = TRUE
  PartPool <- MCPartPool
  EnvPool <- MCEnvPool
  LimitsOf <- MCLimitsOf
  Sizes <- ExpSizes
  RDelims <- ExpRDelims
  MaxParts = 1
  MaxOps = 1
  MaxRetry = 1
  ContentSel = {1, 4, 6, 7, 9}
  ProfileSel = {1, 3}
  UseJson = TRUE
  BoundarySel = {1, 2}
  PreSel = {1}
  EpiSel = {1}
  FinSel = {TRUE, FALSE}
  LimModes = {"base", "count", "hdr", "buf"}
  EditPos <- NoPos
  EditKinds = {}
  EditVals = {}
  Depth = 8
INVARIANT ParseOfEncodeIsForm
INVARIANT LimitsExactAtThreshold
INVARIANT Emit
