INIT MCInit
NEXT MCNext
CONSTANTS
  CharsetClass <- MCCharsetClass
  DelimWithCRLF = TRUE
  PartPool <- MCPartPool
  EnvPool <- MCEnvPool
  LimitsOf <- MCLimitsOf
  Sizes <- ExpSizes
  RDelims <- ExpRDelims
  MaxParts = 1
  MaxOps = 1
  MaxRetry = 1
  ContentSel = {6, 9}
  ProfileSel = {1, 7, 9, 10, 11}
  UseJson = TRUE
  BoundarySel = {2, 4}
  PreSel = {1}
  EpiSel = {1}
  FinSel = {TRUE, FALSE}
  LimModes = {"base", "count", "hdr", "buf"}
  EditPos <- NoPos
  EditKinds = {}
  EditVals = {}
  Depth = 8
INVARIANT ParseOfEncodeIsForm
INVARIANT QuotedRoundTrip
INVARIANT LimitsExactAtThreshold
INVARIANT Emit
