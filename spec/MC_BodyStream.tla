-------------------------- MODULE MC_BodyStream --------------------------
(* Bounded instances of BodyStream.  Every disjunct of Next is a named action here (X.. for the
   exhaustive instance without history, H.. for the history-carrying instance that exports
   behaviours), so that TLC's coverage shows which operations fired.

   ASGI scripts are built from event *shapes* <<length, has-body-key, more_body code, type>>;
   the k-th byte the server sends has the value 64 + k, so loss, duplication and reordering are
   all visible to PrefixOfBody. *)
EXTENDS BodyStream, Json, IOUtils
VARIABLE h
CONSTANTS Depth, MaxEvents, MaxEvLen, MaxData

MCSizes    == {-2, -1, 0, 1, 3}
QSizes     == {-1, 0, 1, 2}
H(k, v)    == [k |-> k, v |-> v]
Odd        == {H("absent", NIL), H("lenient", 2), H("unusable", -2)}     \* no header, '+2' / ' 2', '-2' / 'x'
MCCLs      == {H("valid", n) : n \in {0, 1, 2, 3, 5}} \cup Odd
QCLs       == {H("valid", n) : n \in {0, 1, 3}} \cup Odd
MCDatas    == SeqsUpTo({120, 10}, MaxData)
SimSizes   == {-7, -2, -1, 0, 1, 2, 3, 5}
SimCLs     == {H("valid", n) : n \in 0..7} \cup Odd \cup {H("lenient", 4), H("unusable", -5)}
(* wrong-design switch of the vacuity runs, chosen through the environment (C07_WRONG) *)
Wrong(name) == IOEnv.C07_WRONG = name
SwShort    == ~Wrong("NoShortReads")
SwCharge   == Wrong("ChargeByRequested")
SwBound    == ~Wrong("UnboundedLineOps")
SwTrunc    == ~Wrong("NoTruncation")
SwCount    == ~Wrong("MiscountTruncated")
SwDisc     == ~Wrong("IgnoreDisconnect")
SwTell     == ~Wrong("TellCountsPreloaded")
SwNeg      == ~Wrong("NegativeLengthAccepted")
SwYield    == ~(Wrong("AccountAfterYield") \/ Wrong("AccountAfterYieldThenBreak"))
SwExh      == ~Wrong("ExhaustStopsAtShortChunk")
(* the invariant each wrong design is expected to break *)
Target == CASE Wrong("ChargeByRequested")   -> PrefixOfBody
            [] Wrong("UnboundedLineOps")    -> NeverAskBeyondCL
            [] Wrong("NoTruncation")        -> PrefixOfBody
            [] Wrong("MiscountTruncated")   -> SizedReadBounded
            [] Wrong("IgnoreDisconnect")    -> DisconnectEndsStream
            [] Wrong("TellCountsPreloaded") -> IndicatorsAgree
            [] Wrong("NegativeLengthAccepted") -> NeverAskBeyondCL
            [] Wrong("AccountAfterYield")   -> IndicatorsAgree      \* tell() / eof lag inside the loop body
            [] Wrong("AccountAfterYieldThenBreak") -> PrefixOfBody  \* more than Content-Length bytes after a break
            [] Wrong("ExhaustStopsAtShortChunk") -> ExhaustEndsStream
            [] OTHER                        -> TRUE

Shapes == {<<l, TRUE, mb, "req">> : l \in 0..MaxEvLen, mb \in 0..2}
          \cup {<<0, FALSE, mb, "req">> : mb \in 0..2}
          \cup {<<0, FALSE, 0, "disc">>}
RECURSIVE SumLens(_, _)
SumLens(sh, k) == IF k = 0 THEN 0 ELSE SumLens(sh, k - 1) + sh[k][1]
MkBody(off, l) == [j \in 1..l |-> 64 + off + j]
MkScript(sh) == [i \in 1..Len(sh) |->
                    IF sh[i][4] = "disc" THEN Ev("disc", <<>>, FALSE, 0)
                    ELSE Ev("req", MkBody(SumLens(sh, i - 1), sh[i][1]), sh[i][2], sh[i][3])]
AllScripts == {MkScript(sh) : sh \in UNION {[1..k -> Shapes] : k \in 1..MaxEvents}}
MCScripts  == {s \in AllScripts : TermIdx(s) <= Len(s)}       \* the server does say when it is done

Keep == UNCHANGED h
Log  == Len(h) < Depth /\ h' = Append(h, last')
XInit == Init /\ h = <<>>

XWRead      == (\E n \in Sizes : WRead(n)) /\ Keep
XWReadLine  == (\E n \in Sizes : WReadLine(n)) /\ Keep
XWReadLines == (\E n \in Sizes : WReadLines(n)) /\ Keep
XWNext      == WNext /\ Keep
XWIterAll   == WIterAll /\ Keep
XWExhaust   == WExhaust /\ Keep
XWClose     == WClose /\ Keep
XARead      == (\E n \in Sizes : ARead(n)) /\ Keep
XAReadAll   == AReadAll /\ Keep
XAIter      == AIter /\ Keep
XAExhaust   == AExhaust /\ Keep
XAClose     == AClose /\ Keep
XAIterNext  == AIterNext /\ Keep
XAIterBreak == AIterBreak /\ Keep
XNext == XWRead \/ XWReadLine \/ XWReadLines \/ XWNext \/ XWIterAll \/ XWExhaust \/ XWClose
         \/ XARead \/ XAReadAll \/ XAIter \/ XAExhaust \/ XAClose \/ XAIterNext \/ XAIterBreak

HWRead      == (\E n \in Sizes : WRead(n)) /\ Log
HWReadLine  == (\E n \in Sizes : WReadLine(n)) /\ Log
HWReadLines == (\E n \in Sizes : WReadLines(n)) /\ Log
HWNext      == WNext /\ Log
HWIterAll   == WIterAll /\ Log
HWExhaust   == WExhaust /\ Log
HWClose     == Len(h) >= Depth - 2 /\ WClose /\ Log     \* late, so that most of a history sees an open stream
HARead      == (\E n \in Sizes : ARead(n)) /\ Log
HAReadAll   == AReadAll /\ Log
HAIter      == AIter /\ Log
HAExhaust   == AExhaust /\ Log
HAClose     == Len(h) >= Depth - 2 /\ AClose /\ Log
HAIterNext  == AIterNext /\ Log
HAIterBreak == AIterBreak /\ Log
HNext == HWRead \/ HWReadLine \/ HWReadLines \/ HWNext \/ HWIterAll \/ HWExhaust \/ HWClose
         \/ HARead \/ HAReadAll \/ HAIter \/ HAExhaust \/ HAClose \/ HAIterNext \/ HAIterBreak

(* one stack at a time, so that the two can be sized independently *)
WInit == InitWsgi /\ h = <<>>
AInit == InitAsgi /\ h = <<>>

(* behaviour export: one JSON object per finished behaviour *)
Emit == (Len(h) = Depth) =>
          PrintT(ToJson([iface |-> iface, clh |-> clh, cl |-> cl, sent |-> sent, evs |-> evs, first |-> first, ev |-> h]))
==========================================================================
