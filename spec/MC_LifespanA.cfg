INIT Init
NEXT MCNext
CONSTANTS
  HandlerStacks <- LStacks3
INVARIANT Emit
