INIT Init
NEXT MCNext
CONSTANTS
  HandlerStacks <- LStacks2
  AddShapes <- BothShape
  MaxAdds = 2
  MaxCycles = 2
INVARIANT EmitLast
