INIT Init
NEXT MCNext
CONSTANTS
  HandlerStacks <- LStacks2
  AddShapes <- BothShape
  MaxAdds = 1
  MaxCycles = 2
INVARIANT EmitLast
