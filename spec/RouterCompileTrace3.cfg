INIT TInit
NEXT TNext
CONSTANTS
  NT = 3
  Threads <- MCThreads
  NRoutes = 2
  UseLock = TRUE
  Recheck = TRUE
  Want <- MCWant
INVARIANT MutualExclusion
