---------------------------- MODULE MC_Lifespan ----------------------------
EXTENDS Lifespan, Json
Shapes == SUBSET {"startup", "shutdown"}
StacksUpTo(n) == UNION {[1..m -> Shapes] : m \in 0..n}
LStacks2 == StacksUpTo(2)
LStacks3 == StacksUpTo(3)
LStacks4 == StacksUpTo(4)
BothShape == {{"startup", "shutdown"}}
NoShape == {}
AddSeqs == UNION {[1..m -> AddShapes] : m \in 1..MaxAdds}
XAddMiddleware == \E ss \in AddSeqs : AddMiddlewareSeq(ss)
XEnter == Enter
XRecvStartup == RecvStartup
XStartupOk == phase = "startup" /\ StartupCall("ok")
XStartupRaise == phase = "startup" /\ StartupCall("raise")
XStartupSkip == StartupSkip
XStartupDone == StartupDone
XAbandon == Abandon
XRecvShutdown == RecvShutdown
XShutdownOk == phase = "shutdown" /\ ShutdownCall("ok")
XShutdownRaise == phase = "shutdown" /\ ShutdownCall("raise")
XShutdownSkip == ShutdownSkip
XShutdownDone == ShutdownDone
MCNext == XAddMiddleware \/ XEnter \/ XRecvStartup \/ XStartupOk \/ XStartupRaise \/ XStartupSkip \/ XStartupDone
          \/ XAbandon \/ XRecvShutdown \/ XShutdownOk \/ XShutdownRaise \/ XShutdownSkip \/ XShutdownDone
(* behaviour export: every history at a point where no lifespan scope is open *)
Emit == (phase = "out" /\ cycle >= 1) =>
    PrintT(ToJson([hs |-> [c \in 1..N |-> hs[c]], adds |-> adds, sd |-> sd, calls |-> calls, sent |-> sent]))
EmitLast == (phase = "out" /\ cycle = MaxCycles) =>
    PrintT(ToJson([hs |-> [c \in 1..N |-> hs[c]], adds |-> adds, sd |-> sd, calls |-> calls, sent |-> sent]))
=============================================================================
