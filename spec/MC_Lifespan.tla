---------------------------- MODULE MC_Lifespan ----------------------------
EXTENDS Lifespan, Json
Shapes == SUBSET {"startup", "shutdown"}
StacksUpTo(n) == UNION {[1..m -> Shapes] : m \in 0..n}
LStacks3 == StacksUpTo(3)
LStacks4 == StacksUpTo(4)
XRecvStartup == RecvStartup
XStartupOk == phase = "startup" /\ StartupCall("ok")
XStartupRaise == phase = "startup" /\ StartupCall("raise")
XStartupSkip == StartupSkip
XStartupDone == StartupDone
XRecvShutdown == RecvShutdown
XShutdownOk == phase = "shutdown" /\ ShutdownCall("ok")
XShutdownRaise == phase = "shutdown" /\ ShutdownCall("raise")
XShutdownSkip == ShutdownSkip
XShutdownDone == ShutdownDone
MCNext == XRecvStartup \/ XStartupOk \/ XStartupRaise \/ XStartupSkip \/ XStartupDone \/ XRecvShutdown
          \/ XShutdownOk \/ XShutdownRaise \/ XShutdownSkip \/ XShutdownDone
(* behaviour export: every state in which the server may stop talking (startup answered, or finished) *)
Emit == phase \in {"up", "down"} =>
    PrintT(ToJson([hs |-> [c \in 1..N |-> hs[c]], calls |-> calls, sent |-> sent, shutdown |-> (phase = "down" /\ Len(sent) = 2)]))
=============================================================================
