INIT Init
NEXT XNext
CONSTANTS
  Ranges <- RangesS
  MTypes <- MTypesS
  AllM <- AllMS
  MaxRanges = 3
  MaxCands = 3
  SubBeforeExact = TRUE
  Positive = TRUE
  QSplits = FALSE
INVARIANT SpecificityOrder
INVARIANT BestIsFirstMax
INVARIANT QZeroNeverChosen
INVARIANT QPositionIrrelevant
INVARIANT EmitCase
