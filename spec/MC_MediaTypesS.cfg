INIT Init
NEXT XNext
CONSTANTS
  Ranges <- RangesS
  MTypes <- MTypesS
  AllM <- AllMS
  MaxRanges = 3
  MaxCands = 3
  SubBeforeExact = TRUE
  Positive = TRUE
INVARIANT SpecificityOrder
INVARIANT BestIsFirstMax
INVARIANT QZeroNeverChosen
INVARIANT EmitCase
