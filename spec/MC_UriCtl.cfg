INIT Init
NEXT XNext
CONSTANTS
  Alphabet <- CtlAlphabet
  MaxLen = 4
  Fns <- UriFns
  Extra <- NoInputs
  KnownLiterals <- KnownLits
INVARIANT DecodeTotal
INVARIANT DecodeIdentityOnPlain
INVARIANT DecodeConcat
INVARIANT DecodeChunkLaw
INVARIANT EncodeOutputAlphabet
INVARIANT EncodeConcat
INVARIANT DecodeEncodeId
INVARIANT EncodedPiecesAreChunks
INVARIANT CheckEscapedFixpoint
INVARIANT CheckEscapedConcat
INVARIANT Emit
