-------------------------- MODULE ErrorObjectTrace --------------------------
(* Judge for error objects with a history (C04): a trace is the sequence of operations an application performed on
   ONE real falcon.HTTPError instance - [op, f, none, k, acc, obs] with op in amend / peek / raise / catch / reraise /
   render - and, for every rendering, the observed document obs = [kind, title, description, code, link, hdr]
   (attribute VERSIONS decoded from the response by the representation's trusted parser; -1 absent, -2 a value the
   object never held).  The operations are replayed on ErrorObject; total over legal histories.
     P4:negotiation     the rendering is not in the representation ErrorRender!Render selects for the current fields
     P4:object-current  the document / headers are not the encoding of the object's current attributes *)
EXTENDS ErrorObject, Json, IOUtils
Traces == JsonDeserialize(IOEnv.TRACE_FILE)
Absent == [absent |-> TRUE, malformed |-> FALSE, raw |-> "", msfx |-> "", ranges |-> <<>>]
OnlyAbsent == {Absent}
OnlyTag == {<< MT("application", "x-verif-tag") >>}
Empty == {}
VARIABLES tid, l, verdict
T  == Traces[tid]
Ev == T.ops[l]
TInit == OInit /\ tid \in 1..Len(Traces) /\ l = 1 /\ verdict = "ok"
Act == \/ Ev.op = "amend" /\ Amend(Ev.f, Ev.none)
       \/ Ev.op = "peek" /\ Peek(Ev.k)
       \/ Ev.op = "raise" /\ Raise(Ev.acc)
       \/ Ev.op = "catch" /\ Catch
       \/ Ev.op = "reraise" /\ Reraise
       \/ Ev.op = "render" /\ RenderObj
Judge(d) == IF Ev.obs.kind # d.kind THEN "P4:negotiation" ELSE IF Ev.obs # d THEN "P4:object-current" ELSE "ok"
Step == /\ l >= 1 /\ l <= Len(T.ops) /\ verdict = "ok"
        /\ Act
        /\ verdict' = (IF Ev.op = "render" THEN Judge(doc') ELSE "ok")
        /\ l' = l + 1 /\ UNCHANGED tid
Fin  == /\ l >= 1 /\ (l > Len(T.ops) \/ verdict # "ok")
        /\ PrintT(<<"VERDICT", tid, verdict, l - 1>>)
        /\ l' = -1 /\ UNCHANGED <<allvars, tid, verdict>>
TNext == Step \/ Fin
=============================================================================
