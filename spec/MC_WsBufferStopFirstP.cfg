\* vacuity witness: ... and AcceptedHasPump (the connection is still accepted, its pump is gone)
INIT XInit
NEXT XNext
CONSTANTS
  MaxQs = {1}
  NMsg = 0
  DiscChoices = {FALSE}
  GeCmp = TRUE
  AwaitStop = TRUE
  NotifyPop = TRUE
  ReleaseOnEnd = TRUE
  Faults = FALSE
  StopAfterSend = FALSE
  CleanupOnDisc = TRUE
  MaxSendFail = 1
  Family = "none"
  MaxOps = 2
  MaxCancel = 0
  Depth = 0
INVARIANT AcceptedHasPump
