---------------------------- MODULE Cursor ----------------------------
(* C14: a buffered reader is one flat cursor over the whole byte string.
   State machine over CursorOps: one action per public reader call.  Sub-readers
   created by delimit() are a stack of end positions: while a sub-reader is open
   every operation sees the data cut at the innermost end; closing it (after it
   was exhausted) leaves the parent positioned at the delimiter. *)
EXTENDS CursorOps, TLC

CONSTANTS Alphabet,      \* byte values data is built from
          MaxLen,        \* maximum data length
          Sizes,         \* size arguments offered to the sized operations (-1 = unlimited)
          Delims,        \* delimiters (non-empty byte strings)
          ChunkSizes,    \* reader buffer ("chunk") sizes; only peek's cap depends on it
          MaxDepth       \* maximum nesting of delimited sub-readers

VARIABLES data,    \* the byte string behind the top-level reader
          cs,      \* buffer size of the reader
          ends,    \* stack of sub-reader end positions (innermost last)
          bases,   \* stack of sub-reader start positions (their tell() origin)
          pos,     \* cursor
          out,     \* ghost: every byte accounted for so far (returned or skipped delimiter)
          last     \* the last call: [op, args.., res, err]

vars == <<data, cs, ends, bases, pos, out, last>>

End  == IF ends = <<>> THEN Len(data) ELSE ends[Len(ends)]
Base == IF bases = <<>> THEN 0 ELSE bases[Len(bases)]
D    == SubSeq(data, 1, End)             \* what the innermost open reader can ever deliver
Tell == pos - Base
AtEof == pos = End

(* one uniform record per call, so behaviours serialise uniformly *)
Rec(op, n, d, c, res, err, lines) == [op |-> op, n |-> n, d |-> d, c |-> c, res |-> res, err |-> err, lines |-> lines]

Init == /\ data \in SeqsUpTo(Alphabet, MaxLen)
        /\ cs \in ChunkSizes
        /\ ends = <<>> /\ bases = <<>> /\ pos = 0 /\ out = <<>>
        /\ last = Rec("init", 0, <<>>, FALSE, <<>>, FALSE, <<>>)

Apply(r, op, n, d, c) ==
    /\ pos' = r.pos
    /\ out' = out \o Slice(D, pos, r.pos)
    /\ last' = Rec(op, n, d, c, r.res, r.err, <<>>)
    /\ UNCHANGED <<data, cs, ends, bases>>

Read(n)   == Apply(ORead(D, pos, n), "read", n, <<>>, FALSE)
Peek(n)   == Apply(OPeek(D, pos, n, cs), "peek", n, <<>>, FALSE)
ReadUntil(d, n, c) ==
    /\ Len(d) <= cs                       \* documented precondition: 1 <= len(delimiter) <= chunk size
    /\ Apply(OReadUntil(D, pos, d, n, c), "read_until", n, d, c)
PipeUntil(d, c) ==
    /\ Len(d) <= cs
    /\ Apply(OPipeUntil(D, pos, d, c), "pipe_until", -1, d, c)
ReadLine(n) == Apply(OReadLine(D, pos, n), "readline", n, <<>>, FALSE)
ReadLines(h) ==
    LET r == OReadLines(D, pos, h)
    IN  /\ pos' = r.pos /\ out' = out \o Slice(D, pos, r.pos)
        /\ last' = Rec("readlines", h, <<>>, FALSE, Concat(r.lines), FALSE, r.lines)
        /\ UNCHANGED <<data, cs, ends, bases>>
Exhaust == Apply([res |-> <<>>, pos |-> End, err |-> FALSE], "exhaust", -1, <<>>, FALSE)

Delimit(d) ==
    /\ Len(ends) < MaxDepth /\ Len(d) <= cs
    /\ ends' = Append(ends, SubEnd(D, pos, d))
    /\ bases' = Append(bases, pos)
    /\ last' = Rec("delimit", -1, d, FALSE, <<>>, FALSE, <<>>)
    /\ UNCHANGED <<data, cs, pos, out>>

EndSub ==                                 \* the exhausted sub-reader is dropped; parent continues
    /\ ends # <<>> /\ AtEof
    /\ ends' = SubSeq(ends, 1, Len(ends) - 1)
    /\ bases' = SubSeq(bases, 1, Len(bases) - 1)
    /\ last' = Rec("endsub", -1, <<>>, FALSE, <<>>, FALSE, <<>>)
    /\ UNCHANGED <<data, cs, pos, out>>

Next == \/ \E n \in Sizes : Read(n) \/ Peek(n) \/ ReadLine(n) \/ ReadLines(n)
        \/ \E d \in Delims, n \in Sizes, c \in BOOLEAN : ReadUntil(d, n, c)
        \/ \E d \in Delims, c \in BOOLEAN : PipeUntil(d, c)
        \/ \E d \in Delims : Delimit(d)
        \/ Exhaust \/ EndSub

Spec == Init /\ [][Next]_vars

(* ---- properties ---- *)
NoSkipNoDup     == out = Slice(data, 0, pos)     \* everything before the cursor was delivered exactly once, in order
NeverBeyondMax  == pos <= End /\ End <= Len(data)
NestedEnds      == \A i \in 1..Len(ends) : (i > 1 => ends[i] <= ends[i-1]) /\ bases[i] <= ends[i]
SizedBounded    == (last.op \in {"read", "read_until", "readline", "peek"} /\ last.n >= 0) => Len(last.res) <= last.n
PeekCapped      == last.op = "peek" => Len(last.res) <= cs
ErrLeavesData   == last.err => ~IsAt(D, last.d, pos)   \* a delimiter error means the delimiter really is not next
MonotonePos     == [][pos' >= pos]_vars
=======================================================================
