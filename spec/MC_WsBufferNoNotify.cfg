\* vacuity witness: a pump that does not resolve the receiver's waiter must violate NoLostWake (and RecvProgress)
INIT XInit
NEXT XNext
CONSTANTS
  MaxQs = {1}
  NMsg = 1
  DiscChoices = {FALSE}
  GeCmp = TRUE
  AwaitStop = TRUE
  NotifyPop = FALSE
  ReleaseOnEnd = TRUE
  Faults = TRUE
  StopAfterSend = TRUE
  CleanupOnDisc = TRUE
  MaxSendFail = 1
  Family = "none"
  MaxOps = 1
  MaxCancel = 0
  Depth = 0
INVARIANT NoLostWake
