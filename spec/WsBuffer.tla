---------------------------- MODULE WsBuffer ----------------------------
(* C18: hand-off of incoming WebSocket messages between the ASGI server, the framework's
   background reader ("pump") and the application task.

   One action = one await-to-await segment of one task (finer where noted: a finer grain only
   admits MORE interleavings than an asyncio loop can produce).  The environment is the server
   making client events available (SrvArrive), the application choosing its next call
   (AppRecv / AppSend / AppClose) and the cancellation of a pending receive (CancelRecv).

   Capacity mq = 0 is the unbuffered mode: there is no pump, a receive pulls from the server
   itself, and a sender never learns about a disconnect from the buffer.

   Named deviation from an idealised bounded buffer, PumpHoldsOneInHand: the pump asks the
   server for the next event BEFORE it looks at the queue, so the framework can hold mq queued
   events plus one in the pump's hand.  "At most the configured number are held" is read as the
   queue bound (Bounded); the +1 is stated by Held and PullsStopWhenFull.

   Scripts end at close(): what a receive/send on a socket the application closed itself must
   do is the business of the connection state machine (C17), not of the buffer. *)
EXTENDS Integers, Sequences, FiniteSets, TLC

CONSTANTS MaxQs,        \* capacities explored (0 = unbuffered)
          NMsg,         \* the client sends 0..NMsg messages ...
          DiscChoices,  \* ... followed by a disconnect or not (subset of BOOLEAN)
          GeCmp,        \* TRUE: the pump waits while len(queue) >= capacity.  FALSE: wrong design ">"
          AwaitStop,    \* TRUE: close() waits for the cancelled pump.  FALSE: wrong design (fire and forget)
          NotifyPop,    \* TRUE: the pump resolves the receiver's waiter after appending.  FALSE: wrong design (lost wake-up)
          MaxOps,       \* bound on application calls
          MaxCancel     \* bound on cancellations of a pending receive

VARIABLES mq,       \* capacity of this connection
          all,      \* ghost: everything the client will ever send (messages 1..n, then possibly DISC)
          srv,      \* client events the server has not yet made available
          avail,    \* events available at the server, not yet pulled by the framework
          pull,     \* who has a server receive() outstanding: "none" | "pump" | "app"
          ppc,      \* pump: "off" | "loop" | "awaitRecv" | "checkSpace" | "waitSpace" | "done" | "cancelled"
          pcancel,  \* close() has cancelled the pump, the pump has not yet seen it
          inhand,   \* event the pump has pulled and not yet queued, or NIL
          queue,    \* the message queue
          disc,     \* the pump has seen the disconnect (what a sender looks at)
          popW,     \* receiver's waiter: "none" | "pending" | "set"
          putW,     \* pump's waiter for space: "none" | "pending" | "set"
          apc,      \* application: "idle" | "recvLoop" | "recvWait" | "recvRaw" | "sending" | "closeSending" | "closing" | "closed"
          wstate,   \* what the application has been told: "accepted" | "closed"
          taken,    \* ghost: events handed to the application by receive, in order
          via,      \* ghost: how the application first learnt of the disconnect: "none" | "recv" | "send"
          last,     \* ghost: the last completed call [op, r]
          nops, ncancel,
          pulls     \* ghost: server receive() calls issued so far

vars == <<mq, all, srv, avail, pull, ppc, pcancel, inhand, queue, disc, popW, putW,
          apc, wstate, taken, via, last, nops, ncancel, pulls>>

DISC == 0          \* the disconnect event; messages are 1..NMsg
NIL == -1
OKR == -2          \* result of a send/close that went through
CANCELLED == -3    \* result of a receive that was cancelled
Live == {"loop", "awaitRecv", "checkSpace", "waitSpace"}

Events(n, d) == [i \in 1..(n + (IF d THEN 1 ELSE 0)) |-> IF i <= n THEN i ELSE DISC]
Res(op, r) == [op |-> op, r |-> r]
Hand == IF inhand = NIL THEN <<>> ELSE <<inhand>>
Full == IF GeCmp THEN Len(queue) >= mq ELSE Len(queue) > mq

InitWith(q, a) ==
        /\ mq = q /\ all = a
        /\ srv = all /\ avail = <<>> /\ pull = "none"
        /\ ppc = (IF mq > 0 THEN "loop" ELSE "off")
        /\ pcancel = FALSE /\ inhand = NIL /\ queue = <<>> /\ disc = FALSE
        /\ popW = "none" /\ putW = "none" /\ apc = "idle" /\ wstate = "accepted"
        /\ taken = <<>> /\ via = "none" /\ last = Res("none", NIL)
        /\ nops = 0 /\ ncancel = 0 /\ pulls = 0
Init == \E q \in MaxQs, n \in 0..NMsg, d \in DiscChoices : InitWith(q, Events(n, d))

(* ---------------- environment: the server ---------------- *)
SrvArrive ==
    /\ srv # <<>>
    /\ avail' = Append(avail, Head(srv)) /\ srv' = Tail(srv)
    /\ UNCHANGED <<mq, all, pull, ppc, pcancel, inhand, queue, disc, popW, putW, apc, wstate, taken, via, last,
                   nops, ncancel, pulls>>

(* ---------------- the pump task ---------------- *)
PumpLoop ==        \* while not client_disconnected: issue receive()
    /\ ppc = "loop" /\ ~pcancel
    /\ IF disc THEN ppc' = "done" /\ UNCHANGED <<pull, pulls>>
               ELSE ppc' = "awaitRecv" /\ pull' = "pump" /\ pulls' = pulls + 1
    /\ UNCHANGED <<mq, all, srv, avail, pcancel, inhand, queue, disc, popW, putW, apc, wstate, taken, via, last,
                   nops, ncancel>>

PumpGot ==         \* receive() returned; the disconnect flag is raised at once, before waiting for space
    /\ ppc = "awaitRecv" /\ pull = "pump" /\ avail # <<>> /\ ~pcancel
    /\ avail' = Tail(avail) /\ pull' = "none"
    /\ disc' = (disc \/ Head(avail) = DISC)
    /\ inhand' = Head(avail) /\ ppc' = "checkSpace"
    /\ UNCHANGED <<mq, all, srv, pcancel, queue, popW, putW, apc, wstate, taken, via, last, nops, ncancel, pulls>>

PumpCheck ==       \* while full: wait for space; else append and notify the receiver
    /\ ppc = "checkSpace" /\ ~pcancel
    /\ IF Full THEN /\ putW' = "pending" /\ ppc' = "waitSpace"
                    /\ UNCHANGED <<queue, popW, inhand>>
               ELSE /\ queue' = Append(queue, inhand) /\ inhand' = NIL
                    /\ popW' = (IF popW = "pending" /\ NotifyPop THEN "set" ELSE popW)
                    /\ ppc' = "loop" /\ UNCHANGED putW
    /\ UNCHANGED <<mq, all, srv, avail, pull, pcancel, disc, apc, wstate, taken, via, last, nops, ncancel, pulls>>

PumpWake ==        \* the wait for space was resolved by a receive
    /\ ppc = "waitSpace" /\ putW = "set" /\ ~pcancel
    /\ putW' = "none" /\ ppc' = "checkSpace"
    /\ UNCHANGED <<mq, all, srv, avail, pull, pcancel, inhand, queue, disc, popW, apc, wstate, taken, via, last,
                   nops, ncancel, pulls>>

PumpCancelled ==   \* CancelledError is raised at the await the pump is suspended in; what it held is dropped
    /\ pcancel /\ ppc \in Live
    /\ ppc' = "cancelled" /\ pcancel' = FALSE
    /\ pull' = (IF pull = "pump" THEN "none" ELSE pull)
    /\ putW' = "none" /\ inhand' = NIL
    /\ UNCHANGED <<mq, all, srv, avail, queue, disc, popW, apc, wstate, taken, via, last, nops, ncancel, pulls>>

(* ---------------- the application task ---------------- *)
ToldDisc(how) == /\ wstate' = "closed" /\ via' = (IF via = "none" THEN how ELSE via)

AppRecv ==         \* receive_*(): a socket known to be closed raises at once
    /\ apc = "idle" /\ nops < MaxOps /\ nops' = nops + 1
    /\ \/ /\ wstate = "closed"
          /\ last' = Res("recv", DISC)
          /\ UNCHANGED <<apc, pull, pulls>>
       \/ /\ wstate = "accepted" /\ mq = 0
          /\ apc' = "recvRaw" /\ pull' = "app" /\ pulls' = pulls + 1
          /\ UNCHANGED last
       \/ /\ wstate = "accepted" /\ mq > 0
          /\ apc' = "recvLoop"
          /\ UNCHANGED <<last, pull, pulls>>
    /\ UNCHANGED <<mq, all, srv, avail, ppc, pcancel, inhand, queue, disc, popW, putW, wstate, taken, via, ncancel>>

Deliver(e) ==      \* hand event e to the application
    /\ taken' = Append(taken, e)
    /\ last' = Res("recv", e)
    /\ IF e = DISC THEN ToldDisc("recv") ELSE UNCHANGED <<wstate, via>>

SynthDisc ==       \* the pump ended and left nothing: the receiver reports a disconnect itself
    /\ last' = Res("recv", DISC) /\ ToldDisc("recv") /\ UNCHANGED taken

RecvLoop ==        \* while not messages: create a waiter and wait; else pop and notify the pump
    /\ apc = "recvLoop"
    /\ \/ /\ queue = <<>> /\ ppc = "done"
          /\ SynthDisc /\ apc' = "idle" /\ UNCHANGED <<queue, popW, putW>>
       \/ /\ queue = <<>> /\ ppc # "done"
          /\ popW' = "pending" /\ apc' = "recvWait"
          /\ UNCHANGED <<queue, putW, taken, last, wstate, via>>
       \/ /\ queue # <<>>
          /\ queue' = Tail(queue) /\ Deliver(Head(queue))
          /\ putW' = (IF putW = "pending" THEN "set" ELSE putW)
          /\ apc' = "idle" /\ UNCHANGED popW
    /\ UNCHANGED <<mq, all, srv, avail, pull, ppc, pcancel, inhand, disc, nops, ncancel, pulls>>

RecvWake ==        \* the wait returned: the waiter was set, or the pump task is finished
    /\ apc = "recvWait" /\ (popW = "set" \/ ppc = "done")
    /\ popW' = "none"
    /\ IF popW = "set" THEN apc' = "recvLoop" /\ UNCHANGED <<taken, last, wstate, via>>
                       ELSE apc' = "idle" /\ SynthDisc
    /\ UNCHANGED <<mq, all, srv, avail, pull, ppc, pcancel, inhand, queue, disc, putW, nops, ncancel, pulls>>

RecvRawRet ==      \* unbuffered mode: the server's receive() returned to the application
    /\ apc = "recvRaw" /\ pull = "app" /\ avail # <<>>
    /\ avail' = Tail(avail) /\ pull' = "none" /\ Deliver(Head(avail)) /\ apc' = "idle"
    /\ UNCHANGED <<mq, all, srv, ppc, pcancel, inhand, queue, disc, popW, putW, nops, ncancel, pulls>>

CancelRecv ==      \* a pending receive is cancelled: its waiter is forgotten, nothing is consumed
    /\ apc \in {"recvLoop", "recvWait", "recvRaw"} /\ ncancel < MaxCancel /\ ncancel' = ncancel + 1
    /\ popW' = "none" /\ pull' = (IF pull = "app" THEN "none" ELSE pull)
    /\ apc' = "idle" /\ last' = Res("recv", CANCELLED)
    /\ UNCHANGED <<mq, all, srv, avail, ppc, pcancel, inhand, queue, disc, putW, wstate, taken, via, nops, pulls>>

AppSend ==         \* send_*(): raises iff the socket is known closed or the pump has seen the disconnect
    /\ apc = "idle" /\ nops < MaxOps /\ nops' = nops + 1
    /\ \/ /\ wstate = "closed"
          /\ last' = Res("send", DISC) /\ UNCHANGED <<apc, wstate, via>>
       \/ /\ wstate = "accepted" /\ disc
          /\ last' = Res("send", DISC) /\ ToldDisc("send") /\ UNCHANGED apc
       \/ /\ wstate = "accepted" /\ ~disc
          /\ apc' = "sending" /\ UNCHANGED <<last, wstate, via>>
    /\ UNCHANGED <<mq, all, srv, avail, pull, ppc, pcancel, inhand, queue, disc, popW, putW, taken, ncancel, pulls>>

SendRet ==         \* the server's send() returned
    /\ apc = "sending" /\ apc' = "idle" /\ last' = Res("send", OKR)
    /\ UNCHANGED <<mq, all, srv, avail, pull, ppc, pcancel, inhand, queue, disc, popW, putW, wstate, taken, via,
                   nops, ncancel, pulls>>

(* close(), as repaired: a socket that is closed already (the application was told, or the pump
   has seen the disconnect) only stops the pump; otherwise the close event goes to the server
   FIRST, the state becomes closed, and only then is the pump cancelled and awaited (cancelling
   it before a send that may fail would drop the event in the pump's hand).  So between the wire
   close and the return of close() the pump may still run and a pull may still be outstanding;
   NothingLeftRunning speaks about the time after close() has returned. *)
AppClose ==
    /\ apc = "idle" /\ nops < MaxOps /\ nops' = nops + 1
    /\ IF wstate = "closed" \/ disc
         THEN apc' = "closing" /\ pcancel' = (ppc \in Live)
         ELSE apc' = "closeSending" /\ UNCHANGED pcancel
    /\ UNCHANGED <<mq, all, srv, avail, pull, ppc, inhand, queue, disc, popW, putW, wstate, taken, via, last,
                   ncancel, pulls>>

CloseSent ==       \* the server's send() of the close event returned: state closed, now cancel the pump
    /\ apc = "closeSending"
    /\ apc' = "closing" /\ wstate' = "closed" /\ pcancel' = (ppc \in Live)
    /\ UNCHANGED <<mq, all, srv, avail, pull, ppc, inhand, queue, disc, popW, putW, taken, via, last,
                   nops, ncancel, pulls>>

CloseFinish ==     \* ... wait until the pump is gone, then return
    /\ apc = "closing" /\ (AwaitStop => ~pcancel)
    /\ apc' = "closed" /\ wstate' = "closed" /\ last' = Res("close", OKR)
    /\ UNCHANGED <<mq, all, srv, avail, pull, ppc, pcancel, inhand, queue, disc, popW, putW, taken, via,
                   nops, ncancel, pulls>>

(* a step that completes an application call (its result is in last') *)
Returned == apc' \in {"idle", "closed"} /\ (apc \notin {"idle", "closed"} \/ nops' # nops)

PumpStep == PumpLoop \/ PumpGot \/ PumpCheck \/ PumpWake \/ PumpCancelled
AppStep  == RecvLoop \/ RecvWake \/ RecvRawRet \/ SendRet \/ CloseSent \/ CloseFinish
Internal == PumpStep \/ AppStep
External == SrvArrive \/ AppRecv \/ AppSend \/ AppClose \/ CancelRecv
Next == Internal \/ External

Spec == Init /\ [][Next]_vars
FairSpec == Spec /\ WF_vars(PumpStep) /\ WF_vars(AppStep) /\ WF_vars(SrvArrive)

(* explicit enabledness of the internal steps (checked against ENABLED by QuietIsRight) *)
PumpBusy == \/ ~pcancel /\ (ppc \in {"loop", "checkSpace"} \/ (ppc = "awaitRecv" /\ pull = "pump" /\ avail # <<>>)
                             \/ (ppc = "waitSpace" /\ putW = "set"))
            \/ pcancel /\ ppc \in Live
AppBusy  == \/ apc \in {"recvLoop", "sending", "closeSending"}
            \/ apc = "recvWait" /\ (popW = "set" \/ ppc = "done")
            \/ apc = "recvRaw" /\ pull = "app" /\ avail # <<>>
            \/ apc = "closing" /\ (AwaitStop => ~pcancel)
Quiet == ~PumpBusy /\ ~AppBusy

(* ---------------- properties ---------------- *)
TypeOK ==
    /\ mq \in MaxQs /\ pull \in {"none", "pump", "app"}
    /\ ppc \in {"off", "loop", "awaitRecv", "checkSpace", "waitSpace", "done", "cancelled"}
    /\ pcancel \in BOOLEAN /\ disc \in BOOLEAN
    /\ inhand \in {NIL} \cup 0..NMsg
    /\ popW \in {"none", "pending", "set"} /\ putW \in {"none", "pending", "set"}
    /\ apc \in {"idle", "recvLoop", "recvWait", "recvRaw", "sending", "closeSending", "closing", "closed"}
    /\ wstate \in {"accepted", "closed"} /\ via \in {"none", "recv", "send"}
    /\ nops \in 0..MaxOps /\ ncancel \in 0..MaxCancel

IsPrefix(s, t) == Len(s) <= Len(t) /\ SubSeq(t, 1, Len(s)) = s

(* the application receives exactly what the client sent: in order, each once, none skipped *)
Fifo == IsPrefix(taken, all)
(* ... and nothing is lost or duplicated on the way, as long as the application has not closed *)
Conserved == apc \notin {"closing", "closed"} => taken \o queue \o Hand \o avail \o srv = all
(* at most the configured number are enqueued; one more may be in the pump's hand *)
Bounded == Len(queue) <= mq
Held == Len(queue) + Len(Hand) <= (IF mq > 0 THEN mq + 1 ELSE 0)
(* it stops pulling when full: a pull is only outstanding while the hand is empty, and the number
   of receive() calls ever issued exceeds what the application consumed by at most capacity + 1
   (a cancelled raw receive in unbuffered mode is a call that returned nothing) *)
PullsStopWhenFull ==
    /\ pull = "pump" => inhand = NIL /\ Len(queue) <= mq
    /\ pulls <= Len(taken) + mq + 1 + (IF mq = 0 THEN ncancel ELSE 0)
PumpStopsAfterDisc == disc => pull # "pump"
(* a receiver is told of the disconnect only after everything that preceded it *)
DisconnectAfterPreceding == via = "recv" => taken = all
(* a sender is told as soon as the pump has seen it: no send goes to the server after that *)
SenderLearnsPromptly == [][(apc = "idle" /\ apc' = "sending") => ~disc]_vars
NoLostWake == /\ ~(apc = "recvWait" /\ popW = "pending" /\ queue # <<>>)
              /\ ~(ppc = "waitSpace" /\ putW = "pending" /\ ~Full /\ ~pcancel)
WaitersConsistent == /\ popW # "none" => apc = "recvWait"
                     /\ putW # "none" => ppc = "waitSpace"
                     /\ inhand # NIL => ppc \in {"checkSpace", "waitSpace"}
(* closing stops the background reader: nothing is left running, no receive() left outstanding *)
NothingLeftRunning == apc = "closed" => ppc \in {"off", "done", "cancelled"} /\ pull = "none" /\ putW = "none" /\ ~pcancel
QuietIsRight == Quiet <=> ~ENABLED Internal

(* liveness (FairSpec): a receive that can be satisfied is never left waiting *)
Waiting == apc \in {"recvLoop", "recvWait", "recvRaw"}
NothingLeft == srv = <<>> /\ avail = <<>> /\ queue = <<>> /\ inhand = NIL /\ ppc # "done"
RecvProgress == Waiting ~> (~Waiting \/ NothingLeft)
(* the sender's view: once what precedes the disconnect fits, the flag is raised without any receive *)
HasDisc == Len(all) > 0 /\ all[Len(all)] = DISC
SenderLearnsEventually ==
    [](((mq > 0 /\ HasDisc /\ Len(all) - 1 - Len(taken) <= mq) => <>(disc \/ apc \in {"closeSending", "closing", "closed"})))
CloseCompletes == (apc \in {"closeSending", "closing"}) ~> (apc = "closed")
=========================================================================
