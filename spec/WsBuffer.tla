---------------------------- MODULE WsBuffer ----------------------------
(* C18: hand-off of incoming WebSocket messages between the ASGI server, the framework's
   background reader ("pump") and the application.

   One action = one await-to-await segment of one task (finer where noted: a finer grain only
   admits MORE interleavings than an asyncio loop can produce).

   The application is TWO tasks that share the connection: a reader task that calls receive_*()
   (at most one receive at a time - receive() is documented as not re-entrant) and a writer task
   that calls send_*() and close().  A single application task that does everything is the
   special case in which the two never overlap.  So a receive may be pending on an empty buffer
   at the moment the other task sends, closes (the pump is cancelled under its feet) or the
   server's receive() fails (the pump ends without queueing anything); in all these cases the
   pending receive must be released - with "disconnected", never left waiting.

   The environment is the server making client events available (SrvArrive) or failing
   (SrvFail), the application choosing its next calls (AppRecv / AppSend / AppClose) and the
   cancellation of a pending receive (CancelRecv).

   Capacity mq = 0 is the unbuffered mode: there is no pump, a receive pulls from the server
   itself, and a sender never learns about a disconnect from the buffer.

   Named deviation from an idealised bounded buffer, PumpHoldsOneInHand: the pump asks the
   server for the next event BEFORE it looks at the queue, so the framework can hold mq queued
   events plus one in the pump's hand.  "At most the configured number are held" is read as the
   queue bound (Bounded); the +1 is stated by Held and PullsStopWhenFull.

   A close() whose close event the server refuses (its send() raises: AppCloseF / CloseSendFail) leaves the
   connection as it was - accepted, pump alive, nothing dropped - and the application may go on
   receiving, sending and closing.  The end of the whole application callable is part of the model
   too: RespEnd (the responder returns, or lets WebSocketDisconnected propagate into the framework's
   default handling) makes the framework close the connection itself if the application has not, and
   AppReturn is the return of the ASGI callable: after it nothing of the framework may be running.

   No call is STARTED after close() has returned: what a receive/send on a socket the application
   closed itself must do is the business of the connection state machine (C17), not of the
   buffer.  What send()/close() do after the server's receive() has failed is out of scope too. *)
EXTENDS Integers, Sequences, FiniteSets, TLC

CONSTANTS MaxQs,        \* capacities explored (0 = unbuffered)
          NMsg,         \* the client sends 0..NMsg messages ...
          DiscChoices,  \* ... followed by a disconnect or not (subset of BOOLEAN)
          GeCmp,        \* TRUE: the pump waits while len(queue) >= capacity.  FALSE: wrong design ">"
          AwaitStop,    \* TRUE: close() waits for the cancelled pump.  FALSE: wrong design (fire and forget)
          NotifyPop,    \* TRUE: the pump resolves the receiver's waiter after appending.  FALSE: wrong design (lost wake-up)
          ReleaseOnEnd, \* TRUE: a pending receive returns when the pump task has ended.  FALSE: wrong design (it waits on)
          Faults,       \* TRUE: the server's receive() may raise while the pump awaits it
          StopAfterSend,  \* TRUE: close() stops the pump only after the close event went out.  FALSE: wrong design (before)
          CleanupOnDisc,  \* TRUE: the framework closes (stops the pump) at the end of the responder even if the client is
                          \*       known to be gone.  FALSE: wrong design (nothing to close, so nothing is stopped)
          MaxSendFail,  \* bound on close() calls whose close event the server refuses (its send() raises)
          MaxOps,       \* bound on application calls
          MaxCancel     \* bound on cancellations of a pending receive

VARIABLES mq,       \* capacity of this connection
          all,      \* ghost: everything the client will ever send (messages 1..n, then possibly DISC)
          srv,      \* client events the server has not yet made available
          avail,    \* events available at the server, not yet pulled by the framework
          pull,     \* who has a server receive() outstanding: "none" | "pump" | "app"
          ppc,      \* pump: "off" | "loop" | "awaitRecv" | "checkSpace" | "waitSpace" | "done" | "cancelled" | "failed"
          pcancel,  \* close() has cancelled the pump, the pump has not yet seen it
          inhand,   \* event the pump has pulled and not yet queued, or NIL
          queue,    \* the message queue
          disc,     \* the pump has seen the disconnect (what a sender looks at)
          popW,     \* receiver's waiter: "none" | "pending" | "set"
          putW,     \* pump's waiter for space: "none" | "pending" | "set"
          rpc,      \* reader task: "idle" | "recvLoop" | "recvWait" | "recvRaw"
          wpc,      \* writer task: "idle" | "sending" | "closeSending" | "closing" | "closed"
          cfail,    \* the server will refuse the close event of the running close()
          nsf,      \* close() calls that failed that way so far
          apc,      \* the application callable: "running" | "ending" (responder over, framework cleaning up) | "returned"
          wstate,   \* the connection state the calls look at: "accepted" | "closed"
          taken,    \* ghost: events handed to the application by receive, in order
          via,      \* ghost: how the application first learnt of the client's disconnect: "none" | "recv" | "send"
          rlast,    \* ghost: result of the last completed receive
          wlast,    \* ghost: the last completed send/close [op, r]
          rdone, wdone,   \* ghost: completed reader / writer calls
          ncancel,
          pulls     \* ghost: server receive() calls issued so far

vars == <<mq, all, srv, avail, pull, ppc, pcancel, inhand, queue, disc, popW, putW,
          rpc, wpc, wstate, taken, via, rlast, wlast, rdone, wdone, ncancel, pulls,
          cfail, nsf, apc>>
xv == <<cfail, nsf, apc>>

DISC == 0          \* the disconnect event; messages are 1..NMsg
NIL == -1
OKR == -2          \* result of a send/close that went through
CANCELLED == -3    \* result of a receive that was cancelled
SENDFAIL == -4     \* result of a close() whose close event the server refused
Live  == {"loop", "awaitRecv", "checkSpace", "waitSpace"}
Ended == {"done", "cancelled", "failed"}          \* the pump task has finished
PumpEnded == ReleaseOnEnd /\ ppc \in Ended

Events(n, d) == [i \in 1..(n + (IF d THEN 1 ELSE 0)) |-> IF i <= n THEN i ELSE DISC]
Res(op, r) == [op |-> op, r |-> r]
Hand == IF inhand = NIL THEN <<>> ELSE <<inhand>>
Full == IF GeCmp THEN Len(queue) >= mq ELSE Len(queue) > mq
Started == rdone + wdone + (IF rpc # "idle" THEN 1 ELSE 0)
           + (IF wpc \notin {"idle", "closed"} /\ apc = "running" THEN 1 ELSE 0)    \* the framework's own close is no call

InitWith(q, a) ==
        /\ mq = q /\ all = a
        /\ srv = all /\ avail = <<>> /\ pull = "none"
        /\ ppc = (IF mq > 0 THEN "loop" ELSE "off")
        /\ pcancel = FALSE /\ inhand = NIL /\ queue = <<>> /\ disc = FALSE
        /\ popW = "none" /\ putW = "none" /\ rpc = "idle" /\ wpc = "idle" /\ wstate = "accepted"
        /\ taken = <<>> /\ via = "none" /\ rlast = NIL /\ wlast = Res("none", NIL)
        /\ rdone = 0 /\ wdone = 0 /\ ncancel = 0 /\ pulls = 0
        /\ cfail = FALSE /\ nsf = 0 /\ apc = "running"
Init == \E q \in MaxQs, n \in 0..NMsg, d \in DiscChoices : InitWith(q, Events(n, d))

(* ---------------- environment: the server ---------------- *)
SrvArrive ==
    /\ srv # <<>>
    /\ avail' = Append(avail, Head(srv)) /\ srv' = Tail(srv)
    /\ UNCHANGED <<xv, mq, all, pull, ppc, pcancel, inhand, queue, disc, popW, putW, rpc, wpc, wstate, taken, via,
                   rlast, wlast, rdone, wdone, ncancel, pulls>>

SrvFail ==         \* the receive() the pump awaits raises: the pump task ends without queueing anything
    /\ Faults /\ ppc = "awaitRecv" /\ pull = "pump" /\ ~pcancel /\ wpc \in {"idle", "sending"}
    /\ ppc' = "failed" /\ pull' = "none"
    /\ UNCHANGED <<xv, mq, all, srv, avail, pcancel, inhand, queue, disc, popW, putW, rpc, wpc, wstate, taken, via,
                   rlast, wlast, rdone, wdone, ncancel, pulls>>

(* ---------------- the pump task ---------------- *)
PumpLoop ==        \* while not client_disconnected: issue receive()
    /\ ppc = "loop" /\ ~pcancel
    /\ IF disc THEN ppc' = "done" /\ UNCHANGED <<pull, pulls>>
               ELSE ppc' = "awaitRecv" /\ pull' = "pump" /\ pulls' = pulls + 1
    /\ UNCHANGED <<xv, mq, all, srv, avail, pcancel, inhand, queue, disc, popW, putW, rpc, wpc, wstate, taken, via,
                   rlast, wlast, rdone, wdone, ncancel>>

PumpGot ==         \* receive() returned; the disconnect flag is raised at once, before waiting for space
    /\ ppc = "awaitRecv" /\ pull = "pump" /\ avail # <<>> /\ ~pcancel
    /\ avail' = Tail(avail) /\ pull' = "none"
    /\ disc' = (disc \/ Head(avail) = DISC)
    /\ inhand' = Head(avail) /\ ppc' = "checkSpace"
    /\ UNCHANGED <<xv, mq, all, srv, pcancel, queue, popW, putW, rpc, wpc, wstate, taken, via, rlast, wlast,
                   rdone, wdone, ncancel, pulls>>

PumpCheck ==       \* while full: wait for space; else append and notify the receiver
    /\ ppc = "checkSpace" /\ ~pcancel
    /\ IF Full THEN /\ putW' = "pending" /\ ppc' = "waitSpace"
                    /\ UNCHANGED <<queue, popW, inhand>>
               ELSE /\ queue' = Append(queue, inhand) /\ inhand' = NIL
                    /\ popW' = (IF popW = "pending" /\ NotifyPop THEN "set" ELSE popW)
                    /\ ppc' = "loop" /\ UNCHANGED putW
    /\ UNCHANGED <<xv, mq, all, srv, avail, pull, pcancel, disc, rpc, wpc, wstate, taken, via, rlast, wlast,
                   rdone, wdone, ncancel, pulls>>

PumpWake ==        \* the wait for space was resolved by a receive
    /\ ppc = "waitSpace" /\ putW = "set" /\ ~pcancel
    /\ putW' = "none" /\ ppc' = "checkSpace"
    /\ UNCHANGED <<xv, mq, all, srv, avail, pull, pcancel, inhand, queue, disc, popW, rpc, wpc, wstate, taken, via,
                   rlast, wlast, rdone, wdone, ncancel, pulls>>

PumpCancelled ==   \* CancelledError is raised at the await the pump is suspended in; what it held is dropped
    /\ pcancel /\ ppc \in Live
    /\ ppc' = "cancelled" /\ pcancel' = FALSE
    /\ pull' = (IF pull = "pump" THEN "none" ELSE pull)
    /\ putW' = "none" /\ inhand' = NIL
    /\ UNCHANGED <<xv, mq, all, srv, avail, queue, disc, popW, rpc, wpc, wstate, taken, via, rlast, wlast,
                   rdone, wdone, ncancel, pulls>>

(* ---------------- the reader task ---------------- *)
ToldDisc(how) == /\ wstate' = "closed" /\ via' = (IF via = "none" THEN how ELSE via)
RDone(r) == rlast' = r /\ rdone' = rdone + 1

AppRecv ==         \* receive_*(): a socket known to be closed raises at once
    /\ rpc = "idle" /\ wpc # "closed" /\ Started < MaxOps /\ apc = "running"
    /\ \/ /\ wstate = "closed"
          /\ RDone(DISC)
          /\ UNCHANGED <<rpc, pull, pulls>>
       \/ /\ wstate = "accepted" /\ mq = 0
          /\ rpc' = "recvRaw" /\ pull' = "app" /\ pulls' = pulls + 1
          /\ UNCHANGED <<rlast, rdone>>
       \/ /\ wstate = "accepted" /\ mq > 0
          /\ rpc' = "recvLoop"
          /\ UNCHANGED <<rlast, rdone, pull, pulls>>
    /\ UNCHANGED <<xv, mq, all, srv, avail, ppc, pcancel, inhand, queue, disc, popW, putW, wpc, wstate, taken, via,
                   wlast, wdone, ncancel>>

Deliver(e) ==      \* hand event e to the application
    /\ taken' = Append(taken, e)
    /\ RDone(e)
    /\ IF e = DISC THEN ToldDisc("recv") ELSE UNCHANGED <<wstate, via>>

SynthDisc ==       \* the pump task has ended and left nothing: the receiver reports "disconnected" itself
                   \* (it is the client's disconnect only if the pump ended by itself after seeing it)
    /\ RDone(DISC) /\ wstate' = "closed" /\ UNCHANGED taken
    /\ via' = (IF via = "none" /\ ppc = "done" THEN "recv" ELSE via)

RecvLoop ==        \* while not messages: create a waiter and wait; else pop and notify the pump
    /\ rpc = "recvLoop"
    /\ \/ /\ queue = <<>> /\ PumpEnded
          /\ SynthDisc /\ rpc' = "idle" /\ UNCHANGED <<queue, popW, putW>>
       \/ /\ queue = <<>> /\ ~PumpEnded
          /\ popW' = "pending" /\ rpc' = "recvWait"
          /\ UNCHANGED <<queue, putW, taken, rlast, rdone, wstate, via>>
       \/ /\ queue # <<>>
          /\ queue' = Tail(queue) /\ Deliver(Head(queue))
          /\ putW' = (IF putW = "pending" THEN "set" ELSE putW)
          /\ rpc' = "idle" /\ UNCHANGED popW
    /\ UNCHANGED <<xv, mq, all, srv, avail, pull, ppc, pcancel, inhand, disc, wpc, wlast, wdone, ncancel, pulls>>

RecvWake ==        \* the wait returned: the waiter was set, or the pump task has ended (cancelled by close()
                   \* from the other task, failed, or finished)
    /\ rpc = "recvWait" /\ (popW = "set" \/ PumpEnded)
    /\ popW' = "none"
    /\ IF popW = "set" THEN rpc' = "recvLoop" /\ UNCHANGED <<taken, rlast, rdone, wstate, via>>
                       ELSE rpc' = "idle" /\ SynthDisc
    /\ UNCHANGED <<xv, mq, all, srv, avail, pull, ppc, pcancel, inhand, queue, disc, putW, wpc, wlast, wdone,
                   ncancel, pulls>>

RecvRawRet ==      \* unbuffered mode: the server's receive() returned to the application
    /\ rpc = "recvRaw" /\ pull = "app" /\ avail # <<>>
    /\ avail' = Tail(avail) /\ pull' = "none" /\ Deliver(Head(avail)) /\ rpc' = "idle"
    /\ UNCHANGED <<xv, mq, all, srv, ppc, pcancel, inhand, queue, disc, popW, putW, wpc, wlast, wdone, ncancel, pulls>>

CancelRecv ==      \* a pending receive is cancelled: its waiter is forgotten, nothing is consumed
    /\ rpc \in {"recvLoop", "recvWait", "recvRaw"} /\ ncancel < MaxCancel /\ ncancel' = ncancel + 1
    /\ popW' = "none" /\ pull' = (IF pull = "app" THEN "none" ELSE pull)
    /\ rpc' = "idle" /\ RDone(CANCELLED)
    /\ UNCHANGED <<xv, mq, all, srv, avail, ppc, pcancel, inhand, queue, disc, putW, wpc, wstate, taken, via,
                   wlast, wdone, pulls>>

(* ---------------- the writer task ---------------- *)
WDone(op, r) == wlast' = Res(op, r) /\ wdone' = wdone + 1

AppSend ==         \* send_*(): raises iff the socket is known closed or the pump has seen the disconnect
    /\ wpc = "idle" /\ ppc # "failed" /\ Started < MaxOps /\ apc = "running"
    /\ \/ /\ wstate = "closed"
          /\ WDone("send", DISC) /\ UNCHANGED <<wpc, wstate, via>>
       \/ /\ wstate = "accepted" /\ disc
          /\ WDone("send", DISC) /\ ToldDisc("send") /\ UNCHANGED wpc
       \/ /\ wstate = "accepted" /\ ~disc
          /\ wpc' = "sending" /\ UNCHANGED <<wlast, wdone, wstate, via>>
    /\ UNCHANGED <<xv, mq, all, srv, avail, pull, ppc, pcancel, inhand, queue, disc, popW, putW, rpc, taken,
                   rlast, rdone, ncancel, pulls>>

SendRet ==         \* the server's send() returned
    /\ wpc = "sending" /\ wpc' = "idle" /\ WDone("send", OKR)
    /\ UNCHANGED <<xv, mq, all, srv, avail, pull, ppc, pcancel, inhand, queue, disc, popW, putW, rpc, wstate, taken, via,
                   rlast, rdone, ncancel, pulls>>

(* close(), as repaired: a socket that is closed already (the application was told, or the pump
   has seen the disconnect) only stops the pump; otherwise the close event goes to the server
   FIRST, the state becomes closed, and only then is the pump cancelled and awaited (cancelling
   it before a send that may fail would drop the event in the pump's hand).  So between the wire
   close and the return of close() the pump may still run and a pull may still be outstanding;
   NothingLeftRunning speaks about the time after close() has returned.  A receive of the other
   task that is pending meanwhile is released by the end of the pump task (RecvWake).
   If the server refuses the close event (CloseSendFail: its send() raises, close() re-raises), the
   connection is exactly what it was before the call: accepted, pump alive, nothing dropped; the
   application may catch the error and go on receiving. *)
CloseBegin(f) ==
    IF wstate = "closed" \/ disc
      THEN wpc' = "closing" /\ pcancel' = (ppc \in Live) /\ cfail' = FALSE
      ELSE /\ wpc' = "closeSending" /\ cfail' = f
           /\ pcancel' = (IF StopAfterSend THEN pcancel ELSE ppc \in Live)
CloseCall(f) ==
    /\ wpc = "idle" /\ ppc # "failed" /\ Started < MaxOps /\ apc = "running"
    /\ CloseBegin(f)
    /\ UNCHANGED <<nsf, apc, mq, all, srv, avail, pull, ppc, inhand, queue, disc, popW, putW, rpc, wstate, taken, via,
                   rlast, wlast, rdone, wdone, ncancel, pulls>>
AppClose  == CloseCall(FALSE)
AppCloseF == nsf < MaxSendFail /\ CloseCall(TRUE)      \* a close() whose close event (if one is sent) the server refuses

CloseSent ==       \* the server's send() of the close event returned: state closed, now cancel the pump
    /\ wpc = "closeSending" /\ ~cfail
    /\ wpc' = "closing" /\ wstate' = "closed" /\ pcancel' = (ppc \in Live)
    /\ UNCHANGED <<xv, mq, all, srv, avail, pull, ppc, inhand, queue, disc, popW, putW, rpc, taken, via,
                   rlast, wlast, rdone, wdone, ncancel, pulls>>

CloseSendFail ==   \* the server's send() of the close event raised: close() raises, nothing else has changed
    /\ wpc = "closeSending" /\ cfail
    /\ wpc' = "idle" /\ cfail' = FALSE /\ nsf' = nsf + 1
    /\ (IF apc = "running" THEN WDone("close", SENDFAIL) ELSE UNCHANGED <<wlast, wdone>>)
    /\ UNCHANGED <<apc, mq, all, srv, avail, pull, ppc, pcancel, inhand, queue, disc, popW, putW, rpc, wstate, taken, via,
                   rlast, rdone, ncancel, pulls>>

CloseFinish ==     \* ... wait until the pump is gone, then return
    /\ wpc = "closing" /\ (AwaitStop => ~pcancel)
    /\ wpc' = "closed" /\ wstate' = "closed"
    /\ (IF apc = "running" THEN WDone("close", OKR) ELSE UNCHANGED <<wlast, wdone>>)    \* the framework's own close is no call
    /\ UNCHANGED <<xv, mq, all, srv, avail, pull, ppc, pcancel, inhand, queue, disc, popW, putW, rpc, taken, via,
                   rlast, rdone, ncancel, pulls>>

(* the end of the application callable.  RespEnd: the responder is over - it returned, or it let the
   WebSocketDisconnected of its last call propagate into the framework's default handling.  Either way
   the framework closes the connection itself unless the application has: a connection known to be gone
   has no close event to send, but its pump must be stopped all the same (it may be parked waiting for
   room, holding the disconnect event, when the queue was exactly full).  AppReturn: the callable returns. *)
RespEnd ==
    /\ apc = "running" /\ rpc = "idle" /\ wpc \in {"idle", "closed"} /\ ppc # "failed"
    /\ IF wpc = "closed" THEN apc' = "ending" /\ UNCHANGED <<wpc, pcancel, cfail>>
       ELSE IF CleanupOnDisc \/ ~(wstate = "closed" \/ disc) THEN apc' = "ending" /\ CloseBegin(FALSE)
       ELSE apc' = "returned" /\ UNCHANGED <<wpc, pcancel, cfail>>
    /\ UNCHANGED <<nsf, mq, all, srv, avail, pull, ppc, inhand, queue, disc, popW, putW, rpc, wstate, taken, via,
                   rlast, wlast, rdone, wdone, ncancel, pulls>>

AppReturn ==
    /\ apc = "ending" /\ wpc = "closed" /\ apc' = "returned"
    /\ UNCHANGED <<cfail, nsf, mq, all, srv, avail, pull, ppc, pcancel, inhand, queue, disc, popW, putW, rpc, wpc, wstate,
                   taken, via, rlast, wlast, rdone, wdone, ncancel, pulls>>

(* a step that completes a call of the reader / writer task (result in rlast' / wlast') *)
RReturned == rdone' # rdone
WReturned == wdone' # wdone

PumpStep == PumpLoop \/ PumpGot \/ PumpCheck \/ PumpWake \/ PumpCancelled
ReadStep == RecvLoop \/ RecvWake \/ RecvRawRet
WriteStep == SendRet \/ CloseSent \/ CloseSendFail \/ CloseFinish \/ AppReturn
Internal == PumpStep \/ ReadStep \/ WriteStep
External == SrvArrive \/ SrvFail \/ AppRecv \/ AppSend \/ AppClose \/ AppCloseF \/ CancelRecv \/ RespEnd
Next == Internal \/ External

Spec == Init /\ [][Next]_vars
FairSpec == Spec /\ WF_vars(PumpStep) /\ WF_vars(ReadStep) /\ WF_vars(WriteStep) /\ WF_vars(SrvArrive)

(* explicit enabledness of the internal steps (checked against ENABLED by QuietIsRight) *)
PumpBusy == \/ ~pcancel /\ (ppc \in {"loop", "checkSpace"} \/ (ppc = "awaitRecv" /\ pull = "pump" /\ avail # <<>>)
                             \/ (ppc = "waitSpace" /\ putW = "set"))
            \/ pcancel /\ ppc \in Live
ReadBusy == \/ rpc = "recvLoop"
            \/ rpc = "recvWait" /\ (popW = "set" \/ PumpEnded)
            \/ rpc = "recvRaw" /\ pull = "app" /\ avail # <<>>
WriteBusy == \/ wpc \in {"sending", "closeSending"}
             \/ wpc = "closing" /\ (AwaitStop => ~pcancel)
             \/ apc = "ending" /\ wpc = "closed"
Quiet == ~PumpBusy /\ ~ReadBusy /\ ~WriteBusy

(* ---------------- properties ---------------- *)
TypeOK ==
    /\ mq \in MaxQs /\ pull \in {"none", "pump", "app"}
    /\ ppc \in {"off", "loop", "awaitRecv", "checkSpace", "waitSpace", "done", "cancelled", "failed"}
    /\ pcancel \in BOOLEAN /\ disc \in BOOLEAN
    /\ inhand \in {NIL} \cup 0..NMsg
    /\ popW \in {"none", "pending", "set"} /\ putW \in {"none", "pending", "set"}
    /\ rpc \in {"idle", "recvLoop", "recvWait", "recvRaw"}
    /\ wpc \in {"idle", "sending", "closeSending", "closing", "closed"}
    /\ wstate \in {"accepted", "closed"} /\ via \in {"none", "recv", "send"}
    /\ Started \in 0..MaxOps /\ ncancel \in 0..MaxCancel
    /\ cfail \in BOOLEAN /\ nsf \in 0..MaxSendFail /\ apc \in {"running", "ending", "returned"}

IsPrefix(s, t) == Len(s) <= Len(t) /\ SubSeq(t, 1, Len(s)) = s

(* the application receives exactly what the client sent: in order, each once, none skipped *)
Fifo == IsPrefix(taken, all)
(* ... and nothing is lost or duplicated on the way, as long as the application has not closed *)
Conserved == wpc \notin {"closing", "closed"} => taken \o queue \o Hand \o avail \o srv = all
(* at most the configured number are enqueued; one more may be in the pump's hand *)
Bounded == Len(queue) <= mq
Held == Len(queue) + Len(Hand) <= (IF mq > 0 THEN mq + 1 ELSE 0)
(* it stops pulling when full: a pull is only outstanding while the hand is empty, and the number
   of receive() calls ever issued exceeds what the application consumed by at most capacity + 1
   (a cancelled raw receive in unbuffered mode is a call that returned nothing) *)
PullsStopWhenFull ==
    /\ pull = "pump" => inhand = NIL /\ Len(queue) <= mq
    /\ pulls <= Len(taken) + mq + 1 + (IF mq = 0 THEN ncancel ELSE 0)
PumpStopsAfterDisc == disc => pull # "pump"
(* a receiver is told of the client's disconnect only after everything that preceded it *)
DisconnectAfterPreceding == via = "recv" => taken = all
(* a sender is told as soon as the pump has seen it: no send goes to the server after that *)
SenderLearnsPromptly == [][(wpc = "idle" /\ wpc' = "sending") => ~disc]_vars
NoLostWake == /\ ~(rpc = "recvWait" /\ popW = "pending" /\ queue # <<>>)
              /\ ~(ppc = "waitSpace" /\ putW = "pending" /\ ~Full /\ ~pcancel)
WaitersConsistent == /\ popW # "none" => rpc = "recvWait"
                     /\ putW # "none" => ppc = "waitSpace"
                     /\ inhand # NIL => ppc \in {"checkSpace", "waitSpace"}
(* closing stops the background reader: once close() has returned nothing of the framework is left
   running and the pump has no receive() outstanding (in unbuffered mode a receive the application
   itself has pending is the application's) *)
NothingLeftRunning == wpc = "closed" => ppc \in ({"off"} \cup Ended) /\ pull # "pump" /\ putW = "none" /\ ~pcancel
(* ... and so does the end of the application callable, whichever way the responder ended *)
PumpGone == ppc \in ({"off"} \cup Ended) /\ pull # "pump" /\ putW = "none" /\ ~pcancel
AfterAppReturn == apc = "returned" => PumpGone /\ rpc = "idle"
(* a connection the application still holds as accepted has its pump: a close() that failed on the wire has
   not stopped it and has dropped nothing (Conserved covers the events) *)
AcceptedHasPump ==
    (mq > 0 /\ wstate = "accepted" /\ apc = "running" /\ wpc \in {"idle", "sending", "closeSending"})
        => (ppc \in Live /\ ~pcancel) \/ (ppc = "done" /\ disc) \/ ppc = "failed"
QuietIsRight == Quiet <=> ~ENABLED Internal

(* liveness (FairSpec): a receive that can be satisfied is never left waiting; in particular a
   receive pending when the pump task ends (close() from the other task, server failure) is released *)
Waiting == rpc \in {"recvLoop", "recvWait", "recvRaw"}
NothingLeft == srv = <<>> /\ avail = <<>> /\ queue = <<>> /\ inhand = NIL /\ ppc \notin Ended
RecvProgress == Waiting ~> (~Waiting \/ NothingLeft)
PendingReleased == (mq > 0 /\ Waiting /\ ppc \in Ended) ~> ~Waiting
(* the sender's view: once what precedes the disconnect fits, the flag is raised without any receive *)
HasDisc == Len(all) > 0 /\ all[Len(all)] = DISC
SenderLearnsEventually ==
    [](((mq > 0 /\ HasDisc /\ Len(all) - 1 - Len(taken) <= mq)
            => <>(disc \/ wpc \in {"closeSending", "closing", "closed"} \/ ppc = "failed")))
CloseCompletes == (wpc \in {"closeSending", "closing"}) ~> (wpc = "closed" \/ (wpc = "idle" /\ nsf > 0))
AppCallableReturns == (apc = "ending") ~> (apc = "returned")
(* (a receive started after a close() that failed on the wire is covered by RecvProgress: the pump is still there) *)
=========================================================================
