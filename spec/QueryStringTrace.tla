------------------------- MODULE QueryStringTrace -------------------------
(* Trace judge for C08's parsing half (code -> spec).  A trace is [ev |-> <<event, ...>>]; events:
     [op |-> "parse",  q, kb, csv, entries, err, export]   one reading of query string q by the code
           entries  what the code's mapping holds, in its order: <<[k, v, shape], ...>> (v may be empty!)
           export   TRUE: also print the specification's reading as JSON (the getters' judge needs it)
     [op |-> "render", m, cl, prefix, q, err]              to_query_str(m) returned q
     [op |-> "mutate"]                                     something was done to ANOTHER request (its mapping
           edited in place, a list it returned edited, a form body merged into it).  The reference reading
           has no state: the readings that follow in the trace are judged exactly as if nothing had happened
           (a request's mapping depends on its own query string and options only).
   (all events carry all fields; unused ones are empty).  Total; first failing clause recorded:
     P:total          the call raised
     P:empty_list     the code maps a name to an empty list of values although the reference reading has
                      values for it or does not know it (a name PRESENT WITH ZERO VALUES may be held so, or omitted)
     P:params         the code's mapping (names -> values) is not the reference reading
     P:render_alphabet  to_query_str produced something that is not a legal query string
     P:roundtrip      the rendered string does not read back (reference reading) as the mapping
     D:shape D:order D:render_exact   modelled detail the property does not pin down *)
EXTENDS QueryStringOps, Json, IOUtils

Traces == JsonDeserialize(IOEnv.TRACE_FILE)

VARIABLES tid, l, verdict
tvars == <<tid, l, verdict>>
T  == Traces[tid]
Ev == T.ev[l]

NoLits == {}
TInit == tid \in 1..Len(Traces) /\ l = 1 /\ verdict = "ok"

Got(e) == [entries |-> SelectSeq(e.entries, HasValues), zero |-> <<>>, blankcsv |-> FALSE]
NameSeq(es) == [i \in 1..Len(es) |-> es[i].k]
ShapeOf(es, n) == LET P == {i \in 1..Len(es) : es[i].k = n} IN es[MinOf(P)].shape

JudgeParse(e) ==
    LET x == Parse(e.q, e.kb, e.csv)
        g == Got(e)
    IN  IF e.err THEN "P:total"
        ELSE IF \E i \in 1..Len(e.entries) : e.entries[i].v = <<>> /\ e.entries[i].k \notin ZeroNames(x) THEN "P:empty_list"
        ELSE IF ~SameMapping(g, x) THEN "P:params"
        ELSE IF x.blankcsv THEN "ok"
        ELSE IF \E n \in Names(x) : ShapeOf(e.entries, n) # ShapeOf(x.entries, n) THEN "D:shape"
        ELSE IF NameSeq(e.entries) # NameSeq(x.entries) THEN "D:order"
        ELSE "ok"

JudgeRender(e) ==
    LET hasq == e.prefix /\ e.q # <<>> /\ e.q[1] = QMARK
        body == IF hasq THEN Tail(e.q) ELSE e.q
        claim == /\ \A i \in 1..Len(e.m) : e.m[i].k # <<>>
                 /\ (e.cl => \A i \in 1..Len(e.m) : e.m[i].v # <<>>)
    IN  IF e.err THEN "P:total"
        ELSE IF ~StrictEscaped(body, ValueAllowed \cup {AMP, EQ, COMMA}) THEN "P:render_alphabet"
        ELSE IF claim /\ ~SameMapping(Parse(body, TRUE, e.cl), AsResult(e.m)) THEN "P:roundtrip"
        ELSE IF e.q # Render(e.m, e.cl, e.prefix) THEN "D:render_exact"
        ELSE "ok"

Judge(e) == CASE e.op = "parse" -> JudgeParse(e)
              [] e.op = "render" -> JudgeRender(e)
              [] e.op = "mutate" -> "ok"
              [] OTHER -> "H:op"

Export(e) == (e.op = "parse" /\ e.export) =>
    LET x == Parse(e.q, e.kb, e.csv)
    IN  PrintT(ToJson([tid |-> tid, l |-> l, entries |-> x.entries, zero |-> x.zero, blankcsv |-> x.blankcsv]))

Step == /\ l >= 1 /\ l <= Len(T.ev) /\ verdict = "ok"
        /\ Export(Ev)
        /\ verdict' = Judge(Ev)
        /\ l' = l + 1 /\ UNCHANGED tid

Done == /\ l >= 1 /\ (l > Len(T.ev) \/ verdict # "ok")
        /\ PrintT(<<"VERDICT", tid, verdict, l - 1>>)
        /\ l' = -1 /\ UNCHANGED <<tid, verdict>>

TNext == Step \/ Done
Sound == l >= -1
===========================================================================
